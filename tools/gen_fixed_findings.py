#!/usr/bin/env python3
"""Derive the 'fixed' entries of known_findings.json: for every self-test mutant that reverts a fix: commit,
run the check on the overlay and record which obligations (rule + construct) turn to violated."""
import json, glob, subprocess, re, os
V="/verif"
subj={}
for l in subprocess.run("git -C /repo log --format='%h %s'", shell=True, capture_output=True, text=True).stdout.splitlines():
    h,s=l.split(" ",1)
    if s.startswith("fix:"): subj[h]=s[4:].strip()
entries=[]
seen=set()
for f in sorted(glob.glob(V+"/mutants/*.json")):
    m=json.load(open(f))
    mm=re.search(r"reverts fix ([0-9a-f]{7})", m.get("comment",""))
    if not mm: continue
    commit=mm.group(1)
    out=subprocess.run([V+"/bin/portlint","-prop",m["prop"],"-overlay",f,"-no-evidence"],capture_output=True,text=True).stdout
    for line in out.splitlines():
        if line.startswith("OBLIG violated "):
            parts=line[len("OBLIG violated "):].split(" | ")
            rule,cons=parts[0].strip(),parts[1].strip()
            key=(m["prop"],rule,cons,commit)
            if key in seen: continue
            seen.add(key)
            entries.append({"property":m["prop"],"rule":rule,"construct":cons,"status":"fixed","commit":commit,
                "what":f"fixed: property={m['prop']} {commit} {subj.get(commit,'')}"})
kf=json.load(open(V+"/known_findings.json"))
keep=[e for e in kf["findings"] if e["status"]!="fixed"]
kf["findings"]=keep+sorted(entries,key=lambda e:(e["property"],e["rule"],e["construct"]))
json.dump(kf,open(V+"/known_findings.json","w"),indent=1)
print(len(entries),"fixed entries;",len(keep),"known entries")
missing=[h for h in subj if h not in {e['commit'] for e in entries}]
print("fix commits without a reverting mutant:",[(h,subj[h][:50]) for h in missing])
