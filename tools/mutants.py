#!/usr/bin/env python3
"""Source of truth for the checker self-test mutants (DESIGN.md section 7).
Each mutant is a single-edit variant of the real source, applied through a
go/packages overlay only (never written into /repo).  Run to regenerate
/verif/mutants/*.json."""
import json, os, glob
V = os.path.dirname(os.path.dirname(os.path.abspath(__file__)))
M = []
def mut(prop, name, file, old, new, expect, canary=False, occurrence=0, comment="", extra=None):
    edits = [{"file": file, "old": old, "new": new}]
    if occurrence: edits[0]["occurrence"] = occurrence
    if extra: edits += extra
    M.append({"name": f"{prop}-{name}", "prop": prop, "expect": expect if isinstance(expect, list) else [expect],
              "edits": edits, "canary": canary, "comment": comment})

exec(open(os.path.join(V, "tools", "mutants_data.py")).read())

for f in glob.glob(os.path.join(V, "mutants", "*.json")):
    os.remove(f)
names = set()
for m in M:
    assert m["name"] not in names, m["name"]
    names.add(m["name"])
    json.dump(m, open(os.path.join(V, "mutants", m["name"] + ".json"), "w"), indent=1)
print(len(M), "mutants written")
