#!/usr/bin/env python3
"""Re-run `portlint -prop all` against every filed refactoring/small edit under /verif/refactors (apply to /repo, screen, revert)
and rewrite their meta.json alarms + refactors/SUMMARY.md. usage: rescreen.py [prefix ...]"""
import json, os, glob, re, subprocess, sys
def sh(cmd):
    p = subprocess.run(cmd, shell=True, capture_output=True, text=True); return p.returncode, p.stdout + p.stderr
if sh("git -C /repo diff --quiet")[0] != 0:
    print("repo dirty"); sys.exit(2)
only = sys.argv[1:]
rows = []
for d in sorted(glob.glob("/verif/refactors/C*-*")):
    rid = os.path.basename(d)
    meta = json.load(open(d + "/meta.json"))
    if not only or any(rid.startswith(o) or o in rid for o in only):
        pf = d + "/patch_rebased.diff" if os.path.exists(d + "/patch_rebased.diff") else d + "/patch.diff"  # rebased: same change carried over a later fix: commit
        rc, out = sh(f"git -C /repo apply {pf}")
        if rc:
            print(rid, "patch does not apply"); continue
        try:
            rc, out = sh("cd /verif && /verif/bin/portlint -prop all")
        finally:
            sh("git -C /repo checkout -- . && git -C /repo clean -fdq")
        det = []
        for l in out.splitlines():
            m = re.match(r"ALL (violated|undecided) (C\d+) (\S+) \| (.*?) \| (.*)", l)
            if m:
                det.append({"status": m.group(1), "property": m.group(2), "rule": m.group(3), "construct": m.group(4), "detail": m.group(5)[:200]})
        meta["what_i_ran"]["alarms"] = det
        json.dump(meta, open(d + "/meta.json", "w"), indent=1)
        print(rid, "SILENT" if not det else "ALARM", sorted({x["status"] + ":" + x["rule"] for x in det})[:6])
    rows.append((rid, meta))
with open("/verif/refactors/SUMMARY.md", "w") as f:
    f.write("# Behaviour-preserving changes and what the checks say about them\n\n`-sN` = small single-function edit (no new functions), `-rN` = refactoring with extracted helpers. Each was written by an independent sub-agent that saw only the property text; each builds and passes the existing tests. A `violated` here is a false alarm; `undecided` means an anchor construct moved and the rule asks to be re-anchored (exit 2, no VIOLATION line).\n\n| id | site | verdict | rules | summary |\n|---|---|---|---|---|\n")
    for rid, m in rows:
        al = m["what_i_ran"].get("alarms", [])
        v = "silent" if not al else ("false alarm" if any(a["status"] == "violated" for a in al) else "undecided")
        f.write(f"| {rid} | {str(m.get('site'))[:50]} | {v} | {', '.join(sorted({a['rule'] for a in al})) or '—'} | {(m.get('summary') or '')[:120].replace('|','/')} |\n")
    s = [r for r in rows if "-s" in r[0]]; h = [r for r in rows if "-r" in r[0]]
    cnt = lambda rs, pred: sum(1 for _, m in rs if pred(m["what_i_ran"].get("alarms", [])))
    f.write(f"\nsmall edits: {cnt(s, lambda a: not a)}/{len(s)} silent; refactorings with helpers: {cnt(h, lambda a: not a)}/{len(h)} silent, {cnt(h, lambda a: a and not any(x['status']=='violated' for x in a))} undecided only, {cnt(h, lambda a: any(x['status']=='violated' for x in a))} with a false VIOLATION\n")
