#!/usr/bin/env python3
"""Run all portlint properties against every seeded change (apply to /repo, screen, revert) and
record which rules detect it in seeded/<id>/meta.json and seeded/SUMMARY.md."""
import json, os, subprocess, glob, re, sys
def sh(cmd):
    p = subprocess.run(cmd, shell=True, capture_output=True, text=True)
    return p.returncode, p.stdout + p.stderr
if sh("git -C /repo diff --quiet")[0] != 0:
    print("repo dirty"); sys.exit(2)
only = sys.argv[1:]
rows = []
for d in sorted(glob.glob("/verif/seeded/C*-*")):
    sid = os.path.basename(d)
    if only and not any(sid.startswith(o) for o in only):
        m = json.load(open(d + "/meta.json"))
        rows.append((sid, m.get("property"), m.get("detected_by", []), m.get("summary", "")))
        continue
    meta = json.load(open(d + "/meta.json"))
    patch = d + "/patch.diff"
    if os.path.exists(d + "/patch_rebased.diff"):
        # the lines the agent's change edits were later repaired by a fix: commit; this is the same change on the repaired tree
        patch = d + "/patch_rebased.diff"
        meta["rebased"] = "patch.diff no longer applies since a fix: commit touched the same lines; patch_rebased.diff is the same change carried over to the repaired tree (confirmed again: builds, existing tests pass, demo fails with / passes without)"
    rc, out = sh(f"git -C /repo apply {patch}")
    if rc:
        print(sid, "patch does not apply:", out); continue
    try:
        rc, out = sh("/verif/bin/portlint -prop all")
    finally:
        sh("git -C /repo checkout -- . && git -C /repo clean -fdq")
    det = []
    for l in out.splitlines():
        m = re.match(r"ALL (violated|undecided) (C\d+) (\S+) \| (.*?) \| ", l)
        if m:
            det.append({"status": m.group(1), "property": m.group(2), "rule": m.group(3), "construct": m.group(4)})
    meta["detected_by"] = det
    meta["detected_own_property"] = any(x["property"] == meta["property"] and x["status"] == "violated" for x in det)
    json.dump(meta, open(d + "/meta.json", "w"), indent=1)
    rows.append((sid, meta["property"], det, meta.get("summary", "")))
    print(sid, "own" if meta["detected_own_property"] else ("other" if det else "MISSED"), [f'{x["rule"]}' for x in det][:4])
with open("/verif/seeded/SUMMARY.md", "w") as f:
    f.write("# Seeded changes and which checks detect them\n\nEach change was written by an independent sub-agent that saw only the property text; each was confirmed (builds, existing tests pass, demo fails with / passes without) in a scratch worktree before being filed here. `detected by` lists the rules that turn to violated when the patch is applied to /repo.\n\n| seed | property | detected by own property | rules | summary |\n|---|---|---|---|---|\n")
    for sid, prop, det, summ in rows:
        own = any(x["property"] == prop and x["status"] == "violated" for x in det)
        rules = ", ".join(sorted({x["rule"] for x in det})) or "—"
        f.write(f"| {sid} | {prop} | {'yes' if own else 'no'} | {rules} | {(summ or '')[:160].replace('|','/')} |\n")
