#!/bin/bash
# usage: run_all.sh [quick|thorough]  - runs every registered check, prints one line per property
tier=${1:-quick}
cd /verif
rc=0
for p in $(python3 -c "import json;print(' '.join(c['property_id'] for c in json.load(open('MANIFEST.json'))['checks']))"); do
  out=$(bin/portlint -prop $p -tier $tier 2>&1); r=$?
  echo "$p exit=$r $(echo "$out" | grep '^portlint' | tr '\n' ' ' | cut -c1-230)"
  [ $r -ne 0 ] && { rc=1; echo "$out" | grep -E 'VIOLATION|UNDECIDED|SELFTEST' | head -5; }
done
exit $rc
