#!/usr/bin/env python3
import json,sys,glob
import jsonschema
jsonschema.validate(json.load(open('/verif/MANIFEST.json')), json.load(open('/root/.vp/MANIFEST.schema.json')))
es=json.load(open('/root/.vp/EVIDENCE.schema.json'))
n=0
for f in sorted(glob.glob('/verif/evidence/C*.json')):
    jsonschema.validate(json.load(open(f)), es); n+=1
print("manifest ok; evidence files ok:", n)
