#!/usr/bin/env python3
"""Generate /verif/MANIFEST.json from the table below (kept in one place so the
manifest stays valid while rules are added)."""
import json, os, sys
V = os.path.dirname(os.path.dirname(os.path.abspath(__file__)))
props = [json.loads(l) for l in open(os.path.join(V, "properties.jsonl"))]
claims = json.load(open(os.path.join(V, "tools", "claims.json")))
BASE = "for m in $(cat /w/out/gomods.txt); do MF=$(cd /repo/$m && . /w/out/goenv.sh && gomodflag); (cd /repo/$m && go test $MF -json -vet=off -count=1 -timeout 25m ./...); done"
checks, na = [], []
for p in props:
    pid = p["id"]
    c = claims.get(pid)
    if not c or not c.get("claimed"):
        na.append({"property_id": pid, "reason": (c or {}).get("reason", "no static rule armed yet for this property in this round; see DESIGN.md section 4")})
        continue
    checks.append({
        "property_id": pid,
        "quick_cmd": f"bin/portlint -prop {pid} -tier quick",
        "thorough_cmd": f"bin/portlint -prop {pid} -tier thorough",
        "evidence_file": f"/verif/evidence/{pid}.json",
        "replay_cmd_template": "bin/portlint -replay {path}",
        "engine": "portlint",
        "level_claimed": {
            "category": "other",
            "text": c["text"],
            "design_ref": f"DESIGN.md section 4, {pid}",
        },
        "level_note": c.get("note", "Trusted base: go/types, go/ssa, go/packages (x/tools v0.29.0), the Go front end; third-party behaviour as documented. Decides structural necessary conditions on every path of the current source; does NOT decide the behaviour over all inputs/schedules/histories."),
        "technique": c.get("technique", "static analysis: repository-specific rules over go/ssa (guarded reachability, dominance, lock sets, provenance, finite-valuation propagation, table extraction)"),
    })
m = {
    "version": 1,
    "setup_cmd": "cd /verif/portlint && GOFLAGS=-mod=mod GOPROXY=off GOSUMDB=off GOTOOLCHAIN=local GOWORK=off go build -o /verif/bin/portlint .",
    "hooks": {
        "guard": "verif",
        "enable": "none needed: the checker reads /repo's source; no instrumentation is compiled into portbase",
        "baseline_off_cmd": BASE,
        "source_commits": [],
        "add_only": True,
    },
    "engines": [{
        "name": "portlint",
        "path": "/verif/portlint",
        "serves_properties": [c["property_id"] for c in checks],
        "kind_free_text": "custom static analyser (go/packages + go/ssa, x/tools v0.29.0): per-property rule sets producing obligations keyed by rule+construct; known findings in /verif/known_findings.json; self-test mutants in /verif/mutants applied through go/packages overlays",
    }],
    "checks": checks,
    "not_applicable": na,
    "notes": "All checks are static analysis of /repo's current source (nothing of portbase is executed). Exit 0 = all obligations discharged (known findings printed as KNOWN-FINDING lines), 1 = VIOLATION, 2 = tool error/undecided. See DESIGN.md.",
}
json.dump(m, open(os.path.join(V, "MANIFEST.json"), "w"), indent=1)
print("checks:", len(checks), "not_applicable:", len(na))
