#!/usr/bin/env python3
"""Confirm a seeded change independently in a scratch worktree and file it under /verif/seeded/<id>/.
usage: confirm_seed.py /tmp/seed/out/C05/1 [--checks C05,C06]
Steps: scratch worktree of /repo HEAD; demo passes without the patch; patch applies; go build ./...;
existing tests of the touched packages pass (known-flaky ignored); demo fails with the patch.
Then runs the named portlint checks against /repo with the patch applied (and reverts)."""
import json, os, re, shutil, subprocess, sys, glob
ENV = dict(os.environ, GOFLAGS="-mod=mod", GOPROXY="off", GOSUMDB="off", GOTOOLCHAIN="local")
FLAKY = r"TestMicroTaskWaiting|TestMicroTaskOrdering|TestCallLimiter|TestOnceAgain|TestScheduledTaskWaiting|TestQueuedTask"
def sh(cmd, cwd=None, timeout=900):
    p = subprocess.run(cmd, shell=True, cwd=cwd, env=ENV, capture_output=True, text=True, timeout=timeout)
    return p.returncode, p.stdout + p.stderr
def main():
    src = sys.argv[1].rstrip("/")
    checks = []
    if "--checks" in sys.argv:
        checks = sys.argv[sys.argv.index("--checks") + 1].split(",")
    meta = json.load(open(src + "/meta.json"))
    prop = meta["property"]
    n = os.path.basename(src)
    sid = f"{prop}-{n}"
    if "/seed2/" in src:
        sid = f"{prop}-b{n}"
    elif "/seed12/" in src:
        sid = f"{prop}-l{n}"
    elif "/seed11/" in src:
        sid = f"{prop}-k{n}"
    elif "/seed10/" in src:
        sid = f"{prop}-j{n}"
    elif "/seed9/" in src:
        sid = f"{prop}-i{n}"
    elif "/seed8/" in src:
        sid = f"{prop}-h{n}"
    elif "/seed7/" in src:
        sid = f"{prop}-g{n}"
    elif "/seed6/" in src:
        sid = f"{prop}-f{n}"
    elif "/seed5/" in src:
        sid = f"{prop}-e{n}"
    elif "/seed4/" in src:
        sid = f"{prop}-d{n}"
    elif "/seed3/" in src:
        sid = f"{prop}-c{n}"
    demo_md = open(src + "/DEMO.md").read()
    m = re.search(r"-run\s+'?\"?([\w|^$()]+)'?\"?\s+(?:-v\s+)?(\./[\w/.]+)", demo_md)
    if not m:
        print("cannot parse DEMO.md run command"); return 2
    runpat, pkg = m.group(1), m.group(2).rstrip("/")
    tests = glob.glob(src + "/*_test.go")
    nested = [t for t in glob.glob(src + "/**/*_test.go", recursive=True) if t not in tests]
    def dest(t):
        # demo files in the seed dir root belong to pkg; nested ones keep their relative directory
        return os.path.join(wt, pkg, os.path.basename(t)) if t in tests else os.path.join(wt, os.path.relpath(t, src))
    wt = f"/tmp/confirm/{sid}"
    shutil.rmtree(wt, ignore_errors=True)
    sh(f"git -C /repo worktree prune")
    rc, out = sh(f"git -C /repo worktree add -q --detach {wt} HEAD")
    if rc: print(out); return 2
    res = {"scratch_worktree": wt, "base_commit": sh("git -C /repo rev-parse --short HEAD")[1].strip()}
    try:
        for t in tests + nested:
            os.makedirs(os.path.dirname(dest(t)), exist_ok=True)
            shutil.copy(t, dest(t))
        demo_cmd = f"go test -vet=off -count=1 -run '{runpat}' {pkg}/"
        rc0, out0 = sh(demo_cmd, cwd=wt)
        res["demo_without_change"] = "pass" if rc0 == 0 else "FAIL"
        rc, out = sh(f"git apply {src}/patch.diff", cwd=wt)
        res["patch_applies"] = rc == 0
        if rc: print(out)
        rc, out = sh("go build ./...", cwd=wt)
        res["builds"] = rc == 0
        # existing tests of touched packages (without the demo file)
        for t in tests + nested:
            os.rename(dest(t), dest(t) + ".off")
        touched = sorted({"./" + os.path.dirname(l[6:]) for l in open(src + "/patch.diff") if l.startswith("+++ b/")})
        pk = " ".join(sorted(set(touched + ([pkg] if not nested else []))))
        rc, out = sh(f"go test -vet=off -count=1 {pk}", cwd=wt)
        fails = [l for l in out.splitlines() if l.startswith("--- FAIL") and not re.search(FLAKY, l)]
        res["existing_tests"] = "pass" if not fails and "[build failed]" not in out else "FAIL: " + "; ".join(fails)[:300]
        res["existing_tests_cmd"] = f"go test -vet=off -count=1 {pk}"
        for t in tests + nested:
            os.rename(dest(t) + ".off", dest(t))
        rc1, out1 = sh(demo_cmd, cwd=wt)
        res["demo_with_change"] = "fail" if rc1 != 0 else "PASS"
        res["demo_cmd"] = demo_cmd
        res["demo_failure_excerpt"] = "\n".join([l for l in out1.splitlines() if "FAIL" in l or "panic" in l or "expected" in l.lower()][:6])
    finally:
        sh(f"git -C /repo worktree remove --force {wt}")
    ok = res.get("demo_without_change") == "pass" and res.get("patch_applies") and res.get("builds") and res.get("existing_tests") == "pass" and res.get("demo_with_change") == "fail"
    res["confirmed"] = bool(ok)
    # run checks against /repo with the patch applied
    caught = {}
    if checks:
        if sh("git -C /repo diff --quiet")[0] != 0:
            print("repo dirty"); return 2
        rc, out = sh(f"git -C /repo apply {src}/patch.diff")
        try:
            for c in checks:
                rc, out = sh(f"/verif/bin/portlint -prop {c} -tier quick -no-evidence", cwd="/verif")
                rules = re.findall(r"rule=(\S+) construct=(.*)", out)
                caught[c] = {"exit": rc, "violations": [f"{a} | {b}" for a, b in rules][:6]}
        finally:
            sh("git -C /repo checkout -- . && git -C /repo clean -fdq")
    res["checks_against_change"] = caught
    print(json.dumps(res, indent=1))
    if ok:
        dst = f"/verif/seeded/{sid}"
        os.makedirs(dst, exist_ok=True)
        shutil.copy(src + "/patch.diff", dst)
        for t in tests: shutil.copy(t, dst + "/" + os.path.basename(t) + ".txt")
        for t in nested: shutil.copy(t, dst + "/" + os.path.relpath(t, src).replace("/", "__") + ".txt")
        shutil.copy(src + "/DEMO.md", dst)
        meta_out = {"id": sid, "property": prop, "summary": meta.get("summary"), "site": meta.get("site"),
                    "needs_to_manifest": meta.get("needs_to_manifest"), "why_tests_pass": meta.get("why_tests_pass"),
                    "origin": "written by an independent sub-agent that saw only the property text and a scratch worktree",
                    "round": 2 if "/seed2/" in src else (3 if "/seed3/" in src else (4 if "/seed4/" in src else (5 if "/seed5/" in src else (6 if "/seed6/" in src else (7 if "/seed7/" in src else (8 if "/seed8/" in src else (9 if "/seed9/" in src else (10 if "/seed10/" in src else (11 if "/seed11/" in src else (12 if "/seed12/" in src else 1)))))))))),
                    "what_i_ran": res, "demo_files_note": "demo test files are stored with a .txt suffix so that they are never compiled from /verif; copy them (without .txt) to the package named in DEMO.md"}
        json.dump(meta_out, open(dst + "/meta.json", "w"), indent=1)
    return 0 if ok else 1
sys.exit(main())
