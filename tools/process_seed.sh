#!/bin/bash
# usage: process_seed.sh <round dir e.g. /tmp/seed2> <prop> ; confirms both seeds of a property and screens them with all checks
rd=$1; p=$2
for n in 1 2; do
  [ -d $rd/out/$p/$n ] || continue
  python3 /verif/tools/confirm_seed.py $rd/out/$p/$n | grep -E '"(confirmed|existing_tests|demo_with_change|demo_without_change)"' | tr -d '\n'; echo
done
suffix=b; [[ $rd == *seed3* ]] && suffix=c; [[ $rd == *seed4* ]] && suffix=d; [[ $rd == *seed5* ]] && suffix=e; [[ $rd == *seed6* ]] && suffix=f; [[ $rd == *seed7* ]] && suffix=g; [[ $rd == *seed8* ]] && suffix=h; [[ $rd == *seed9* ]] && suffix=i; [[ $rd == *seed10* ]] && suffix=j; [[ $rd == *seed11* ]] && suffix=k; [[ $rd == *seed12* ]] && suffix=l
python3 /verif/tools/recheck_seeds.py $p-$suffix | grep "^$p-$suffix"
