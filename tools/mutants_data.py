# ---- C03 -------------------------------------------------------------------
mut("C03", "r1-secret-tests-crown", "database/record/meta.go",
    "case !internal && m.secret:", "case !internal && m.cronjewel:", "C03-R1|CheckPermission", canary=True)
mut("C03", "r1-hasaccess-or", "database/interface.go",
    "return o.Local && o.Internal", "return o.Local || o.Internal", "C03-R1|hasAccessPermission")
mut("C03", "r2-bbolt-swapped-args", "database/storage/bbolt/bbolt.go",
    "if !iterWrapper.Meta().CheckPermission(local, internal) {", "if !iterWrapper.Meta().CheckPermission(internal, local) {", "C03-R2|bbolt.(*BBolt).queryExecutor$1")
mut("C03", "r2-fstree-no-check", "database/storage/fstree/fstree.go",
    "if !r.Meta().CheckPermission(local, internal) {\n\t\t\t// no permission to access\n\t\t\treturn nil\n\t\t}", "", "C03-R2|fstree.(*FSTree).queryExecutor$1")
mut("C03", "r2-runtime-allowed", "runtime/registry.go",
    "allowed = matchesKey && isValid && isAllowed", "allowed = matchesKey && isValid", "C03-R2|runtime.(*Registry).Query$1")
mut("C03", "r2-hashmap-const-arg", "database/storage/hashmap/map.go",
    "!record.Meta().CheckPermission(local, internal) {", "!record.Meta().CheckPermission(local, true) {", "C03-R2|hashmap.(*HashMap).queryExecutor")
mut("C03", "r2-badger-inverted", "database/storage/badger/badger.go",
    "if !r.Meta().CheckPermission(local, internal) {", "if r.Meta().CheckPermission(local, internal) {", "C03-R2|badger.(*Badger).queryExecutor$1")
mut("C03", "r2-notifications-no-check", "notifications/database.go",
    "\tcase !n.Meta().CheckPermission(local, internal):\n\t\treturn false\n", "", "C03-R2|notifications.(*StorageInterface).processQuery")
mut("C03", "r3-getrecord-cache-unchecked", "database/interface.go",
    "\tif r != nil {\n\t\tif !i.options.hasAccessPermission(r) {\n\t\t\treturn nil, db, ErrPermissionDenied\n\t\t}\n\t\treturn r, db, nil\n\t}",
    "\tif r != nil {\n\t\treturn r, db, nil\n\t}", "C03-R3|getRecord / return record")
mut("C03", "r3-getmeta-swapped", "database/interface.go",
    "if !m.CheckPermission(i.options.Local, i.options.Internal) {", "if !m.CheckPermission(i.options.Internal, i.options.Local) {", "C03-R3|getMeta / CheckPermission argument order")
mut("C03", "r3-put-precheck-ignored", "database/interface.go",
    "if err != nil && !errors.Is(err, ErrNotFound) {\n\t\t\treturn err\n\t\t}\n\t} else {\n\t\tdb, err = getController(r.DatabaseName())\n\t\tif err != nil {\n\t\t\treturn err\n\t\t}\n\t}\n\n\t// Check if database is read only.\n\tif db.ReadOnly() {\n\t\treturn ErrReadOnly\n\t}\n\n\tr.Lock()\n\ti.options.Apply(r)",
    "if err != nil && !errors.Is(err, ErrNotFound) && !errors.Is(err, ErrPermissionDenied) {\n\t\t\treturn err\n\t\t}\n\t} else {\n\t\tdb, err = getController(r.DatabaseName())\n\t\tif err != nil {\n\t\t\treturn err\n\t\t}\n\t}\n\n\t// Check if database is read only.\n\tif db.ReadOnly() {\n\t\treturn ErrReadOnly\n\t}\n\n\tr.Lock()\n\ti.options.Apply(r)",
    "C03-R3|database.(*Interface).Put /")
mut("C03", "r3-delete-bypass", "database/interface.go",
    "\ti.options.Apply(r)\n\tr.Meta().Delete()\n\treturn db.Put(r)",
    "\ti.options.Apply(r)\n\tr.Meta().Delete()\n\tif r2, err2 := db.Get(key); err2 == nil {\n\t\tr = r2\n\t}\n\treturn db.Put(r)", "C03-R3|Delete / call Controller.Put #1 / record provenance")
mut("C03", "r3-query-swapped", "database/interface.go",
    "return db.Query(q, i.options.Local, i.options.Internal)", "return db.Query(q, i.options.Internal, i.options.Local)", "C03-R3|database.(*Interface).Query")
mut("C03", "r3-putmany-no-check", "database/interface.go",
    "\tif !i.options.HasAllPermissions() {\n\t\treturn func(r record.Record) error {\n\t\t\treturn ErrPermissionDenied\n\t\t}\n\t}\n", "", "C03-R3|PutMany")
mut("C03", "r4-api-bypass", "api/database.go",
    "r, err := api.db.Get(key)", "r, err := api.db.Get(key)\n\tif c, cerr := database.InjectDatabase(\"x\", nil); cerr == nil {\n\t\tr, err = c.Get(key)\n\t}", "C03-R4|api.", occurrence=1)
mut("C03", "r5-notify-no-check", "database/controller.go",
    "if r.Meta().CheckPermission(sub.local, sub.internal) && sub.q.Matches(r) {", "if sub.q.Matches(r) {", "C03-R5|notifySubscribers")
mut("C03", "r5-subscribe-swapped", "database/interface.go",
    "local:    i.options.Local,", "local:    i.options.Internal,", "C03-R5|store Subscription.local")
mut("C03", "r6-purge-no-check", "database/storage/bbolt/bbolt.go",
    "\t\t\t\tif !wrapper.Meta().CheckPermission(local, internal) {\n\t\t\t\t\tcontinue\n\t\t\t\t}\n", "", "C03-R6|Purge$1")
mut("C03", "r7-api-internal", "api/database.go",
    "db:             database.NewInterface(nil),\n\t\tsendBytes:", "db:             database.NewInterface(&database.Options{Internal: true}),\n\t\tsendBytes:", "C03-R7|NewInterface")
mut("C03", "r8-reset-clears-flag", "database/record/meta.go",
    "func (m *Meta) Reset() {", "func (m *Meta) Reset() {\n\tm.secret = false", "C03-R8|store Meta.secret")

# ---- C01 -------------------------------------------------------------------
mut("C01", "r1-start-dep-starting", "modules/status.go",
    "if dep.Status() < StatusOnline {", "if dep.Status() < StatusStarting {", "C01-R1|readyToStart", canary=True)
mut("C01", "r1-stop-revdep", "modules/status.go",
    "if revDep.Status() > StatusOffline {", "if revDep.Status() > StatusStarting {", "C01-R1|readyToStop")
mut("C01", "r1-prep-dep", "modules/status.go",
    "if dep.Status() < StatusOffline {", "if dep.Status() < StatusPreparing {", "C01-R1|readyToPrep")
mut("C01", "r1-stop-mgmt-ignored", "modules/status.go",
    "if m.enabled.IsSet() || m.enabledAsDependency.IsSet() {\n\t\t\treturn statusNothingToDo", "if m.enabled.IsSet() && m.enabledAsDependency.IsSet() {\n\t\t\treturn statusNothingToDo", "C01-R1|readyToStop")
mut("C01", "r1-start-self-any", "modules/status.go",
    "\tif m.Status() != StatusOffline {\n\t\treturn statusNothingToDo\n\t}", "\tif m.Status() > StatusOffline {\n\t\treturn statusNothingToDo\n\t}", "C01-R1|readyToStart")
mut("C01", "r2-start-in-waiting-arm", "modules/start.go",
    "\t\t\tcase statusWaiting:\n\t\t\t\twaiting++\n\t\t\tcase statusReady:\n\t\t\t\texecCnt++\n\t\t\t\tm.start(reports)", "\t\t\tcase statusWaiting:\n\t\t\t\twaiting++\n\t\t\t\tfallthrough\n\t\t\tcase statusReady:\n\t\t\t\texecCnt++\n\t\t\t\tm.start(reports)", "C01-R2|startModules")
mut("C01", "r3-start-no-offline-test", "modules/modules.go",
    "\tif m.status != StatusOffline {\n\t\tm.Unlock()\n\t\tgo func() {\n\t\t\treports <- &report{\n\t\t\t\tmodule: m,\n\t\t\t\terr:    fmt.Errorf(\"module not offline\"),\n\t\t\t}\n\t\t}()\n\t\treturn\n\t}\n", "", "C01-R3|StatusStarting / predecessor state")
mut("C01", "r3-online-before-error-test", "modules/modules.go",
    "\t\t// set status\n\t\tif err != nil {\n\t\t\t// Reset the status", "\t\tm.Lock()\n\t\tm.status = StatusOnline\n\t\tm.Unlock()\n\t\t// set status\n\t\tif err != nil {\n\t\t\t// Reset the status", "C01-R3|StatusOnline")
mut("C01", "r3-unlocked-store", "modules/modules.go",
    "\tm.Lock()\n\tm.status = StatusOffline\n\tm.Unlock()\n\tm.notifyOfChange()\n\n\t// Resolve any errors", "\tm.status = StatusOffline\n\tm.notifyOfChange()\n\n\t// Resolve any errors", "C01-R3|under module lock")
mut("C01", "r3-foreign-store", "modules/mgmt.go",
    "func (m *Module) markDependencies() {", "func (m *Module) markDependencies() {\n\tm.Lock()\n\tm.status = StatusOffline\n\tm.Unlock()", "C01-R3|markDependencies")
mut("C01", "r4-start-failure-stuck", "modules/modules.go",
    "\t\t\tm.Lock()\n\t\t\tm.status = StatusOffline\n\t\t\tm.Unlock()\n\t\t\tm.Error(\n\t\t\t\tfmt.Sprintf(\"%s:start-failed\"", "\t\t\tm.Error(\n\t\t\t\tfmt.Sprintf(\"%s:start-failed\"", "C01-R4|start$2")
mut("C01", "r4-stop-error-early-report", "modules/modules.go",
    "\t\tif err != nil {\n\t\t\t// Set error as module error.", "\t\tif err != nil {\n\t\t\treports <- &report{module: m, err: err}\n\t\t\treturn\n\t\t}\n\t\tif err != nil {\n\t\t\t// Set error as module error.", "C01-R4|stopAllTasks")
mut("C01", "r5-manage-swap", "modules/mgmt.go",
    "\t// stop unneeded modules\n\tlastErr := stopModules()\n\tif lastErr != nil {\n\t\tlog.Warning(lastErr.Error())\n\t}\n\n\t// start needed modules\n\terr := startModules()\n\tif err != nil {\n\t\tlog.Warning(err.Error())\n\t\tlastErr = err\n\t}",
    "\t// start needed modules\n\tlastErr := startModules()\n\tif lastErr != nil {\n\t\tlog.Warning(lastErr.Error())\n\t}\n\n\t// stop unneeded modules\n\terr := stopModules()\n\tif err != nil {\n\t\tlog.Warning(err.Error())\n\t\tlastErr = err\n\t}", "C01-R5|ManageModules")
mut("C01", "r5-manage-no-lock", "modules/mgmt.go",
    "\t// lock mgmt\n\tmgmtLock.Lock()\n\tdefer mgmtLock.Unlock()\n\n\tlog.Info(\"modules: managing changes\")", "\tlog.Info(\"modules: managing changes\")", "C01-R5|mgmtLock")
mut("C01", "r5-start-tree-after-start", "modules/start.go",
    "\t// build dependency tree\n\tbuildEnabledTree()\n\n\t// start modules\n\tlog.Info(\"modules: initiating...\")\n\terr = startModules()", "\t// start modules\n\tlog.Info(\"modules: initiating...\")\n\terr = startModules()\n\tbuildEnabledTree()", "C01-R5|modules.Start")
mut("C01", "r6-stop-ignores-waiting", "modules/stop.go",
    "\t\t\tif waiting > 0 {\n\t\t\t\t// check for dep loop\n\t\t\t\treturn fmt.Errorf(\"modules: dependency loop detected, cannot continue\")\n\t\t\t}\n\t\t\t// return last error\n\t\t\treturn lastErr", "\t\t\tif waiting > startedCnt {\n\t\t\t\t// check for dep loop\n\t\t\t\treturn fmt.Errorf(\"modules: dependency loop detected, cannot continue\")\n\t\t\t}\n\t\t\t// return last error\n\t\t\treturn lastErr", "C01-R6|stopModules")
