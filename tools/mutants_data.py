# ---- C03 -------------------------------------------------------------------
mut("C03", "r1-secret-tests-crown", "database/record/meta.go",
    "case !internal && m.secret:", "case !internal && m.cronjewel:", "C03-R1|CheckPermission", canary=True)
mut("C03", "r1-hasaccess-or", "database/interface.go",
    "return o.Local && o.Internal", "return o.Local || o.Internal", "C03-R1|hasAccessPermission")
mut("C03", "r2-bbolt-swapped-args", "database/storage/bbolt/bbolt.go",
    "if !iterWrapper.Meta().CheckPermission(local, internal) {", "if !iterWrapper.Meta().CheckPermission(internal, local) {", "C03-R2|bbolt.(*BBolt).queryExecutor$1")
mut("C03", "r2-fstree-no-check", "database/storage/fstree/fstree.go",
    "if !r.Meta().CheckPermission(local, internal) {\n\t\t\t// no permission to access\n\t\t\treturn nil\n\t\t}", "", "C03-R2|fstree.(*FSTree).queryExecutor$1")
mut("C03", "r2-runtime-allowed", "runtime/registry.go",
    "allowed = matchesKey && isValid && isAllowed", "allowed = matchesKey && isValid", "C03-R2|runtime.(*Registry).Query$1")
mut("C03", "r2-hashmap-const-arg", "database/storage/hashmap/map.go",
    "!record.Meta().CheckPermission(local, internal) {", "!record.Meta().CheckPermission(local, true) {", "C03-R2|hashmap.(*HashMap).queryExecutor")
mut("C03", "r2-badger-inverted", "database/storage/badger/badger.go",
    "if !r.Meta().CheckPermission(local, internal) {", "if r.Meta().CheckPermission(local, internal) {", "C03-R2|badger.(*Badger).queryExecutor$1")
mut("C03", "r2-notifications-no-check", "notifications/database.go",
    "\tcase !n.Meta().CheckPermission(local, internal):\n\t\treturn false\n", "", "C03-R2|notifications.(*StorageInterface).processQuery", comment="reverts fix ddfb53a")
mut("C03", "r3-getrecord-cache-unchecked", "database/interface.go",
    "\tif r != nil {\n\t\tif !i.options.hasAccessPermission(r) {\n\t\t\treturn nil, db, ErrPermissionDenied\n\t\t}\n\t\treturn r, db, nil\n\t}",
    "\tif r != nil {\n\t\treturn r, db, nil\n\t}", "C03-R3|getRecord / return record")
mut("C03", "r3-getmeta-swapped", "database/interface.go",
    "if !m.CheckPermission(i.options.Local, i.options.Internal) {", "if !m.CheckPermission(i.options.Internal, i.options.Local) {", "C03-R3|getMeta / CheckPermission argument order")
mut("C03", "r3-put-precheck-ignored", "database/interface.go",
    "if err != nil && !errors.Is(err, ErrNotFound) {\n\t\t\treturn err\n\t\t}\n\t} else {\n\t\tdb, err = getController(r.DatabaseName())\n\t\tif err != nil {\n\t\t\treturn err\n\t\t}\n\t}\n\n\t// Check if database is read only.\n\tif db.ReadOnly() {\n\t\treturn ErrReadOnly\n\t}\n\n\tr.Lock()\n\ti.options.Apply(r)",
    "if err != nil && !errors.Is(err, ErrNotFound) && !errors.Is(err, ErrPermissionDenied) {\n\t\t\treturn err\n\t\t}\n\t} else {\n\t\tdb, err = getController(r.DatabaseName())\n\t\tif err != nil {\n\t\t\treturn err\n\t\t}\n\t}\n\n\t// Check if database is read only.\n\tif db.ReadOnly() {\n\t\treturn ErrReadOnly\n\t}\n\n\tr.Lock()\n\ti.options.Apply(r)",
    "C03-R3|database.(*Interface).Put /")
mut("C03", "r3-delete-bypass", "database/interface.go",
    "\ti.updateCache(r, false, true, 0)\n\n\tr.Lock()\n\tdefer r.Unlock()\n\treturn putChanged(db, r, before)",
    "\ti.updateCache(r, false, true, 0)\n\tif r2, err2 := db.Get(key); err2 == nil {\n\t\tr = r2\n\t}\n\n\tr.Lock()\n\tdefer r.Unlock()\n\treturn putChanged(db, r, before)", "C03-R3|Delete / call Controller.Put #1 / record provenance")
mut("C03", "r3-query-swapped", "database/interface.go",
    "return db.Query(q, i.options.Local, i.options.Internal)", "return db.Query(q, i.options.Internal, i.options.Local)", "C03-R3|database.(*Interface).Query")
mut("C03", "r3-putmany-no-check", "database/interface.go",
    "\tif !i.options.HasAllPermissions() {\n\t\treturn func(r record.Record) error {\n\t\t\treturn ErrPermissionDenied\n\t\t}\n\t}\n", "", "C03-R3|PutMany")
mut("C03", "r4-api-bypass", "api/database.go",
    "r, err := api.db.Get(key)", "r, err := api.db.Get(key)\n\tif c, cerr := database.InjectDatabase(\"x\", nil); cerr == nil {\n\t\tr, err = c.Get(key)\n\t}", "C03-R4|api.", occurrence=1)
mut("C03", "r5-notify-no-check", "database/controller.go",
    "if r.Meta().CheckPermission(sub.local, sub.internal) && sub.q.Matches(r) {", "if sub.q.Matches(r) {", "C03-R5|notifySubscribers")
mut("C03", "r5-subscribe-swapped", "database/interface.go",
    "local:    i.options.Local,", "local:    i.options.Internal,", "C03-R5|store Subscription.local")
mut("C03", "r6-purge-no-check", "database/storage/bbolt/bbolt.go",
    "\t\t\t\tif !wrapper.Meta().CheckPermission(local, internal) {\n\t\t\t\t\tcontinue\n\t\t\t\t}\n", "", "C03-R6|Purge$1")
mut("C03", "r7-api-internal", "api/database.go",
    "db:             database.NewInterface(nil),\n\t\tsendBytes:", "db:             database.NewInterface(&database.Options{Internal: true}),\n\t\tsendBytes:", "C03-R7|NewInterface")
mut("C03", "r8-reset-clears-flag", "database/record/meta.go",
    "func (m *Meta) Reset() {", "func (m *Meta) Reset() {\n\tm.secret = false", "C03-R8|store Meta.secret")

# ---- C01 -------------------------------------------------------------------
mut("C01", "r1-start-dep-starting", "modules/status.go",
    "if dep.Status() < StatusOnline {", "if dep.Status() < StatusStarting {", "C01-R1|readyToStart", canary=True)
mut("C01", "r1-stop-revdep", "modules/status.go",
    "if revDep.Status() > StatusOffline {", "if revDep.Status() > StatusStarting {", "C01-R1|readyToStop")
mut("C01", "r1-prep-dep", "modules/status.go",
    "if dep.Status() < StatusOffline {", "if dep.Status() < StatusPreparing {", "C01-R1|readyToPrep")
mut("C01", "r1-stop-mgmt-ignored", "modules/status.go",
    "if m.enabled.IsSet() || m.enabledAsDependency.IsSet() {\n\t\t\treturn statusNothingToDo", "if m.enabled.IsSet() && m.enabledAsDependency.IsSet() {\n\t\t\treturn statusNothingToDo", "C01-R1|readyToStop")
mut("C01", "r1-start-self-any", "modules/status.go",
    "\tif m.Status() != StatusOffline {\n\t\treturn statusNothingToDo\n\t}", "\tif m.Status() > StatusOffline {\n\t\treturn statusNothingToDo\n\t}", "C01-R1|readyToStart")
mut("C01", "r2-start-in-waiting-arm", "modules/start.go",
    "\t\t\tcase statusWaiting:\n\t\t\t\twaiting++\n\t\t\tcase statusReady:\n\t\t\t\texecCnt++\n\t\t\t\tm.start(reports)", "\t\t\tcase statusWaiting:\n\t\t\t\twaiting++\n\t\t\t\tfallthrough\n\t\t\tcase statusReady:\n\t\t\t\texecCnt++\n\t\t\t\tm.start(reports)", "C01-R2|startModules")
mut("C01", "r3-start-no-offline-test", "modules/modules.go",
    "\tif m.status != StatusOffline {\n\t\tm.Unlock()\n\t\tgo func() {\n\t\t\treports <- &report{\n\t\t\t\tmodule: m,\n\t\t\t\terr:    fmt.Errorf(\"module not offline\"),\n\t\t\t}\n\t\t}()\n\t\treturn\n\t}\n", "", "C01-R3|StatusStarting / predecessor state")
mut("C01", "r3-online-before-error-test", "modules/modules.go",
    "\t\t// set status\n\t\tif err != nil {\n\t\t\t// Reset the status", "\t\tm.Lock()\n\t\tm.status = StatusOnline\n\t\tm.Unlock()\n\t\t// set status\n\t\tif err != nil {\n\t\t\t// Reset the status", "C01-R3|StatusOnline")
mut("C01", "r3-unlocked-store", "modules/modules.go",
    "\tm.Lock()\n\tm.status = StatusOffline\n\tm.Unlock()\n\tm.notifyOfChange()\n\n\t// Resolve any errors", "\tm.status = StatusOffline\n\tm.notifyOfChange()\n\n\t// Resolve any errors", "C01-R3|under module lock")
mut("C01", "r3-foreign-store", "modules/mgmt.go",
    "func (m *Module) markDependencies() {", "func (m *Module) markDependencies() {\n\tm.Lock()\n\tm.status = StatusOffline\n\tm.Unlock()", "C01-R3|markDependencies")
mut("C01", "r4-start-failure-stuck", "modules/modules.go",
    "\t\t\tm.status = StatusOffline\n\t\t\t// Cancel the context of the failed start", "\t\t\t// Cancel the context of the failed start", "C01-R4|start$2", comment="reverts fix b5f220d")
mut("C01", "r4-stop-error-early-report", "modules/modules.go",
    "\t\tif err != nil {\n\t\t\t// Set error as module error.", "\t\tif err != nil {\n\t\t\treports <- &report{module: m, err: err}\n\t\t\treturn\n\t\t}\n\t\tif err != nil {\n\t\t\t// Set error as module error.", "C01-R4|stopAllTasks")
mut("C01", "r5-manage-swap", "modules/mgmt.go",
    "\t// stop unneeded modules\n\tlastErr := stopModules()\n\tif lastErr != nil {\n\t\tlog.Warning(lastErr.Error())\n\t}\n\n\t// start needed modules\n\terr := startModules()\n\tif err != nil {\n\t\tlog.Warning(err.Error())\n\t\tlastErr = err\n\t}",
    "\t// start needed modules\n\tlastErr := startModules()\n\tif lastErr != nil {\n\t\tlog.Warning(lastErr.Error())\n\t}\n\n\t// stop unneeded modules\n\terr := stopModules()\n\tif err != nil {\n\t\tlog.Warning(err.Error())\n\t\tlastErr = err\n\t}", "C01-R5|ManageModules")
mut("C01", "r5-manage-no-lock", "modules/mgmt.go",
    "\t// lock mgmt\n\tmgmtLock.Lock()\n\tdefer mgmtLock.Unlock()\n\n\tlog.Info(\"modules: managing changes\")", "\tlog.Info(\"modules: managing changes\")", "C01-R5|mgmtLock")
mut("C01", "r5-start-tree-after-start", "modules/start.go",
    "\t// build dependency tree\n\tbuildEnabledTree()\n\n\t// start modules\n\tlog.Info(\"modules: initiating...\")\n\terr = startModules()", "\t// start modules\n\tlog.Info(\"modules: initiating...\")\n\terr = startModules()\n\tbuildEnabledTree()", "C01-R5|modules.Start")
mut("C01", "r6-stop-aborts-on-error", "modules/stop.go",
    "\t\t\t\tlastErr = rep.err\n", "\t\t\t\treturn rep.err\n", "C01-R6|stopModules / return", comment="round-2 seed C01-b2")
mut("C01", "r8-ctrlflag-after-cancel", "modules/modules.go",
    "\tm.ctrlFuncRunning.Set()\n\n\t// Set stop flag for everyone checking this flag before we activate any stop trigger.\n\tm.stopFlag.Set()\n\n\t// Cancel the context to notify all workers and tasks.\n\tm.cancelCtx()\n",
    "\t// Set stop flag for everyone checking this flag before we activate any stop trigger.\n\tm.stopFlag.Set()\n\n\t// Cancel the context to notify all workers and tasks.\n\tm.cancelCtx()\n\tm.ctrlFuncRunning.Set()\n",
    "C01-R8|modules.(*Module).stopAllTasks / ctrlFuncRunning.Set() before stopFlag.Set()", comment="round-2 seed C01-b1")
mut("C01", "r6-stop-ignores-waiting", "modules/stop.go",
    "\t\t\tif waiting > 0 {\n\t\t\t\t// check for dep loop\n\t\t\t\treturn fmt.Errorf(\"modules: dependency loop detected, cannot continue\")\n\t\t\t}\n\t\t\t// return last error\n\t\t\treturn lastErr", "\t\t\tif waiting > startedCnt {\n\t\t\t\t// check for dep loop\n\t\t\t\treturn fmt.Errorf(\"modules: dependency loop detected, cannot continue\")\n\t\t\t}\n\t\t\t// return last error\n\t\t\treturn lastErr", "C01-R6|stopModules")

# ---- C05 -------------------------------------------------------------------
mut("C05", "r1-cancel-after-stopfn", "modules/modules.go",
    "\t// Cancel the context to notify all workers and tasks.\n\tm.cancelCtx()\n\n\t// Start stop function.\n\tstopFnError := m.startCtrlFn(\"stop module\", m.stopFn)",
    "\t// Start stop function.\n\tstopFnError := m.startCtrlFn(\"stop module\", m.stopFn)\n\n\t// Cancel the context to notify all workers and tasks.\n\tm.cancelCtx()", "C05-R1|cancelCtx() before startCtrlFn", canary=True)
mut("C05", "r1-no-wait", "modules/modules.go",
    "\tselect {\n\tcase <-m.stopComplete:\n\t\t// Complete!\n\tcase <-time.After(moduleStopTimeout):", "\tselect {\n\tcase <-m.stopComplete:\n\t\t// Complete!\n\tcase <-m.Ctx.Done():\n\tcase <-time.After(moduleStopTimeout):", "C05-R1|wait select shape")
mut("C05", "r1-stopflag-after-cancel", "modules/modules.go",
    "\tm.stopFlag.Set()\n\n\t// Cancel the context to notify all workers and tasks.\n\tm.cancelCtx()", "\t// Cancel the context to notify all workers and tasks.\n\tm.cancelCtx()\n\tm.stopFlag.Set()", "C05-R1|stopFlag.Set() before cancelCtx()")
mut("C05", "r1-no-rearm", "modules/modules.go",
    "\tm.stopComplete = make(chan struct{})\n\tm.stopCompleted.SetTo(false)", "\tm.stopCompleted.SetTo(false)", "C05-R1|fresh stopComplete")
mut("C05", "r2-serviceworker-undeferred", "modules/worker.go",
    "func (m *Module) runServiceWorker(name string, backoffDuration time.Duration, fn func(context.Context) error) {\n\tatomic.AddInt32(m.workerCnt, 1)\n\tdefer func() {\n\t\tatomic.AddInt32(m.workerCnt, -1)\n\t\tm.checkIfStopComplete()\n\t}()\n",
    "func (m *Module) runServiceWorker(name string, backoffDuration time.Duration, fn func(context.Context) error) {\n\tatomic.AddInt32(m.workerCnt, 1)\n\tfinish := func() {\n\t\tatomic.AddInt32(m.workerCnt, -1)\n\t\tm.checkIfStopComplete()\n\t}\n\tdefer func() {\n\t\tif !m.IsStopping() {\n\t\t\tfinish()\n\t\t}\n\t}()\n", "C05-R2|runServiceWorker")
mut("C05", "r2-microtask-no-conclude", "modules/microtasks.go",
    "\t\t\terr = me\n\t\t}\n\n\t\tm.concludeMicroTask()\n\t}()", "\t\t\terr = me\n\t\t\treturn\n\t\t}\n\n\t\tm.concludeMicroTask()\n\t}()", "C05-R2|runMicroTask / microTaskCnt +1")
mut("C05", "r2-task-dec-no-check", "modules/tasks.go",
    "\t\tatomic.AddInt32(t.module.taskCnt, -1)\n\t\tt.module.checkIfStopComplete()\n", "\t\tatomic.AddInt32(t.module.taskCnt, -1)\n", "C05-R2|taskCnt -1 / then checkIfStopComplete")
mut("C05", "r2-worker-late-defer", "modules/worker.go",
    "\tatomic.AddInt32(m.workerCnt, 1)\n\tdefer func() {\n\t\tatomic.AddInt32(m.workerCnt, -1)\n\t\tm.checkIfStopComplete()\n\t}()\n\n\treturn m.runWorker(name, fn)",
    "\tatomic.AddInt32(m.workerCnt, 1)\n\terr := m.runWorker(name, fn)\n\tatomic.AddInt32(m.workerCnt, -1)\n\tm.checkIfStopComplete()\n\treturn err", "C05-R2|RunWorker / workerCnt")
mut("C05", "r3-no-taskcnt", "modules/modules.go",
    "\t\tatomic.LoadInt32(m.taskCnt) == 0 &&\n", "", "C05-R3|completion truth table")
mut("C05", "r3-ctrl-inverted", "modules/modules.go",
    "\t\tm.ctrlFuncRunning.IsNotSet() &&", "\t\tm.ctrlFuncRunning.IsSet() &&", "C05-R3|completion truth table")
mut("C05", "r3-close-unlocked", "modules/modules.go",
    "\t\tif m.stopCompleted.SetToIf(false, true) {\n\t\t\tm.Lock()\n\t\t\tdefer m.Unlock()\n\t\t\tclose(m.stopComplete)", "\t\tif m.stopCompleted.SetToIf(false, true) {\n\t\t\tclose(m.stopComplete)", "C05-R3|close under module lock")
mut("C05", "r4-worker-background-ctx", "modules/worker.go",
    "\terr = fn(m.Ctx)\n\treturn\n}", "\terr = fn(context.Background())\n\treturn\n}", "C05-R4|runWorker")
mut("C05", "r4-task-ctx-background", "modules/tasks.go",
    "\tnewTask.ctx, newTask.cancelCtx = context.WithCancel(m.Ctx)", "\tnewTask.ctx, newTask.cancelCtx = context.WithCancel(context.Background())", "C05-R4|newTask / store Task.ctx")
mut("C05", "r5-trigger-no-check", "modules/events.go",
    "\tif m.OnlineSoon() {\n\t\tgo m.processEventTrigger(event, data)\n\t}", "\tgo m.processEventTrigger(event, data)", "C05-R5|TriggerEvent")
mut("C05", "r5-onlinesoon-true", "modules/status.go",
    "\treturn !m.stopFlag.IsSet()\n}", "\treturn !m.stopFlag.IsSet() || m.Status() == StatusOnline\n}", "C05-R5|OnlineSoon / truth table")
mut("C05", "r5-newtask-or", "modules/tasks.go",
    "\tif m.Ctx == nil || !m.OnlineSoon() {", "\tif m.Ctx == nil && !m.OnlineSoon() {", "C05-R5|newTask / create live task")
mut("C05", "r5-run-ignores-done", "modules/tasks.go",
    "\tselect {\n\tcase <-t.ctx.Done():\n\t\tt.lock.Unlock()\n\t\treturn\n\tdefault:\n\t}\n\n\t// enter executing state", "\tselect {\n\tcase <-t.ctx.Done():\n\tdefault:\n\t}\n\n\t// enter executing state", "C05-R5|not after ctx done")
mut("C05", "r6-no-unset", "modules/modules.go",
    "\tm.Ctx, m.cancelCtx = context.WithCancel(context.Background())\n\tm.stopFlag.UnSet()\n", "\tm.Ctx, m.cancelCtx = context.WithCancel(context.Background())\n", "C05-R6|stop flag cleared")
mut("C05", "r4-hook-on-source-module", "modules/events.go",
    "\terr := hook.hookingModule.RunWorker(", "\terr := m.RunWorker(", "C05-R4|runEventHook$1")

# ---- C06 -------------------------------------------------------------------
mut("C06", "r1-microtask-no-recover", "modules/microtasks.go",
    "\t\t// recover from panic\n\t\tpanicVal := recover()\n\t\tif panicVal != nil {\n\t\t\tme := m.NewPanicError(name, \"microtask\", panicVal)\n\t\t\tme.Report()\n\t\t\tlog.Errorf(\"%s: microtask %s panicked: %s\", m.Name, name, panicVal)\n\t\t\terr = me\n\t\t}\n\n", "", "C06-R1|runMicroTask", canary=True)
mut("C06", "r1-ctrlfn-before-defer", "modules/worker.go",
    "\tgo func() {\n\t\t// Recover from panic and reset control function signal.\n\t\tdefer func() {", "\tgo func() {\n\t\terr := fn()\n\t\t// Recover from panic and reset control function signal.\n\t\tdefer func() {", "C06-R1|startCtrlFn$1",
    extra=[{"file": "modules/worker.go", "old": "\t\t// Run control function and report error.\n\t\terr := fn()\n\t\tctrlFnError <- err", "new": "\t\tctrlFnError <- err"}])
mut("C06", "r1-worker-no-result", "modules/worker.go",
    "\t\t\tme.Report()\n\t\t\terr = me\n\t\t}\n\t}()\n\n\t// run", "\t\t\tme.Report()\n\t\t}\n\t}()\n\n\t// run", "C06-R1|runWorker / dynamic call of param:fn / panic error reaches the caller")
mut("C06", "r1-task-no-report", "modules/tasks.go",
    "\t\t\tme := t.module.NewPanicError(t.name, \"task\", panicVal)\n\t\t\tme.Report()\n", "\t\t\tme := t.module.NewPanicError(t.name, \"task\", panicVal)\n", "C06-R1|executeWithLocking")
mut("C06", "r1-hook-direct", "modules/events.go",
    "\terr := hook.hookingModule.RunWorker(\n\t\tfmt.Sprintf(\"event hook %s/%s -> %s/%s\", m.Name, event, hook.hookingModule.Name, hook.description),\n\t\tfunc(ctx context.Context) error {\n\t\t\treturn hook.hookFn(ctx, data)\n\t\t},\n\t)",
    "\terr := hook.hookFn(hook.hookingModule.Ctx, data)", "C06-R1|runEventHook")
mut("C06", "r2-executing-outside-defer", "modules/tasks.go",
    "\t\tt.lock.Lock()\n\n\t\t// reset state\n\t\tt.executing = false\n", "\t\tt.lock.Lock()\n\n\t\t// reset state\n\t\tif panicVal == nil {\n\t\t\tt.executing = false\n\t\t}\n", "C06-R2|deferred reset of Task.executing")
mut("C06", "r2-ctrl-unset-only-ok", "modules/worker.go",
    "\t\t\t\tctrlFnError <- fmt.Errorf(\"panic: %s\", panicVal)\n\t\t\t}\n\n\t\t\t// Signal finish.\n\t\t\tm.ctrlFuncRunning.UnSet()\n\t\t\tm.checkIfStopComplete()", "\t\t\t\tctrlFnError <- fmt.Errorf(\"panic: %s\", panicVal)\n\t\t\t\treturn\n\t\t\t}\n\n\t\t\t// Signal finish.\n\t\t\tm.ctrlFuncRunning.UnSet()\n\t\t\tm.checkIfStopComplete()", "C06-R2|deferred ctrlFuncRunning.UnSet")
mut("C06", "r2-split-defers-lifo", "modules/worker.go",
    "\t\tdefer func() {\n\t\t\t// recover from panic\n\t\t\tpanicVal := recover()\n\t\t\tif panicVal != nil {\n\t\t\t\tme := m.NewPanicError(name, \"module-control\", panicVal)\n\t\t\t\tme.Report()\n\t\t\t\tctrlFnError <- fmt.Errorf(\"panic: %s\", panicVal)\n\t\t\t}\n\n\t\t\t// Signal finish.\n\t\t\tm.ctrlFuncRunning.UnSet()\n\t\t\tm.checkIfStopComplete()\n\t\t}()",
    "\t\tdefer func() {\n\t\t\t// recover from panic\n\t\t\tpanicVal := recover()\n\t\t\tif panicVal != nil {\n\t\t\t\tme := m.NewPanicError(name, \"module-control\", panicVal)\n\t\t\t\tme.Report()\n\t\t\t\tctrlFnError <- fmt.Errorf(\"panic: %s\", panicVal)\n\t\t\t}\n\t\t}()\n\t\tdefer func() {\n\t\t\t// Signal finish.\n\t\t\tm.ctrlFuncRunning.UnSet()\n\t\t\tm.checkIfStopComplete()\n\t\t}()", "C06-R2|panic error sent before completion")
mut("C06", "r3-no-stack", "modules/error.go",
    "\t\tPanicValue: panicValue,\n\t\tStackTrace: string(debug.Stack()),", "\t\tPanicValue: panicValue,\n\t\tStackTrace: \"\",", "C06-R3|StackTrace")
mut("C06", "r4-serve-direct", "api/router.go",
    "\t_ = module.RunWorker(\"http request\", func(_ context.Context) error {\n\t\treturn mh.handle(w, r)\n\t})", "\t_ = mh.handle(w, r)", "C06-R4|call mainHandler.handle")
mut("C06", "r5-default-returns", "modules/worker.go",
    "\t\tcase errors.Is(err, ErrRestartNow):\n\t\t\t// Worker requested a restart - silently continue with loop.\n", "\t\tcase errors.Is(err, ErrRestartNow):\n\t\t\t// Worker requested a restart - silently continue with loop.\n\n\t\tcase failCnt > 10:\n\t\t\treturn\n", "C06-R5|loop exit")
mut("C06", "r5-unwrap-panic", "modules/error.go",
    "// Error returns the string representation of the error.", "// Unwrap returns the wrapped error.\nfunc (me *ModuleError) Unwrap() error {\n\tif e, ok := me.PanicValue.(error); ok {\n\t\treturn e\n\t}\n\treturn nil\n}\n\n// Error returns the string representation of the error.", "C06-R5|panic value not exposed")

# ---- C07 -------------------------------------------------------------------
mut("C07", "r1-no-executing-check", "modules/tasks.go",
    "\t// check if task is already executing\n\tif t.executing {\n\t\tt.lock.Unlock()\n\t\treturn\n\t}\n", "", "C07-R1|guard !t.executing", canary=True)
mut("C07", "r1-launch-from-schedule", "modules/tasks.go",
    "\t\t\t\tscheduleLock.Unlock()\n\n\t\t\t\tt.runWithLocking()", "\t\t\t\tscheduleLock.Unlock()\n\n\t\t\t\tgo t.executeWithLocking()", "C07-R1|launch executeWithLocking")
mut("C07", "r1-reset-in-cancel", "modules/tasks.go",
    "\tt.canceled = true\n\tif t.cancelCtx != nil {", "\tt.canceled = true\n\tt.executing = false\n\tif t.cancelCtx != nil {", "C07-R1|Cancel / store Task.executing=false")
mut("C07", "r2-cancel-no-flag", "modules/tasks.go",
    "\tt.canceled = true\n\tif t.cancelCtx != nil {", "\tif t.cancelCtx != nil {", "C07-R2|Cancel")
mut("C07", "r2-uncancel", "modules/tasks.go",
    "\tt.executeAt = executeAt\n\n\tif executeAt.IsZero() {", "\tt.executeAt = executeAt\n\tt.canceled = false\n\n\tif executeAt.IsZero() {", "C07-R2|Schedule")
mut("C07", "r3-prioritized-front", "modules/tasks.go",
    "\t\tt.prioritizedQueueElement = prioritizedTaskQueue.PushBack(t)", "\t\tt.prioritizedQueueElement = prioritizedTaskQueue.PushFront(t)", "C07-R3|QueuePrioritized")
mut("C07", "r3-handler-normal-first", "modules/tasks.go",
    "\t\t\te := prioritizedTaskQueue.Front()\n\t\t\tif e != nil {\n\t\t\t\tprioritizedTaskQueue.Remove(e)\n\t\t\t} else {\n\t\t\t\te = taskQueue.Front()\n\t\t\t\tif e != nil {\n\t\t\t\t\ttaskQueue.Remove(e)\n\t\t\t\t}\n\t\t\t}",
    "\t\t\te := taskQueue.Front()\n\t\t\tif e != nil {\n\t\t\t\ttaskQueue.Remove(e)\n\t\t\t} else {\n\t\t\t\te = prioritizedTaskQueue.Front()\n\t\t\t\tif e != nil {\n\t\t\t\t\tprioritizedTaskQueue.Remove(e)\n\t\t\t\t}\n\t\t\t}", "C07-R3|normal queue pop")
mut("C07", "r3-queue-double", "modules/tasks.go",
    "\tif t.queueElement == nil {\n\t\tqueuesLock.Lock()\n\t\tt.queueElement = taskQueue.PushBack(t)\n\t\tqueuesLock.Unlock()\n\t}", "\tqueuesLock.Lock()\n\tt.queueElement = taskQueue.PushBack(t)\n\tqueuesLock.Unlock()", "C07-R3|guard queueElement==nil")
mut("C07", "r3-no-wait", "modules/tasks.go",
    "\t\t\t// wait for execution slot\n\t\t\tqueueWg.Wait()\n", "", "C07-R3|wait")
mut("C07", "r4-no-done", "modules/tasks.go",
    "\t\tselect {\n\t\tcase <-execCtx.Done():\n\t\tcase <-time.After(maxExecutionWait):\n\t\t}\n\t\t// complete queue worker (early) to allow next worker\n\t\tqueueWg.Done()", "\t\tselect {\n\t\tcase <-execCtx.Done():\n\t\t\t// complete queue worker (early) to allow next worker\n\t\t\tqueueWg.Done()\n\t\tcase <-time.After(maxExecutionWait):\n\t\t}", "C07-R4|Done on every path")
mut("C07", "r4-done-early", "modules/tasks.go",
    "\t\tselect {\n\t\tcase <-execCtx.Done():\n\t\tcase <-time.After(maxExecutionWait):\n\t\t}\n\t\t// complete queue worker (early) to allow next worker\n\t\tqueueWg.Done()", "\t\t_ = execCtx\n\t\t// complete queue worker (early) to allow next worker\n\t\tqueueWg.Done()", "C07-R4|Done after task end")
mut("C07", "r5-run-without-timer", "modules/tasks.go",
    "\t\tcase <-notifyTaskScheduler:\n\t\t\tcontinue\n\t\tcase <-waitUntilNextScheduledTask():", "\t\tcase <-waitUntilNextScheduledTask():\n\t\t\tcontinue\n\t\tcase <-notifyTaskScheduler:", "C07-R5|guard schedule timer fired")
mut("C07", "r5-insert-after-later", "modules/tasks.go",
    "\t\tif t.executeAt.Before(eVal.executeAt) {", "\t\tif eVal.executeAt.Before(t.executeAt) {", "C07-R5|guard t.executeAt.Before")
mut("C07", "r5-conditional-notify", "modules/tasks.go",
    "\tdefer func() {\n\t\tselect {\n\t\tcase notifyTaskScheduler <- struct{}{}:\n\t\tdefault:\n\t\t}\n\t}()\n\n\t// insert task into schedule", "\tdefer func() {\n\t\tif taskSchedule.Front() != t.scheduleListElement {\n\t\t\treturn\n\t\t}\n\t\tselect {\n\t\tcase notifyTaskScheduler <- struct{}{}:\n\t\tdefault:\n\t\t}\n\t}()\n\n\t// insert task into schedule", "C07-R5|handler woken")

# ---- C15 -------------------------------------------------------------------
mut("C15", "r1-leq-limit", "modules/microtasks.go",
    "if atomic.LoadInt32(microTasks) < atomic.LoadInt32(microTasksThreshhold) {", "if atomic.LoadInt32(microTasks) <= atomic.LoadInt32(microTasksThreshhold) {", "C15-R1|guard running < limit", canary=True)
mut("C15", "r1-no-count", "modules/microtasks.go",
    "\t\t\tif clearanceSignal != nil {\n\t\t\t\tclose(clearanceSignal)\n\t\t\t\tatomic.AddInt32(microTasks, 1)\n\t\t\t}\n\t\t\tclearanceSignal = nil\n\t\t} else {", "\t\t\tif clearanceSignal != nil {\n\t\t\t\tclose(clearanceSignal)\n\t\t\t}\n\t\t\tclearanceSignal = nil\n\t\t} else {", "C15-R1|counted")
mut("C15", "r2-low-timeout-inc", "modules/microtasks.go",
    "\t\t\t// Don't keep waiting for signal forever.\n\t\t\t// Don't increase microtask counter, as the signal was already submitted\n\t\t\t// and the counter will be increased by the scheduler.\n\t\t}\n\t}\n}\n\nfunc getLowPriorityClearance", "\t\t\tatomic.AddInt32(microTasks, 1)\n\t\t}\n\t}\n}\n\nfunc getLowPriorityClearance", "C15-R2|getMediumPriorityClearance")
mut("C15", "r2-high-no-inc", "modules/microtasks.go",
    "\t// Increase global counter here, as high priority tasks do not wait for clearance.\n\tatomic.AddInt32(microTasks, 1)\n\treturn m.runMicroTask(name, fn)", "\treturn m.runMicroTask(name, fn)", "C15-R2|RunHighPriorityMicroTask")
mut("C15", "r2-medium-timeout-no-inc", "modules/microtasks.go",
    "\t\tcase mediumPriorityClearance <- signal:\n\t\tcase <-time.After(maxDelay):\n\t\t\t// Start without clearance and increase microtask counter.\n\t\t\tatomic.AddInt32(microTasks, 1)\n\t\t\treturn", "\t\tcase mediumPriorityClearance <- signal:\n\t\tcase <-time.After(maxDelay):\n\t\t\t// Start without clearance.\n\t\t\treturn", "C15-R2|getMediumPriorityClearance")
mut("C15", "r3-done-not-once", "modules/microtasks.go",
    "\t\tif doneCalled.SetToIf(false, true) {\n\t\t\tm.concludeMicroTask()\n\t\t}", "\t\tdoneCalled.Set()\n\t\tm.concludeMicroTask()", "C15-R3|signalMicroTask$1")
mut("C15", "r3-check-before-dec", "modules/microtasks.go",
    "\tatomic.AddInt32(m.microTaskCnt, -1)\n\tm.checkIfStopComplete()\n", "\tm.checkIfStopComplete()\n\tatomic.AddInt32(m.microTaskCnt, -1)\n", "C15-R3|stop completion re-evaluated")
mut("C15", "r4-min-one", "modules/microtasks.go",
    "\tif n < 2 {\n\t\tatomic.StoreInt32(microTasksThreshhold, 2)", "\tif n < 1 {\n\t\tatomic.StoreInt32(microTasksThreshhold, 1)", "C15-R4|limit table")

# ---- C02 -------------------------------------------------------------------
mut("C02", "r1-close-before-err", "database/iterator/iterator.go",
    "\tit.errLock.Lock()\n\tit.err = err\n\tit.errLock.Unlock()\n\n\tclose(it.Next)\n\tif it.doneClosed.SetToIf(false, true) {\n\t\tclose(it.Done)\n\t}",
    "\tclose(it.Next)\n\tif it.doneClosed.SetToIf(false, true) {\n\t\tclose(it.Done)\n\t}\n\n\tit.errLock.Lock()\n\tdefer it.errLock.Unlock()\n\tit.err = err", "C02-R1|err stored before close(it.Next)", canary=True, comment="reverts fix a503813")
mut("C02", "r2-bbolt-finish-nil", "database/storage/bbolt/bbolt.go",
    "\t\treturn nil\n\t})\n\tqueryIter.Finish(err)", "\t\treturn nil\n\t})\n\t_ = err\n\tqueryIter.Finish(nil)", "C02-R2|bbolt.(*BBolt).queryExecutor / Finish receives")
mut("C02", "r2-hashmap-early-return", "database/storage/hashmap/map.go",
    "\t\t\tcase <-time.After(1 * time.Second):\n\t\t\t\terr = errors.New(\"query timeout\")\n\t\t\t\tbreak mapLoop", "\t\t\tcase <-time.After(1 * time.Second):\n\t\t\t\terr = errors.New(\"query timeout\")\n\t\t\t\treturn", "C02-R2|hashmap.(*HashMap).queryExecutor / exit")
mut("C02", "r3-badger-no-validity", "database/storage/badger/badger.go",
    "\t\t\tif !r.Meta().CheckValidity() {\n\t\t\t\tcontinue\n\t\t\t}\n", "", "C02-R3|badger.(*Badger).queryExecutor$1")
mut("C02", "r3-controller-get-no-validity", "database/controller.go",
    "\tif !r.Meta().CheckValidity() {\n\t\treturn nil, ErrNotFound\n\t}\n\n\treturn r, nil", "\treturn r, nil", "C02-R3|database.(*Controller).Get / return record")
mut("C02", "r3-fstree-no-prefix", "database/storage/fstree/fstree.go",
    "\t\tif !q.MatchesKey(key) {\n\t\t\t// The walk starts at a directory, which may hold more than the\n\t\t\t// records that match the key prefix.\n\t\t\treturn nil\n\t\t}\n", "", "C02-R3|fstree.(*FSTree).queryExecutor$1", comment="reverts fix e083df2")
mut("C02", "r3-hashmap-no-matches", "database/storage/hashmap/map.go",
    "\t\t\t!q.MatchesRecord(record) ||\n", "", "C02-R3|hashmap.(*HashMap).queryExecutor")
mut("C02", "r4-delete-no-evict", "database/interface.go",
    "\t// Remove the record from the cache, it would be served from there otherwise.\n\t// The record may not be locked when updating the cache.\n\ti.updateCache(r, false, true, 0)\n\n", "", "C02-R4|deleted record leaves the read cache", comment="reverts fix cd75049")
mut("C02", "r4-ttl-absolute", "database/interface.go",
    "\tttl := r.Meta().GetRelativeExpiry()\n\tr.Unlock()\n\ti.updateCache(\n\t\tr,\n\t\tfalse, // writing", "\tttl := r.Meta().GetAbsoluteExpiry()\n\tr.Unlock()\n\ti.updateCache(\n\t\tr,\n\t\tfalse, // writing", "C02-R4|getRecord / updateCache ttl")
mut("C02", "r4-flush-inverted", "database/interface_cache.go",
    "\tif i.options.DelayCachedWrites == \"\" {\n\t\treturn\n\t}\n\n\ti.flushWriteCache(0)", "\tif i.options.DelayCachedWrites != \"\" {\n\t\treturn\n\t}\n\n\ti.flushWriteCache(0)", "C02-R4|FlushCache", comment="reverts fix e8fac73")
mut("C02", "r5-hashmap-geq", "database/storage/hashmap/map.go",
    "\t\tcase meta.Deleted > 0 && (!shadowDelete || meta.Deleted < purgeThreshold):", "\t\tcase meta.Deleted >= 0 && (!shadowDelete || meta.Deleted < purgeThreshold):", "C02-R5|hashmap.(*HashMap).MaintainRecordStates")
mut("C02", "r5-bbolt-expires-future", "database/storage/bbolt/bbolt.go",
    "\t\t\tcase meta.Deleted == 0 && meta.Expires > 0 && meta.Expires < now:", "\t\t\tcase meta.Deleted == 0 && meta.Expires > 0 && meta.Expires > now:", "C02-R5|bbolt.(*BBolt).MaintainRecordStates$1")
mut("C02", "r5-controller-put-always-delete", "database/controller.go",
    "\tif !c.shadowDelete && r.Meta().IsDeleted() {", "\tif r.Meta().IsDeleted() {", "C02-R5|database.(*Controller).Put / delete-vs-put table")
mut("C02", "r6-purge-no-deleted-check", "database/storage/bbolt/bbolt.go",
    "\t\t\t\t// Check if record is already deleted.\n\t\t\t\tif wrapper.Meta().IsDeleted() {\n\t\t\t\t\tcontinue\n\t\t\t\t}\n", "", "C02-R6|guard !IsDeleted()")
mut("C02", "r6-purge-batch-ends", "database/storage/bbolt/bbolt.go",
    "\t\t\t\tif cnt%1000 == 0 {\n\t\t\t\t\treturn nil\n\t\t\t\t}", "\t\t\t\tif cnt%1000 == 0 {\n\t\t\t\t\tdone = true\n\t\t\t\t\treturn nil\n\t\t\t\t}", "C02-R6|purge loop ends")
mut("C02", "r7-fstree-get-raw-error", "database/storage/fstree/fstree.go",
    "\t\tif errors.Is(err, fs.ErrNotExist) {\n\t\t\treturn nil, storage.ErrNotFound\n\t\t}\n\t\treturn nil, fmt.Errorf(\"fstree: failed to read file %s: %w\", dstPath, err)", "\t\treturn nil, fmt.Errorf(\"fstree: failed to read file %s: %w\", dstPath, err)", "C02-R7|fstree.(*FSTree).Get")

# ---- C14 -------------------------------------------------------------------
mut("C14", "r1-notify-before-write", "database/controller.go",
    "\tr, err = c.runPrePutHooks(r)\n\tif err != nil {\n\t\treturn err\n\t}\n", "\tr, err = c.runPrePutHooks(r)\n\tif err != nil {\n\t\treturn err\n\t}\n\tc.notifySubscribers(r)\n", "C14-R1|notifySubscribers", canary=True)
mut("C14", "r1-notify-on-error", "database/controller.go",
    "\tif err != nil {\n\t\treturn err\n\t}\n\n\tif r == nil {\n\t\treturn errors.New(\"storage returned nil record after successful put operation\")\n\t}\n\n\tc.notifySubscribers(r)",
    "\tif r == nil {\n\t\treturn errors.New(\"storage returned nil record after successful put operation\")\n\t}\n\n\tc.notifySubscribers(r)\n\n\tif err != nil {\n\t\treturn err\n\t}", "C14-R1|guard storage write error == nil")
mut("C14", "r1-notifications-push-on-delete", "notifications/database.go",
    "\tn.delete(false)\n\treturn nil", "\tn.delete(true)\n\treturn nil", "C14-R1|notifications.(*StorageInterface).Delete", comment="reverts fix 5d97975")
mut("C14", "r1-config-exported-set", "config/database.go",
    "\t\terr := setConfigOption(r.DatabaseKey(), nil, false)\n\t\tif err != nil {\n\t\t\treturn nil, err\n\t\t}\n\t\treturn s.Get(r.DatabaseKey())", "\t\terr := SetConfigOption(r.DatabaseKey(), nil)\n\t\tif err != nil {\n\t\t\treturn nil, err\n\t\t}\n\t\treturn s.Get(r.DatabaseKey())", "C14-R1|config.(*StorageInterface).Put")
mut("C14", "r2-cancel-rlock", "database/subscription.go",
    "\tc.subscriptionLock.Lock()\n\tdefer c.subscriptionLock.Unlock()", "\tc.subscriptionLock.RLock()\n\tdefer c.subscriptionLock.RUnlock()", "C14-R2|under write lock")
mut("C14", "r2-blocking-send", "database/controller.go",
    "\t\t\tselect {\n\t\t\tcase sub.Feed <- r:\n\t\t\tdefault:\n\t\t\t}", "\t\t\tsub.Feed <- r", "C14-R2|non-blocking")
mut("C14", "r2-snapshot-then-send", "database/controller.go",
    "\tc.subscriptionLock.RLock()\n\tdefer c.subscriptionLock.RUnlock()\n\n\tfor _, sub := range c.subscriptions {", "\tc.subscriptionLock.RLock()\n\tsubs := make([]*Subscription, len(c.subscriptions))\n\tcopy(subs, c.subscriptions)\n\tc.subscriptionLock.RUnlock()\n\n\tfor _, sub := range subs {", "C14-R2|under subscriptionLock")
mut("C14", "r2-close-always", "database/subscription.go",
    "\t\t\tc.subscriptions = append(c.subscriptions[:key], c.subscriptions[key+1:]...)\n\t\t\tclose(s.Feed) // this close is guarded by the controllers subscriptionLock.\n\t\t\treturn nil\n\t\t}\n\t}\n\treturn nil", "\t\t\tc.subscriptions = append(c.subscriptions[:key], c.subscriptions[key+1:]...)\n\t\t\tbreak\n\t\t}\n\t}\n\tclose(s.Feed) // this close is guarded by the controllers subscriptionLock.\n\treturn nil", "C14-R2|close Subscription.Feed")
mut("C14", "r3-preput-uses-postget", "database/controller.go",
    "\t\tif !hook.h.UsesPrePut() {", "\t\tif !hook.h.UsesPostGet() {", "C14-R3|runPrePutHooks")
mut("C14", "r3-preget-after-storage", "database/controller.go",
    "\tif err := c.runPreGetHooks(key); err != nil {\n\t\treturn nil, err\n\t}\n\n\tr, err := c.storage.Get(key)\n\tif err != nil {\n\t\t// replace not found error\n\t\tif errors.Is(err, storage.ErrNotFound) {\n\t\t\treturn nil, ErrNotFound\n\t\t}\n\t\treturn nil, err\n\t}\n\n\tr.Lock()",
    "\tr, err := c.storage.Get(key)\n\tif err != nil {\n\t\t// replace not found error\n\t\tif errors.Is(err, storage.ErrNotFound) {\n\t\t\treturn nil, ErrNotFound\n\t\t}\n\t\treturn nil, err\n\t}\n\n\tif err := c.runPreGetHooks(key); err != nil {\n\t\treturn nil, err\n\t}\n\n\tr.Lock()", "C14-R3|pre-get hooks before the storage read")
mut("C14", "r3-postget-no-match", "database/controller.go",
    "\t\tif !hook.h.UsesPostGet() {\n\t\t\tcontinue\n\t\t}\n\n\t\tif !hook.q.Matches(r) {\n\t\t\tcontinue\n\t\t}\n", "\t\tif !hook.h.UsesPostGet() {\n\t\t\tcontinue\n\t\t}\n", "C14-R3|runPostGetHooks")
mut("C14", "r3-preput-error-ignored", "database/controller.go",
    "\t\tr, err = hook.h.PrePut(r)\n\t\tif err != nil {\n\t\t\treturn nil, err\n\t\t}", "\t\tr, err = hook.h.PrePut(r)\n\t\tif err != nil {\n\t\t\tcontinue\n\t\t}", "C14-R3|veto propagates")
mut("C14", "r4-sub-cancel-by-query", "database/subscription.go",
    "\t\tif sub == s {", "\t\tif sub.q == s.q {", "C14-R4|Subscription).Cancel", comment="reverts fix 313bd77")
mut("C14", "r4-hook-cancel-by-query", "database/hook.go",
    "\t\tif hook == h {", "\t\tif hook.q == h.q {", "C14-R4|RegisteredHook).Cancel", comment="reverts fix 9fca7da")

# ---- C04 -------------------------------------------------------------------
mut("C04", "r1-default-before-user", "config/get.go",
    "\tif option.ReleaseLevel <= getReleaseLevel() && option.activeValue != nil {\n\t\treturn option, option.activeValue\n\t}\n\n\tif option.activeDefaultValue != nil {\n\t\treturn option, option.activeDefaultValue\n\t}",
    "\tif option.activeDefaultValue != nil {\n\t\treturn option, option.activeDefaultValue\n\t}\n\n\tif option.ReleaseLevel <= getReleaseLevel() && option.activeValue != nil {\n\t\treturn option, option.activeValue\n\t}", "C04-R1|getValueCache", canary=True)
mut("C04", "r1-release-gate-inverted", "config/get.go",
    "if option.ReleaseLevel <= getReleaseLevel() && option.activeValue != nil {", "if option.ReleaseLevel >= getReleaseLevel() && option.activeValue != nil {", "C04-R1|getValueCache", occurrence=1)
mut("C04", "r1-releaselevel-default-wins", "config/release.go",
    "\tif releaseLevelOption.activeDefaultValue != nil {\n\t\tvalue = releaseLevelOption.activeDefaultValue\n\t}\n\tif releaseLevelOption.activeValue != nil {\n\t\tvalue = releaseLevelOption.activeValue\n\t}",
    "\tif releaseLevelOption.activeValue != nil {\n\t\tvalue = releaseLevelOption.activeValue\n\t}\n\tif releaseLevelOption.activeDefaultValue != nil {\n\t\tvalue = releaseLevelOption.activeDefaultValue\n\t}", "C04-R1|updateReleaseLevel", comment="reverts fix 9b51681")
mut("C04", "r1-perspective-gate", "config/perspective.go",
    "\tif pOption.option.ReleaseLevel > getReleaseLevel() {", "\tif pOption.option.ReleaseLevel >= getReleaseLevel() {", "C04-R1|getPerspectiveValueCache")
mut("C04", "r2-value-before-flag", "config/get.go",
    "\t\tif !valid.IsSet() {\n\t\t\tvalid = getValidityFlag()\n\t\t\toption, valueCache = getValueCache(name, option, OptTypeBool)", "\t\tif !valid.IsSet() {\n\t\t\toption, valueCache = getValueCache(name, option, OptTypeBool)\n\t\t\tvalid = getValidityFlag()", "C04-R2|GetAsBool$1 / flag before value")
mut("C04", "r2-refresh-when-valid", "config/get.go",
    "\treturn func() int64 {\n\t\tif !valid.IsSet() {", "\treturn func() int64 {\n\t\tif valid.IsSet() {", "C04-R2|GetAsInt$1")
mut("C04", "r2-flag-not-kept", "config/get-safe.go",
    "\t\tif !valid.IsSet() {\n\t\t\tvalid = getValidityFlag()\n\t\t\toption, valueCache = getValueCache(name, option, OptTypeString)", "\t\tif !valid.IsSet() {\n\t\t\t_ = getValidityFlag()\n\t\t\toption, valueCache = getValueCache(name, option, OptTypeString)", "C04-R2|fetched flag is kept")
mut("C04", "r3-no-mutex", "config/get-safe.go",
    "\treturn func() int64 {\n\t\tlock.Lock()\n\t\tdefer lock.Unlock()\n", "\treturn func() int64 {\n\t\tlock.Lock()\n\t\tlock.Unlock()\n", "C04-R3|GetAsInt$1")
mut("C04", "r4-no-signal", "config/set.go",
    "\t// finalize change, activate triggers\n\tsignalChanges()\n\n\treturn SaveConfig()", "\treturn SaveConfig()", "C04-R4|setConfigOption / successful return")
mut("C04", "r4-signal-only-without-user-value", "config/set.go",
    "\t// finalize change, activate triggers\n\tsignalChanges()\n\n\t// Do not save the configuration", "\t// finalize change, activate triggers\n\tif !option.IsSetByUser() {\n\t\tsignalChanges()\n\t}\n\n\t// Do not save the configuration", "C04-R4|setDefaultConfigOption / successful return")
mut("C04", "r4-store-invalid", "config/set.go",
    "\t\t\t\tvalueCache, err := validateValue(option, newValue)\n\t\t\t\tif err == nil {\n\t\t\t\t\toption.activeValue = valueCache\n\t\t\t\t} else {", "\t\t\t\tvalueCache, err := validateValue(option, newValue)\n\t\t\t\toption.activeValue = valueCache\n\t\t\t\tif err != nil {", "C04-R4|ReplaceConfig$1")
mut("C04", "r4-invalidate-outside-lock", "config/set.go",
    "\tvalidityFlagLock.Lock()\n\tvalidityFlag.SetTo(false)\n\tvalidityFlag = abool.NewBool(true)", "\tvalidityFlag.SetTo(false)\n\tvalidityFlagLock.Lock()\n\tvalidityFlag = abool.NewBool(true)", "C04-R4|invalidate under write lock")
mut("C04", "r4-install-before-invalidate", "config/set.go",
    "\tvalidityFlag.SetTo(false)\n\tvalidityFlag = abool.NewBool(true)\n\tvalidityFlagLock.Unlock()", "\told := validityFlag\n\tvalidityFlag = abool.NewBool(true)\n\tvalidityFlagLock.Unlock()\n\told.SetTo(false)", "C04-R4|signalChanges")
mut("C04", "r4-foreign-writer", "config/option.go",
    "func (option *Option) Export() (record.Record, error) {\n\toption.Lock()\n\tdefer option.Unlock()\n", "func (option *Option) Export() (record.Record, error) {\n\toption.Lock()\n\tdefer option.Unlock()\n\tif option.activeValue == option.activeDefaultValue {\n\t\toption.activeValue = nil\n\t}\n", "C04-R4|Export")
mut("C04", "r5-safe-bool-wrong-type", "config/get-safe.go",
    "\toption, valueCache := getValueCache(name, nil, OptTypeBool)", "\toption, valueCache := getValueCache(name, nil, OptTypeInt)", "C04-R5|(*safe).GetAsBool")

# ---- C12 -------------------------------------------------------------------
mut("C12", "r1-no-auth-check", "api/router.go",
    "\tif apiRequest.AuthToken == nil {\n\t\t// Authenticator already replied.\n\t\treturn nil\n\t}\n", "", "C12-R1|authenticateRequest(...) != nil", canary=True)
mut("C12", "r1-origin-default-falls-through", "api/router.go",
    "\t\t\thttp.Error(lrw, \"Cross-Origin Request Denied.\", http.StatusForbidden)\n\t\t\treturn nil\n", "\t\t\thttp.Error(lrw, \"Cross-Origin Request Denied.\", http.StatusForbidden)\n", "C12-R1|origin decision")
mut("C12", "r1-origin-suffix-match", "api/router.go",
    "\t\tcase originURL.Hostname() == r.Host:", "\t\tcase strings.HasSuffix(r.Host, originURL.Hostname()):", "C12-R1|origin decision")
mut("C12", "r1-dev-origins-without-devmode", "api/router.go",
    "\t\tcase devMode() &&\n\t\t\tutils.StringInSlice(allowedDevCORSOrigins, originURL.Hostname()):", "\t\tcase utils.StringInSlice(allowedDevCORSOrigins, originURL.Hostname()):", "C12-R1|dev origin list consulted")
mut("C12", "r1-module-not-ready-served", "api/router.go",
    "\t\tif !moduleIsReady(moduleHandler.BelongsTo()) {\n\t\t\thttp.Error(lrw, \"The API endpoint is not ready yet. Reload (F5) to try again.\", http.StatusServiceUnavailable)\n\t\t\treturn nil\n\t\t}", "\t\tif !moduleIsReady(moduleHandler.BelongsTo()) {\n\t\t\ttracer.Debug(\"api: module not ready\")\n\t\t}", "C12-R1|module ready")
mut("C12", "r2-compare-inverted", "api/authentication.go",
    "\tif requestPermission < requiredPermission {", "\tif requestPermission > requiredPermission {", "C12-R2|decision table")
mut("C12", "r2-read-uses-write-token", "api/authentication.go",
    "\tif readMethod {\n\t\trequestPermission = token.Read\n\t} else {\n\t\trequestPermission = token.Write\n\t}", "\tif readMethod {\n\t\trequestPermission = token.Write\n\t} else {\n\t\trequestPermission = token.Read\n\t}", "C12-R2|decision table")
mut("C12", "r2-handled-ignored", "api/authentication.go",
    "\tswitch {\n\tcase handled:\n\t\treturn nil\n\tcase token == nil:", "\tswitch {\n\tcase handled && token == nil && requiredPermission > PermitUser:\n\t\treturn nil\n\tcase token == nil:", "C12-R2|decision table")
mut("C12", "r2-no-range-check", "api/authentication.go",
    "\tif requestPermission < PermitAnyone || requestPermission > PermitSelf {\n\t\ttracer.Warningf(\n\t\t\t\"api: authenticator returned invalid permission", "\tif requestPermission < PermitAnyone {\n\t\ttracer.Warningf(\n\t\t\t\"api: authenticator returned invalid permission", "C12-R2|decision table")
mut("C12", "r2-notsupported-continues", "api/authentication.go",
    "\tcase NotSupported:\n\t\t// A read or write permission can be marked as not supported.\n\t\ttracer.Trace(\"api: authenticated handler reported: not supported\")\n\t\thttp.Error(w, \"Method not allowed.\", http.StatusMethodNotAllowed)\n\t\treturn nil", "\tcase NotSupported:\n\t\t// A read or write permission can be marked as not supported.\n\t\ttracer.Trace(\"api: authenticated handler reported: not supported\")\n\t\trequiredPermission = PermitAnyone", "C12-R2|decision table")
mut("C12", "r3-apikey-no-expiry-check", "api/authentication.go",
    "\tif token.ValidUntil != nil && time.Now().After(*token.ValidUntil) {\n\t\tlog.Tracer(r.Context()).Warningf(\"api: denying api access from %s using expired token\", r.RemoteAddr)\n\t\treturn nil\n\t}\n", "", "C12-R3|expiry checked")
mut("C12", "r3-session-no-expiry", "api/authentication.go",
    "\tif sess.Expired() {\n\t\tlog.Tracer(r.Context()).Tracef(\"api: provided session cookie %s has expired\", c.Value)\n\t\treturn nil\n\t}\n", "", "C12-R3|checkSessionCookie")
mut("C12", "r3-bridge-self", "api/authentication.go",
    "\t\t\tRead:  dbCompatibilityPermission,\n\t\t\tWrite: dbCompatibilityPermission,", "\t\t\tRead:  PermitSelf,\n\t\t\tWrite: PermitSelf,", "C12-R3|token literal PermitSelf")
mut("C12", "r3-parse-self", "api/authentication.go",
    "\tcase \"admin\":\n\t\treturn PermitAdmin, nil", "\tcase \"admin\":\n\t\treturn PermitAdmin, nil\n\tcase \"self\":\n\t\treturn PermitSelf, nil", "C12-R3|parseAPIPermission")
mut("C12", "r3-keys-empty-early-return", "api/authentication.go",
    "\tlog.Debug(\"api: importing possibly updated API keys from config\")\n", "\tlog.Debug(\"api: importing possibly updated API keys from config\")\n\tif len(configuredAPIKeys()) == 0 {\n\t\treturn nil\n\t}\n", "C12-R3|after clearing the key map")
mut("C12", "r3-expired-key-stored", "api/authentication.go",
    "\t\t\tif time.Now().After(validUntil) {\n\t\t\t\t// mark the key as expired so we'll remove it from the setting afterwards\n\t\t\t\thasExpiredKeys = true\n\n\t\t\t\tcontinue\n\t\t\t}", "\t\t\tif time.Now().After(validUntil) {\n\t\t\t\t// mark the key as expired so we'll remove it from the setting afterwards\n\t\t\t\thasExpiredKeys = true\n\t\t\t}", "C12-R3|expired keys are not stored")
mut("C12", "r4-short-key-slice", "api/authentication.go",
    "\t\tkeyHint := key\n\t\tif len(keyHint) > 4 {\n\t\t\tkeyHint = keyHint[:4]\n\t\t}", "\t\tkeyHint := key[:4]", "C12-R4|slice", comment="reverts fix aad8502")
mut("C12", "r5-delete-is-read", "api/authentication.go",
    "\tcase http.MethodGet, http.MethodHead:\n\t\treturn http.MethodGet, true, true\n\tcase http.MethodPost, http.MethodPut, http.MethodDelete:", "\tcase http.MethodGet, http.MethodHead, http.MethodDelete:\n\t\treturn http.MethodGet, true, true\n\tcase http.MethodPost, http.MethodPut:", "C12-R5|method class table")
mut("C12", "r5-write-returns-read", "api/endpoints.go",
    "\tif apiEndpoint != nil {\n\t\treturn apiEndpoint.Write\n\t}", "\tif apiEndpoint != nil {\n\t\treturn apiEndpoint.Read\n\t}", "C12-R5|WritePermission")

# ---- C13 -------------------------------------------------------------------
mut("C13", "r1-delete-double-reply", "api/database.go",
    "\terr := api.db.Delete(key)\n\tif err != nil {\n\t\tapi.send(opID, dbMsgTypeError, err.Error(), nil)\n\t\treturn\n\t}", "\terr := api.db.Delete(key)\n\tif err != nil {\n\t\tapi.send(opID, dbMsgTypeError, err.Error(), nil)\n\t}", "C13-R1|handleDelete / exactly one reply", canary=True)
mut("C13", "r1-get-nil-opid", "api/database.go",
    "\tapi.send(opID, dbMsgTypeOk, r.Key(), data)\n}\n\nfunc (api *DatabaseAPI) handleQuery", "\tapi.send(nil, dbMsgTypeOk, r.Key(), data)\n}\n\nfunc (api *DatabaseAPI) handleQuery", "C13-R1|operation ID")
mut("C13", "r1-put-no-reply-on-error", "api/database.go",
    "\tif err != nil {\n\t\tapi.send(opID, dbMsgTypeError, err.Error(), nil)\n\t\treturn\n\t}\n\tapi.send(opID, dbMsgTypeSuccess, emptyString, nil)\n}\n\nfunc (api *DatabaseAPI) handleInsert", "\tif err != nil {\n\t\treturn\n\t}\n\tapi.send(opID, dbMsgTypeSuccess, emptyString, nil)\n}\n\nfunc (api *DatabaseAPI) handleInsert", "C13-R1|handlePut / exactly one reply")
mut("C13", "r1-query-no-done-on-error", "api/database.go",
    "\t\t\t\tif it.Err() != nil {\n\t\t\t\t\tapi.send(opID, dbMsgTypeError, it.Err().Error(), nil)\n\t\t\t\t\treturn false\n\t\t\t\t}", "\t\t\t\tif it.Err() != nil {\n\t\t\t\t\treturn false\n\t\t\t\t}", "C13-R1|processQuery / exit")
mut("C13", "r1-get-wrong-type", "api/database.go",
    "\tapi.send(opID, dbMsgTypeOk, r.Key(), data)\n}\n\nfunc (api *DatabaseAPI) handleQuery", "\tapi.send(opID, dbMsgTypeSuccess, r.Key(), data)\n}\n\nfunc (api *DatabaseAPI) handleQuery", "C13-R1|message type")
mut("C13", "r1-qsub-query-first", "api/database.go",
    "\tsub, ok := api.registerSub(opID, q)\n\tif !ok {\n\t\treturn\n\t}\n\tok = api.processQuery(opID, q)\n\tif !ok {\n\t\treturn\n\t}\n\tapi.processSub(opID, sub)", "\tok := api.processQuery(opID, q)\n\tif !ok {\n\t\treturn\n\t}\n\tsub, ok := api.registerSub(opID, q)\n\tif !ok {\n\t\treturn\n\t}\n\tapi.processSub(opID, sub)", "C13-R1|subscribe before query")
mut("C13", "r2-update-creates", "api/database.go",
    "\t\t\tgo api.handlePut(parts[0], string(dataParts[0]), dataParts[1], false)", "\t\t\tgo api.handlePut(parts[0], string(dataParts[0]), dataParts[1], true)", "C13-R2|dispatch table")
mut("C13", "r2-malformed-dropped", "api/database.go",
    "\tif len(parts) != 3 {\n\t\tapi.send(nil, dbMsgTypeError, \"bad request: malformed message\", nil)\n\t\treturn\n\t}", "\tif len(parts) != 3 {\n\t\treturn\n\t}", "C13-R2|dispatch table")
mut("C13", "r2-sub-to-qsub", "api/database.go",
    "\t\tgo api.handleSub(parts[0], string(parts[2]))", "\t\tgo api.handleQsub(parts[0], string(parts[2]))", "C13-R2|")
mut("C13", "r3-insert-no-nil-check", "api/database.go",
    "\tif acc == nil {\n\t\tapi.send(opID, dbMsgTypeError, \"record does not support inserting values\", nil)\n\t\treturn\n\t}\n", "", "C13-R3|handleInsert", comment="reverts fix ed67906")
mut("C13", "r3-matches-no-nil-check", "database/query/query.go",
    "\tacc := r.GetAccessor(r)\n\tif acc == nil {\n\t\treturn false\n\t}\n\treturn q.where.complies(acc)", "\tacc := r.GetAccessor(r)\n\treturn q.where.complies(acc)", "C13-R3|MatchesRecord")

# ---- C10 -------------------------------------------------------------------
mut("C10", "r1-unpack8-count-one", "formats/varint/varint.go",
    "\treturn blob[0], 2, nil", "\treturn blob[0], 1, nil", "C10-R1|Unpack8", canary=True, comment="reverts fix 3f3cbb2")
mut("C10", "r1-unpack8-no-len2", "formats/varint/varint.go",
    "\tif len(blob) < 2 {\n\t\treturn 0, 0, ErrBufTooSmall\n\t}\n", "", "C10-R1|blob[1] guarded")
mut("C10", "r1-unpack8-any-continuation", "formats/varint/varint.go",
    "\tif blob[1] != 0x01 {", "\tif blob[1] > 0x01 {", "C10-R1|decision table")
mut("C10", "r2-unpack16-limit", "formats/varint/varint.go",
    "\tif n > 65535 {", "\tif n > 65536 {", "C10-R2|Unpack16")
mut("C10", "r2-unpack32-limit-shift", "formats/varint/varint.go",
    "\tif n > 4294967295 {", "\tif n > 1<<32 {", "C10-R2|Unpack32")
mut("C10", "r2-unpack64-overflow-ignored", "formats/varint/varint.go",
    "\tif r < 0 {\n\t\treturn 0, 0, errors.New(\"varint: encoded integer greater than 18446744073709551615 (uint64)\")\n\t}\n\treturn n, r, nil", "\tif r < 0 {\n\t\tr = -r\n\t}\n\treturn n, r, nil", "C10-R2|Unpack64")
mut("C10", "r2-pack32-small-buffer", "formats/varint/varint.go",
    "\tbuf := make([]byte, 5)", "\tbuf := make([]byte, 4)", "C10-R2|Pack32 / buffer size")
mut("C10", "r2-pack8-threshold", "formats/varint/varint.go",
    "func Pack8(n uint8) []byte {\n\tif n < 128 {", "func Pack8(n uint8) []byte {\n\tif n <= 128 {", "C10-R2|Pack8")
mut("C10", "r3-size-boundary", "formats/varint/helpers.go",
    "\tcase n < 1<<14: // < 16384", "\tcase n < 1<<13: // < 16384", "C10-R3|EncodedSize")
mut("C10", "r3-size-leq", "formats/varint/helpers.go",
    "\tcase n < 1<<35: // < 34359738368", "\tcase n <= 1<<35: // < 34359738368", "C10-R3|EncodedSize")
mut("C10", "r4-signed-check", "formats/varint/helpers.go",
    "\tif l > uint64(len(data)-n) {\n\t\treturn nil, 0, errors.New(\"varint: not enough data for given block length\")\n\t}\n\tlength := int(l)\n\ttotalLength := length + n", "\tlength := int(l)\n\ttotalLength := length + n\n\tif totalLength > len(data) {\n\t\treturn nil, 0, errors.New(\"varint: not enough data for given block length\")\n\t}", "C10-R4|bounded before conversion", comment="reverts fix 50ce3d2")
mut("C10", "r4-forgets-prefix", "formats/varint/helpers.go",
    "\tif l > uint64(len(data)-n) {", "\tif l > uint64(len(data)) {", "C10-R4|bounded before conversion")
mut("C10", "r4-count-without-prefix", "formats/varint/helpers.go",
    "\treturn data[n:totalLength], totalLength, nil", "\treturn data[n:totalLength], length, nil", "C10-R4|count is n+l")

# ---- C08 -------------------------------------------------------------------
mut("C08", "r1-offset-not-advanced-check", "database/record/wrapper.go",
    "\tmetaSection, n, err := varint.GetNextBlock(data[offset:])\n\tif err != nil {\n\t\treturn nil, fmt.Errorf(\"could not get meta section: %w\", err)\n\t}\n\toffset += n", "\tmetaSection, n, err := varint.GetNextBlock(data[offset:])\n\toffset += n\n\tif err != nil {\n\t\treturn nil, fmt.Errorf(\"could not get meta section: %w\", err)\n\t}", "C08-R1|count", canary=True)
mut("C08", "r1-fixed-offset", "database/record/wrapper.go",
    "\t\tformat,\n\t\tdata[offset:],\n\t}, nil", "\t\tformat,\n\t\tdata[offset+1:],\n\t}, nil", "C08-R1|offset provenance")
mut("C08", "r1-gencode-guard-small", "database/record/meta-gencode.go",
    "\tif len(buf) < m.GenCodeSize() {", "\tif len(buf) < 33 {", "C08-R1|indexed reads")
mut("C08", "r2-size-33", "database/record/meta-gencode.go",
    "\ts += 34\n\treturn", "\ts += 33\n\treturn", "C08-R2|size equals bytes written")
mut("C08", "r3-swap-flag-bytes", "database/record/meta-gencode.go",
    "\t\tm.secret = buf[32] == 1\n\t}\n\t{\n\t\tm.cronjewel = buf[33] == 1", "\t\tm.secret = buf[33] == 1\n\t}\n\t{\n\t\tm.cronjewel = buf[32] == 1", "C08-R3|flag bytes")
mut("C08", "r3-shift-typo", "database/record/meta-gencode.go",
    "(int64(buf[5+16]) << 40)", "(int64(buf[5+16]) << 32)", "C08-R3|byte layout")
mut("C08", "r3-isdeleted-nonzero", "database/record/meta.go",
    "func (m *Meta) IsDeleted() bool {\n\treturn m.Deleted > 0", "func (m *Meta) IsDeleted() bool {\n\treturn m.Deleted != 0", "C08-R3|'no data for deleted' predicate")
mut("C08", "r3-base-marshal-geq", "database/record/base.go",
    "\tif b.Meta().Deleted > 0 {\n\t\treturn nil, nil\n\t}", "\tif b.Meta().Deleted >= 0 && b.Meta().Deleted != 0 || b.Meta().Deleted < -1 {\n\t\treturn nil, nil\n\t}", "C08-R3|'no data for deleted' predicate")
mut("C08", "r3-wrapper-meta-json", "database/record/wrapper.go",
    "\tmetaSection, err := dsd.Dump(w.meta, dsd.GenCode)", "\tmetaSection, err := dsd.Dump(w.meta, dsd.JSON)", "C08-R3|section sequence")
mut("C08", "r3-version-2", "database/record/base.go",
    "\tc := container.New([]byte{1})", "\tc := container.New([]byte{2})", "C08-R3|version byte")
mut("C08", "r4-raw-format-byte", "database/record/wrapper.go",
    "\tformatID := varint.Pack8(w.Format)\n\tdata := make([]byte, 0, len(formatID)+len(w.Data))\n\tdata = append(data, formatID...)\n\tdata = append(data, w.Data...)", "\tdata := make([]byte, len(w.Data)+1)\n\tdata[0] = w.Format\n\tcopy(data[1:], w.Data)", "C08-R4|format identifier encoding", comment="reverts fix c5a380d")
mut("C08", "r5-block-forgets-prefix", "formats/varint/helpers.go",
    "\tif l > uint64(len(data)-n) {", "\tif l > uint64(len(data)) {", "C08-R5|bounded before conversion")

# ---- C16 -------------------------------------------------------------------
mut("C16", "r1-replace-keeps-offset", "container/container.go",
    "\tc.compartments = [][]byte{data}\n\tc.offset = 0\n}", "\tc.compartments = [][]byte{data}\n}", "C16-R1|Replace", canary=True, comment="reverts fix 3f128d4")
mut("C16", "r1-unmarshal-keeps-offset", "container/serialization.go",
    "\tc.compartments = [][]byte{raw}\n\tc.offset = 0", "\tc.compartments = [][]byte{raw}", "C16-R1|UnmarshalJSON")
mut("C16", "r2-peek-unguarded", "container/container.go",
    "\tif c.offset < len(c.compartments) && len(c.compartments[c.offset]) >= n {", "\tif len(c.compartments[c.offset]) >= n {", "C16-R2|Peek", comment="reverts fix de5fb17")
mut("C16", "r3-block-unbounded", "container/container.go",
    "\tif blockSize > uint64(c.Length()-n) {\n\t\treturn nil, errors.New(\"container: not enough data to return\")\n\t}\n\tc.skip(n)\n\treturn c.Get(int(blockSize))", "\tc.skip(n)\n\treturn c.Get(int(blockSize))", "C16-R3|GetNextBlock", comment="reverts fix c331037")
mut("C16", "r3-peekcontainer-negative-empty", "container/container.go",
    "\tif n < 0 {\n\t\treturn nil\n\t} else if n == 0 {\n\t\treturn &Container{}\n\t}", "\tif n <= 0 {\n\t\treturn &Container{}\n\t}", "C16-R3|negative size is an error")
mut("C16", "r4-n32-peek4", "container/container.go",
    "\tbuf := c.Peek(5)\n\tnum, n, err := varint.Unpack32(buf)", "\tbuf := c.Peek(4)\n\tnum, n, err := varint.Unpack32(buf)", "C16-R4|GetNextN32")
mut("C16", "r4-n16-skip-before-check", "container/container.go",
    "\tnum, n, err := varint.Unpack16(buf)\n\tif err != nil {\n\t\treturn 0, err\n\t}\n\tc.skip(n)", "\tnum, n, err := varint.Unpack16(buf)\n\tc.skip(n)\n\tif err != nil {\n\t\treturn 0, err\n\t}", "C16-R4|GetNextN16 / consume only on success")
mut("C16", "r5-get-via-getmax", "container/container.go",
    "\tbuf := c.Peek(n)\n\tif len(buf) < n {\n\t\treturn nil, errors.New(\"container: not enough data to return\")\n\t}\n\tc.skip(len(buf))\n\treturn buf, nil", "\tbuf := c.GetMax(n)\n\tif len(buf) < n {\n\t\treturn nil, errors.New(\"container: not enough data to return\")\n\t}\n\treturn buf, nil", "C16-R5|Get")
mut("C16", "r6-skip-no-clear", "container/container.go",
    "\t\t\tc.offset = i + 1\n\t\t\tc.compartments[i] = nil\n\t\t\tif n == 0 {", "\t\t\tc.offset = i + 1\n\t\t\tif n == 0 {", "C16-R6|skip")

# ---- C09 -------------------------------------------------------------------
mut("C09", "r1-load-no-msgpack", "formats/dsd/dsd.go",
    "\tcase MsgPack:\n\t\terr = msgpack.Unmarshal(data, t)\n\t\tif err != nil {\n\t\t\treturn fmt.Errorf(\"dsd: failed to unpack msgpack: %w, data: %s\", err, utils.SafeFirst16Bytes(data))\n\t\t}\n\t\treturn nil\n", "", "C09-R1|serialization format tables", canary=True,
    extra=[{"file": "formats/dsd/dsd.go", "old": "\tcase MsgPack:\n\t\tdata, err = msgpack.Marshal(t)", "new": "\tcase MsgPack:\n\t\t_ = msgpack.Unmarshal\n\t\tdata, err = msgpack.Marshal(t)"}])
mut("C09", "r1-yaml-maps-to-json", "formats/dsd/http.go",
    "\t\t\"yaml\":    YAML,", "\t\t\"yaml\":    JSON,", "C09-R1|mime tables")
mut("C09", "r2-dump-raw-identifier", "formats/dsd/dsd.go",
    "\tformat, ok := ValidateSerializationFormat(format)\n\tif !ok {\n\t\treturn nil, ErrIncompatibleFormat\n\t}\n\n\tdata, err := dumpWithoutIdentifier(t, format, indent)", "\tdata, err := dumpWithoutIdentifier(t, format, indent)", "C09-R2|DumpIndent / identifier written", comment="reverts fix f74683a")
mut("C09", "r2-compress-raw-identifier", "formats/dsd/compression.go",
    "\tcompression, ok := ValidateCompressionFormat(compression)\n\tif !ok {\n\t\treturn nil, ErrIncompatibleFormat\n\t}\n\n\t// Dump the given data", "\tvalidated, ok := ValidateCompressionFormat(compression)\n\tif !ok {\n\t\treturn nil, ErrIncompatibleFormat\n\t}\n\n\t// Dump the given data", "C09-R2|DumpAndCompress",
    extra=[{"file": "formats/dsd/compression.go", "old": "\tswitch compression {\n\tcase GZIP:\n\t\t// create gzip writer", "new": "\tswitch validated {\n\tcase GZIP:\n\t\t// create gzip writer"}])
mut("C09", "r3-mimedump-empty", "formats/dsd/http.go",
    "\tmimeType, ok := FormatToMimeType[format]\n\tif !ok {\n\t\treturn nil, \"\", 0, ErrIncompatibleFormat\n\t}\n", "", "C09-R3|MimeDump", comment="reverts fix f2d2363")
mut("C09", "r3-response-ct-if-absent", "formats/dsd/http.go",
    "\tw.Header().Set(\"Content-Type\", mimeType)\n\t_, err = w.Write(data)", "\tif w.Header().Get(\"Content-Type\") == \"\" {\n\t\tw.Header().Set(\"Content-Type\", mimeType)\n\t}\n\t_, err = w.Write(data)", "C09-R3|Content-Type set before the body")
mut("C09", "r3-request-dumps-default", "formats/dsd/http.go",
    "\tdata, err := dumpWithoutIdentifier(t, format, \"\")\n\tif err != nil {\n\t\treturn fmt.Errorf(\"dsd: failed to serialize: %w\", err)\n\t}\n\n\t// Add data to request.", "\tdata, err := dumpWithoutIdentifier(t, DefaultSerializationFormat, \"\")\n\tif err != nil {\n\t\treturn fmt.Errorf(\"dsd: failed to serialize: %w\", err)\n\t}\n\n\t// Add data to request.", "C09-R3|DumpToHTTPRequest")
mut("C09", "r4-loadformat-no-payload-check", "formats/dsd/dsd.go",
    "\tif len(data) <= read {\n\t\treturn 0, 0, io.ErrUnexpectedEOF\n\t}\n", "\t_ = io.ErrUnexpectedEOF\n", "C09-R4|loadFormat")
mut("C09", "r4-load-fixed-offset", "formats/dsd/dsd.go",
    "\t\treturn format, LoadAsFormat(data[read:], format, t)\n\t}\n\treturn DecompressAndLoad(data[read:], format, t)", "\t\treturn format, LoadAsFormat(data[1:], format, t)\n\t}\n\treturn DecompressAndLoad(data[read:], format, t)", "C09-R4|offset provenance")
mut("C09", "r5-pooled-buffer", "formats/dsd/compression.go",
    "\tbuf := bytes.NewBuffer(nil)\n\tbuf.Write(packetFormat)", "\tbuf, _ := bufPool.Get().(*bytes.Buffer)\n\tbuf.Reset()\n\tdefer bufPool.Put(buf)\n\tbuf.Write(packetFormat)", "C09-R5|DumpAndCompress",
    extra=[{"file": "formats/dsd/compression.go", "old": "// DumpAndCompress stores the interface", "new": "var bufPool = sync.Pool{New: func() interface{} { return new(bytes.Buffer) }}\n\n// DumpAndCompress stores the interface"}, {"file": "formats/dsd/compression.go", "old": "\t\"errors\"\n", "new": "\t\"errors\"\n\t\"sync\"\n"}])

# ---- C11 -------------------------------------------------------------------
mut("C11", "r1-no-name-for-in", "database/query/operators.go",
    "\t\t\"in\":         In,\n", "", "C11-R1|operator In / has a name", canary=True)
mut("C11", "r1-complies-no-endswith", "database/query/condition-string.go",
    "\tcase EndsWith:\n\t\treturn strings.HasSuffix(comp, c.value)\n", "", "C11-R1|operator EndsWith / complies arm")
mut("C11", "r1-where-no-matches", "database/query/condition.go",
    "\tcase Matches:\n\t\treturn newRegexCondition(key, operator, value)\n", "", "C11-R1|operator Matches / Where arm")
mut("C11", "r1-where-float-to-int", "database/query/condition.go",
    "\t\tFloatLessThanOrEqual:\n\t\treturn newFloatCondition(key, operator, value)", "\t\tFloatLessThanOrEqual:\n\t\treturn newIntCondition(key, operator, value)", "C11-R1|complies arm")
mut("C11", "r2-not-no-progress", "database/query/parser.go",
    "\t\tfirstSnippet, err := getSnippet()\n\t\tif err != nil {\n\t\t\treturn nil, err\n\t\t}\n\n\t\tif !expectingMore && rootCondition {", "\t\tif wrapInNot && !expectingMore {\n\t\t\tcontinue\n\t\t}\n\t\tfirstSnippet, err := getSnippet()\n\t\tif err != nil {\n\t\t\treturn nil, err\n\t\t}\n\n\t\tif !expectingMore && rootCondition {", "C11-R2|every loop iteration consumes")
mut("C11", "r2-getsnippet-unguarded", "database/query/parser.go",
    "\t\tif snippetsPos > len(snippets) {\n\t\t\treturn nil, fmt.Errorf(\"unexpected end at position %d\", len(query))\n\t\t}\n", "", "C11-R2|snippets[pos-1]")
mut("C11", "r2-offset-not-terminator", "database/query/parser.go",
    "\t\t\tcase \"orderby\", \"limit\", \"offset\":", "\t\t\tcase \"orderby\", \"limit\":", "C11-R2|clause keywords terminate")
mut("C11", "r2-conditions0-unguarded", "database/query/parser.go",
    "\t\tcase \")\":\n\t\t\tif len(conditions) == 1 {\n\t\t\t\treturn conditions[0], nil\n\t\t\t}", "\t\tcase \")\":\n\t\t\tif !isOr && !typeSet {\n\t\t\t\treturn conditions[0], nil\n\t\t\t}", "C11-R2|conditions[0]")
mut("C11", "r2-escape-after-quotes", "database/query/parser.go",
    "\t\tif char == '\\\\' {\n\t\t\tskip = true\n\t\t}\n\n\t\t// wait for parenthesis to be overs\n\t\tif inParenthesis {\n\t\t\tif char == '\"' {\n\t\t\t\tsnippets = append(snippets, &snippet{\n\t\t\t\t\ttext:           prepToken(text[start+1 : pos]),\n\t\t\t\t\tglobalPosition: start + 1,\n\t\t\t\t})\n\t\t\t\tstart = -1\n\t\t\t\tinParenthesis = false\n\t\t\t}\n\t\t\tcontinue\n\t\t}\n",
    "\t\t// wait for parenthesis to be overs\n\t\tif inParenthesis {\n\t\t\tif char == '\"' {\n\t\t\t\tsnippets = append(snippets, &snippet{\n\t\t\t\t\ttext:           prepToken(text[start+1 : pos]),\n\t\t\t\t\tglobalPosition: start + 1,\n\t\t\t\t})\n\t\t\t\tstart = -1\n\t\t\t\tinParenthesis = false\n\t\t\t}\n\t\t\tcontinue\n\t\t}\n\n\t\tif char == '\\\\' {\n\t\t\tskip = true\n\t\t}\n", "C11-R2|escape handling before quote handling")
mut("C11", "r3-last-token-pos-plus-one", "database/query/parser.go",
    "\t\t\ttext:           prepToken(text[start:]),", "\t\t\ttext:           prepToken(text[start : pos+1]),", "C11-R3|text[..:pos+1]", comment="reverts fix 8bbd7a4")

# ---- C17 -------------------------------------------------------------------
mut("C17", "r1-no-sync", "utils/renameio/tempfile.go",
    "\tif err := t.Sync(); err != nil {\n\t\treturn err\n\t}\n", "", "C17-R1|", canary=True)
mut("C17", "r1-rename-before-close", "utils/renameio/tempfile.go",
    "\tt.closed = true\n\tif err := t.Close(); err != nil {\n\t\treturn err\n\t}\n\tif err := os.Rename(t.Name(), t.path); err != nil {\n\t\treturn err\n\t}", "\tif err := os.Rename(t.Name(), t.path); err != nil {\n\t\treturn err\n\t}\n\tt.closed = true\n\tif err := t.Close(); err != nil {\n\t\treturn err\n\t}", "C17-R1|rename")
mut("C17", "r1-sync-error-ignored", "utils/renameio/tempfile.go",
    "\tif err := t.Sync(); err != nil {\n\t\treturn err\n\t}\n", "\t_ = t.Sync()\n", "C17-R1|")
mut("C17", "r1-cleanup-removes-always", "utils/renameio/tempfile.go",
    "\tif t.done {\n\t\treturn nil\n\t}\n", "", "C17-R1|Cleanup")
mut("C17", "r2-fstree-writefile-direct", "database/storage/fstree/fstree.go",
    "\t\terr = writeFile(dstPath, data, defaultFileMode)\n\t\tif err != nil {\n\t\t\treturn nil, fmt.Errorf(\"fstree: could not write file %s: %w\", dstPath, err)", "\t\terr = os.WriteFile(dstPath, data, defaultFileMode)\n\t\tif err != nil {\n\t\t\treturn nil, fmt.Errorf(\"fstree: could not write file %s: %w\", dstPath, err)", "C17-R2|fstree")
mut("C17", "r2-atomic-helper-rename", "utils/atomic.go",
    "\tif err := tmpFile.CloseAtomicallyReplace(); err != nil {\n\t\treturn fmt.Errorf(\"failed to rename temp file to %q\", dest)\n\t}", "\tif err := tmpFile.Close(); err != nil {\n\t\treturn err\n\t}\n\tif err := os.Rename(tmpFile.Name(), dest); err != nil {\n\t\treturn fmt.Errorf(\"failed to rename temp file to %q\", dest)\n\t}", "C17-R2|call os.Rename")
mut("C17", "r3-no-deferred-cleanup", "utils/atomic.go",
    "\tdefer tmpFile.Cleanup() //nolint:errcheck\n", "", "C17-R3|CreateAtomic / pending file / deferred Cleanup")
mut("C17", "r3-success-without-publish", "utils/renameio/writefile.go",
    "\treturn t.CloseAtomicallyReplace()", "\tif len(data) == 0 {\n\t\treturn nil\n\t}\n\treturn t.CloseAtomicallyReplace()", "C17-R3|success passes CloseAtomicallyReplace")
mut("C17", "r4-length-check-relaxed", "updater/fetch.go",
    "\tif resp.ContentLength != n {", "\tif resp.ContentLength >= 0 && resp.ContentLength != n {", "C17-R4|bytes written == Content-Length", occurrence=1)
mut("C17", "r4-require-mismatch-published", "updater/fetch.go",
    "\t\t\tcase SignaturePolicyRequire:\n\t\t\t\treturn errors.New(\"file does not match signed checksum\")", "\t\t\tcase SignaturePolicyRequire:\n\t\t\t\tlog.Errorf(\"%s: file does not match signed checksum\", reg.Name)", "C17-R4|checksum policy")

# ---- C18 -------------------------------------------------------------------
mut("C18", "r1-fstree-bare-prefix", "database/storage/fstree/fstree.go",
    "\tscope := fst.basePath\n\tif !strings.HasSuffix(scope, string(filepath.Separator)) {\n\t\tscope += string(filepath.Separator)\n\t}\n\treturn strings.HasPrefix(path, scope)", "\treturn strings.HasPrefix(path, fst.basePath)", "C18-R1|isInScope", canary=True, comment="reverts fix a8352f0")
mut("C18", "r1-scan-bare-prefix", "updater/storage.go",
    "\t\tif root != reg.storageDir.Path && !strings.HasPrefix(root, scope) {", "\t\tif !strings.HasPrefix(root, reg.storageDir.Path) {", "C18-R1|ScanStorage", comment="reverts fix d2c6c61")
mut("C18", "r1-scan-check-before-abs", "updater/storage.go",
    "\t\tvar err error\n\t\troot, err = filepath.Abs(root)\n\t\tif err != nil {\n\t\t\treturn err\n\t\t}\n\t\tscope := reg.storageDir.Path\n\t\tif !strings.HasSuffix(scope, string(filepath.Separator)) {\n\t\t\tscope += string(filepath.Separator)\n\t\t}\n\t\tif root != reg.storageDir.Path && !strings.HasPrefix(root, scope) {\n\t\t\treturn errors.New(\"supplied scan root path not within storage\")\n\t\t}",
    "\t\tscope := reg.storageDir.Path\n\t\tif !strings.HasSuffix(scope, string(filepath.Separator)) {\n\t\t\tscope += string(filepath.Separator)\n\t\t}\n\t\tif root != reg.storageDir.Path && !strings.HasPrefix(root, scope) {\n\t\t\treturn errors.New(\"supplied scan root path not within storage\")\n\t\t}\n\t\tvar err error\n\t\troot, err = filepath.Abs(root)\n\t\tif err != nil {\n\t\t\treturn err\n\t\t}", "C18-R1|checked path is canonical")
mut("C18", "r1-unpack-clean-strips-sep", "updater/unpacking.go",
    "\t\tif !strings.HasPrefix(dstPath, tmpDir+string(filepath.Separator)) {", "\t\tif !strings.HasPrefix(dstPath, filepath.Clean(tmpDir+string(filepath.Separator))) {", "C18-R1|prefix is separator-terminated")
mut("C18", "r1-ensureabs-no-dotdot", "utils/structure.go",
    "\tif relPath == \"..\" || strings.HasPrefix(relPath, \"..\"+string(filepath.Separator)) {\n\t\treturn fmt.Errorf(`path \"%s\" is outside of DirStructure scope`, dirPath)\n\t}\n", "", "C18-R1|EnsureAbsPath", comment="reverts fix c329e89")
mut("C18", "r2-fstree-delete-direct-join", "database/storage/fstree/fstree.go",
    "func (fst *FSTree) Delete(key string) error {\n\tdstPath, err := fst.buildFilePath(key, true)\n\tif err != nil {\n\t\treturn err\n\t}\n", "func (fst *FSTree) Delete(key string) error {\n\tdstPath := filepath.Join(fst.basePath, key)\n\tvar err error\n", "C18-R2|Delete")
mut("C18", "r2-unpack-no-guard", "updater/unpacking.go",
    "\t\tif !strings.HasPrefix(dstPath, tmpDir+string(filepath.Separator)) {\n\t\t\terr = fmt.Errorf(\"archive file %s would be extracted outside of the unpack directory\", file.Name)\n\t\t\treturn err\n\t\t}\n", "", "C18-R2|extract entry", comment="reverts fix 7d20799")
mut("C18", "r2-buildfilepath-returns-raw", "database/storage/fstree/fstree.go",
    "\t// return\n\treturn dstPath, nil\n}", "\t// return\n\treturn fst.basePath + string(filepath.Separator) + key, nil\n}", "C18-R2|returns the checked path")

# ---- C19 -------------------------------------------------------------------
mut("C19", "r1-no-blacklist-arm", "updater/resource.go",
    "\tcase rv.Blacklisted:\n\t\t// Should not be used.\n\t\treturn false\n", "", "C19-R1|isSelectable", canary=True)
mut("C19", "r1-offline-still-downloadable", "updater/resource.go",
    "\tcase !rv.resource.registry.Online:\n\t\t// Cannot download, because registry is set to offline.\n\t\treturn false\n", "", "C19-R1|isSelectable")
mut("C19", "r2-current-not-selectable", "updater/resource.go",
    "\t\tif rv.CurrentRelease {\n\t\t\tif rv.isSelectable() {\n\t\t\t\tres.SelectedVersion = rv\n\t\t\t\treturn\n\t\t\t}", "\t\tif rv.CurrentRelease {\n\t\t\tif rv.Available {\n\t\t\t\tres.SelectedVersion = rv\n\t\t\t\treturn\n\t\t\t}", "C19-R2|")
mut("C19", "r2-swap-pre-and-stable", "updater/resource.go",
    "\t// 3) If UsePreReleases is set, find any newest version.\n\tif res.registry.UsePreReleases {\n\t\tfor _, rv := range res.Versions {\n\t\t\tif rv.isSelectable() {\n\t\t\t\tres.SelectedVersion = rv\n\t\t\t\treturn\n\t\t\t}\n\t\t}\n\t}\n\n\t// 4) Find the newest stable version.\n\tfor _, rv := range res.Versions {\n\t\tif !rv.PreRelease && rv.isSelectable() {\n\t\t\tres.SelectedVersion = rv\n\t\t\treturn\n\t\t}\n\t}",
    "\t// 4) Find the newest stable version.\n\tfor _, rv := range res.Versions {\n\t\tif !rv.PreRelease && rv.isSelectable() {\n\t\t\tres.SelectedVersion = rv\n\t\t\treturn\n\t\t}\n\t}\n\n\t// 3) If UsePreReleases is set, find any newest version.\n\tif res.registry.UsePreReleases {\n\t\tfor _, rv := range res.Versions {\n\t\t\tif rv.isSelectable() {\n\t\t\t\tres.SelectedVersion = rv\n\t\t\t\treturn\n\t\t\t}\n\t\t}\n\t}", "C19-R2|stage order")
mut("C19", "r2-dev-without-available", "updater/resource.go",
    "\t\tif rv.semVer.Equal(devVersion) && rv.Available {", "\t\tif rv.semVer.Equal(devVersion) {", "C19-R2|")
mut("C19", "r2-fallback-last", "updater/resource.go",
    "\tres.SelectedVersion = res.Versions[0]\n\tfallback = true", "\tres.SelectedVersion = res.Versions[len(res.Versions)-1]\n\tfallback = true", "C19-R2|newest")
mut("C19", "r3-blacklist-threshold", "updater/resource.go",
    "\tif valid <= 1 {\n\t\treturn errors.New(\"cannot blacklist last version\")", "\tif valid <= 0 {\n\t\treturn errors.New(\"cannot blacklist last version\")", "C19-R3|set Blacklisted")
mut("C19", "r3-dev-counted", "updater/resource.go",
    "\t\tif rv.semVer.Equal(devVersion) {\n\t\t\tcontinue // ignore dev versions\n\t\t}\n\t\tif !rv.Blacklisted {\n\t\t\tvalid++\n\t\t}", "\t\tif !rv.Blacklisted && rv.semVer.GreaterThanOrEqual(devVersion) {\n\t\t\tvalid++\n\t\t}", "C19-R3|count valid version")
mut("C19", "r3-no-reselect", "updater/resource.go",
    "\t\t\trv.Blacklisted = true\n\t\t\tres.selectVersion()\n\t\t\treturn nil", "\t\t\trv.Blacklisted = true\n\t\t\treturn nil", "C19-R3|re-select after blacklisting")
mut("C19", "r4-keep-purged", "updater/resource.go",
    "\tres.Versions = res.Versions[:purgeBoundary]", "\tres.Versions = res.Versions[purgeBoundary:]", "C19-R4|kept versus purged", comment="reverts fix 3a58d17")
mut("C19", "r4-stable-by-semver", "updater/resource.go",
    "\t\tif !rv.PreRelease {\n\t\t\tskippedStableVersion = true\n\t\t}", "\t\tif rv.semVer.Prerelease() == \"\" {\n\t\t\tskippedStableVersion = true\n\t\t}", "C19-R4|stable version predicate")
mut("C19", "r4-keep-floor-one", "updater/resource.go",
    "\tif keepExtra < 2 {\n\t\tkeepExtra = 2\n\t}", "\tif keepExtra < 1 {\n\t\tkeepExtra = 1\n\t}", "C19-R4|keepExtra floor")
mut("C19", "r5-nil-map", "updater/registry.go",
    "\tversions = make(map[string]string, len(reg.resources))\n", "", "C19-R5|write to map", comment="reverts fix 1e76966")

# ---- C20 -------------------------------------------------------------------
mut("C20", "r1-leq-drops-equal-level", "log/input.go",
    "\t\t\tif level < severity {\n\t\t\t\treturn\n\t\t\t}", "\t\t\tif level <= severity {\n\t\t\t\treturn\n\t\t\t}", "C20-R1|level filter table", canary=True)
mut("C20", "r1-pkglevel-ignored", "log/input.go",
    "\t\tif ok {\n\t\t\tif level < severity {\n\t\t\t\treturn\n\t\t\t}\n\t\t} else {", "\t\tif ok && severity > InfoLevel {\n\t\t\tif level < severity {\n\t\t\t\treturn\n\t\t\t}\n\t\t} else {", "C20-R1|level filter table")
mut("C20", "r1-fastcheck-strict", "log/input.go",
    "\tif uint32(level) >= atomic.LoadUint32(logLevel) {\n\t\treturn true\n\t}\n\treturn false", "\tif uint32(level) > atomic.LoadUint32(logLevel) {\n\t\treturn true\n\t}\n\treturn false", "C20-R1|fastcheck")
mut("C20", "r2-double-send", "log/input.go",
    "\t// wake up writer if necessary\n\tif logsWaitingFlag.SetToIf(false, true) {\n\t\tselect {\n\t\tcase logsWaiting <- struct{}{}:\n\t\tdefault:\n\t\t}\n\t}\n}\n\nfunc fastcheck", "\tif level >= ErrorLevel {\n\t\tselect {\n\t\tcase logBuffer <- log:\n\t\tdefault:\n\t\t}\n\t}\n\n\t// wake up writer if necessary\n\tif logsWaitingFlag.SetToIf(false, true) {\n\t\tselect {\n\t\tcase logsWaiting <- struct{}{}:\n\t\tdefault:\n\t\t}\n\t}\n}\n\nfunc fastcheck", "C20-R2|no second enqueue")
mut("C20", "r2-drop-when-full", "log/input.go",
    "\tdefault:\n\tforceEmptyingLoop:\n\t\t// force empty buffer until we can send to it\n\t\tfor {\n\t\t\tselect {\n\t\t\tcase forceEmptyingOfBuffer <- struct{}{}:\n\t\t\tcase logBuffer <- log:\n\t\t\t\tbreak forceEmptyingLoop\n\t\t\t}\n\t\t}\n\t}\n\n\t// wake up writer if necessary\n\tif logsWaitingFlag.SetToIf(false, true) {\n\t\tselect {", "\tdefault:\n\t\tselect {\n\t\tcase forceEmptyingOfBuffer <- struct{}{}:\n\t\tcase logBuffer <- log:\n\t\t}\n\t}\n\n\t// wake up writer if necessary\n\tif logsWaitingFlag.SetToIf(false, true) {\n\t\tselect {", "C20-R2|log.log / exit")
mut("C20", "r2-submit-async", "log/trace.go",
    "\tdefault:\n\tforceEmptyingLoop:\n\t\t// force empty buffer until we can send to it\n\t\tfor {\n\t\t\tselect {\n\t\t\tcase forceEmptyingOfBuffer <- struct{}{}:\n\t\t\tcase logBuffer <- log:\n\t\t\t\tbreak forceEmptyingLoop\n\t\t\t}\n\t\t}\n\t}", "\tdefault:\n\t\tgo func() {\n\t\t\tlogBuffer <- log\n\t\t}()\n\t}", "C20-R2|Submit")
mut("C20", "r3-equal-tracer-and", "log/logging.go",
    "\tcase ll.tracer != nil || ol.tracer != nil:", "\tcase ll.tracer != nil && ol.tracer != nil:", "C20-R3|Equal")
mut("C20", "r3-equal-ignores-level", "log/logging.go",
    "\tcase ll.level != ol.level:\n\t\treturn false\n", "", "C20-R3|Equal")
mut("C20", "r3-duplicates-without-equal", "log/output.go",
    "\t\t\t\tif nextLine.Equal(currentLine) {\n\t\t\t\t\tduplicates++\n\t\t\t\t\tcontinue writeLoop\n\t\t\t\t}", "\t\t\t\tif nextLine.msg == currentLine.msg {\n\t\t\t\t\tduplicates++\n\t\t\t\t\tcontinue writeLoop\n\t\t\t\t}", "C20-R3|duplicates++")
mut("C20", "r4-shutdown-arm-no-drain", "log/output.go",
    "\t\tcase <-writeTrigger: // normal process\n\t\tcase <-forceEmptyingOfBuffer: // log buffer is full!\n\t\tcase <-shutdownSignal: // shutting down\n\t\t\tfinalizeWriting()\n\t\t\treturn", "\t\tcase <-writeTrigger: // normal process\n\t\tcase <-forceEmptyingOfBuffer: // log buffer is full!\n\t\tcase <-shutdownSignal: // shutting down\n\t\t\treturn", "C20-R4|drains the buffer")
mut("C20", "r4-finalize-drops", "log/output.go",
    "\t\tcase line := <-logBuffer:\n\t\t\tadapter.Write(line, 0)", "\t\tcase line := <-logBuffer:\n\t\t\tif line.level >= InfoLevel {\n\t\t\t\tadapter.Write(line, 0)\n\t\t\t}", "C20-R4|every dequeued line is written")
mut("C20", "r4-shutdown-no-wait", "log/logging.go",
    "\tif shutdownFlag.SetToIf(false, true) {\n\t\tclose(shutdownSignal)\n\t}\n\tshutdownWaitGroup.Wait()", "\tif shutdownFlag.SetToIf(false, true) {\n\t\tclose(shutdownSignal)\n\t\tshutdownWaitGroup.Wait()\n\t}", "C20-R4|waits for the writer")

mut("C02", "r7-fstree-delete-absent-error", "database/storage/fstree/fstree.go",
    "\tif err != nil && !errors.Is(err, fs.ErrNotExist) {\n\t\treturn fmt.Errorf(\"fstree: could not delete %s: %w\", dstPath, err)", "\tif err != nil {\n\t\treturn fmt.Errorf(\"fstree: could not delete %s: %w\", dstPath, err)", "C02-R7|fstree.(*FSTree).Delete", comment="reverts fix aed71ac")

# ---- round-2 strengthening ----------------------------------------------------
mut("C02", "r8-walkroot-file", "database/storage/fstree/fstree.go",
    "\tcase err == nil:\n\t\twalkRoot = filepath.Dir(walkPrefix)", "\tcase err == nil:\n\t\twalkRoot = walkPrefix", "C02-R8|database/storage/fstree.(*FSTree).Query / walk root", comment="round-2 seed C02-b1")
mut("C04", "r6-save-release-gated", "config/persistence.go",
    "\t\tif option.activeValue != nil {\n\t\t\tactiveValues[key]", "\t\tif option.ReleaseLevel <= getReleaseLevel() && option.activeValue != nil {\n\t\t\tactiveValues[key]", "C04-R6|config.SaveConfig / every option with a user-set value is saved", comment="round-2 seed C04-b1")
mut("C04", "r6-save-default-layer", "config/persistence.go",
    "activeValues[key] = option.activeValue.getData(option)", "activeValues[key] = option.activeDefaultValue.getData(option)", "C04-R6|config.SaveConfig / saved entry")
mut("C04", "r6-save-other-map", "config/persistence.go",
    "data, err := MapToJSON(activeValues)", "data, err := MapToJSON(map[string]interface{}{})", "C04-R6|config.SaveConfig / saved map is encoded")
mut("C06", "r2-ctrlfn-finish-before-recover", "modules/worker.go",
    "\t\t\t// recover from panic\n\t\t\tpanicVal := recover()", "\t\t\tm.ctrlFuncRunning.UnSet()\n\t\t\tm.checkIfStopComplete()\n\t\t\t// recover from panic\n\t\t\tpanicVal := recover()", "C06-R2|modules.(*Module).startCtrlFn$1 / panic error sent before completion is signalled", comment="round-2 seed C06-b1")
mut("C06", "r6-handler-calls-error-method", "modules/error.go",
    "Message:    fmt.Sprintf(\"panic: %s\", panicValue),", "Message:    func() string {\n\t\t\tif e, ok := panicValue.(error); ok {\n\t\t\t\treturn \"panic: \" + e.Error()\n\t\t\t}\n\t\t\treturn fmt.Sprintf(\"panic: %s\", panicValue)\n\t\t}(),", "C06-R6|", comment="round-2 seed C06-b2")
mut("C07", "r6-prio-element-stale", "modules/tasks.go",
    "\tif t.prioritizedQueueElement != nil {\n\t\tqueuesLock.Lock()", "\tif t.queueElement == nil && t.prioritizedQueueElement != nil {\n\t\tqueuesLock.Lock()", "C07-R6|modules.(*Task).removeFromQueues / prioritizedQueueElement / cleared on every exit", comment="round-2 seed C07-b2")
mut("C07", "r6-remove-wrong-list", "modules/tasks.go",
    "\t\tprioritizedTaskQueue.Remove(t.prioritizedQueueElement)", "\t\ttaskQueue.Remove(t.prioritizedQueueElement)", "C07-R6|modules.(*Task).removeFromQueues / prioritizedQueueElement / removed from")
mut("C09", "r6-safe16-unchecked-slice", "utils/safe.go",
    "strings.SplitN(hex.Dump(data), \"\\n\", 2)[0],", "strings.SplitN(hex.Dump(data[:16]), \"\\n\", 2)[0],", "C09-R6|utils.SafeFirst16Bytes / slice [:16]", comment="round-2 seed C09-b1")
mut("C13", "r5-handle-short-message", "api/database.go",
    "\tif len(parts) != 3 {\n\t\tapi.send(nil, dbMsgTypeError, \"bad request: malformed message\", nil)", "\tif len(parts) < 2 {\n\t\tapi.send(nil, dbMsgTypeError, \"bad request: malformed message\", nil)", "C13-R5|api.(*DatabaseAPI).Handle / index [2]")
mut("C11", "r4-parser-unchecked-first", "database/query/parser.go",
    "\t\t\tif len(conditions) == 1 {\n\t\t\t\treturn conditions[0], nil", "\t\t\tif len(conditions) <= 1 {\n\t\t\t\treturn conditions[0], nil", "C11-R4|database/query.parseAndOr / index [0]", occurrence=1)
mut("C16", "r7-compile-fastpath-offset", "container/container.go",
    "\tif len(c.compartments) != 1 {\n\t\tnewBuf := make([]byte, c.Length())", "\tif len(c.compartments)-c.offset != 1 {\n\t\tnewBuf := make([]byte, c.Length())", "C16-R7|container.(*Container).CompileData / index [0]", comment="round-2 seed C16-b1")
mut("C16", "r8-unpack32-bound", "formats/varint/varint.go",
    "\tif n > 4294967295 {", "\tif n > 1<<32 {", "C16-R8|formats/varint.Unpack32", comment="round-2 seed C16-b2")
mut("C08", "r6-unpack8-second-byte-unchecked", "formats/varint/varint.go",
    "\tif len(blob) < 2 {\n\t\treturn 0, 0, ErrBufTooSmall\n\t}\n\tif blob[1] != 0x01 {", "\tif blob[1] != 0x01 {", "C08-R6|formats/varint.Unpack8 / index [1]")
mut("C11", "r5-terminator-while-expecting", "database/query/parser.go",
    "\t\tif !expectingMore && rootCondition {\n\t\t\tswitch firstSnippet.text {", "\t\tif rootCondition && len(conditions) > 0 {\n\t\t\tswitch firstSnippet.text {", "C11-R5|database/query.parseAndOr / success return", comment="round-2 seed C11-b1")
mut("C11", "r6-not-printer-splits", "database/query/condition-not.go",
    "\tkeyEnd := endOfFirstToken(next)\n\treturn next[:keyEnd] + \" not\" + next[keyEnd:]", "\tsplitted := strings.Split(next, \" \")\n\t_ = endOfFirstToken\n\treturn strings.Join(append([]string{splitted[0], \"not\"}, splitted[1:]...), \" \")", "C11-R6|database/query.(*notCond).string", comment="reverts fix 35c2a0b")
mut("C11", "r6-not-printer-fields", "database/query/condition-not.go",
    "\tkeyEnd := endOfFirstToken(next)\n\treturn next[:keyEnd] + \" not\" + next[keyEnd:]", "\tsplitted := strings.Fields(next)\n\t_ = endOfFirstToken\n\treturn strings.Join(append([]string{splitted[0], \"not\"}, splitted[1:]...), \" \")", "C11-R6|database/query.(*notCond).string", comment="round-2 seed C11-b2 (rebased onto fix 35c2a0b)")
mut("C12", "r6-shared-expiry", "api/authentication.go",
    "\t// Parse new keys.\n\tfor _, key := range configuredAPIKeys() {", "\t// Parse new keys.\n\tvar validUntil time.Time\n\tfor _, key := range configuredAPIKeys() {", "C12-R6|api.updateAPIKeys / pointer stored to AuthToken.ValidUntil", comment="round-2 seed C12-b1",
    extra=[{"file": "api/authentication.go", "old": "\t\t\tvalidUntil, err := time.Parse(time.RFC3339, expireStr)", "new": "\t\t\tvalidUntil, err = time.Parse(time.RFC3339, expireStr)"}])

# ---- A9 lock pairing ------------------------------------------------------------
mut("C13", "r6-marshalrecord-unlock-not-deferred", "api/database.go",
    "\tr.Lock()\n\tdefer r.Unlock()\n\n\t// Pour record into JSON.", "\tr.Lock()\n\n\t// Pour record into JSON.", "C13-R6|api.MarshalRecord / r acquired", comment="round-2 seed C13-b2")
mut("C04", "r7-setdefault-early-return-holds-lock", "config/set.go",
    "\thandleOptionUpdate(option, push)\n\toption.Unlock()\n\n\tif err != nil {\n\t\treturn err\n\t}\n\n\t// finalize change, activate triggers\n\tsignalChanges()\n\n\t// Do not save",
    "\thandleOptionUpdate(option, push)\n\n\tif err != nil {\n\t\treturn err\n\t}\n\toption.Unlock()\n\n\t// finalize change, activate triggers\n\tsignalChanges()\n\n\t// Do not save", "C04-R7|config.setDefaultConfigOption")
mut("C05", "r7-injectevent-leaks-hooks-lock", "modules/events.go",
    "\ttargetModule.eventHooksLock.RLock()\n\tdefer targetModule.eventHooksLock.RUnlock()", "\ttargetModule.eventHooksLock.RLock()", "C05-R7|modules.(*Module).InjectEvent")
mut("C14", "r5-addsubscription-leaks-lock", "database/controller.go",
    "\tc.subscriptionLock.Lock()\n\tdefer c.subscriptionLock.Unlock()\n\n\tc.subscriptions = append(c.subscriptions, sub)", "\tc.subscriptionLock.Lock()\n\n\tc.subscriptions = append(c.subscriptions, sub)", "C14-R5|database.(*Controller).addSubscription")
mut("C19", "r6-addindex-leaks-lock", "updater/registry.go",
    "\treg.Lock()\n\tdefer reg.Unlock()\n\n\t// Get channel name from path.", "\treg.Lock()\n\n\t// Get channel name from path.", "C19-R6|updater.(*ResourceRegistry).AddIndex")
mut("C20", "r5-setpkglevels-leaks-lock", "log/logging.go",
    "\tpkgLevels = levels\n\tpkgLevelsLock.Unlock()\n\tpkgLevelsActive.Set()", "\tpkgLevels = levels\n\tpkgLevelsActive.Set()", "C20-R5|log.SetPkgLevels")
mut("C12", "r7-updateapikeys-leaks-lock", "api/authentication.go",
    "\tapiKeysLock.Lock()\n\tdefer apiKeysLock.Unlock()\n\n\tlog.Debug(\"api: importing", "\tapiKeysLock.Lock()\n\n\tlog.Debug(\"api: importing", "C12-R7|api.updateAPIKeys")
mut("C02", "r9-hashmap-put-leaks-lock", "database/storage/hashmap/map.go",
    "\thm.dbLock.Lock()\n\tdefer hm.dbLock.Unlock()\n\n\thm.db[r.DatabaseKey()] = r\n\treturn r, nil", "\thm.dbLock.Lock()\n\n\thm.db[r.DatabaseKey()] = r\n\treturn r, nil", "C02-R9|database/storage/hashmap.(*HashMap).Put")
mut("C13", "r7-wrapper-format-before-deleted", "database/record/wrapper.go",
    "\tif w.Meta().Deleted > 0 {\n\t\treturn nil, nil\n\t}\n\n\tif format != dsd.AUTO && format != w.Format {\n\t\treturn nil, errors.New(\"could not dump model, wrapped object format mismatch\")\n\t}\n", "\tif format != dsd.AUTO && format != w.Format {\n\t\treturn nil, errors.New(\"could not dump model, wrapped object format mismatch\")\n\t}\n\n\tif w.Meta().Deleted > 0 {\n\t\treturn nil, nil\n\t}\n", "C13-R7|database/record.(*Wrapper).Marshal / error exit", comment="round-2 seed C13-b1")
mut("C08", "r7-wrapper-format-before-deleted", "database/record/wrapper.go",
    "\tif w.Meta().Deleted > 0 {\n\t\treturn nil, nil\n\t}\n\n\tif format != dsd.AUTO && format != w.Format {\n\t\treturn nil, errors.New(\"could not dump model, wrapped object format mismatch\")\n\t}\n", "\tif format != dsd.AUTO && format != w.Format {\n\t\treturn nil, errors.New(\"could not dump model, wrapped object format mismatch\")\n\t}\n\n\tif w.Meta().Deleted > 0 {\n\t\treturn nil, nil\n\t}\n", "C08-R7|database/record.(*Wrapper).Marshal / error exit", comment="round-2 seed C13-b1")
mut("C17", "r2-probe-renames-onto-destination", "utils/renameio/tempfile.go",
    "os.Rename(testsrc.Name(), testdest.Name())", "os.Rename(testsrc.Name(), dest)", "C17-R2|utils/renameio.tempDir / call os.Rename / probe argument #2", comment="round-2 seed C17-b1")
mut("C18", "r1-unpack-scope-via-join", "updater/unpacking.go",
    "if !strings.HasPrefix(dstPath, tmpDir+string(filepath.Separator)) {", "if !strings.HasPrefix(dstPath, filepath.Join(tmpDir, string(filepath.Separator))) {", ["C18-R1|updater.(*Resource).unpackZipArchive", "C18-R2|updater.(*Resource).unpackZipArchive / extract entry"], comment="round-2 seed C18-b1")
mut("C18", "r2-ensureabs-parent-accepted", "utils/structure.go",
    "if relPath == \"..\" || strings.HasPrefix(relPath, \"..\"+string(filepath.Separator)) {", "if strings.HasPrefix(relPath, \"..\"+string(filepath.Separator)) {", "C18-R2|utils.(*DirStructure).EnsureAbsPath / ensure(relative dirs)", comment="round-2 seed C18-b2")
mut("C19", "r7-reset-loop-leaves-early", "updater/resource.go",
    "\t\tfor _, rv := range res.Versions {\n\t\t\trv.CurrentRelease = false\n\t\t}", "\t\tfor _, rv := range res.Versions {\n\t\t\trv.CurrentRelease = false\n\t\t\tif rv.VersionNumber == version {\n\t\t\t\tbreak\n\t\t\t}\n\t\t}", "C19-R7|updater.(*Resource).AddVersion / CurrentRelease set only after all versions were reset", comment="round-2 seed C19-b1")
mut("C19", "r7-reset-conditional", "updater/resource.go",
    "\t\tfor _, rv := range res.Versions {\n\t\t\trv.CurrentRelease = false\n\t\t}", "\t\tfor _, rv := range res.Versions {\n\t\t\tif rv.Available {\n\t\t\t\trv.CurrentRelease = false\n\t\t\t}\n\t\t}", "C19-R7|updater.(*Resource).AddVersion / CurrentRelease set only after all versions were reset")
mut("C20", "r4-second-shutdown-returns-early", "log/logging.go",
    "\tif shutdownFlag.SetToIf(false, true) {\n\t\tclose(shutdownSignal)\n\t}\n\tshutdownWaitGroup.Wait()", "\tif !shutdownFlag.SetToIf(false, true) {\n\t\treturn\n\t}\n\tclose(shutdownSignal)\n\tshutdownWaitGroup.Wait()", "C20-R4|log.Shutdown / waits for the writer", comment="round-2 seed C20-b1")
mut("C20", "r1-tracer-ignores-global-level", "log/trace.go",
    "\t\t\t} else {\n\t\t\t\t// no package level set, check against global level\n\t\t\t\tif uint32(TraceLevel) < atomic.LoadUint32(logLevel) {\n\t\t\t\t\treturn ctx, nil\n\t\t\t\t}\n\t\t\t}", "\t\t\t}", "C20-R1|log.AddTracer / tracer creation table", comment="round-2 seed C20-b2")

# ---- A10 error discipline ---------------------------------------------------------
mut("C13", "r8-delete-error-dropped", "api/database.go",
    "\terr := api.db.Delete(key)\n\tif err != nil {\n\t\tapi.send(opID, dbMsgTypeError, err.Error(), nil)\n\t\treturn\n\t}\n\tapi.send(opID, dbMsgTypeSuccess", "\t_ = api.db.Delete(key)\n\tapi.send(opID, dbMsgTypeSuccess", "C13-R8|api.(*DatabaseAPI).handleDelete / error of database.Interface.Delete")
mut("C02", "r10-delete-put-error-dropped", "database/interface.go",
    "\ti.updateCache(r, false, true, 0)\n\n\tr.Lock()\n\tdefer r.Unlock()\n\treturn putChanged(db, r, before)", "\ti.updateCache(r, false, true, 0)\n\n\tr.Lock()\n\tdefer r.Unlock()\n\t_ = putChanged(db, r, before)\n\treturn nil", "C02-R15|database.(*Interface).Delete / error")
mut("C17", "r5-createatomic-rename-error-dropped", "utils/atomic.go",
    "\tif err := tmpFile.CloseAtomicallyReplace(); err != nil {\n\t\treturn fmt.Errorf(\"failed to rename temp file to %q\", dest)\n\t}", "\t_ = tmpFile.CloseAtomicallyReplace()", "C17-R5|utils.CreateAtomic / error of utils/renameio.PendingFile.CloseAtomicallyReplace")
mut("C04", "r8-loadconfig-parse-error-dropped", "config/persistence.go",
    "\tnewValues, err := JSONToMap(data)\n\tif err != nil {\n\t\treturn err\n\t}", "\tnewValues, _ := JSONToMap(data)", "C04-R8|config.loadConfig / error of config.JSONToMap")
mut("C19", "r8-fetch-finalize-error-dropped", "updater/fetch.go",
    "\terr = atomicFile.CloseAtomicallyReplace()\n\tif err != nil {\n\t\treturn fmt.Errorf(\"%s: failed to finalize file %s: %w\", reg.Name, rv.storagePath(), err)\n\t}", "\t_ = atomicFile.CloseAtomicallyReplace()", "C19-R8|updater.(*ResourceRegistry).fetchFile / error of utils/renameio.PendingFile.CloseAtomicallyReplace")
mut("C09", "r7-httpload-error-dropped", "formats/dsd/http.go",
    "\terr = LoadAsFormat(data, format, t)\n\treturn format, err", "\t_ = LoadAsFormat(data, format, t)\n\treturn format, nil", "C09-R7|formats/dsd.MimeLoad / error of formats/dsd.LoadAsFormat")
mut("C08", "r8-meta-load-error-dropped", "database/record/wrapper.go",
    "\t_, err = dsd.Load(metaSection, newMeta)\n\tif err != nil {\n\t\treturn nil, fmt.Errorf(\"could not unmarshal meta section: %w\", err)\n\t}", "\t_, _ = dsd.Load(metaSection, newMeta)", "C08-R8|database/record.NewRawWrapper / error of formats/dsd.Load")
mut("C14", "r6-pregethook-veto-dropped", "database/controller.go",
    "\tif err := c.runPreGetHooks(key); err != nil {\n\t\treturn nil, err\n\t}", "\t_ = c.runPreGetHooks(key)", "C14-R6|database.(*Controller).Get / error of database.Controller.runPreGetHooks")
mut("C12", "r8-session-error-dropped", "api/authentication.go",
    "\terr = createSession(w, r, token)", "\t_ = createSession(w, r, token)", "C12-R8|api.checkAuth / error of api.createSession")

# ---- round-3 strengthening ------------------------------------------------------------
def clone(src_name, prop, name, expect, comment=""):
    src = [m for m in M if m["name"] == src_name][0]
    M.append({"name": f"{prop}-{name}", "prop": prop, "expect": expect if isinstance(expect, list) else [expect],
              "edits": src["edits"], "canary": False, "comment": comment or ("same edit as " + src_name)})

clone("C06-r1-ctrlfn-before-defer", "C01", "r9-ctrlfn-panic-not-reported", "C01-R9|modules.(*Module).startCtrlFn", "round-3 seed C01-c1 (same class)")
clone("C01-r6-stop-aborts-on-error", "C05", "r8-stop-aborts-on-error", "C05-R8|modules.stopModules / return", "round-3 seed C05-c1")
clone("C06-r5-default-returns", "C05", "r9-service-worker-loop", "C05-R9|modules.(*Module).runServiceWorker", "round-3 seed C05-c2 (same class)")
clone("C03-r5-subscribe-swapped", "C14", "r7-subscribe-swapped", "C14-R7|", "round-3 seed C14-c1")
mut("C06", "r7-report-leaks-reporting-lock", "modules/error.go",
    "\treportingLock.Lock()\n\tdefer reportingLock.Unlock()\n\n\tlastReportedError = me", "\treportingLock.Lock()\n\n\tlastReportedError = me\n\tif !reportToStdErr {\n\t\treturn\n\t}\n\tdefer reportingLock.Unlock()", "C06-R7|modules.(*ModuleError).Report", comment="round-3 seed C06-c2")
mut("C06", "r9-mgmt-stop-error-overwritten", "modules/mgmt.go",
    "\t\tlog.Warning(err.Error())\n\t\tlastErr = err\n\t}", "\t\tlog.Warning(err.Error())\n\t}\n\tlastErr = err", "C06-R9|modules.ManageModules / error of modules.stopModules is returned", comment="round-3 seed C06-c1")
mut("C06", "r10-report-blocks", "modules/error.go",
    "\t\tcase errorReportingChannel <- me:\n\t\tdefault:\n\t\t}", "\t\tcase errorReportingChannel <- me:\n\t\tcase <-shutdownSignal:\n\t\t}", "C06-R10|modules.(*ModuleError).Report", comment="round-3 seed C15-c2")
clone("C06-r10-report-blocks", "C15", "r5-report-blocks", "C15-R5|modules.(*ModuleError).Report", "round-3 seed C15-c2")
mut("C02", "r11-cache-zero-ttl-no-expiry", "database/interface_cache.go",
    "\tif ttl >= 0 {\n\t\t_ = i.cache.SetWithExpire(", "\tif ttl > 0 {\n\t\t_ = i.cache.SetWithExpire(", "C02-R11|database.(*Interface).updateCache / cache.Set without expiry", comment="round-3 seed C02-c2")
mut("C03", "r3-putnew-precheck-wrong-key", "database/interface.go",
    "_, db, err = i.getMeta(r.DatabaseName(), r.DatabaseKey(), true)", "_, db, err = i.getMeta(r.DatabaseName(), r.Key(), true)", "C03-R3|database.(*Interface).PutNew / database.Interface.getMeta addresses the stored record", occurrence=2, comment="round-3 seed C03-c1")
mut("C04", "r9-list-entries-not-checked-against-allowed", "config/validate.go",
    "\n\t\t\t\tif err := isAllowedPossibleValue(option, entry); err != nil {\n\t\t\t\t\treturn nil, invalid(option, \"entry #%d is not allowed\", pos+1)\n\t\t\t\t}\n", "\n", "C04-R9|config.validateValue / every list entry is checked against the allowed values", comment="round-3 seed C04-c2")
mut("C04", "r9-scalars-not-checked-against-allowed", "config/validate.go",
    "\tif option.OptType != OptTypeStringArray {\n\t\tif err := isAllowedPossibleValue(option, value); err != nil {", "\tif option.OptType == OptTypeInt {\n\t\tif err := isAllowedPossibleValue(option, value); err != nil {", "C04-R9|config.validateValue / stringVal accepted only after the allowed-values check")
mut("C07", "r7-deadline-not-rearmed", "modules/tasks.go",
    "\tif t.maxDelay != 0 {\n\t\tt.executeAt = time.Now().Add(t.maxDelay)", "\tif t.maxDelay != 0 && !t.overtime {\n\t\tt.executeAt = time.Now().Add(t.maxDelay)", "C07-R7|modules.(*Task).prepForQueueing", comment="round-3 seed C07-c1")
mut("C08", "r9-parsekey-drops-suffix", "database/record/key.go",
    "\tsplitted := strings.SplitN(key, \":\", 2)\n\tif len(splitted) < 2 {\n\t\treturn splitted[0], \"\"\n\t}\n\treturn splitted[0], strings.Join(splitted[1:], \":\")", "\tsplitted := strings.Split(key, \":\")\n\tif len(splitted) < 2 {\n\t\treturn splitted[0], \"\"\n\t}\n\treturn splitted[0], splitted[1]", "C08-R9|database/record.ParseKey", comment="round-3 seed C08-c1")
mut("C09", "r8-dump-prepends-in-place", "formats/dsd/dsd.go",
    "\treturn append(varint.Pack8(format), data...), nil", "\tid := varint.Pack8(format)\n\tdata = append(data, id...)\n\tcopy(data[len(id):], data)\n\tcopy(data, id)\n\treturn data, nil", "C09-R8|formats/dsd.DumpIndent", comment="round-3 seed C09-c2")
mut("C09", "r9-wildcard-before-strip", "formats/dsd/http.go",
    "\t\tmimeType = strings.TrimSpace(mimeType)\n\t\tmimeType, _, _ = strings.Cut(mimeType, \";\")", "\t\tmimeType = strings.TrimSpace(mimeType)\n\t\tif mimeType == \"*\" {\n\t\t\tfoundWildcard = true\n\t\t\tcontinue\n\t\t}\n\t\tmimeType, _, _ = strings.Cut(mimeType, \";\")", "C09-R9|formats/dsd.FormatFromAccept / wildcard comparison", comment="round-3 seed C09-c1")
mut("C11", "r7-inlist-fieldsfunc", "database/query/condition-stringslice.go",
    "parsedValue := strings.Split(v, \",\")", "parsedValue := strings.FieldsFunc(v, func(r rune) bool { return r == ',' })", "C11-R7|database/query.newStringSliceCondition", comment="round-3 seed C11-c2")
mut("C11", "r8-float-printed-short", "database/query/condition-float.go",
    "return fmt.Sprintf(\"%s %s %g\", escapeString(c.key), getOpName(c.operator), c.value)", "return fmt.Sprintf(\"%s %s %.6g\", escapeString(c.key), getOpName(c.operator), c.value)", "C11-R8|database/query.(*floatCondition).string", comment="round-3 seed C11-c1")
mut("C12", "r9-refresh-deferred-before-expiry-check", "api/authentication.go",
    "\t// Check if session is still valid.\n\tif sess.Expired() {", "\tdefer sess.Refresh(sessionCookieTTL)\n\n\t// Check if session is still valid.\n\tif sess.Expired() {", "C12-R9|api.checkSessionCookie / session refreshed", comment="round-3 seed C12-c1")
mut("C13", "r9-new-before-del", "api/database.go",
    "\t\t\t\tcase isDeleted:\n\t\t\t\t\tapi.send(opID, dbMsgTypeDel, r.Key(), nil)\n\t\t\t\tcase isNew:\n\t\t\t\t\tapi.send(opID, dbMsgTypeNew, r.Key(), data)", "\t\t\t\tcase isNew:\n\t\t\t\t\tapi.send(opID, dbMsgTypeNew, r.Key(), data)\n\t\t\t\tcase isDeleted:\n\t\t\t\t\tapi.send(opID, dbMsgTypeDel, r.Key(), nil)", "C13-R9|api.(*DatabaseAPI).processSub / reply new", comment="round-3 seed C13-c1")
mut("C14", "r8-pushfunc-captures-controller", "runtime/registry.go",
    "\treturn func(records ...record.Record) {\n\t\tr.l.RLock()\n\t\tdefer r.l.RUnlock()\n\n\t\tif r.dbController == nil {\n\t\t\treturn\n\t\t}\n\n\t\tfor _, rec := range records {\n\t\t\tr.dbController.PushUpdate(rec)", "\tctrl := r.dbController\n\treturn func(records ...record.Record) {\n\t\tr.l.RLock()\n\t\tdefer r.l.RUnlock()\n\n\t\tfor _, rec := range records {\n\t\t\tctrl.PushUpdate(rec)", "C14-R8|runtime.(*Registry).Register", comment="round-3 seed C14-c2")
mut("C16", "r9-writetoslice-exact-fit", "container/container.go",
    "\t\tif len(slice) < len(c.compartments[i]) {", "\t\tif len(slice) <= len(c.compartments[i]) {", "C16-R9|container.(*Container).WriteToSlice", comment="round-3 seed C16-c2")
mut("C18", "r3-walker-reads-outside-scope", "database/storage/fstree/fstree.go",
    "\t\t// still in scope?\n\t\tif !fst.isInScope(path) {\n\t\t\treturn nil\n\t\t}\n", "", "C18-R3|database/storage/fstree.(*FSTree).queryExecutor$1 / os.ReadFile", comment="round-3 seed C18-c1")
mut("C18", "r3-ensurereldir-bypasses-checks", "utils/structure.go",
    "\treturn ds.EnsureAbsPath(filepath.Join(append([]string{ds.Path}, dirNames...)...))", "\t_ = filepath.Join\n\treturn ds.ensure(dirNames)", "C18-R3|utils.(*DirStructure).EnsureRelDir / call DirStructure.ensure", comment="round-3 seed C18-c2")
mut("C19", "r9-fallback-keeps-old-selection", "updater/resource.go",
    "\t// 5) Default to newest.\n\tres.SelectedVersion = res.Versions[0]", "\t// 5) Default to newest.\n\tif res.SelectedVersion == nil {\n\t\tres.SelectedVersion = res.Versions[0]\n\t}", "C19-R9|updater.(*Resource).selectVersion", comment="round-3 seed C19-c2")
mut("C20", "r3-duplicates-not-reset-per-batch", "log/output.go",
    "\t\tcurrentLine = nil\n\t\tduplicates = 0\n", "\t\tcurrentLine = nil\n", "C20-R3|log.writer / repetition count reset", comment="round-3 seed C20-c1")
mut("C20", "r4-waitgroup-add-inside-goroutine", "log/output.go",
    "\tshutdownWaitGroup.Add(1)\n\tgo writerManager()\n}\n\nfunc writerManager() {\n\tdefer shutdownWaitGroup.Done()", "\tgo writerManager()\n}\n\nfunc writerManager() {\n\tshutdownWaitGroup.Add(1)\n\tdefer shutdownWaitGroup.Done()", "C20-R4|log.startWriter / wait group armed", comment="round-3 seed C20-c2")
mut("C20", "r6-debugf-uses-trace-level", "log/input.go",
    "\tif fastcheck(DebugLevel) {\n\t\tlog(DebugLevel, fmt.Sprintf(format, things...), nil)", "\tif fastcheck(TraceLevel) {\n\t\tlog(DebugLevel, fmt.Sprintf(format, things...), nil)", "C20-R6|log.Debugf / passes on DebugLevel")
mut("C20", "r6-tracer-warning-labelled-info", "log/trace.go",
    "\t\ttracer.log(WarningLevel, msg)", "\t\ttracer.log(InfoLevel, msg)", "C20-R6|log.(*ContextTracer).Warning / passes on WarningLevel")
mut("C20", "r6-info-without-fastcheck", "log/input.go",
    "\tif fastcheck(InfoLevel) {\n\t\tlog(InfoLevel, msg, nil)\n\t}", "\tlog(InfoLevel, msg, nil)", "C20-R6|log.Info / log() behind fastcheck")

# ---- metadata tables (C02-R12) -----------------------------------------------------------
mut("C02", "r12-validity-expiry-inclusive", "database/record/meta.go",
    "\tcase m.Expires > 0 && m.Expires < time.Now().Unix():", "\tcase m.Expires > 0 && m.Expires <= time.Now().Unix():", "C02-R12|database/record.(*Meta).CheckValidity")
mut("C02", "r12-validity-ignores-deleted-sign", "database/record/meta.go",
    "\tcase m.Deleted > 0:\n\t\treturn false\n\tcase m.Expires > 0", "\tcase m.Deleted != 0:\n\t\treturn false\n\tcase m.Expires > 0", "C02-R12|database/record.(*Meta).CheckValidity")
mut("C02", "r12-relative-expiry-negative", "database/record/meta.go",
    "\tif abs < 0 {\n\t\treturn 0\n\t}\n\treturn abs", "\treturn abs", "C02-R12|database/record.(*Meta).GetRelativeExpiry")
mut("C02", "r12-update-rearm-sign", "database/record/meta.go",
    "\t\tm.Expires = now - m.Deleted", "\t\tm.Expires = now + m.Deleted", "C02-R12|database/record.(*Meta).Update")
mut("C02", "r12-update-overwrites-created", "database/record/meta.go",
    "\tif m.Created == 0 {\n\t\tm.Created = now\n\t}", "\tm.Created = now", "C02-R12|database/record.(*Meta).Update")
mut("C02", "r12-setrelative-accepts-negative", "database/record/meta.go",
    "\tif seconds >= 0 {\n\t\tm.Deleted = -seconds\n\t}", "\tm.Deleted = -seconds", "C02-R12|database/record.(*Meta).SetRelativateExpiry")
mut("C12", "r9-session-expired-inverted", "api/authentication.go",
    "\treturn time.Now().After(sess.validUntil)", "\treturn sess.validUntil.After(time.Now())", "C12-R9|api.(*session).Expired")
mut("C19", "r2-sort-oldest-first", "updater/resource.go",
    "\treturn res.Versions[i].semVer.GreaterThan(res.Versions[j].semVer)", "\treturn res.Versions[i].semVer.LessThan(res.Versions[j].semVer)", "C19-R2|updater.(*Resource).Less")

# ---- A12 narrowing conversions -----------------------------------------------------------
mut("C11", "r9-limit-parsed-64bit", "database/query/parser.go",
    "limit, err := strconv.ParseUint(limitSnippet.text, 10, 31)", "limit, err := strconv.ParseUint(limitSnippet.text, 10, 64)", "C11-R9|database/query.ParseQuery / uint64 -> int")
mut("C16", "r10-blocksize-narrowed-untested", "container/container.go",
    "\tif blockSize > uint64(c.Length()-n) {\n\t\treturn nil, errors.New(\"container: not enough data to return\")\n\t}\n\tc.skip(n)\n\treturn c.Get(int(blockSize))", "\tc.skip(n)\n\treturn c.Get(int(blockSize))", "C16-R10|container.(*Container).GetNextBlock / uint64 -> int")
mut("C10", "r5-unpack16-narrowed-untested", "formats/varint/varint.go",
    "\tif n > 65535 {\n\t\treturn 0, 0, errors.New(\"varint: encoded integer greater than 65535 (uint16)\")\n\t}\n", "", "C10-R5|formats/varint.Unpack16 / uint64 -> uint16")

# ---- round 4 (seeded changes -d1/-d2): the seed edits themselves, taken from the stored patches ------------
def from_patch(prop, name, seed, expect, comment="", rebased=False):
    """one mutant whose edits are the hunks of /verif/seeded/<seed>/patch.diff (old = context+removed, new = context+added)"""
    import re as _re
    pf = os.path.join(V, "seeded", seed, "patch_rebased.diff")
    if not (rebased or os.path.exists(pf)) or not os.path.exists(pf):
        pf = os.path.join(V, "seeded", seed, "patch.diff")
    edits, cur, file = [], None, None
    for line in open(pf).read().split("\n"):
        if line.startswith("+++ b/"):
            file = line[6:]
        elif line.startswith("@@"):
            cur = {"file": file, "old": "", "new": "", "_line": int(_re.match(r"@@ -(\d+)", line).group(1))}
            edits.append(cur)
        elif cur is not None and not line.startswith("\\"):
            if line.startswith("-") and not line.startswith("---"):
                cur["old"] += line[1:] + "\n"
            elif line.startswith("+") and not line.startswith("+++"):
                cur["new"] += line[1:] + "\n"
            elif line.startswith(" "):
                cur["old"] += line[1:] + "\n"
                cur["new"] += line[1:] + "\n"
            elif line.startswith("diff --git"):
                cur = None
    edits = [e for e in edits if e["old"] != e["new"]]
    for e in edits:
        # an anchor that occurs more than once: pick the occurrence nearest to the hunk's line
        line = e.pop("_line")
        try:
            src = open("/repo/" + e["file"]).read()
        except OSError:
            continue
        starts = [m.start() for m in _re.finditer(_re.escape(e["old"]), src)]
        if len(starts) > 1:
            lines = [src.count("\n", 0, p) + 1 for p in starts]
            e["occurrence"] = min(range(len(lines)), key=lambda k: abs(lines[k] - line)) + 1
    M.append({"name": f"{prop}-{name}", "prop": prop, "expect": expect if isinstance(expect, list) else [expect],
              "edits": edits, "canary": False, "comment": comment or ("round-4 seed " + seed)})

from_patch("C02", "r13-flush-threshold-inclusive", "C02-d1", "C02-R13|database.(*Interface).flushWriteCache / returns without writing")
from_patch("C02", "r14-delete-mark-before-apply", "C02-d2", "C02-R14|database.(*Interface).Delete / deletion mark")
from_patch("C04", "r10-replace-keeps-old-value", "C04-d2", "C04-R10|config.ReplaceConfig$1")
from_patch("C05", "r10-start-keeps-old-context", "C05-d1", "C05-R10|modules.(*Module).start")
from_patch("C05", "r11-ctrlfn-flag-not-deferred", "C05-d2", "C05-R11|modules.(*Module).startCtrlFn")
from_patch("C06", "r12-stop-error-overwritten", "C06-d1", "C06-R12|modules.stopModules / returned error accumulator")
from_patch("C06", "r11-api-panic-report-conditional", "C06-d2", "C06-R11|api.(*mainHandler).handle$2")
from_patch("C07", "r8-finish-signal-before-reset", "C07-d1", "C07-R8|modules.(*Task).executeWithLocking$1 / finish signal")
from_patch("C07", "r9-schedule-as-overtime", "C07-d2", "C07-R9|modules.(*Task).Schedule / addToSchedule(overtime)")
from_patch("C09", "r10-load-reports-compression-id", "C09-d2", "C09-R10|formats/dsd.Load / return")
from_patch("C10", "r6-prependlength-bare-empty", "C10-d2", "C10-R6|formats/varint.PrependLength / return")
from_patch("C11", "r10-escape-with-percent-q", "C11-d1", "C11-R10|database/query.escapeString / return", rebased=True)
from_patch("C11", "r10-first-token-range-loop", "C11-d2", "C11-R10|database/query.endOfFirstToken / escape handling")
mut("C11", "r10-backslash-not-escaped", "database/query/parser.go",
    "\t\ttoken = strings.ReplaceAll(token, \"\\\\\", \"\\\\\\\\\")\n", "", "C11-R10|database/query.escapeString / return", comment="reverts fix d828010")
mut("C11", "r10-preptoken-flag-ignored-for-quote", "database/query/parser.go",
    "\t\tcase escaped:\n\t\t\t// escaped characters are taken literally\n\t\t\tb.WriteByte(text[i])\n\t\t\tescaped = false\n\t\tcase text[i] == '\\\\':\n\t\t\tescaped = true\n\t\tcase text[i] == '\"':\n\t\t\t// unescaped parenthesis only surround the token\n",
    "\t\tcase text[i] == '\"':\n\t\t\t// parenthesis only surround the token\n\t\t\tescaped = false\n\t\tcase escaped:\n\t\t\t// escaped characters are taken literally\n\t\t\tb.WriteByte(text[i])\n\t\t\tescaped = false\n\t\tcase text[i] == '\\\\':\n\t\t\tescaped = true\n",
    "C11-R10|database/query.prepToken / escape flag", comment="reverts fix d828010 (escaped quotes dropped again)")
from_patch("C12", "r10-reset-keeps-session", "C12-d2", "C12-R10|api.authReset / the presented session is deleted")
from_patch("C13", "r10-unregistered-db-is-notfound", "C13-d1", "C13-R10|database.getDatabase / controller lookup never yields ErrNotFound")
from_patch("C13", "r11-hashmap-query-leaks-record-lock", "C13-d2", "C13-R11|")
from_patch("C14", "r9-option-update-exclusive-switch", "C14-d1", "C14-R9|config.handleOptionUpdate")
from_patch("C15", "r6-low-prio-medium-default", "C15-d1", "C15-R6|modules.(*Module).RunLowPriorityMicroTask")
from_patch("C15", "r7-panic-error-calls-value", "C15-d2", "C15-R7|")
from_patch("C16", "r11-peek-zero-is-nil", "C16-d1", "C16-R11|container.(*Container).PeekContainer / nil result")
from_patch("C17", "r6-unexpected-eof-is-success", "C17-d1", "C17-R6|updater.copyFromZipArchive / error call:io.CopyN")
from_patch("C17", "r7-unpack-through-limitreader", "C17-d2", "C17-R7|updater.(*File).Unpack / io.LimitReader cap")
mut("C17", "r7-copyn-cap-silent", "updater/unpacking.go",
    "\tif _, err := io.ReadFull(fileReader, make([]byte, 1)); err == nil {\n\t\treturn fmt.Errorf(\"file in archive exceeds the maximum unpack size of %d bytes\", MaxUnpackSize)\n\t} else if !errors.Is(err, io.EOF) {\n\t\treturn err\n\t}\n", "",
    "C17-R7|updater.copyFromZipArchive / io.CopyN cap", comment="reverts fix c902e39")
from_patch("C18", "r4-scope-case-insensitive", "C18-d1", "C18-R4|database/storage/fstree.(*FSTree).isInScope")
from_patch("C18", "r3-ensure-bypasses-scope-check", "C18-d2", "C18-R3|utils.(*DirStructure).Ensure / call DirStructure.ensure")
from_patch("C19", "r10-version-cut-from-whole-path", "C19-d2", "C19-R10|updater.GetIdentifierAndVersion / path parameter")
from_patch("C01", "r10-mgmt-start-error-shadowed", "C01-d2", "C01-R10|modules.ManageModules")
from_patch("C03", "r9-crownjewel-read-from-secret-byte", "C03-d2", "C03-R9|database/record.Meta GenCode / flag bytes")

# further instances for the round-4 rules (other sites than the seeds)
mut("C17", "r6-fstree-retry-result-dropped", "database/storage/fstree/fstree.go",
    "\t\terr = writeFile(dstPath, data, defaultFileMode)\n\t\tif err != nil {\n\t\t\treturn nil, fmt.Errorf(\"fstree: could not write file %s: %w\", dstPath, err)\n\t\t}\n",
    "\t\tif err = writeFile(dstPath, data, defaultFileMode); err != nil {\n\t\t\tlog.Warningf(\"fstree: could not write file %s: %s\", dstPath, err)\n\t\t}\n",
    "C17-R6|database/storage/fstree.(*FSTree).Put / error call:database/storage/fstree.writeFile#0", extra=[{"file": "database/storage/fstree/fstree.go", "old": "import (\n", "new": "import (\n\t\"github.com/safing/portbase/log\"\n"}])
mut("C06", "r11-worker-panic-report-only-when-running", "modules/worker.go",
    "\t\tpanicVal := recover()\n\t\tif panicVal != nil {\n\t\t\tme := m.NewPanicError(name, \"worker\", panicVal)\n\t\t\tme.Report()\n\t\t\terr = me\n\t\t}",
    "\t\tpanicVal := recover()\n\t\tif panicVal != nil {\n\t\t\tme := m.NewPanicError(name, \"worker\", panicVal)\n\t\t\tif !m.stopFlag.IsSet() {\n\t\t\t\tme.Report()\n\t\t\t}\n\t\t\terr = me\n\t\t}",
    "C06-R11|modules.(*Module).runWorker$1 / every panic path reports")
mut("C06", "r12-prep-clean-exit-is-success", "modules/start.go",
    "\t\t\t\tif errors.Is(rep.err, ErrCleanExit) {\n\t\t\t\t\treturn rep.err\n\t\t\t\t}", "\t\t\t\tif errors.Is(rep.err, ErrCleanExit) {\n\t\t\t\t\treturn nil\n\t\t\t\t}",
    "C06-R12|modules.prepareModules / report error test")
mut("C05", "r10-task-context-refreshed-without-cancel", "modules/tasks.go",
    "\t\t// notify that we finished\n\t\tt.cancelCtx()\n", "\t\t// notify that we finished\n\t\tif t.repeat == 0 {\n\t\t\tt.cancelCtx()\n\t\t}\n",
    "C05-R10|modules.(*Task).executeWithLocking$1 / modules.Task.ctx replaced")
mut("C13", "r10-getmeta-nil-controller-with-notfound", "database/interface.go",
    "\tif mustBeWriteable && db.ReadOnly() {\n\t\treturn nil, db, ErrReadOnly\n\t}\n\n\tr := i.checkCache(dbName + \":\" + dbKey)\n\tif r != nil {\n\t\tif !i.options.hasAccessPermission(r) {\n\t\t\treturn nil, db, ErrPermissionDenied\n\t\t}\n\t\treturn r.Meta(), db, nil\n\t}\n\n\tm, err = db.GetMeta(dbKey)\n\tif err != nil {\n\t\treturn nil, db, err\n\t}",
    "\tif mustBeWriteable && db.ReadOnly() {\n\t\treturn nil, db, ErrReadOnly\n\t}\n\n\tr := i.checkCache(dbName + \":\" + dbKey)\n\tif r != nil {\n\t\tif !i.options.hasAccessPermission(r) {\n\t\t\treturn nil, db, ErrPermissionDenied\n\t\t}\n\t\treturn r.Meta(), db, nil\n\t}\n\n\tm, err = db.GetMeta(dbKey)\n\tif err != nil {\n\t\treturn nil, nil, err\n\t}",
    "C13-R10|database.(*Interface).getMeta / return")
mut("C18", "r4-unpack-guard-lowercased", "updater/unpacking.go",
    "strings.HasPrefix(", "strings.HasPrefix(strings.ToLower(\"\")+", "C18-R4|updater.(*Resource).unpackZipArchive", occurrence=1)
mut("C02", "r14-delete-resets-meta-after-mark", "database/interface.go",
    "\tr.Meta().Delete()\n", "\tr.Meta().Delete()\n\tif i.options.AlwaysSetRelativateExpiry > 0 {\n\t\tr.Meta().SetRelativateExpiry(i.options.AlwaysSetRelativateExpiry)\n\t}\n",
    "C02-R14|database.(*Interface).Delete / deletion mark")

# A13 over the database layer / config
clone("C03-r3-put-precheck-ignored", "C02", "r15-put-tolerates-permission-denied", "C02-R15|database.(*Interface).Put / error call:database.Interface.getMeta", "same edit as C03-r3-put-precheck-ignored: a second error class is treated as 'record does not exist yet'")
mut("C02", "r15-exists-default-false", "database/interface.go",
    "\t\tdefault:\n\t\t\treturn false, err\n\t\t}\n\t}\n\treturn true, nil", "\t\tdefault:\n\t\t\treturn false, nil\n\t\t}\n\t}\n\treturn true, nil", "C02-R15|database.(*Interface).Exists / error call:database.Interface.Get")
mut("C02", "r15-fstree-delete-ignores-all-errors", "database/storage/fstree/fstree.go",
    "\tif err != nil && !errors.Is(err, fs.ErrNotExist) {\n\t\treturn fmt.Errorf(\"fstree: could not delete %s: %w\", dstPath, err)\n\t}", "\tif err != nil && !errors.Is(err, fs.ErrNotExist) && !errors.Is(err, fs.ErrPermission) {\n\t\treturn fmt.Errorf(\"fstree: could not delete %s: %w\", dstPath, err)\n\t}",
    "C02-R15|database/storage/fstree.(*FSTree).Delete / error call:os.Remove")
mut("C04", "r11-load-tolerates-permission-error", "config/main.go",
    "\tif err != nil && !errors.Is(err, fs.ErrNotExist) {\n\t\treturn fmt.Errorf(\"failed to load config file: %w\", err)\n\t}", "\tif err != nil && !errors.Is(err, fs.ErrNotExist) && !errors.Is(err, fs.ErrPermission) {\n\t\treturn fmt.Errorf(\"failed to load config file: %w\", err)\n\t}",
    "C04-R11|config.start / error call:config.loadConfig")

# A14 sibling agreement: one-sided edits
clone("C04-r10-replace-keeps-old-value", "C04", "r12-replace-siblings-disagree", "C04-R12|config.ReplaceConfig ~ config.ReplaceDefaultConfig", "one-sided edit (round-4 seed C04-d2)")
clone("C15-r6-low-prio-medium-default", "C15", "r8-run-siblings-disagree", "C15-R8|modules.(*Module).RunMicroTask ~ modules.(*Module).RunLowPriorityMicroTask", "one-sided edit (round-4 seed C15-d1)")
mut("C15", "r8-low-clearance-no-count", "modules/microtasks.go",
    "\t\tcase lowPriorityClearance <- signal:\n\t\tcase <-time.After(maxDelay):\n\t\t\t// Start without clearance and increase microtask counter.\n\t\t\tatomic.AddInt32(microTasks, 1)\n\t\t\treturn",
    "\t\tcase lowPriorityClearance <- signal:\n\t\tcase <-time.After(maxDelay):\n\t\t\t// Start without clearance.\n\t\t\treturn",
    "C15-R8|modules.getMediumPriorityClearance ~ modules.getLowPriorityClearance")
mut("C02", "r16-bytes-accessor-int-accepts-strings", "database/accessor/accessor-json-bytes.go",
    "\tif !result.Exists() || result.Type != gjson.Number {\n\t\treturn 0, false\n\t}\n\treturn result.Int(), true", "\tif !result.Exists() {\n\t\treturn 0, false\n\t}\n\treturn result.Int(), true",
    "C02-R16|database/accessor.(*JSONAccessor).GetInt ~ database/accessor.(*JSONBytesAccessor).GetInt")
mut("C03", "r10-crownjewel-setter-not-writeable-checked", "database/interface.go",
    "func (i *Interface) MakeCrownJewel(key string) error {\n\tr, db, err := i.getRecord(getDBFromKey, key, true)", "func (i *Interface) MakeCrownJewel(key string) error {\n\tr, db, err := i.getRecord(getDBFromKey, key, false)",
    "C03-R10|database.(*Interface).MakeSecret ~ database.(*Interface).MakeCrownJewel")
mut("C11", "r11-or-check-stops-at-first", "database/query/condition-or.go",
    "\t\terr = cond.check()\n\t\tif err != nil {\n\t\t\treturn err\n\t\t}\n\t}\n\treturn nil", "\t\terr = cond.check()\n\t\treturn err\n\t}\n\treturn nil",
    "C11-R11|database/query.(*andCond).check ~ database/query.(*orCond).check")
mut("C08", "r10-wrapper-envelope-without-version", "database/record/wrapper.go",
    "\t// version\n\tc := container.New([]byte{1})\n\n\t// meta\n\tmetaSection, err := dsd.Dump(w.meta, dsd.GenCode)", "\t// version\n\tc := container.New()\n\n\t// meta\n\tmetaSection, err := dsd.Dump(w.meta, dsd.GenCode)",
    "C08-R10|database/record.(*Base).MarshalRecord ~ database/record.(*Wrapper).MarshalRecord")
mut("C12", "r11-basic-auth-endpoint-always-ok", "api/endpoints_meta.go",
    "func authBasic(w http.ResponseWriter, r *http.Request) {\n\t// Check if authenticated by checking read permission.\n\tar := GetAPIRequest(r)\n\tif ar.AuthToken.Read != PermitAnyone {", "func authBasic(w http.ResponseWriter, r *http.Request) {\n\t// Check if authenticated by checking read permission.\n\tar := GetAPIRequest(r)\n\tif ar.AuthToken.Read >= PermitAnyone {",
    "C12-R11|api.authBearer ~ api.authBasic")
mut("C09", "r11-response-loader-ignores-content-type", "formats/dsd/http.go",
    "\treturn loadFromHTTP(resp.Body, resp.Header.Get(httpHeaderContentType), t)", "\treturn loadFromHTTP(resp.Body, \"\", t)",
    "C09-R11|formats/dsd.LoadFromHTTPRequest ~ formats/dsd.LoadFromHTTPResponse")

# ---- round 5 (seeded changes -e1/-e2) --------------------------------------------------------
def r5(prop, name, seed, expect):
    from_patch(prop, name, seed, expect, comment="round-5 seed " + seed)
r5("C01", "r11-shutdown-skips-stop-after-failed-start", "C01-e1", "C01-R11|modules.Shutdown")
r5("C02", "r17-evicted-record-stays-in-write-cache", "C02-e2", "C02-R17|database.(*Interface).cacheEvictHandler")
r5("C03", "r11-nil-options-are-privileged", "C03-e2", "C03-R11|database.NewInterface")
r5("C05", "r12-hook-bound-to-event-module", "C05-e2", "C05-R12|modules.(*Module).RegisterEventHook")
r5("C06", "r1-microtask-result-not-named", "C06-e1", "C06-R1|modules.(*Module).runMicroTask / dynamic call of param:fn / panic error reaches the caller")
r5("C06", "r13-no-rearm-after-panic", "C06-e2", "C06-R13|modules.(*Task).executeWithLocking$1")
r5("C07", "r11-promoted-task-not-marked", "C07-e1", "C07-R11|modules.taskScheduleHandler / overtime=true")
r5("C07", "r10-prioritize-ignored-when-queued", "C07-e2", "C07-R10|modules.(*Task).QueuePrioritized")
r5("C12", "r12-auth-error-not-handled", "C12-e2", "C12-R12|api.checkAuth / error response")
r5("C14", "r10-immediate-delete-not-notified", "C14-e1", "C14-R10|database.(*Controller).Put / return")
r5("C15", "r9-stop-completion-global-count", "C15-e2", "C15-R9|modules.(*Module).checkIfStopComplete")
r5("C16", "r12-unpack8-128-one-byte", "C16-e1", "C16-R12|formats/varint.Unpack8")
r5("C16", "r13-getmax-skips-request", "C16-e2", "C16-R13|container.(*Container).GetMax")
r5("C17", "r5-copy-error-overwritten", "C17-e1", "C17-R5|utils.CreateAtomic / error of io.Copy is examined on every path")
r5("C17", "r9-unpack-without-lock", "C17-e2", "C17-R9|updater.(*Resource).UnpackArchive")
r5("C19", "r11-index-only-on-create", "C19-e2", "C19-R11|updater.(*ResourceRegistry).addResource")

# A14: getter and log wrapper families
clone("C20-r6-info-without-fastcheck", "C20", "r7-info-wrapper-differs", "C20-R7|log.Trace ~ log.Info", "one-sided edit of a wrapper")
clone("C20-r6-tracer-warning-labelled-info", "C20", "r7-tracer-warning-level", "C20-R7|log.(*ContextTracer).Trace ~ log.(*ContextTracer).Warning", "one-sided edit of a wrapper")
mut("C04", "r13-int-getter-keeps-stale-value", "config/get.go",
    "\t\t\tif valueCache != nil {\n\t\t\t\tvalue = valueCache.intVal\n\t\t\t} else {\n\t\t\t\tvalue = fallback\n\t\t\t}", "\t\t\tif valueCache != nil {\n\t\t\t\tvalue = valueCache.intVal\n\t\t\t}",
    "C04-R13|config.GetAsString ~ config.GetAsInt")

# ---- round 6 (seeded changes -f1/-f2, free sites) -----------------------------------------
def r6(prop, name, seed, expect):
    from_patch(prop, name, seed, expect, comment="round-6 seed " + seed)
r6("C03", "r12-putnew-replaces-meta", "C03-f2", "C03-R12|database / metadata object never replaced")
r6("C09", "r12-decompress-through-limitreader", "C09-f1", "C09-R12|formats/dsd / no size-capped reads")
r6("C11", "r12-tokenizer-unicode-space", "C11-f1", "C11-R12|database/query.extractSnippets / characters classified by comparison only")
r6("C11", "r13-list-entries-trimmed", "C11-f2", "C11-R13|database/query.newStringSliceCondition")
r6("C15", "r10-microtask-result-not-named", "C15-f1", "C15-R10|modules.(*Module).runMicroTask")
r6("C17", "r10-zip-member-not-truncated", "C17-f2", "C17-R10|updater.copyFromZipArchive / os.OpenFile flags")
r6("C20", "r8-writer-error-shadowed", "C20-f1", "C20-R8|log.writer$1")
mut("C11", "r12-tokenizer-splits-on-comma", "database/query/parser.go",
    "\t\tcase '\\t', '\\n', '\\r', ' ', '(', ')':", "\t\tcase '\\t', '\\n', '\\r', ' ', ',', '(', ')':", "C11-R12|database/query.extractSnippets / separators are quoted by the printer")

# fixes 8914cb4 / 0b02d0c
mut("C07", "r12-handler-does-not-check-due", "modules/tasks.go",
    "\t\t\tif time.Now().Before(t.executeAt) {\n\t\t\t\tscheduleLock.Unlock()\n\t\t\t\tcontinue\n\t\t\t}\n", "", "C07-R12|modules.taskScheduleHandler /", comment="reverts fix 0b02d0c")
mut("C07", "r13-watcher-reads-task-ctx", "modules/tasks.go",
    "\t\tcase <-execCtx.Done():", "\t\tcase <-t.ctx.Done():", "C07-R13|modules.(*Task).runWithLocking", comment="reverts fix 8914cb4",
    extra=[{"file": "modules/tasks.go", "old": "\texecCtx := t.ctx\n", "new": ""}])
mut("C11", "r14-group-leaves-operand-expected", "database/query/parser.go",
    "\t\t\t\tconditions = append(conditions, condition)\n\t\t\t}\n\t\t\texpectingMore = false\n\t\tcase \")\":", "\t\t\t\tconditions = append(conditions, condition)\n\t\t\t}\n\t\t\texpectingMore = true\n\t\tcase \")\":",
    "C11-R14|database/query.parseAndOr / loop back-edge", comment="reverts fix ce933f7")
mut("C11", "r14-not-leaves-nothing-expected", "database/query/parser.go",
    "\t\tcase \"not\":\n\t\t\twrapInNot = true\n\t\t\texpectingMore = true", "\t\tcase \"not\":\n\t\t\twrapInNot = true\n\t\t\texpectingMore = false", "C11-R14|database/query.parseAndOr / loop back-edge")
from_patch("C14", "r11-preput-hooks-outside-lock", "C14-f2", "C14-R11|database.(*Controller).runPostGetHooks ~ database.(*Controller).runPrePutHooks", comment="one-sided edit (round-6 seed C14-f2)")

# ---- round 7 (seeded changes -g1/-g2) --------------------------------------------------------
def r7(prop, name, seed, expect):
    from_patch(prop, name, seed, expect, comment="round-7 seed " + seed)
r7("C01", "r12-enable-lost-when-dependency", "C01-g1", "C01-R12|modules.(*Module).Enable")
r7("C02", "r18-wrapper-drops-data-for-ttl", "C02-g1", "C02-R18|")
r7("C02", "r18-controller-query-scopes-swapped", "C02-g2", "C02-R18|")
r7("C03", "r9-typed-meta-as-json", "C03-g1", "C03-R9|database/record MarshalRecord / section sequence")
r7("C04", "r14-regex-derived-after-compile", "C04-g1", "C04-R14|config.Register")
r7("C06", "r14-stop-complete-ignores-ctrl-fn", "C06-g1", "C06-R14|modules.(*Module).checkIfStopComplete")
r7("C07", "r14-restart-keeps-stop-flag", "C07-g1", "C07-R14|")
r7("C08", "r11-unpack8-128-one-byte", "C08-g1", "C08-R11|formats/varint.Unpack8")
r7("C10", "r7-container-block-size-narrowed", "C10-g1", "C10-R7|")
r7("C10", "r7-getnextn32-peeks-four", "C10-g2", "C10-R7|")
r7("C11", "r16-parsekey-splits-all-colons", "C11-g1", "C11-R16|")
r7("C11", "r15-int-operand-parsed-32bit", "C11-g2", "C11-R15|database/query.newIntCondition")
r7("C12", "r13-session-write-from-read", "C12-g1", "C12-R13|api / AuthToken fields")
r7("C12", "r14-empty-permission-is-user", "C12-g2", "C12-R14|api.parseAPIPermission")
r7("C13", "r12-immediate-delete-not-notified", "C13-g1", "C13-R12|database.(*Controller).Put")
r7("C14", "r12-flag-bytes-swapped-on-read", "C14-g2", "C14-R12|database/record.Meta GenCode / flag bytes")
r7("C15", "r11-start-resets-counters", "C15-g1", "C15-R11|modules / activity counters are only")
r7("C15", "r11-counters-share-a-cell", "C15-g2", "C15-R11|modules.Module / the three activity counters")
r7("C16", "r14-appendcontainer-adopts-slice", "C16-g1", "C16-R14|container.(*Container).AppendContainer")
r7("C17", "r11-any-2xx-accepted", "C17-g2", "C17-R11|updater.(*ResourceRegistry).makeRequest")
r7("C18", "r5-zip-symlink-members", "C18-g1", "C18-R5|updater.copyFromZipArchive")
r7("C19", "r12-download-not-marked-active", "C19-g1", "C19-R12|updater.(*ResourceRegistry).GetFile")
r7("C19", "r13-file-version-pattern-single-digit", "C19-g2", "C19-R13|updater version patterns agree")
r7("C20", "r9-tracer-first-line-unguarded", "C20-g1", "C20-R9|log.formatLine")

# A8 tail-relative accesses (x[len(x)-k], x[:len(x)-k])
mut("C20", "r9-package-segment-check-too-low", "log/input.go",
    "\t\tif len(pathSegments) < 2 {\n\t\t\t// file too short for package levels", "\t\tif len(pathSegments) < 1 {\n\t\t\t// file too short for package levels", "C20-R9|log.log", comment="x[len(x)-2] needs len >= 2")
mut("C20", "r9-file-suffix-cut-unguarded", "log/input.go",
    "\t\tif len(file) > 3 {\n\t\t\tfile = file[:len(file)-3]", "\t\tif len(file) > 1 {\n\t\t\tfile = file[:len(file)-3]", "C20-R9|log.log", comment="x[:len(x)-3] needs len >= 3")
mut("C20", "r9-submit-empty-tracer-unguarded", "log/trace.go",
    "\tif len(tracer.logs) == 0 {\n\t\treturn\n\t}\n\n\t// extract last line as main line", "\t// extract last line as main line", "C20-R9|log.(*ContextTracer).Submit", comment="x[len(x)-1] on an empty tracer")

def r8(prop, name, seed, expect):
    from_patch(prop, name, seed, expect, comment="round-8 seed " + seed)
r8("C01", "r13-reset-only-online-modules", "C01-h1", "C01-R13|modules.buildEnabledTree")
r8("C01", "r14-ready-at-first-online-dependency", "C01-h2", "C01-R14|modules.(*Module).readyToStart")
r8("C02", "r19-batch-delete-by-full-key", "C02-h2", "C02-R19|database/storage/bbolt.(*BBolt).batchPutOrDelete")
r8("C04", "r15-load-skips-empty-file", "C04-h1", "C04-R15|config.loadConfig")
r8("C05", "r13-startworker-uncounted", "C05-h2", "C05-R13|modules.(*Module).runWorker")
r8("C06", "r15-start-failure-keeps-starting", "C06-h1", "C06-R15|")
r8("C07", "r16-cancel-while-executing", "C07-h1", "C07-R16|modules.(*Task).Cancel")
r8("C07", "r15-sleep-mode-wakes-queue", "C07-h2", "C07-R15|modules.SetSleepMode")
r8("C08", "r12-unwrap-meta-only-without-key", "C08-h2", "C08-R12|database/record.Unwrap")
r8("C10", "r8-peekcontainer-count-negative", "C10-h2", "C10-R8|container.(*Container).PeekContainer")
r8("C16", "r15-peekcontainer-count-negative", "C10-h2", "C16-R15|container.(*Container).PeekContainer")
r8("C11", "r18-check-without-where-unchecked", "C11-h1", "C11-R18|database/query.(*Query).Check")
r8("C11", "r19-exists-by-spelling", "C11-h2", "C11-R19|")
r8("C11", "r17-not-operator-error-dropped", "C13-h1", "C11-R17|database/query.parseCondition")
r8("C12", "r15-write-permission-returns-read", "C12-h2", "C12-R15|api.(*wrappedAuthenticatedHandler).WritePermission")
r8("C13", "r13-not-operator-error-dropped", "C13-h1", "C13-R13|database/query.parseCondition")
r8("C13", "r14-bbolt-sends-tx-memory", "C13-h2", "C13-R14|database/storage/bbolt.(*BBolt).queryExecutor$1")
r8("C14", "r13-replace-config-invalid-not-pushed", "C14-h1", "C14-R13|config.ReplaceConfig$1")
r8("C04", "r16-replace-config-invalid-not-announced", "C14-h1", "C04-R16|config.ReplaceConfig$1")
r8("C16", "r16-append-block-foreign-offset", "C16-h2", "C16-R16|container.(*Container).AppendContainerAsBlock")
r8("C17", "r12-unpack-in-storage-dir", "C17-h2", "C17-R12|updater.(*Resource).unpackZipArchive")
r8("C18", "r6-symlink-dir-check-skipped", "C18-h1", "C18-R6|")
r8("C18", "r7-fstree-root-not-absolute", "C18-h2", "C18-R7|")
r8("C19", "r15-mark-active-only-first", "C19-h1", "C19-R15|")
r8("C19", "r16-blacklist-selected-version", "C19-h2", "C19-R16|")
r8("C20", "r11-tracer-append-outside-lock", "C20-h2", "C20-R11|")
# accessor distinctness in the other packages
mut("C19", "r14-tmpdir-returns-storage-dir", "updater/registry.go",
    "\treturn reg.tmpDir\n", "\treturn reg.storageDir\n", "C19-R14|updater.(*ResourceRegistry).TmpDir", comment="A16")
mut("C08", "r13-database-name-returns-key", "database/record/base.go",
    "\treturn b.dbName\n", "\treturn b.dbKey\n", "C08-R13|database/record.(*Base).DatabaseName", comment="A16")
mut("C20", "r10-text-returns-file", "log/logging.go",
    "\treturn ll.msg\n", "\treturn ll.file\n", "C20-R10|", comment="A16")

def r9(prop, name, seed, expect):
    from_patch(prop, name, seed, expect, comment="round-9 seed " + seed)
r9("C02", "r21-cache-built-before-evict-handler", "C02-i1", "C02-R21|database.NewInterface")
r9("C03", "r13-event-pushed-before-flags", "C03-i1", "C03-R13|runtime.pushModuleEvent")
r9("C05", "r14-timeslot-wait-after-online-check", "C05-i1", "C05-R14|modules.(*Task).runWithLocking")
r9("C05", "r15-shutdown-flag-before-lock", "C05-i2", "C05-R15|modules.Shutdown")
r9("C06", "r17-stop-check-before-decrement", "C06-i1", "C06-R17|modules.(*Module).concludeMicroTask")
r9("C06", "r18-format-calls-error-on-panic-value", "C06-i2", "C06-R18|")
r9("C07", "r17-queue-notifies-before-push", "C07-i1", "C07-R17|modules.(*Task).Queue")
r9("C07", "r18-repeat-zero-raised-to-minimum", "C07-i2", "C07-R18|modules.(*Task).Repeat")
r9("C08", "r14-gencode-used-before-ok", "C08-i1", "C08-R14|formats/dsd.LoadAsFormat")
r9("C08", "r14-gzip-reader-used-despite-error", "C08-i2", "C08-R14|formats/dsd.DecompressAndLoad")
r9("C09", "r13-truncated-http-body-accepted", "C09-i2", "C09-R13|formats/dsd.loadFromHTTP")
r9("C10", "r9-getascontainer-skips-before-check", "C10-i1", "C10-R9|container.(*Container).GetAsContainer")
r9("C11", "r21-orderby-snippet-used-before-check", "C11-i1", "C11-R21|database/query.ParseQuery")
r9("C12", "r17-authenticator-stored-before-claim", "C12-i1", "C12-R17|api.SetAuthenticator")
r9("C12", "r11-read-permission-falls-back-to-write", "C12-i2", "C12-R11|api.(*endpointHandler).ReadPermission ~ api.(*endpointHandler).WritePermission")
r9("C13", "r15-delete-uses-controller-before-check", "C13-i1", "C13-R15|database.(*Interface).Delete")
r9("C13", "r16-getaccessor-typed-nil", "C13-i2", "C13-R16|database/record.(*Wrapper).GetAccessor")
r9("C18", "r8-sig-fetched-before-scope-check", "C18-i1", "C18-R8|updater.(*ResourceRegistry).fetchMissingSig")
r9("C18", "r8-scope-check-failure-only-logged", "C18-i2", "C18-R8|updater.(*ResourceRegistry).fetchFile")
r9("C19", "r18-available-despite-failed-download", "C19-i1", "C19-R18|")
r9("C19", "r19-addresources-stops-at-first-error", "C19-i2", "C19-R19|")
r9("C20", "r12-pkg-levels-active-before-map", "C20-i1", "C20-R12|log.SetPkgLevels")
r9("C20", "r13-start-returns-before-writer", "C20-i2", "C20-R13|log.Start")
r9("C02", "r20-delete-uses-controller-before-check", "C13-i1", "C02-R20|database.(*Interface).Delete")
r9("C04", "r13-empty-string-treated-as-unset", "C04-i2", "C04-R13|")

mut("C01", "r15-start-abort-returns-at-once", "modules/start.go",
    "\t\t\t\t// Wait for the starts that are still under way. Returning now would\n\t\t\t\t// leave their modules in the starting state, where a shutdown cannot\n\t\t\t\t// stop them, and they would come online after it.\n\t\t\t\tfor reportCnt++; reportCnt < execCnt; reportCnt++ {\n\t\t\t\t\tif other := <-reports; other.err != nil {\n\t\t\t\t\t\tother.module.NewErrorMessage(\"start module\", other.err).Report()\n\t\t\t\t\t}\n\t\t\t\t}\n", "",
    "C01-R15|modules.startModules / return #1", comment="reverts fix cf69098")
mut("C01", "r15-drain-stops-one-short", "modules/start.go",
    "for reportCnt++; reportCnt < execCnt; reportCnt++ {", "for reportCnt++; reportCnt < execCnt-1; reportCnt++ {",
    "C01-R15|modules.startModules / return #1", comment="the drain loop leaves one start under way")

mut("C07", "r19-queue-handler-waits-for-start-alone", "modules/tasks.go",
    "\t\t\tselect {\n\t\t\tcase <-t.module.StartCompleted():\n\t\t\t\tonline = true\n\t\t\tcase <-t.module.Stopping():\n\t\t\t\t// the start failed (or the module is stopped again)\n\t\t\t}\n",
    "\t\t\t<-t.module.StartCompleted()\n\t\t\tonline = true\n",
    "C07-R19|modules.(*Task).runWithLocking", comment="reverts fix 6c1d6d3")
mut("C06", "r19-failed-start-keeps-context", "modules/modules.go",
    "\t\t\t// Cancel the context of the failed start: whatever the start function\n\t\t\t// already launched is told to stop, and tasks waiting for this module\n\t\t\t// to come online are released.\n\t\t\tm.cancelCtx()\n", "",
    "C06-R19|modules.(*Module).start$2", comment="reverts fix 6c1d6d3")

mut("C16", "r17-block-prefix-consumed-before-check", "container/container.go",
    "\tblockSize, n, err := varint.Unpack64(c.Peek(10))\n\tif err != nil {\n\t\treturn nil, err\n\t}\n\tif blockSize > uint64(c.Length()-n) {\n\t\treturn nil, errors.New(\"container: not enough data to return\")\n\t}\n\tc.skip(n)\n\treturn c.Get(int(blockSize))",
    "\tblockSize, err := c.GetNextN64()\n\tif err != nil {\n\t\treturn nil, err\n\t}\n\tif blockSize > uint64(c.Length()) {\n\t\treturn nil, errors.New(\"container: not enough data to return\")\n\t}\n\treturn c.Get(int(blockSize))",
    "C16-R17|container.(*Container).GetNextBlock", comment="reverts fix dc81d92")
clone("C16-r17-block-prefix-consumed-before-check", "C10", "r10-block-prefix-consumed-before-check", "C10-R10|container.(*Container).GetNextBlock", "reverts fix dc81d92")
mut("C16", "r17-container-block-skips-before-check", "container/container.go",
    "\tif blockSize > uint64(c.Length()-n) {\n\t\treturn nil, errors.New(\"container: not enough data to return\")\n\t}\n\tc.skip(n)\n\treturn c.GetAsContainer(int(blockSize))",
    "\tc.skip(n)\n\tif blockSize > uint64(c.Length()) {\n\t\treturn nil, errors.New(\"container: not enough data to return\")\n\t}\n\treturn c.GetAsContainer(int(blockSize))",
    "C16-R17|container.(*Container).GetNextBlockAsContainer", comment="the prefix is skipped before the size check")

mut("C19", "r20-purge-trusts-list-order", "updater/resource.go",
    "\t// The purge boundary is searched from the newest version downwards. Versions\n\t// added since the last version selection are still appended at the end.\n\tsort.Sort(res)\n\n", "",
    "C19-R20|updater.(*Resource).Purge", comment="reverts fix 20ab1fc")

mut("C14", "r14-getcontroller-no-recheck", "database/controllers.go",
    "\t// Another caller may have started the database while we waited for the lock.\n\tcontroller, ok = controllers[name]\n\tif ok {\n\t\treturn controller, nil\n\t}\n\n", "",
    "C14-R14|database.getController", comment="reverts fix 0e38976")
clone("C14-r14-getcontroller-no-recheck", "C02", "r22-getcontroller-no-recheck", "C02-R22|database.getController", "reverts fix 0e38976")
clone("C14-r14-getcontroller-no-recheck", "C13", "r17-getcontroller-no-recheck", "C13-R17|database.getController", "reverts fix 0e38976")

def r10(prop, name, seed, expect):
    from_patch(prop, name, seed, expect, comment="round-10 seed " + seed)
r10("C01", "r1-ready-to-stop-negation-moved", "C01-j2", "C01-R1|modules.(*Module).readyToStop")
r10("C02", "r23-bbolt-get-hands-out-tx-memory", "C02-j1", "C02-R23|")
r10("C03", "r14-hashmap-query-flags-before-lock", "C03-j1", "C03-R14|")
r10("C04", "r19-allowed-value-assignable-only", "C04-j2", "C04-R19|")
r10("C05", "r16-manage-lock-only-around-tree", "C05-j1", "C05-R16|modules.ManageModules")
r10("C07", "r20-isactive-or", "C07-j2", "C07-R20|modules.(*Task).isActive")
r10("C08", "r15-bbolt-query-sends-iter-wrapper", "C08-j1", "C08-R15|")
r10("C08", "r16-peekcontainer-negative-empty", "C08-j2", "C08-R16|")
r10("C09", "r16-json-dump-from-pooled-buffer", "C09-j1", "C09-R16|")
r10("C09", "r15-json-decoded-by-yaml", "C09-j2", "C09-R15|")
r10("C10", "r11-skip-releases-local-copy", "C10-j1", "C10-R11|container.(*Container).skip")
r10("C10", "r11-peek-indexes-at-len", "C10-j2", "C10-R11|container.(*Container).Peek")
r10("C11", "r22-and-appends-onto-first-group", "C11-j1", "C11-R22|database/query.And")
r10("C11", "r23-print-strips-on-suffix", "C11-j2", "C11-R23|")
r10("C12", "r18-clean-sessions-writes-back-copy", "C12-j1", "C12-R18|")
r10("C13", "r18-get-defers-unlock-of-reassigned", "C13-j1", "C13-R18|database.(*Controller).Get")
r10("C13", "r19-and-clause-closed-on-typeset", "C13-j2", "C13-R19|")
r10("C11", "r24-and-clause-closed-on-typeset", "C13-j2", "C11-R24|")
r10("C15", "r12-status-entries-share-one-record", "C15-j1", "C15-R12|modules.GetStatus")
r10("C16", "r19-writeallto-consumes", "C16-j1", "C16-R19|container.(*Container).WriteAllTo")
r10("C16", "r19-holdsdata-nil-test", "C16-j2", "C16-R19|container.(*Container).HoldsData")
r10("C17", "r13-copy-drops-tempdir", "C17-j1", "C17-R13|utils.CopyFileAtomic")
r10("C18", "r9-bridge-prefix-without-separator", "C18-j2", "C18-R9|")
r10("C19", "r22-export-shares-version-list", "C19-j1", "C19-R22|")

mut("C11", "r10-empty-token-printed-bare", "database/query/parser.go",
    "\t// an empty token has to be quoted to be a token at all\n\tif token == \"\" {\n\t\treturn `\"\"`\n\t}\n", "",
    "C11-R10|database/query.escapeString", comment="reverts fix a88831c")
mut("C11", "r10-two-quotes-for-short-tokens", "database/query/parser.go",
    "\tif token == \"\" {\n\t\treturn `\"\"`\n\t}\n", "\tif len(token) <= 1 {\n\t\treturn `\"\"`\n\t}\n",
    "C11-R10|database/query.escapeString", comment="the empty-token form returned for a non-empty token")

mut("C02", "r24-delete-without-record-lock", "database/interface.go",
    "\tr.Lock()\n\tbefore := *r.Meta()\n\ti.options.Apply(r)\n\tr.Meta().Delete()\n\tr.Unlock()\n", "\tbefore := *r.Meta()\n\ti.options.Apply(r)\n\tr.Meta().Delete()\n",
    "C02-R24|database.(*Interface).Delete", comment="reverts fix a9dfa07",
    extra=[{"file": "database/interface.go", "old": "\ti.updateCache(r, false, true, 0)\n\n\tr.Lock()\n\tdefer r.Unlock()\n\treturn putChanged(db, r, before)", "new": "\ti.updateCache(r, false, true, 0)\n\n\treturn putChanged(db, r, before)"}])
clone("C02-r24-delete-without-record-lock", "C14", "r15-delete-without-record-lock", "C14-R15|database.(*Interface).Delete", "reverts fix a9dfa07")

mut("C14", "r16-refused-write-keeps-meta-change", "database/interface.go",
    "\terr := db.Put(r)\n\tif err != nil {\n\t\t*r.Meta() = before\n\t}\n\treturn err\n", "\treturn db.Put(r)\n",
    "C14-R16|database.(*Interface).Delete", comment="reverts fix 433069e")

# ---- round 11: six repairs derived from remarks on the unmodified tree ----
mut("C16", "r20-peek-allocates-requested-amount", "container/container.go",
    "\tif held := c.Length(); n > held {\n\t\tn = held\n\t}\n", "",
    "C16-R20|container.(*Container).Peek", comment="reverts fix 90ffd1f")
clone("C16-r20-peek-allocates-requested-amount", "C10", "r12-peek-allocates-requested-amount", "C10-R12|container.(*Container).Peek", "reverts fix 90ffd1f")
mut("C16", "r20-peek-lower-bound-only", "container/container.go",
    "\tif held := c.Length(); n > held {\n\t\tn = held\n\t}\n", "\tif held := c.Length(); n < held/2 {\n\t\treturn nil\n\t}\n",
    "C16-R20|container.(*Container).Peek", comment="a comparison that bounds the request from below only")
mut("C19", "r23-existing-version-looked-up-raw", "updater/resource.go",
    "\t\treturn err\n\t}\n\tversion = sv.String()\n", "\t\treturn err\n\t}\n\tnormalized := sv.String()\n",
    "C19-R23|updater.(*Resource).AddVersion", comment="reverts fix c8dfdfb",
    extra=[{"file": "updater/resource.go", "old": "\t\t\tVersionNumber: version,\n", "new": "\t\t\tVersionNumber: normalized,\n"}])
mut("C19", "r24-resource-registered-before-version", "updater/registry.go",
    "\t\tres = reg.newResource(identifier)\n\t}\n\tres.Index = index\n", "\t\tres = reg.newResource(identifier)\n\t\treg.resources[identifier] = res\n\t}\n\tres.Index = index\n",
    "C19-R24|updater.(*ResourceRegistry).addResource", comment="reverts fix 4882ec4")
mut("C19", "r25-cancelled-fetch-returns-nil", "updater/fetch.go",
    "\t\t\t// module is shutting down: nothing was downloaded\n\t\t\treturn fmt.Errorf(\"download cancelled: %w\", ctx.Err())\n\t\tcase <-time.After(time.Duration(tries*tries) * time.Second):\n\t\t}\n\t}\n\n\t// check destination dir\n",
    "\t\t\treturn nil // module is shutting down\n\t\tcase <-time.After(time.Duration(tries*tries) * time.Second):\n\t\t}\n\t}\n\n\t// check destination dir\n",
    "C19-R25|updater.(*ResourceRegistry).fetchFile", comment="reverts fix a9600e3 (fetchFile)")
mut("C19", "r25-cancelled-fetchdata-returns-nil", "updater/fetch.go",
    "\t\t\treturn nil, \"\", fmt.Errorf(\"download cancelled: %w\", ctx.Err())\n", "\t\t\treturn nil, \"\", nil\n",
    "C19-R25|updater.(*ResourceRegistry).fetchData", comment="reverts fix a9600e3 (fetchData)")
mut("C13", "r20-query-locks-records-under-map-lock", "database/storage/hashmap/map.go",
    "\thm.dbLock.RLock()\n\trecords := make(map[string]record.Record, len(hm.db))\n\tfor key, r := range hm.db {\n\t\trecords[key] = r\n\t}\n\thm.dbLock.RUnlock()\n",
    "\thm.dbLock.RLock()\n\tdefer hm.dbLock.RUnlock()\n\trecords := hm.db\n",
    "C13-R20|database/storage/hashmap.(*HashMap).queryExecutor", comment="reverts fix e005303")
mut("C12", "r19-recovery-installed-after-authentication", "api/router.go",
    "\t// Check authentication.\n\tapiRequest.AuthToken = authenticateRequest(lrw, r, handler, readMethod)\n\tif apiRequest.AuthToken == nil {\n\t\t// Authenticator already replied.\n\t\treturn nil\n\t}\n", "",
    "C12-R19|api.(*mainHandler).handle", comment="reverts fix 4b7d0ca",
    extra=[{"file": "api/router.go", "old": "\t// Format panics in the authenticator and the handler.\n", "new": "\t// Check authentication.\n\tapiRequest.AuthToken = authenticateRequest(lrw, r, handler, readMethod)\n\tif apiRequest.AuthToken == nil {\n\t\t// Authenticator already replied.\n\t\treturn nil\n\t}\n\n\t// Format panics in the authenticator and the handler.\n"}])

def r11(prop, name, seed, expect):
    from_patch(prop, name, seed, expect, comment="round-11 seed " + seed)
r11("C01", "r16-ctrl-timeout-error-shadowed", "C01-k2", "C01-R16|modules.(*Module).runCtrlFnWithTimeout")
r11("C02", "r25-putmany-close-on-one-exit-only", "C02-k1", "C02-R25|")
r11("C03", "r15-runtime-query-flags-swapped", "C03-k2", "C03-R15|")
r11("C03", "r16-expiry-snapshot-before-lock", "C03-k1", "C03-R16|database.(*Interface).SetAbsoluteExpiry")
r11("C14", "r17-delete-snapshot-after-apply", "C14-k1", "C14-R17|database.(*Interface).Delete")
r11("C06", "r20-reporting-channel-nil-ignored", "C06-k2", "C06-R20|modules.SetErrorReportingChannel")
r11("C07", "r21-schedule-timer-cached", "C07-k1", "C07-R21|modules.waitUntilNextScheduledTask")
r11("C09", "r17-mime-type-of-default-format", "C09-k2", "C09-R17|formats/dsd.RequestHTTPResponseFormat")
r11("C12", "r20-key-hook-only-with-authenticator", "C12-k1", "C12-R20|api.start")
r11("C15", "r13-start-high-priority-skips-counting", "C15-k2", "C15-R13|")
r11("C16", "r21-getall-moves-offset-itself", "C16-k1", "C16-R21|")
r11("C17", "r14-ensure-directory-lstat", "C17-k2", "C17-R14|utils.EnsureDirectory")
r11("C18", "r10-ensure-directory-mkdirall", "C18-k2", "C18-R10|")
r11("C19", "r26-failed-add-deletes-resource", "C19-k1", "C19-R26|")
r11("C01", "r17-report-counted-twice-before-drain", "C01-k1", "C01-R17|modules.startModules")
r11("C11", "r25-list-elements-escaped-one-by-one", "C11-k2", "C11-R25|database/query.(*stringSliceCondition).string")
r11("C05", "r17-resolve-runs-worker-under-module-lock", "C05-k2", "C05-R17|modules.(*Module).Resolve")
r11("C09", "r18-pack8-hands-out-shared-table", "C09-k1", "C09-R18|formats/varint.Pack8")
r11("C13", "r21-parsekey-cuts-at-second-colon", "C13-k2", "C13-R21|database/record.ParseKey")
r11("C19", "r27-scan-names-relative-to-scan-root", "C19-k2", "C19-R27|updater.(*ResourceRegistry).ScanStorage")

mut("C02", "r26-delete-updates-cache-under-record-lock", "database/interface.go",
    "\tr.Meta().Delete()\n\tr.Unlock()\n\n\t// Remove the record from the cache, it would be served from there otherwise.\n\t// The record may not be locked when updating the cache.\n\ti.updateCache(r, false, true, 0)\n\n\tr.Lock()\n\tdefer r.Unlock()\n\treturn putChanged(db, r, before)\n",
    "\tr.Meta().Delete()\n\n\t// Remove the record from the cache, it would be served from there otherwise.\n\ti.updateCache(r, false, true, 0)\n\n\tdefer r.Unlock()\n\treturn putChanged(db, r, before)\n",
    "C02-R26|database.(*Interface).Delete", comment="reverts fix 4694115")
clone("C02-r26-delete-updates-cache-under-record-lock", "C14", "r18-delete-updates-cache-under-record-lock", "C14-R18|database.(*Interface).Delete", "reverts fix 4694115")

# ---- repairs derived from the round-12 agents' remarks ----
mut("C02", "r27-cache-serves-expired-record", "database/interface_cache.go",
    "\t\t\tr.Lock()\n\t\t\tvalid := r.Meta().CheckValidity()\n\t\t\tr.Unlock()\n\t\t\tif !valid {\n\t\t\t\treturn nil\n\t\t\t}\n\t\t\treturn r\n", "\t\t\treturn r\n",
    "C02-R27|database.(*Interface).checkCache", comment="reverts fix d6945c0")
mut("C02", "r27-cache-validity-checked-but-ignored", "database/interface_cache.go",
    "\t\t\tif !valid {\n\t\t\t\treturn nil\n\t\t\t}\n\t\t\treturn r\n", "\t\t\t_ = valid\n\t\t\treturn r\n",
    "C02-R27|database.(*Interface).checkCache", comment="the validity is computed but does not decide")
mut("C02", "r28-relative-expiry-set-after-last-update", "database/interface.go",
    "\tr.Meta().SetRelativateExpiry(duration)\n\t// A relative expiry takes effect when the metadata is updated.\n\tr.Meta().Update()\n", "\tr.Meta().SetRelativateExpiry(duration)\n",
    "C02-R28|database.(*Interface).SetRelativateExpiry", comment="reverts fix ac0d0d8 (setter)")
mut("C02", "r28-option-ttl-set-after-last-update", "database/interface.go",
    "\t\tr.Meta().SetRelativateExpiry(o.AlwaysSetRelativateExpiry)\n\t\t// A relative expiry takes effect when the metadata is updated.\n\t\tr.Meta().Update()\n", "\t\tr.Meta().SetRelativateExpiry(o.AlwaysSetRelativateExpiry)\n",
    "C02-R28|database.(*Options).Apply", comment="reverts fix ac0d0d8 (option)")
mut("C04", "r20-possible-value-compared-with-eq", "config/validate.go",
    "\t\tif reflect.DeepEqual(compareAgainst, value) {\n", "\t\tif compareAgainst == value {\n",
    "C04-R20|config.isAllowedPossibleValue", comment="reverts fix d53d19f (possible values)")
mut("C04", "r20-migrated-value-compared-with-neq", "config/validate.go",
    "\t\tif !reflect.DeepEqual(newValue, value) {\n", "\t\tif newValue != value {\n",
    "C04-R20|config.migrateValue", comment="reverts fix d53d19f (migration)")
mut("C04", "r21-saves-not-serialised", "config/persistence.go",
    "\tsaveConfigLock.Lock()\n\tdefer saveConfigLock.Unlock()\n\n", "",
    "C04-R21|config.SaveConfig", comment="reverts fix 78b437e")
mut("C11", "r26-prefix-printed-raw", "database/query/query.go",
    "\treturn fmt.Sprintf(\"query %s%s%s%s%s\", escapeString(q.dbName+\":\"+q.dbKeyPrefix), where, orderBy, limit, offset)", "\treturn fmt.Sprintf(\"query %s:%s%s%s%s%s\", q.dbName, q.dbKeyPrefix, where, orderBy, limit, offset)",
    "C11-R26|database/query.(*Query).Print", comment="reverts fix 4f71328 (prefix)")
mut("C11", "r26-orderby-printed-raw", "database/query/query.go",
    "\t\torderBy = fmt.Sprintf(\" orderby %s\", escapeString(q.orderBy))", "\t\torderBy = fmt.Sprintf(\" orderby %s\", q.orderBy)",
    "C11-R26|database/query.(*Query).Print", comment="reverts fix 4f71328 (orderby)")

def r12(prop, name, seed, expect):
    from_patch(prop, name, seed, expect, comment="round-12 seed " + seed)
r12("C02", "r29-badger-query-sends-parsed-item", "C02-l2", "C02-R29|")
r12("C03", "r17-getmeta-shadows-result", "C03-l1", "C03-R17|database.GetMeta")
r12("C03", "r18-get-serves-cache-unchecked", "C03-l2", "C03-R18|")
r12("C04", "r22-empty-list-exported-as-unset", "C04-l1", "C04-R22|config.(*valueCache).getData")
r12("C05", "r18-initial-context-not-cancelable", "C05-l1", "C05-R18|modules.initNewModule")
r12("C05", "r19-worker-skipped-on-cancelled-context", "C05-l2", "C05-R19|modules.(*Module).runWorker")
r12("C06", "r21-stop-result-read-only-when-complete", "C06-l1", "C06-R21|modules.(*Module).stopAllTasks")
r12("C07", "r22-new-task-without-default-delay", "C07-l1", "C07-R22|modules.(*Module).newTask")
r12("C07", "r23-enabled-dependency-not-marked", "C07-l2", "C07-R23|modules.(*Module).markDependencies")
r12("C08", "r17-newwrapper-substitutes-default-format", "C08-l1", "C08-R17|database/record.NewWrapper")
r12("C09", "r19-mimedump-nil-shortcut", "C09-l1", "C09-R19|formats/dsd.MimeDump")
r12("C09", "r20-mimeload-looks-up-subtype-itself", "C09-l2", "C09-R20|")
r12("C10", "r13-get-refuses-nil-peek", "C10-l1", "C10-R13|container.(*Container).Get")
clone("C10-r13-get-refuses-nil-peek", "C16", "r22-get-refuses-nil-peek", "C16-R22|container.(*Container).Get", "round-12 seed C10-l1")
r12("C11", "r28-empty-regex-left-uncompiled", "C11-l1", "C11-R28|database/query.newRegexCondition")
r12("C11", "r27-key-escaped-only-with-space", "C11-l2", "C11-R27|database/query.(*stringCondition).string")
r12("C12", "r21-devmode-memoised", "C12-l2", "C12-R21|api.registerConfig")
r12("C14", "r19-putnew-recreates-meta", "C14-l1", "C14-R19|")
r12("C14", "r20-exists-answers-from-meta", "C14-l2", "C14-R20|database.(*Interface).Exists")
r12("C15", "r14-low-priority-start-uses-medium-default", "C15-l1", "C15-R14|")
r12("C17", "r15-fstree-reads-with-walk-size", "C17-l2", "C17-R15|")
r12("C19", "r29-addindex-partial-copy", "C19-l1", "C19-R29|updater.AddIndex")
r12("C19", "r28-selectversions-fast-path", "C19-l2", "C19-R28|updater.(*ResourceRegistry).SelectVersions")
r12("C20", "r14-unset-empties-callers-map", "C20-l1", "C20-R14|log.UnSetPkgLevels")
from_patch("C01", "r18-ctrl-timeout-error-shadowed", "C01-k2", "C01-R18|modules.runCtrlFnWithTimeout", comment="round-11 seed C01-k2, also an A30 instance")
