#!/bin/bash
# usage: seedcheck.sh <patch.diff> <prop> [<prop>...]
# applies the patch to /repo, runs the named checks (quick), reverts. Prints verdict per property.
patch=$1; shift
cd /repo || exit 2
if ! git diff --quiet; then echo "repo dirty"; exit 2; fi
git apply "$patch" || { echo "patch does not apply"; exit 2; }
for p in "$@"; do
  out=$(/verif/bin/portlint -prop $p -tier quick -no-evidence 2>&1); rc=$?
  echo "== $p exit=$rc"
  echo "$out" | grep -E "^VIOLATION|^  rule=|UNDECIDED|tool error" | head -8
done
git checkout -- . && git clean -fdq
