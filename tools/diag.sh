#!/bin/bash
# usage: diag.sh <refactor id> <prop> : apply, run prop with normalisation dump, show alarms + notes
id=$1; p=$2
cd /repo && git apply /verif/refactors/$id/patch.diff || exit 2
rm -rf /tmp/nd; PORTLINT_NORM_DUMP=/tmp/nd /verif/bin/portlint -prop $p -tier quick -no-evidence -dump 2>&1 | grep -E "^OBLIG (violated|undecided)|normalis" | cut -c1-420
git checkout -- . && git clean -fdq
