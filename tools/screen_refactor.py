#!/usr/bin/env python3
"""Screen behaviour-preserving refactorings (written by independent sub-agents) for false alarms.
usage: screen_refactor.py /tmp/refac/out/C05/1 [...]
For each: scratch worktree -> patch applies, builds, tests of touched packages pass (known-flaky ignored);
then the patch is applied to /repo, `portlint -prop all` is run, and the patch is reverted.
A violated or undecided obligation on such a patch is a false alarm (or the refactoring is not equivalent: triage).
Results are filed under /verif/refactors/<id>/ (patch.diff, meta.json)."""
import json, os, re, shutil, subprocess, sys
ENV = dict(os.environ, GOFLAGS="-mod=mod", GOPROXY="off", GOSUMDB="off", GOTOOLCHAIN="local")
FLAKY = r"TestMicroTaskWaiting|TestMicroTaskOrdering|TestCallLimiter|TestOnceAgain|TestScheduledTaskWaiting|TestQueuedTask"
def sh(cmd, cwd=None, timeout=1200):
    p = subprocess.run(cmd, shell=True, cwd=cwd, env=ENV, capture_output=True, text=True, timeout=timeout)
    return p.returncode, p.stdout + p.stderr
def one(src):
    src = src.rstrip("/")
    if not os.path.exists(src + "/patch.diff") or os.path.getsize(src + "/patch.diff") == 0:
        print(src, "no patch"); return
    meta = json.load(open(src + "/meta.json")) if os.path.exists(src + "/meta.json") else {}
    prop = meta.get("property") or src.split("/")[-2]
    kind = "s" if "/small/" in src else "r"  # s = small single-function edit, r = refactoring with extracted helpers
    rid = f"{prop}-{kind}{os.path.basename(src)}"
    wt = f"/tmp/confirm/{rid}"
    shutil.rmtree(wt, ignore_errors=True)
    sh("git -C /repo worktree prune")
    rc, out = sh(f"git -C /repo worktree add -q --detach {wt} HEAD")
    res = {}
    try:
        rc, out = sh(f"git apply {src}/patch.diff", cwd=wt)
        res["patch_applies"] = rc == 0
        rc, out = sh("go build ./...", cwd=wt)
        res["builds"] = rc == 0
        touched = sorted({"./" + os.path.dirname(l[6:]) for l in open(src + "/patch.diff") if l.startswith("+++ b/")})
        rc, out = sh("go test -vet=off -count=1 " + " ".join(touched), cwd=wt)
        fails = [l for l in out.splitlines() if l.startswith("--- FAIL") and not re.search(FLAKY, l)]
        res["existing_tests"] = "pass" if not fails and "[build failed]" not in out else "FAIL: " + "; ".join(fails)[:300]
    finally:
        sh(f"git -C /repo worktree remove --force {wt}")
    det = []
    if res.get("patch_applies") and res.get("builds"):
        if sh("git -C /repo diff --quiet")[0] != 0:
            print("repo dirty"); sys.exit(2)
        sh(f"git -C /repo apply {src}/patch.diff")
        try:
            rc, out = sh("/verif/bin/portlint -prop all", cwd="/verif")
        finally:
            sh("git -C /repo checkout -- . && git -C /repo clean -fdq")
        for l in out.splitlines():
            m = re.match(r"ALL (violated|undecided) (C\d+) (\S+) \| (.*?) \| (.*)", l)
            if m:
                det.append({"status": m.group(1), "property": m.group(2), "rule": m.group(3), "construct": m.group(4), "detail": m.group(5)[:200]})
        if "ALL" not in out and "panic" in out:
            det.append({"status": "tool-error", "property": "-", "rule": "-", "construct": out[-300:]})
    res["alarms"] = det
    dst = f"/verif/refactors/{rid}"
    os.makedirs(dst, exist_ok=True)
    shutil.copy(src + "/patch.diff", dst)
    json.dump({"id": rid, "property": prop, "summary": meta.get("summary"), "site": meta.get("site"), "why_equivalent": meta.get("why_equivalent"),
               "origin": "behaviour-preserving refactoring written by an independent sub-agent that saw only the property text and a scratch worktree",
               "what_i_ran": res}, open(dst + "/meta.json", "w"), indent=1)
    verdict = "SILENT" if not det else "ALARM"
    print(rid, verdict, "tests=" + str(res.get("existing_tests")), [f'{d["status"]}:{d["rule"]}|{d["construct"][:70]}' for d in det][:5])
for s in sys.argv[1:]:
    one(s)
