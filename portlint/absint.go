package main

import (
	"fmt"
	"go/constant"
	"go/token"
	"go/types"
	"sort"
	"strings"

	"golang.org/x/tools/go/ssa"
)

// A5: finite-valuation propagation. A function is interpreted abstractly with
// a small set of declared inputs fixed to constants (one valuation); every
// other value is Top and both branches of a test on it are followed. The
// result is the set of reachable outcomes, each with the set of marks that
// were passed on the way.

type AVKind int

const (
	Top AVKind = iota
	KConst
	KNil
	KNonNil
	KSym // a symbolic, non-nil identity (e.g. "the user layer value")
	KPtr // pointer to a tracked local allocation
	KTuple
)

type AV struct {
	K AVKind
	C constant.Value
	S string
	P ssa.Value
	T []AV // KTuple: the results of an inlined multi-value call
}

func (a AV) String() string {
	switch a.K {
	case KTuple:
		var ps []string
		for _, e := range a.T {
			ps = append(ps, e.String())
		}
		return "(" + strings.Join(ps, ",") + ")"
	case KConst:
		return a.C.ExactString()
	case KNil:
		return "nil"
	case KNonNil:
		return "nonnil"
	case KSym:
		return "sym:" + a.S
	case KPtr:
		return "ptr:" + a.P.Name()
	}
	return "T"
}

func avBool(b bool) AV   { return AV{K: KConst, C: constant.MakeBool(b)} }
func avInt(i int64) AV   { return AV{K: KConst, C: constant.MakeInt64(i)} }
func avStr(s string) AV  { return AV{K: KConst, C: constant.MakeString(s)} }
func avSym(s string) AV  { return AV{K: KSym, S: s} }
func (a AV) IsTop() bool { return a.K == Top }
func (a AV) Bool() (bool, bool) {
	if a.K == KConst && a.C.Kind() == constant.Bool {
		return constant.BoolVal(a.C), true
	}
	return false, false
}

type cellKey struct {
	a     ssa.Value
	field int
}

type Interp struct {
	Fn        *ssa.Function
	Input     func(v ssa.Value) (AV, bool)                           // declared inputs for this valuation
	Mark      func(in ssa.Instruction) int                           // bit index of a pass-through mark, or -1
	Outcome   func(in ssa.Instruction, ev func(ssa.Value) AV) string // "" = not an outcome
	Inline    func(callee *ssa.Function) bool                        // evaluate these callees recursively (nil: same-package callees)
	NoInline  bool                                                   // never inline
	FoldArith bool                                                   // also fold + - * on constants (loop-free functions only: a loop counter would unroll)
	Start     ssa.Instruction                                        // nil = function entry
	// LoadField supplies the value of a field loaded through a symbolic base
	LoadField func(base AV, owner, field string) (AV, bool)
	MaxStates int
	depth     int
	// results
	Outcomes map[string]map[uint32]bool // label -> set of mark bitsets
	States   int
	Overflow bool
}

type istate struct {
	blk   *ssa.BasicBlock
	idx   int
	env   map[ssa.Value]AV
	cells map[cellKey]AV
	marks uint32
}

func (s *istate) key() string {
	var ks []string
	for v, a := range s.env {
		if a.K != Top {
			ks = append(ks, v.Name()+"="+a.String())
		}
	}
	for c, a := range s.cells {
		if a.K != Top {
			ks = append(ks, fmt.Sprintf("%s.%d=%s", c.a.Name(), c.field, a.String()))
		}
	}
	sort.Strings(ks)
	return fmt.Sprintf("%d:%d:%x:%s", s.blk.Index, s.idx, s.marks, strings.Join(ks, ","))
}

func (s *istate) clone() *istate {
	n := &istate{blk: s.blk, idx: s.idx, marks: s.marks, env: make(map[ssa.Value]AV, len(s.env)), cells: make(map[cellKey]AV, len(s.cells))}
	for k, v := range s.env {
		n.env[k] = v
	}
	for k, v := range s.cells {
		n.cells[k] = v
	}
	return n
}

// localCell reports whether addr denotes a non-escaping local cell (Alloc or
// field of an Alloc) whose contents we may track.
func localCell(addr ssa.Value) (cellKey, bool) {
	switch a := addr.(type) {
	case *ssa.Alloc:
		if allocIsLocal(a) {
			return cellKey{a, -1}, true
		}
	case *ssa.FieldAddr:
		if al, ok := a.X.(*ssa.Alloc); ok && allocIsLocal(al) {
			return cellKey{al, a.Field}, true
		}
	}
	return cellKey{}, false
}

var allocLocalCache = map[*ssa.Alloc]bool{}

func allocIsLocal(a *ssa.Alloc) bool {
	if v, ok := allocLocalCache[a]; ok {
		return v
	}
	ok := true
	for _, ref := range *a.Referrers() {
		switch r := ref.(type) {
		case *ssa.Store:
			if r.Val == a {
				ok = false
			}
		case *ssa.UnOp:
		case *ssa.FieldAddr:
			for _, rr := range *r.Referrers() {
				switch r2 := rr.(type) {
				case *ssa.Store:
					if r2.Val == r {
						ok = false
					}
				case *ssa.UnOp:
				default:
					ok = false
				}
			}
		case *ssa.DebugRef:
		default:
			ok = false
		}
	}
	allocLocalCache[a] = ok
	return ok
}

func (it *Interp) eval(s *istate, v ssa.Value) AV {
	if it.Input != nil {
		if a, ok := it.Input(v); ok {
			return a
		}
	}
	if a, ok := s.env[v]; ok {
		return a
	}
	switch x := v.(type) {
	case *ssa.Const:
		if x.Value == nil {
			// nil or zero value of struct etc.
			switch x.Type().Underlying().(type) {
			case *types.Pointer, *types.Interface, *types.Slice, *types.Map, *types.Chan, *types.Signature:
				return AV{K: KNil}
			}
			return AV{}
		}
		return AV{K: KConst, C: x.Value}
	case *ssa.ChangeType:
		return it.eval(s, x.X)
	case *ssa.Convert:
		a := it.eval(s, x.X)
		if a.K == KConst {
			if bt, ok := x.Type().Underlying().(*types.Basic); ok && bt.Info()&types.IsInteger != 0 && a.C.Kind() == constant.Int {
				return a
			}
			if bt, ok := x.Type().Underlying().(*types.Basic); ok && bt.Info()&types.IsString != 0 && a.C.Kind() == constant.String {
				return a
			}
			return AV{}
		}
		return a
	case *ssa.MakeInterface:
		a := it.eval(s, x.X)
		if a.K == KNil {
			// typed nil in interface is non-nil interface
			return AV{K: KNonNil}
		}
		if a.K == KConst {
			return a
		}
		return AV{K: KNonNil}
	case *ssa.Alloc:
		if allocTrackable(x) {
			return AV{K: KPtr, P: x}
		}
		return AV{K: KNonNil}
	case *ssa.MakeClosure, *ssa.MakeMap, *ssa.MakeChan, *ssa.MakeSlice, *ssa.Function, *ssa.FieldAddr, *ssa.IndexAddr, *ssa.Global:
		return AV{K: KNonNil}
	}
	return AV{}
}

func foldBin(op token.Token, a, b AV) AV {
	// nil comparisons
	if op == token.EQL || op == token.NEQ {
		isNilA, isNilB := a.K == KNil, b.K == KNil
		nonA, nonB := a.K == KNonNil || a.K == KSym || a.K == KPtr, b.K == KNonNil || b.K == KSym || b.K == KPtr
		if a.K == KSym && b.K == KSym {
			return avBool((a.S == b.S) == (op == token.EQL))
		}
		if (isNilA && isNilB) || (isNilA && nonB) || (nonA && isNilB) {
			eq := isNilA && isNilB
			return avBool(eq == (op == token.EQL))
		}
	}
	if a.K != KConst || b.K != KConst {
		return AV{}
	}
	switch op {
	case token.EQL, token.NEQ, token.LSS, token.LEQ, token.GTR, token.GEQ:
		if a.C.Kind() == constant.Bool && b.C.Kind() == constant.Bool {
			eq := constant.BoolVal(a.C) == constant.BoolVal(b.C)
			if op == token.EQL {
				return avBool(eq)
			}
			if op == token.NEQ {
				return avBool(!eq)
			}
			return AV{}
		}
		if a.C.Kind() != b.C.Kind() && !(isNum(a.C) && isNum(b.C)) {
			return AV{}
		}
		return avBool(constant.Compare(a.C, op, b.C))
	case token.AND, token.OR, token.XOR, token.AND_NOT:
		// (ADD/SUB/MUL are deliberately not folded: loop counters would unroll forever)
		if a.C.Kind() == b.C.Kind() && (a.C.Kind() == constant.Int || (a.C.Kind() == constant.String && op == token.ADD)) {
			return AV{K: KConst, C: constant.BinaryOp(a.C, op, b.C)}
		}
	}
	return AV{}
}

func isNum(c constant.Value) bool {
	return c.Kind() == constant.Int || c.Kind() == constant.Float
}

// Run explores the function. It returns false if the state budget overflowed.
func (it *Interp) Run() bool {
	if it.MaxStates == 0 {
		it.MaxStates = 200000
	}
	it.Outcomes = map[string]map[uint32]bool{}
	fn := it.Fn
	start := &istate{blk: fn.Blocks[0], env: map[ssa.Value]AV{}, cells: map[cellKey]AV{}}
	if it.Start != nil {
		start.blk = it.Start.Block()
		for i, in := range start.blk.Instrs {
			if in == it.Start {
				start.idx = i
			}
		}
	}
	seen := map[string]bool{}
	stack := []*istate{start}
	for len(stack) > 0 {
		s := stack[len(stack)-1]
		stack = stack[:len(stack)-1]
		k := s.key()
		if seen[k] {
			continue
		}
		seen[k] = true
		it.States++
		if it.States > it.MaxStates {
			it.Overflow = true
			return false
		}
		succs := it.execBlock(s)
		stack = append(stack, succs...)
	}
	return true
}

func (it *Interp) record(label string, marks uint32) {
	m := it.Outcomes[label]
	if m == nil {
		m = map[uint32]bool{}
		it.Outcomes[label] = m
	}
	m[marks] = true
}

// execBlock executes s.blk from s.idx and returns successor states.
func (it *Interp) execBlock(s *istate) []*istate {
	b := s.blk
	ev := func(v ssa.Value) AV { return it.eval(s, v) }
	for i := s.idx; i < len(b.Instrs); i++ {
		in := b.Instrs[i]
		if it.Mark != nil {
			if m := it.Mark(in); m >= 0 {
				s.marks |= 1 << uint(m)
			}
		}
		if it.Outcome != nil {
			if l := it.Outcome(in, ev); l != "" {
				it.record(l, s.marks)
			}
		}
		switch x := in.(type) {
		case *ssa.Phi:
			// handled at block entry
		case *ssa.Store:
			if ck, ok := localCell(x.Addr); ok {
				s.cells[ck] = ev(x.Val)
			} else if fa, ok := x.Addr.(*ssa.FieldAddr); ok {
				if base := ev(fa.X); base.K == KPtr {
					s.cells[cellKey{base.P, fa.Field}] = ev(x.Val)
				}
			}
		case *ssa.UnOp:
			var a AV
			if ia, ok := it.inputOf(x); ok {
				a = ia
			} else {
				switch x.Op {
				case token.MUL:
					if g, isGlobal := x.X.(*ssa.Global); isGlobal && isErrorType(x.Type()) && strings.HasPrefix(g.Name(), "Err") {
						a = AV{K: KNonNil} // package-level sentinel error
					} else if ck, ok := localCell(x.X); ok {
						a = s.cells[ck]
					} else if fa, ok := x.X.(*ssa.FieldAddr); ok {
						base := ev(fa.X)
						if base.K == KPtr {
							a = s.cells[cellKey{base.P, fa.Field}]
						} else if base.K == KSym && it.LoadField != nil {
							if v, ok := it.LoadField(base, ownerType(fa.X.Type()), fieldName(fa.X.Type(), fa.Field)); ok {
								a = v
							}
						}
					}
				case token.NOT:
					if bv, ok := ev(x.X).Bool(); ok {
						a = avBool(!bv)
					}
				case token.SUB:
					if o := ev(x.X); o.K == KConst && o.C.Kind() == constant.Int {
						a = AV{K: KConst, C: constant.UnaryOp(token.SUB, o.C, 0)}
					}
				}
			}
			s.env[x] = a
		case *ssa.BinOp:
			if ia, ok := it.inputOf(x); ok {
				s.env[x] = ia
			} else {
				av, bv := ev(x.X), ev(x.Y)
				if it.FoldArith && av.K == KConst && bv.K == KConst && av.C.Kind() == constant.Int && bv.C.Kind() == constant.Int &&
					(x.Op == token.ADD || x.Op == token.SUB || x.Op == token.MUL) {
					s.env[x] = AV{K: KConst, C: constant.BinaryOp(av.C, x.Op, bv.C)}
				} else {
					s.env[x] = foldBin(x.Op, av, bv)
				}
			}
		case *ssa.Call:
			if ia, ok := it.inputOf(x); ok {
				s.env[x] = ia
			} else if callee := staticCallee(&x.Call); callee != nil && it.depth < 3 && callee.Blocks != nil && it.wantInline(callee) {
				tuples, tmarks := it.evalCallMarks(s, callee, x)
				switch len(tuples) {
				case 0:
					s.env[x] = AV{}
				case 1:
					s.env[x] = tuples[0]
					s.marks |= tmarks[0]
				default:
					// the callee can return different results for these arguments: continue once per result
					var out []*istate
					for ti, t := range tuples {
						s2 := s.clone()
						s2.env[x] = t
						s2.marks |= tmarks[ti]
						s2.idx = i + 1
						out = append(out, s2)
					}
					return out
				}
			} else if cn := calleeName(&x.Call); cn == "errors.New" || cn == "fmt.Errorf" {
				s.env[x] = AV{K: KNonNil}
			} else {
				s.env[x] = AV{}
			}
		case *ssa.Extract:
			if ia, ok := it.inputOf(x); ok {
				s.env[x] = ia
			} else if t := ev(x.Tuple); t.K == KTuple && x.Index < len(t.T) {
				s.env[x] = t.T[x.Index]
			}
		case *ssa.TypeAssert, *ssa.Lookup, *ssa.Index, *ssa.Field, *ssa.Next, *ssa.Range, *ssa.Slice, *ssa.MakeInterface:
			if v, ok := in.(ssa.Value); ok {
				if ia, ok2 := it.inputOf(v); ok2 {
					s.env[v] = ia
				}
			}
		case *ssa.If:
			cv := ev(x.Cond)
			var out []*istate
			if bv, ok := cv.Bool(); ok {
				if bv {
					out = append(out, it.enter(s, b, b.Succs[0]))
				} else {
					out = append(out, it.enter(s, b, b.Succs[1]))
				}
			} else {
				out = append(out, it.enter(s.clone(), b, b.Succs[0]), it.enter(s.clone(), b, b.Succs[1]))
			}
			return out
		case *ssa.Jump:
			return []*istate{it.enter(s, b, b.Succs[0])}
		case *ssa.Return, *ssa.Panic:
			return nil
		}
	}
	return nil
}

func (it *Interp) inputOf(v ssa.Value) (AV, bool) {
	if it.Input == nil {
		return AV{}, false
	}
	return it.Input(v)
}

func (it *Interp) enter(s *istate, from, to *ssa.BasicBlock) *istate {
	predIdx := -1
	for i, p := range to.Preds {
		if p == from {
			predIdx = i
		}
	}
	newVals := map[ssa.Value]AV{}
	for _, in := range to.Instrs {
		ph, ok := in.(*ssa.Phi)
		if !ok {
			break
		}
		if predIdx >= 0 {
			newVals[ph] = it.eval(s, ph.Edges[predIdx])
		}
	}
	for k, v := range newVals {
		s.env[k] = v
	}
	s.blk = to
	s.idx = 0
	return s
}

// wantInline: explicit Inline predicate, or by default every other function of
// the same package (helpers extracted from the analysed function stay transparent).
func (it *Interp) wantInline(callee *ssa.Function) bool {
	if it.Inline != nil {
		return it.Inline(callee)
	}
	if it.NoInline {
		return false
	}
	return callee != it.Fn && callee.Pkg != nil && it.Fn.Pkg != nil && callee.Pkg == it.Fn.Pkg
}

// evalCallAll evaluates a callee with the caller's abstract arguments and
// returns the distinct result tuples over all reachable returns (nil if the
// callee could not be explored). A single-result callee yields plain values.
func (it *Interp) evalCallAll(s *istate, callee *ssa.Function, call *ssa.Call) []AV {
	rs, _ := it.evalCallMarks(s, callee, call)
	return rs
}

// evalCallMarks is evalCallAll that also returns, per result, the pass-through marks set inside the callee.
func (it *Interp) evalCallMarks(s *istate, callee *ssa.Function, call *ssa.Call) ([]AV, []uint32) {
	args := map[ssa.Value]AV{}
	for i, p := range callee.Params {
		if i < len(call.Call.Args) {
			args[p] = it.eval(s, call.Call.Args[i])
		}
	}
	var results []AV
	seen := map[string]bool{}
	byKey := map[string]AV{}
	sub := &Interp{
		Fn: callee,
		Input: func(v ssa.Value) (AV, bool) {
			if a, ok := args[v]; ok {
				if a.K != Top {
					return a, true
				}
				return AV{}, false
			}
			if _, isParam := v.(*ssa.Parameter); isParam {
				return AV{}, false
			}
			if it.Input != nil {
				return it.Input(v)
			}
			return AV{}, false
		},
		Inline:    it.Inline,
		NoInline:  it.NoInline,
		LoadField: it.LoadField,
		depth:     it.depth + 1,
		Outcome: func(in ssa.Instruction, ev func(ssa.Value) AV) string {
			if r, ok := in.(*ssa.Return); ok && len(r.Results) > 0 {
				var res AV
				if len(r.Results) == 1 {
					res = ev(r.Results[0])
				} else {
					res = AV{K: KTuple}
					for _, x := range r.Results {
						res.T = append(res.T, ev(x))
					}
				}
				k := res.String()
				if !seen[k] {
					seen[k] = true
					byKey[k] = res
				}
				return "r:" + k
			}
			return ""
		},
		Mark:      it.Mark,
		MaxStates: 20000,
	}
	if !sub.Run() || len(byKey) == 0 {
		return nil, nil
	}
	var marks []uint32
	var keys []string
	for k := range byKey {
		keys = append(keys, k)
	}
	sort.Strings(keys)
	for _, k := range keys {
		for m := range sub.Outcomes["r:"+k] {
			results = append(results, byKey[k])
			marks = append(marks, m)
		}
	}
	if len(results) > 12 {
		return nil, nil
	}
	return results, marks
}

// evalCall is evalCallAll joined to one value (Top unless all returns agree).
func (it *Interp) evalCall(s *istate, callee *ssa.Function, call *ssa.Call) AV {
	rs := it.evalCallAll(s, callee, call)
	if len(rs) == 1 {
		return rs[0]
	}
	return AV{}
}

// retOutcome is the standard outcome function: labels "ret(<v1>,<v2>..)".
func retOutcome(in ssa.Instruction, ev func(ssa.Value) AV) string {
	if r, ok := in.(*ssa.Return); ok {
		var parts []string
		for _, x := range r.Results {
			parts = append(parts, ev(x).String())
		}
		return "ret(" + strings.Join(parts, ",") + ")"
	}
	return ""
}

func outcomeLabels(m map[string]map[uint32]bool) []string {
	var out []string
	for k := range m {
		out = append(out, k)
	}
	sort.Strings(out)
	return out
}

// labelsWithMark returns the labels reached on some path that passed mark bit.
func labelsWithMark(m map[string]map[uint32]bool, bit int) []string {
	var out []string
	for k, ms := range m {
		for mk := range ms {
			if mk&(1<<uint(bit)) != 0 {
				out = append(out, k)
				break
			}
		}
	}
	sort.Strings(out)
	return out
}

var allocTrackCache = map[*ssa.Alloc]bool{}

// allocTrackable: the allocation's contents can only change through stores in
// this function: it is never passed to a call, stored elsewhere or captured.
func allocTrackable(a *ssa.Alloc) bool {
	if v, ok := allocTrackCache[a]; ok {
		return v
	}
	seen := map[ssa.Value]bool{}
	var safe func(v ssa.Value, depth int) bool
	safe = func(v ssa.Value, depth int) bool {
		if seen[v] || depth > 6 {
			return true
		}
		seen[v] = true
		refs := v.Referrers()
		if refs == nil {
			return true
		}
		for _, ref := range *refs {
			switch r := ref.(type) {
			case *ssa.Store:
				if r.Val == v {
					return false
				}
			case *ssa.UnOp, *ssa.DebugRef, *ssa.Return, *ssa.If:
			case *ssa.BinOp:
			case *ssa.Phi:
				if !safe(r, depth+1) {
					return false
				}
			case *ssa.FieldAddr:
				for _, rr := range *r.Referrers() {
					switch r2 := rr.(type) {
					case *ssa.Store:
						if r2.Val == ssa.Value(r) {
							return false
						}
					case *ssa.UnOp:
					default:
						return false
					}
				}
			default:
				return false
			}
		}
		return true
	}
	ok := safe(a, 0)
	allocTrackCache[a] = ok
	return ok
}

func isErrorType(t types.Type) bool {
	return types.Identical(t, types.Universe.Lookup("error").Type())
}
