package main

import (
	"bytes"
	"encoding/json"
	"fmt"
	"os"
	"os/exec"
	"path/filepath"
	"sort"
	"strings"
	"sync"
)

func jsonUnmarshal(b []byte, v any) error { return json.Unmarshal(b, v) }

type mutantSpec struct {
	mutantFile
	Canary bool   `json:"canary,omitempty"`
	path   string `json:"-"`
}

// runSelfTest applies the property's curated single-edit mutants of the real
// source through a go/packages overlay (never on disk), one child process per
// mutant, and requires each to turn the named obligation to violated.
func runSelfTest(prop, tier, repo string, seed int) (map[string]any, bool) {
	res := map[string]any{}
	files, _ := filepath.Glob(filepath.Join(verifDir, "mutants", prop+"-*.json"))
	sort.Strings(files)
	var specs []*mutantSpec
	for _, f := range files {
		b, err := os.ReadFile(f)
		if err != nil {
			continue
		}
		var m mutantSpec
		if err := json.Unmarshal(b, &m); err != nil {
			fmt.Fprintf(os.Stderr, "selftest: %s: %v\n", f, err)
			return res, false
		}
		m.path = f
		if tier == "quick" && !m.Canary {
			continue
		}
		specs = append(specs, &m)
	}
	if len(specs) > 1 && seed != 0 {
		// the seed only permutes execution order
		k := seed % len(specs)
		if k < 0 {
			k = -k
		}
		specs = append(specs[k:], specs[:k]...)
	}
	exe, err := os.Executable()
	if err != nil {
		return res, false
	}
	type outcome struct {
		name, status, detail string
	}
	outs := make([]outcome, len(specs))
	sem := make(chan struct{}, 4)
	var wg sync.WaitGroup
	for i, m := range specs {
		wg.Add(1)
		go func(i int, m *mutantSpec) {
			defer wg.Done()
			sem <- struct{}{}
			defer func() { <-sem }()
			cmd := exec.Command(exe, "-prop", prop, "-tier", "quick", "-repo", repo, "-overlay", m.path, "-no-evidence", "-verif", verifDir)
			var stdout, stderr bytes.Buffer
			cmd.Stdout, cmd.Stderr = &stdout, &stderr
			err := cmd.Run()
			code := 0
			if ee, ok := err.(*exec.ExitError); ok {
				code = ee.ExitCode()
			} else if err != nil {
				outs[i] = outcome{m.Name, "error", err.Error()}
				return
			}
			if code == 3 {
				outs[i] = outcome{m.Name, "skipped", "anchor text no longer present in /repo"}
				return
			}
			if code == 2 && strings.Contains(stderr.String(), "load/type errors") {
				outs[i] = outcome{m.Name, "skipped", "mutant does not type-check on this tree"}
				return
			}
			violated := map[string]bool{}
			for _, line := range strings.Split(stdout.String(), "\n") {
				if strings.HasPrefix(line, "OBLIG violated ") {
					rest := strings.TrimPrefix(line, "OBLIG violated ")
					parts := strings.SplitN(rest, " | ", 3)
					if len(parts) >= 2 {
						violated[strings.TrimSpace(parts[0])+"|"+strings.TrimSpace(parts[1])] = true
					}
				}
			}
			var missing []string
			for _, e := range m.Expect {
				ep := strings.SplitN(e, "|", 2)
				found := false
				for v := range violated {
					vp := strings.SplitN(v, "|", 2)
					if vp[0] == ep[0] && (len(ep) == 1 || strings.Contains(vp[1], ep[1])) {
						found = true
					}
				}
				if !found {
					missing = append(missing, e)
				}
			}
			if len(missing) == 0 {
				outs[i] = outcome{m.Name, "fired", strings.Join(m.Expect, "; ")}
			} else {
				outs[i] = outcome{m.Name, "silent", fmt.Sprintf("expected violated %v; child exit %d; stderr: %s", missing, code, firstLines(stderr.String(), 3))}
			}
		}(i, m)
	}
	wg.Wait()
	fired, skipped, silent := 0, 0, 0
	var list []map[string]string
	ok := true
	sort.Slice(outs, func(i, j int) bool { return outs[i].name < outs[j].name })
	for _, o := range outs {
		switch o.status {
		case "fired":
			fired++
		case "skipped":
			skipped++
		default:
			silent++
			ok = false
			fmt.Fprintf(os.Stderr, "SELFTEST-FAILED %s: %s: %s\n", o.name, o.status, o.detail)
		}
		list = append(list, map[string]string{"mutant": o.name, "status": o.status, "detail": o.detail})
	}
	res["mutants_run"] = len(specs)
	res["fired"] = fired
	res["skipped"] = skipped
	res["silent"] = silent
	res["results"] = list
	res["rule"] = "each mutant is a single-edit variant of the real source applied via go/packages overlay; it must type-check and turn the named obligation to violated"
	return res, ok
}

func firstLines(s string, n int) string {
	l := strings.Split(strings.TrimSpace(s), "\n")
	if len(l) > n {
		l = l[:n]
	}
	return strings.Join(l, " / ")
}
