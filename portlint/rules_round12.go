package main

import (
	"fmt"
	"go/ast"
	"go/token"
	"go/types"
	"sort"
	"strings"

	"golang.org/x/tools/go/ssa"
)

// Rules of round 12 (default / zero-value / initialisation slips, plausible optimisations).

// ---------------------------------------------------------------------------
// A30: a result-carrying variable shadowed in an inner block.
//
// `m := f()` inside a block declares a new variable; when an outer variable of the same name and type exists in
// the same function, is assigned nowhere in that block, and is read after the block, the author very likely meant
// `m = f()`: the outer variable keeps its old (often zero) value. Reported only when the inner variable does not
// outlive a statement that could use it meaningfully: the shadowing declaration is a plain statement of a block
// (not the init of an if/for/switch, where shadowing is the idiom) and the outer variable is read after the block.
type shadowSite struct {
	pos  token.Pos
	name string
	fn   string
}

func shadowSites(c *Ctx, pkgs ...string) (n int, out []shadowSite) {
	for _, p := range c.Pkgs {
		if !inList(short(p.PkgPath), pkgs) {
			continue
		}
		for _, f := range p.Syntax {
			if strings.HasSuffix(c.Fset.Position(f.Pos()).Filename, "_test.go") {
				continue
			}
			for _, d := range f.Decls {
				fd, ok := d.(*ast.FuncDecl)
				if !ok || fd.Body == nil {
					continue
				}
				// walk blocks, remember for each block statement list the assign statements with :=
				var walk func(b *ast.BlockStmt, depth int)
				inspectStmts := func(list []ast.Stmt, end token.Pos, depth int) {
					for _, st := range list {
						as, ok := st.(*ast.AssignStmt)
						if !ok || as.Tok != token.DEFINE || depth == 0 {
							continue
						}
						for _, lhs := range as.Lhs {
							id, ok := lhs.(*ast.Ident)
							if !ok || id.Name == "_" {
								continue
							}
							inner, ok := p.TypesInfo.Defs[id].(*types.Var)
							if !ok || inner == nil {
								continue
							}
							// outer variable of the same name, declared in this function, same type
							sc := inner.Parent()
							if sc == nil || sc.Parent() == nil {
								continue
							}
							_, outerObj := sc.Parent().LookupParent(id.Name, id.Pos())
							outer, ok := outerObj.(*types.Var)
							if !ok || outer.Pos() < fd.Pos() || outer.Pos() > fd.End() || !types.Identical(outer.Type(), inner.Type()) {
								continue
							}
							n++
							// is the outer variable read after the block, and not assigned inside the block?
							readAfter, assignedInside := false, false
							ast.Inspect(fd.Body, func(x ast.Node) bool {
								switch v := x.(type) {
								case *ast.Ident:
									if p.TypesInfo.Uses[v] == outer && v.Pos() > end {
										readAfter = true
									}
								case *ast.AssignStmt:
									if v.Pos() >= sc.Pos() && v.End() <= end {
										for _, l := range v.Lhs {
											if li, ok := l.(*ast.Ident); ok && p.TypesInfo.Uses[li] == outer {
												assignedInside = true
											}
										}
									}
								}
								return true
							})
							// the inner variable is used for nothing but tests / logging inside the block?
							if readAfter && !assignedInside {
								out = append(out, shadowSite{id.Pos(), id.Name, short(p.PkgPath) + "." + fd.Name.Name})
							}
						}
					}
				}
				walk = func(b *ast.BlockStmt, depth int) {
					if b == nil {
						return
					}
					inspectStmts(b.List, b.End(), depth)
					for _, st := range b.List {
						ast.Inspect(st, func(x ast.Node) bool {
							switch v := x.(type) {
							case *ast.BlockStmt:
								walk(v, depth+1)
								return false
							case *ast.CaseClause:
								inspectStmts(v.Body, v.End(), depth+1)
								for _, s2 := range v.Body {
									ast.Inspect(s2, func(y ast.Node) bool {
										if bb, ok := y.(*ast.BlockStmt); ok {
											walk(bb, depth+2)
											return false
										}
										return true
									})
								}
								return false
							case *ast.CommClause:
								inspectStmts(v.Body, v.End(), depth+1)
								for _, s2 := range v.Body {
									ast.Inspect(s2, func(y ast.Node) bool {
										if bb, ok := y.(*ast.BlockStmt); ok {
											walk(bb, depth+2)
											return false
										}
										return true
									})
								}
								return false
							case *ast.FuncLit:
								return false
							}
							return true
						})
					}
				}
				walk(fd.Body, 0)
			}
		}
	}
	sort.Slice(out, func(i, j int) bool { return out[i].pos < out[j].pos })
	return
}

// ---------------------------------------------------------------------------
// A31: a struct copied by hand, field by field, leaves no field out.
type partialCopy struct {
	pos     token.Pos
	typ     string
	copied  int
	missing []string
	fn      string
}

func partialCopySites(c *Ctx, pkgs ...string) (n int, out []partialCopy) {
	for _, p := range c.Pkgs {
		if !inList(short(p.PkgPath), pkgs) {
			continue
		}
		for _, f := range p.Syntax {
			if strings.HasSuffix(c.Fset.Position(f.Pos()).Filename, "_test.go") {
				continue
			}
			var curFn string
			ast.Inspect(f, func(x ast.Node) bool {
				if fd, ok := x.(*ast.FuncDecl); ok {
					curFn = short(p.PkgPath) + "." + fd.Name.Name
				}
				cl, ok := x.(*ast.CompositeLit)
				if !ok {
					return true
				}
				t := p.TypesInfo.TypeOf(cl)
				if t == nil {
					return true
				}
				st, ok := t.Underlying().(*types.Struct)
				if !ok {
					return true
				}
				named, _ := t.(*types.Named)
				if named == nil || named.Obj().Pkg() == nil || !strings.HasPrefix(named.Obj().Pkg().Path(), modPath) {
					return true
				}
				set := map[string]bool{}
				// source object -> number of same-named fields copied from it
				from := map[types.Object]int{}
				for _, el := range cl.Elts {
					kv, ok := el.(*ast.KeyValueExpr)
					if !ok {
						return true
					}
					k, ok := kv.Key.(*ast.Ident)
					if !ok {
						return true
					}
					set[k.Name] = true
					if sel, ok := kv.Value.(*ast.SelectorExpr); ok && sel.Sel.Name == k.Name {
						if base, ok := sel.X.(*ast.Ident); ok {
							if obj := p.TypesInfo.Uses[base]; obj != nil {
								bt := obj.Type()
								if pt, ok := bt.(*types.Pointer); ok {
									bt = pt.Elem()
								}
								if types.Identical(bt, t) {
									from[obj]++
								}
							}
						}
					}
				}
				for _, k := range from {
					if k < 2 {
						continue
					}
					n++
					var missing []string
					for i := 0; i < st.NumFields(); i++ {
						if fld := st.Field(i); !set[fld.Name()] && !fld.Embedded() {
							// mutexes and the like are not copied
							if strings.Contains(fld.Type().String(), "sync.") {
								continue
							}
							missing = append(missing, fld.Name())
						}
					}
					if len(missing) > 0 {
						out = append(out, partialCopy{cl.Pos(), named.Obj().Name(), k, missing, curFn})
					}
				}
				return true
			})
		}
	}
	return
}

// ---------------------------------------------------------------------------
// A32: a function named for one priority does not use another priority's constants.
func priorityNameSites(c *Ctx, pkg string) (n int, bad []string) {
	words := []string{"HighPriority", "MediumPriority", "LowPriority"}
	wordOf := func(s string) string {
		for _, w := range words {
			if strings.Contains(s, w) {
				return w
			}
		}
		return ""
	}
	for _, p := range c.Pkgs {
		if short(p.PkgPath) != pkg {
			continue
		}
		for _, f := range p.Syntax {
			if strings.HasSuffix(c.Fset.Position(f.Pos()).Filename, "_test.go") {
				continue
			}
			for _, d := range f.Decls {
				fd, ok := d.(*ast.FuncDecl)
				if !ok || fd.Body == nil {
					continue
				}
				fw := wordOf(fd.Name.Name)
				if fw == "" {
					continue
				}
				ast.Inspect(fd.Body, func(x ast.Node) bool {
					id, ok := x.(*ast.Ident)
					if !ok {
						return true
					}
					obj := p.TypesInfo.Uses[id]
					if obj == nil || obj.Pkg() == nil || obj.Pkg() != p.Types {
						return true
					}
					if _, isConst := obj.(*types.Const); !isConst {
						if _, isVar := obj.(*types.Var); !isVar || obj.Parent() != p.Types.Scope() {
							return true
						}
					}
					iw := wordOf(strings.ToUpper(id.Name[:1]) + id.Name[1:])
					if iw == "" {
						return true
					}
					n++
					if iw != fw {
						bad = append(bad, fmt.Sprintf("%s: %s uses %s", c.Pos(id.Pos()), fd.Name.Name, id.Name))
					}
					return true
				})
			}
		}
	}
	return
}

func probeRound12(c *Ctx) {
	var all []string
	for _, p := range c.Pkgs {
		all = append(all, short(p.PkgPath))
	}
	n, sh := shadowSites(c, all...)
	fmt.Println("A30 inner := of an outer same-typed variable:", n)
	for _, s := range sh {
		fmt.Printf("  A30 BAD %s %s in %s\n", c.Pos(s.pos), s.name, s.fn)
	}
	n, pc := partialCopySites(c, all...)
	fmt.Println("A31 hand-written struct copies:", n)
	for _, s := range pc {
		fmt.Printf("  A31 BAD %s %s in %s copied=%d missing=%v\n", c.Pos(s.pos), s.typ, s.fn, s.copied, s.missing)
	}
	n, bad := priorityNameSites(c, "modules")
	fmt.Println("A32 priority-named identifiers in priority-named functions:", n)
	for _, b := range bad {
		fmt.Println("  A32 BAD", b)
	}
}

var _ = ssa.Value(nil)
