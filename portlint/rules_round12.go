package main

import (
	"fmt"
	"go/ast"
	"go/token"
	"go/types"
	"sort"
	"strings"

	"golang.org/x/tools/go/ssa"
)

// Rules of round 12 (default / zero-value / initialisation slips, plausible optimisations).

// ---------------------------------------------------------------------------
// A30: a result-carrying variable shadowed in an inner block.
//
// `m := f()` inside a block declares a new variable; when an outer variable of the same name and type exists in
// the same function, is assigned nowhere in that block, and is read after the block, the author very likely meant
// `m = f()`: the outer variable keeps its old (often zero) value. Reported only when the inner variable does not
// outlive a statement that could use it meaningfully: the shadowing declaration is a plain statement of a block
// (not the init of an if/for/switch, where shadowing is the idiom) and the outer variable is read after the block.
type shadowSite struct {
	pos  token.Pos
	name string
	fn   string
}

func shadowSites(c *Ctx, pkgs ...string) (n int, out []shadowSite) {
	for _, p := range c.Pkgs {
		if !inList(short(p.PkgPath), pkgs) {
			continue
		}
		for _, f := range p.Syntax {
			if strings.HasSuffix(c.Fset.Position(f.Pos()).Filename, "_test.go") {
				continue
			}
			for _, d := range f.Decls {
				fd, ok := d.(*ast.FuncDecl)
				if !ok || fd.Body == nil {
					continue
				}
				// walk blocks, remember for each block statement list the assign statements with :=
				var walk func(b *ast.BlockStmt, depth int)
				inspectStmts := func(list []ast.Stmt, end token.Pos, depth int) {
					for _, st := range list {
						as, ok := st.(*ast.AssignStmt)
						if !ok || as.Tok != token.DEFINE || depth == 0 {
							continue
						}
						for _, lhs := range as.Lhs {
							id, ok := lhs.(*ast.Ident)
							if !ok || id.Name == "_" {
								continue
							}
							inner, ok := p.TypesInfo.Defs[id].(*types.Var)
							if !ok || inner == nil {
								continue
							}
							// outer variable of the same name, declared in this function, same type
							sc := inner.Parent()
							if sc == nil || sc.Parent() == nil {
								continue
							}
							_, outerObj := sc.Parent().LookupParent(id.Name, id.Pos())
							outer, ok := outerObj.(*types.Var)
							if !ok || outer.Pos() < fd.Pos() || outer.Pos() > fd.End() || !types.Identical(outer.Type(), inner.Type()) {
								continue
							}
							n++
							// is the outer variable read after the block, and not assigned inside the block?
							readAfter, assignedInside := false, false
							ast.Inspect(fd.Body, func(x ast.Node) bool {
								switch v := x.(type) {
								case *ast.Ident:
									if p.TypesInfo.Uses[v] == outer && v.Pos() > end {
										readAfter = true
									}
								case *ast.AssignStmt:
									if v.Pos() >= sc.Pos() && v.End() <= end {
										for _, l := range v.Lhs {
											if li, ok := l.(*ast.Ident); ok && p.TypesInfo.Uses[li] == outer {
												assignedInside = true
											}
										}
									}
								}
								return true
							})
							// the inner variable is used for nothing but tests / logging inside the block?
							if readAfter && !assignedInside && !meaningfulUse(p.TypesInfo, fd.Body, inner) {
								out = append(out, shadowSite{id.Pos(), id.Name, short(p.PkgPath) + "." + fd.Name.Name})
							}
						}
					}
				}
				walk = func(b *ast.BlockStmt, depth int) {
					if b == nil {
						return
					}
					inspectStmts(b.List, b.End(), depth)
					for _, st := range b.List {
						ast.Inspect(st, func(x ast.Node) bool {
							switch v := x.(type) {
							case *ast.BlockStmt:
								walk(v, depth+1)
								return false
							case *ast.CaseClause:
								inspectStmts(v.Body, v.End(), depth+1)
								for _, s2 := range v.Body {
									ast.Inspect(s2, func(y ast.Node) bool {
										if bb, ok := y.(*ast.BlockStmt); ok {
											walk(bb, depth+2)
											return false
										}
										return true
									})
								}
								return false
							case *ast.CommClause:
								inspectStmts(v.Body, v.End(), depth+1)
								for _, s2 := range v.Body {
									ast.Inspect(s2, func(y ast.Node) bool {
										if bb, ok := y.(*ast.BlockStmt); ok {
											walk(bb, depth+2)
											return false
										}
										return true
									})
								}
								return false
							case *ast.FuncLit:
								return false
							}
							return true
						})
					}
				}
				walk(fd.Body, 0)
			}
		}
	}
	sort.Slice(out, func(i, j int) bool { return out[i].pos < out[j].pos })
	return
}

// meaningfulUse tells whether the variable's value goes anywhere: it is returned, assigned on, stored, sent or
// handed to a function that is not a logger / formatter. A variable that is only tested and logged is a dead end.
func meaningfulUse(info *types.Info, body *ast.BlockStmt, v *types.Var) bool {
	found := false
	var stack []ast.Node
	ast.Inspect(body, func(x ast.Node) bool {
		if x == nil {
			stack = stack[:len(stack)-1]
			return true
		}
		stack = append(stack, x)
		id, ok := x.(*ast.Ident)
		if !ok || info.Uses[id] != v {
			return true
		}
		for i := len(stack) - 2; i >= 0; i-- {
			switch a := stack[i].(type) {
			case *ast.ReturnStmt, *ast.SendStmt, *ast.CompositeLit, *ast.KeyValueExpr:
				found = true
			case *ast.AssignStmt:
				for _, rhs := range a.Rhs {
					if rhs.Pos() <= id.Pos() && id.End() <= rhs.End() {
						found = true
					}
				}
			case *ast.CallExpr:
				if a.Fun.Pos() <= id.Pos() && id.End() <= a.Fun.End() {
					// the variable is (part of) the function expression: a method call on it
					if sel, ok := a.Fun.(*ast.SelectorExpr); ok {
						_ = sel
						found = true
					}
					continue
				}
				if sel, ok := a.Fun.(*ast.SelectorExpr); ok {
					if pk, ok := sel.X.(*ast.Ident); ok && (pk.Name == "log" || pk.Name == "fmt") {
						if pk.Name == "fmt" && (strings.HasPrefix(sel.Sel.Name, "Errorf") || strings.HasPrefix(sel.Sel.Name, "Sprint")) {
							continue // the formatted value may go on: decided by the ancestors
						}
						return true // logging: a dead end, stop looking at this use
					}
				}
				found = true
			case *ast.IfStmt, *ast.BlockStmt, *ast.SwitchStmt, *ast.ForStmt, *ast.ExprStmt:
				return true
			}
			if found {
				return true
			}
		}
		return true
	})
	return found
}

// ---------------------------------------------------------------------------
// A31: a struct copied by hand, field by field, leaves no field out.
type partialCopy struct {
	pos     token.Pos
	typ     string
	copied  int
	missing []string
	fn      string
}

func partialCopySites(c *Ctx, pkgs ...string) (n int, out []partialCopy) {
	for _, p := range c.Pkgs {
		if !inList(short(p.PkgPath), pkgs) {
			continue
		}
		for _, f := range p.Syntax {
			if strings.HasSuffix(c.Fset.Position(f.Pos()).Filename, "_test.go") {
				continue
			}
			var curFn string
			ast.Inspect(f, func(x ast.Node) bool {
				if fd, ok := x.(*ast.FuncDecl); ok {
					curFn = short(p.PkgPath) + "." + fd.Name.Name
				}
				cl, ok := x.(*ast.CompositeLit)
				if !ok {
					return true
				}
				t := p.TypesInfo.TypeOf(cl)
				if t == nil {
					return true
				}
				st, ok := t.Underlying().(*types.Struct)
				if !ok {
					return true
				}
				named, _ := t.(*types.Named)
				if named == nil || named.Obj().Pkg() == nil || !strings.HasPrefix(named.Obj().Pkg().Path(), modPath) {
					return true
				}
				set := map[string]bool{}
				// source object -> number of same-named fields copied from it
				from := map[types.Object]int{}
				for _, el := range cl.Elts {
					kv, ok := el.(*ast.KeyValueExpr)
					if !ok {
						return true
					}
					k, ok := kv.Key.(*ast.Ident)
					if !ok {
						return true
					}
					set[k.Name] = true
					if sel, ok := kv.Value.(*ast.SelectorExpr); ok && sel.Sel.Name == k.Name {
						if base, ok := sel.X.(*ast.Ident); ok {
							if obj := p.TypesInfo.Uses[base]; obj != nil {
								bt := obj.Type()
								if pt, ok := bt.(*types.Pointer); ok {
									bt = pt.Elem()
								}
								if types.Identical(bt, t) {
									from[obj]++
								}
							}
						}
					}
				}
				for _, k := range from {
					if k < 2 {
						continue
					}
					n++
					var missing []string
					for i := 0; i < st.NumFields(); i++ {
						if fld := st.Field(i); !set[fld.Name()] && !fld.Embedded() {
							// mutexes and the like are not copied
							if strings.Contains(fld.Type().String(), "sync.") {
								continue
							}
							missing = append(missing, fld.Name())
						}
					}
					if len(missing) > 0 {
						out = append(out, partialCopy{cl.Pos(), named.Obj().Name(), k, missing, curFn})
					}
				}
				return true
			})
		}
	}
	return
}

// ---------------------------------------------------------------------------
// A32: a function named for one priority does not use another priority's constants.
func priorityNameSites(c *Ctx, pkg string) (n int, bad []string) {
	words := []string{"HighPriority", "MediumPriority", "LowPriority"}
	wordOf := func(s string) string {
		for _, w := range words {
			if strings.Contains(s, w) {
				return w
			}
		}
		return ""
	}
	for _, p := range c.Pkgs {
		if short(p.PkgPath) != pkg {
			continue
		}
		for _, f := range p.Syntax {
			if strings.HasSuffix(c.Fset.Position(f.Pos()).Filename, "_test.go") {
				continue
			}
			for _, d := range f.Decls {
				fd, ok := d.(*ast.FuncDecl)
				if !ok || fd.Body == nil {
					continue
				}
				fw := wordOf(fd.Name.Name)
				if fw == "" {
					continue
				}
				ast.Inspect(fd.Body, func(x ast.Node) bool {
					id, ok := x.(*ast.Ident)
					if !ok {
						return true
					}
					obj := p.TypesInfo.Uses[id]
					if obj == nil || obj.Pkg() == nil || obj.Pkg() != p.Types {
						return true
					}
					if _, isConst := obj.(*types.Const); !isConst {
						if _, isVar := obj.(*types.Var); !isVar || obj.Parent() != p.Types.Scope() {
							return true
						}
					}
					iw := wordOf(strings.ToUpper(id.Name[:1]) + id.Name[1:])
					if iw == "" {
						return true
					}
					n++
					if iw != fw {
						bad = append(bad, fmt.Sprintf("%s: %s uses %s", c.Pos(id.Pos()), fd.Name.Name, id.Name))
					}
					return true
				})
			}
		}
	}
	return
}

func probeRound12(c *Ctx) {
	var all []string
	for _, p := range c.Pkgs {
		all = append(all, short(p.PkgPath))
	}
	n, sh := shadowSites(c, all...)
	fmt.Println("A30 inner := of an outer same-typed variable:", n)
	for _, s := range sh {
		fmt.Printf("  A30 BAD %s %s in %s\n", c.Pos(s.pos), s.name, s.fn)
	}
	n, pc := partialCopySites(c, all...)
	fmt.Println("A31 hand-written struct copies:", n)
	for _, s := range pc {
		fmt.Printf("  A31 BAD %s %s in %s copied=%d missing=%v\n", c.Pos(s.pos), s.typ, s.fn, s.copied, s.missing)
	}
	n, bad := priorityNameSites(c, "modules")
	fmt.Println("A32 priority-named identifiers in priority-named functions:", n)
	for _, b := range bad {
		fmt.Println("  A32 BAD", b)
	}
}

var _ = ssa.Value(nil)

var shadowExempt = map[string]string{
	"modules.Start/err":                   "the inner err belongs to the command line operation: it is printed and Start returns ErrCleanExit in that block",
	"updater.DownloadUpdates/reportError": "a defect outside the 20 properties (the registry state always reports a nil download error); listed in DESIGN 10.27, not repaired",
}

func shadowRule(rule string, why string, pkgs ...string) ruleFn {
	return func(c *Ctx, r *Report) {
		n, sites := shadowSites(c, pkgs...)
		bad := 0
		for _, s := range sites {
			if _, ok := shadowExempt[s.fn+"/"+s.name]; ok {
				continue
			}
			bad++
			r.Bad(rule, s.fn+" / inner := of "+s.name+" while the outer "+s.name+" is read after the block", why, c.Pos(s.pos))
		}
		if bad == 0 {
			r.Trivial(rule, strings.Join(pkgs, ", ")+" / no result-carrying variable is shadowed by an inner :=", fmt.Sprintf("%d inner declarations of an outer same-typed name examined, the confirmed harmless ones are listed in the checker", n))
		}
	}
}

var partialCopyExempt = map[string]string{
	"api.authenticateRequest/AuthToken": "the copy handed to the handler carries the permissions only; the expiry stays with the authenticator's token",
	"updater.Export/Resource":           "Export documents that only the exposed attributes are copied",
}

func partialCopyRule(rule string, why string, pkgs ...string) ruleFn {
	return func(c *Ctx, r *Report) {
		n, sites := partialCopySites(c, pkgs...)
		bad := 0
		for _, s := range sites {
			if _, ok := partialCopyExempt[s.fn+"/"+s.typ]; ok {
				continue
			}
			bad++
			r.Bad(rule, fmt.Sprintf("%s / hand-written copy of %s leaves out %s", s.fn, s.typ, strings.Join(s.missing, ", ")), why, c.Pos(s.pos))
		}
		if bad == 0 {
			r.Trivial(rule, strings.Join(pkgs, ", ")+" / hand-written struct copies are complete", fmt.Sprintf("%d field-by-field copies examined, the documented partial ones are listed in the checker", n))
		}
	}
}

func c15R14(c *Ctx, r *Report) {
	const rule = "C15-R14"
	r.SetFloor(rule, 1)
	n, bad := priorityNameSites(c, "modules")
	if n == 0 {
		r.Undecided(rule, "modules / priority-named identifiers", "no use of a priority-named constant in a priority-named function found")
		return
	}
	r.Check(len(bad) == 0, rule, "modules / a function named for one priority uses that priority's constants", fmt.Sprintf("%d uses of priority-named constants, each in a function of the same priority", n),
		"a function named for one priority uses another priority's constant: the documented default delay of that priority is replaced by another one, so a task waits shorter (and exceeds the limit earlier) or longer than its priority says: "+strings.Join(bad, "; "), firstPos(bad))
}

// originsRule: the value stored / returned / sent at the selected instructions has only origins accepted by ok.
func storeOriginRule(c *Ctx, r *Report, rule, owner, field string, inFns []string, ok func(o string) bool, want, why string, floor int) {
	r.SetFloor(rule, floor)
	for i, s := range c.StoresTo(owner, field) {
		fk := fnKey(outerFn(s.Fn))
		if inFns != nil && !inList(fk, inFns) {
			continue
		}
		var other []string
		for _, o := range c.Origins(s.Instr.(*ssa.Store).Val) {
			if !ok(o) {
				other = append(other, o)
			}
		}
		r.Check(len(other) == 0, rule, fmt.Sprintf("%s / store #%d to %s.%s", fk, i, owner, field), want, why+" (stored: "+strings.Join(other, ", ")+")", c.Pos(s.Instr.Pos()))
	}
}

func c05R18(c *Ctx, r *Report) {
	storeOriginRule(c, r, "C05-R18", "modules.Module", "Ctx", nil, func(o string) bool { return o == "call:context.WithCancel#0" }, "the module context comes from context.WithCancel",
		"a module context that is not cancelable is installed: work started before the (next) start - in the prep function, right after Register - runs with a context that the stop never cancels, the stop waits out its timeout and reports the module offline while the work still runs", 2)
}

// c05R19: runWorker calls the worker function on every path to a return.
func c05R19(c *Ctx, r *Report) {
	const rule = "C05-R19"
	r.SetFloor(rule, 1)
	const fname = "modules.(*Module).runWorker"
	fn := c.Func(fname)
	if fn == nil {
		r.Undecided(rule, fname, "anchor function missing")
		return
	}
	isFnCall := func(in ssa.Instruction) bool {
		ci, ok := in.(*ssa.Call)
		if !ok {
			return false
		}
		p, ok := ci.Call.Value.(*ssa.Parameter)
		return ok && p.Name() == "fn"
	}
	x := ReachInstr(fn, nil, isExit, isFnCall)
	r.Check(x == nil, rule, fname+" / the worker function is called on every path", "every return is preceded by the call of fn",
		"runWorker returns without calling the worker function on some path: a worker started on a stopping or stopped module is silently skipped instead of being run with the cancelled context (a stop function that flushes through RunWorker loses its flush)", posOf(c, x))
}

// c06R21: stopAllTasks takes the stop function's result on every path to its report.
func c06R21(c *Ctx, r *Report) {
	const rule = "C06-R21"
	r.SetFloor(rule, 1)
	const fname = "modules.(*Module).stopAllTasks"
	fn := c.Func(fname)
	if fn == nil {
		r.Undecided(rule, fname, "anchor function missing")
		return
	}
	isResultChan := func(v ssa.Value) bool {
		for _, o := range c.Origins(v) {
			if strings.HasSuffix(o, "startCtrlFn#0") {
				return true
			}
		}
		return false
	}
	isRecv := func(in ssa.Instruction) bool {
		switch x := in.(type) {
		case *ssa.UnOp:
			return x.Op == token.ARROW && isResultChan(x.X)
		case *ssa.Select:
			for _, st := range x.States {
				if st.Dir == types.RecvOnly && isResultChan(st.Chan) {
					return true
				}
			}
		}
		return false
	}
	n := 0
	eachInstr(fn, func(in ssa.Instruction) {
		if _, ok := in.(*ssa.Send); !ok {
			return
		}
		n++
		r.Check(MustPrecede(fn, isRecv, in), rule, fmt.Sprintf("%s / the stop function's result is looked at on every way to report #%d", fname, n), "a receive (or select with a receive) on the control function's result channel precedes the report",
			"the report is reachable without looking at the stop function's result channel: when the wait times out because a worker outlives the stop, a stop function that already failed or panicked is reported as a clean stop - Shutdown returns nil and the failure status is not set", c.Pos(in.Pos()))
	})
	if n == 0 {
		r.Undecided(rule, fname, "no report send found")
	}
}

func c07R22(c *Ctx, r *Report) {
	found := false
	for _, s := range c.StoresTo("modules.Task", "maxDelay") {
		if fnKey(outerFn(s.Fn)) == "modules.(*Module).newTask" {
			found = true
		}
	}
	if !found && c.Func("modules.(*Module).newTask") != nil {
		r.Bad("C07-R22", "modules.(*Module).newTask / a new task starts with the default maximum delay", "newTask does not set the maximum delay at all (0 means none): once the task is due it is started by the scheduler directly, beside the task that is running and ahead of the prioritized queue")
		return
	}
	storeOriginRule(c, r, "C07-R22", "modules.Task", "maxDelay", []string{"modules.(*Module).newTask"}, func(o string) bool { return strings.HasPrefix(o, "const:") && o != "const:0" }, "a new task starts with the default maximum delay",
		"a new task is created without the default maximum delay (0 means none): once it is due it is started by the scheduler directly, beside the task that is running and ahead of the prioritized queue", 1)
}

// everyIterationRule: in fname every iteration of the loop passes an instruction accepted by pred.
func everyIterationRule(c *Ctx, r *Report, rule, fname, what, why string, pred func(ssa.Instruction) bool) {
	r.SetFloor(rule, 1)
	fn := c.Func(fname)
	if fn == nil {
		r.Undecided(rule, fname, "anchor function missing")
		return
	}
	found, path := everyIteration(fn, pred)
	if !found {
		r.Undecided(rule, fname, "the per-iteration operation was not found")
		return
	}
	r.Check(path == nil, rule, fname+" / "+what, "every iteration passes it", why, c.pathString(path)...)
}

func c07R23(c *Ctx, r *Report) {
	everyIterationRule(c, r, "C07-R23", "modules.(*Module).markDependencies", "every dependency is marked as needed",
		"a dependency is skipped by the marking loop: a module that is both enabled and needed by another enabled module loses enabledAsDependency; after it is disabled it stays online (it is needed) but OnlineSoon() is false until the next management run, so its tasks are refused or dropped",
		isAboolCallOnFieldSuffix("enabledAsDependency", "SetToIf"))
}

func isAboolCallOnFieldSuffix(field, method string) func(ssa.Instruction) bool {
	return func(in ssa.Instruction) bool {
		ci, ok := in.(*ssa.Call)
		if !ok || !strings.HasSuffix(calleeName(ci.Common()), "AtomicBool."+method) {
			return false
		}
		args := callArgs(ci.Common())
		if len(args) == 0 {
			return false
		}
		u, ok := args[0].(*ssa.UnOp)
		if !ok || u.Op != token.MUL {
			return false
		}
		fr, ok := fieldOfAddr(u.X)
		return ok && fr.Name == field
	}
}

func c19R28(c *Ctx, r *Report) {
	everyIterationRule(c, r, "C19-R28", "updater.(*ResourceRegistry).SelectVersions", "every resource is re-selected",
		"a resource is skipped by SelectVersions: the documented order is not applied to it - in dev mode the locally available dev version does not replace a still selectable current release",
		isInvokeOrCallNamed("updater.Resource.selectVersion"))
}

func c08R17(c *Ctx, r *Report) {
	storeOriginRule(c, r, "C08-R17", "database/record.Wrapper", "Format", []string{"database/record.NewWrapper"}, func(o string) bool { return o == "param:format" }, "NewWrapper stores the format it is given",
		"NewWrapper stores another format than the caller's: format identifier 0 (or whatever value is taken for unset) does not come back from the stored form", 1)
}

// c09R19: MimeDump reports success only with the output of the serializer.
func c09R19(c *Ctx, r *Report) {
	const rule = "C09-R19"
	r.SetFloor(rule, 1)
	const fname = "formats/dsd.MimeDump"
	fn := c.Func(fname)
	if fn == nil {
		r.Undecided(rule, fname, "anchor function missing")
		return
	}
	n := 0
	eachInstr(fn, func(in ssa.Instruction) {
		ret, ok := in.(*ssa.Return)
		if !ok || len(ret.Results) != 4 {
			return
		}
		errV := retVal(ret, 3)
		if isNilConst(errV) {
			n++
			// a nil error is fine behind the test of the serializer's own error
			var guards []Guard
			eachInstr(fn, func(x ssa.Instruction) {
				if ex, ok := x.(*ssa.Extract); ok && ex.Index == 1 {
					if call, ok := ex.Tuple.(*ssa.Call); ok && strings.Contains(calleeName(call.Common()), "dumpWithoutIdentifier") {
						e := ssa.Value(ex)
						guards = append(guards, Guard{Name: "serializer error == nil", Truthy: false, Match: func(b ssa.Value) bool { return b == e }})
					}
				}
			})
			if len(guards) > 0 && ReachTargetAvoiding(fn, ret, guards, nil) == nil {
				r.OK(rule, fmt.Sprintf("%s / success is reported with the serializer's error only (#%d)", fname, n), "nil is returned behind the test of the serializer's error")
				return
			}
			r.Bad(rule, fmt.Sprintf("%s / success is reported with the serializer's error only (#%d)", fname, n), "MimeDump returns a constant nil error: a value is reported as dumped without having gone through the serializer (an untyped nil value leaves the body empty under a content type whose loader rejects an empty body)", c.Pos(ret.Pos()))
			return
		}
		fromDump := false
		for _, o := range c.Origins(errV) {
			if strings.Contains(o, "dumpWithoutIdentifier") {
				fromDump = true
			}
		}
		if fromDump {
			n++
			r.OK(rule, fmt.Sprintf("%s / success is reported with the serializer's error only (#%d)", fname, n), "the returned error is the serializer's")
		}
	})
	if n == 0 {
		r.Undecided(rule, fname, "no return with the serializer's error found")
	}
}

// lookupOnlyIn: the global map is read only in the listed functions.
func lookupOnlyIn(c *Ctx, r *Report, rule, global string, allowed []string, why string, floor int) {
	r.SetFloor(rule, floor)
	for _, fn := range c.AllFuncs() {
		if fn.Blocks == nil {
			continue
		}
		i := 0
		eachInstr(fn, func(in ssa.Instruction) {
			lk, ok := in.(*ssa.Lookup)
			if !ok || !strings.HasSuffix(vpath(lk.X), global) {
				return
			}
			i++
			fk := fnKey(outerFn(fn))
			r.Check(inList(fk, allowed), rule, fmt.Sprintf("%s read in %s #%d", global, fk, i), "reader is in the table", why, c.Pos(lk.Pos()))
		})
	}
}

func c09R20(c *Ctx, r *Report) {
	lookupOnlyIn(c, r, "C09-R20", "dsd.MimeTypeToFormat", []string{"formats/dsd.FormatFromAccept"},
		"the mime type table is consulted outside FormatFromAccept, which is where a header value is normalised (lower case, parameters cut, wildcards and the default resolved): a content type in another spelling (`application/JSON`) or an empty one is refused although the dump side would have produced it", 1)
}

// noSliceNilCompare: in the packages no byte slice is compared with nil (lengths decide).
func noSliceNilCompare(rule, why string, pkgs ...string) ruleFn {
	return func(c *Ctx, r *Report) {
		n := 0
		for _, fn := range funcsOfPkgs(c, pkgs...) {
			if fn.Blocks == nil {
				continue
			}
			eachInstr(fn, func(in ssa.Instruction) {
				bo, ok := in.(*ssa.BinOp)
				if !ok || (bo.Op != token.EQL && bo.Op != token.NEQ) {
					return
				}
				var other ssa.Value
				switch {
				case isNilConst(bo.X):
					other = bo.Y
				case isNilConst(bo.Y):
					other = bo.X
				default:
					return
				}
				sl, ok := other.Type().Underlying().(*types.Slice)
				if !ok {
					return
				}
				if b, ok := sl.Elem().Underlying().(*types.Basic); !ok || b.Kind() != types.Byte && b.Kind() != types.Uint8 {
					return
				}
				n++
				r.Bad(rule, fnKey(fn)+" / a byte slice is compared with nil", why, c.Pos(bo.Pos()))
			})
		}
		if n == 0 {
			r.Trivial(rule, strings.Join(pkgs, ", ")+" / no byte slice is compared with nil", "lengths decide everywhere")
		}
	}
}

// c04R22: valueCache.getData returns the value of the option's type on every path of that type's case.
func c04R22(c *Ctx, r *Report) {
	const rule = "C04-R22"
	r.SetFloor(rule, 4)
	const fname = "config.(*valueCache).getData"
	fn := c.Func(fname)
	if fn == nil {
		r.Undecided(rule, fname, "anchor function missing")
		return
	}
	for _, b := range fn.Blocks {
		if len(b.Instrs) == 0 {
			continue
		}
		iff, ok := b.Instrs[len(b.Instrs)-1].(*ssa.If)
		if !ok {
			continue
		}
		cond, ok := iff.Cond.(*ssa.BinOp)
		if !ok || cond.Op != token.EQL {
			continue
		}
		k, isC := constInt(cond.Y)
		if !isC || k < 1 || k > 4 {
			continue // the four value-carrying option types
		}
		body := b.Succs[0]
		var bad []string
		for _, d := range fn.Blocks {
			if d != body && !body.Dominates(d) {
				continue
			}
			for _, in := range d.Instrs {
				if ret, ok := in.(*ssa.Return); ok && len(ret.Results) == 1 && isNilConst(retVal(ret, 0)) {
					bad = append(bad, c.Pos(ret.Pos()))
				}
			}
		}
		r.Check(len(bad) == 0, rule, fmt.Sprintf("%s / option type %d always yields its value", fname, k), "no nil return in the case of a value-carrying type",
			"getData returns nil (\"unset\") for a value of a value-carrying option type: a legitimately set value of that shape (the empty list) is written to the file as null, refused on load, and the option falls back to its default", bad...)
	}
}

// c02R29: the badger query hands out records built from a copy of the item's value.
func c02R29(c *Ctx, r *Report) {
	const rule = "C02-R29"
	r.SetFloor(rule, 1)
	root := c.Func("database/storage/badger.(*Badger).queryExecutor")
	if root == nil {
		r.Undecided(rule, "database/storage/badger.(*Badger).queryExecutor", "anchor function missing")
		return
	}
	n := 0
	for _, fn := range withAnons(root) {
		eachInstr(fn, func(in ssa.Instruction) {
			var sent []ssa.Value
			switch x := in.(type) {
			case *ssa.Send:
				sent = append(sent, x.X)
			case *ssa.Select:
				for _, st := range x.States {
					if st.Dir == types.SendOnly {
						sent = append(sent, st.Send)
					}
				}
			}
			for _, v := range sent {
				if !strings.Contains(v.Type().String(), "record.Record") {
					continue
				}
				n++
				copied := false
				for _, l := range c.Leaves(v) {
					call, ok := l.(*ssa.Call)
					if !ok {
						if ex, isEx := l.(*ssa.Extract); isEx {
							call, ok = ex.Tuple.(*ssa.Call)
						}
					}
					if !ok || call == nil || !strings.HasSuffix(calleeName(call.Common()), "record.NewRawWrapper") {
						continue
					}
					for _, o := range c.Origins(call.Call.Args[2]) {
						if strings.Contains(o, "ValueCopy") {
							copied = true
						}
					}
				}
				r.Check(copied, rule, fmt.Sprintf("%s / record sent to the iterator #%d is built from Item.ValueCopy", fnKey(fn), n), "NewRawWrapper(..., item.ValueCopy(...))",
					"the record handed to the consumer is built on the item's own value buffer, which badger recycles as the iterator moves on: a consumer that still holds the record ~100 items later reads another record's bytes under this key", c.Pos(in.Pos()))
			}
		})
	}
	if n == 0 {
		r.Undecided(rule, fnKey(root), "no send of a record found")
	}
}

// c11R27: the condition printers print keys and values through escapeString.
func c11R27(c *Ctx, r *Report) {
	const rule = "C11-R27"
	r.SetFloor(rule, 4)
	for _, fn := range funcsOfPkgs(c, "database/query") {
		if fn.Blocks == nil || fn.Name() != "string" {
			continue
		}
		for i, ci := range callsIn(fn, "fmt.Sprintf") {
			call, ok := ci.(*ssa.Call)
			if !ok || len(call.Call.Args) < 2 {
				continue
			}
			sl, ok := call.Call.Args[1].(*ssa.Slice)
			if !ok {
				continue
			}
			var raw []string
			for _, l := range variadicElems(c, sl, 0) {
				d := leafDesc(l)
				if strings.HasSuffix(d, ".key") || (strings.HasSuffix(d, ".value") && isStringType(l.Type())) {
					raw = append(raw, d)
				}
			}
			r.Check(len(raw) == 0, rule, fmt.Sprintf("%s / Sprintf #%d prints key and value through escapeString", fnKey(fn), i+1), "no raw key / string value among the printed values",
				"the printer writes "+strings.Join(raw, ", ")+" as it is on some path: a key or value with a parenthesis, tab, quote or backslash prints to a text that does not parse back (or parses to another token)", c.Pos(call.Pos()))
		}
	}
}

// c11R28: a regex condition that keeps the caller's operator carries a compiled expression.
func c11R28(c *Ctx, r *Report) {
	const rule = "C11-R28"
	r.SetFloor(rule, 1)
	const fname = "database/query.newRegexCondition"
	fn := c.Func(fname)
	if fn == nil {
		r.Undecided(rule, fname, "anchor function missing")
		return
	}
	n := 0
	eachInstr(fn, func(in ssa.Instruction) {
		al, ok := in.(*ssa.Alloc)
		if !ok || !strings.HasSuffix(al.Type().String(), "query.regexCondition") || al.Referrers() == nil {
			return
		}
		hasRegex, keepsOperator := false, false
		for _, ref := range *al.Referrers() {
			fa, ok := ref.(*ssa.FieldAddr)
			if !ok || fa.Referrers() == nil {
				continue
			}
			name := fieldName(fa.X.Type(), fa.Field)
			for _, r2 := range *fa.Referrers() {
				st, ok := r2.(*ssa.Store)
				if !ok {
					continue
				}
				if name == "regex" {
					hasRegex = true
				}
				if name == "operator" {
					for _, o := range c.Origins(st.Val) {
						if strings.HasPrefix(o, "param:") {
							keepsOperator = true
						}
					}
				}
			}
		}
		if !keepsOperator {
			return
		}
		n++
		r.Check(hasRegex, rule, fmt.Sprintf("%s / condition #%d with the caller's operator carries the compiled expression", fname, n), "regex is set",
			"a regex condition is returned with the caller's operator but without a compiled expression: it passes its check and parses, and panics on the nil expression when it is printed or matched", c.Pos(al.Pos()))
	})
	if n == 0 {
		r.Undecided(rule, fname, "no condition with the caller's operator found")
	}
}

func isStringType(t types.Type) bool {
	b, ok := t.Underlying().(*types.Basic)
	return ok && b.Kind() == types.String
}

func c12R21(c *Ctx, r *Report) {
	const rule = "C12-R21"
	r.SetFloor(rule, 1)
	n := 0
	for _, fn := range funcsOfPkgs(c, "api") {
		eachInstr(fn, func(in ssa.Instruction) {
			if !isStoreToGlobal("api.devMode")(in) {
				return
			}
			n++
			var other []string
			for _, o := range c.Origins(in.(*ssa.Store).Val) {
				if !strings.Contains(o, "GetAsBool") {
					other = append(other, o)
				}
			}
			r.Check(len(other) == 0, rule, fnKey(outerFn(fn))+" / devMode is the configuration's own getter", "devMode = config.Concurrent.GetAsBool(...)",
				"devMode is not the configuration getter itself ("+strings.Join(other, ", ")+"): a wrapper that remembers the first answer keeps granting full access (and the development CORS exception) after development mode was switched off", c.Pos(in.Pos()))
		})
	}
	if n == 0 {
		r.Undecided(rule, "api.devMode", "no store to devMode found")
	}
}

// c20R14: the package level table is replaced, never emptied in place (it is the caller's map).
func c20R14(c *Ctx, r *Report) {
	const rule = "C20-R14"
	n := 0
	for _, fn := range funcsOfPkgs(c, "log") {
		eachInstr(fn, func(in ssa.Instruction) {
			isTable := func(v ssa.Value) bool { return strings.HasSuffix(vpath(v), "log.pkgLevels") }
			switch x := in.(type) {
			case *ssa.MapUpdate:
				if isTable(x.Map) {
					n++
					r.Bad(rule, fnKey(outerFn(fn))+" / writes into the package level table in place", "the table is the map the application handed to SetPkgLevels: changing it in place changes the application's map, and setting the same map again installs the changed table", c.Pos(in.Pos()))
				}
			case ssa.CallInstruction:
				if b, ok := x.Common().Value.(*ssa.Builtin); ok && b.Name() == "delete" && len(x.Common().Args) == 2 && isTable(x.Common().Args[0]) {
					n++
					r.Bad(rule, fnKey(outerFn(fn))+" / deletes from the package level table in place", "the table is the map the application handed to SetPkgLevels: emptying it in place empties the application's map, and setting the same map again installs an empty table - the per-package levels the application set are not in force", c.Pos(in.Pos()))
				}
			}
		})
	}
	if n == 0 {
		r.Trivial(rule, "log / the package level table is only replaced as a whole", "no in-place write or delete on log.pkgLevels")
	}
}

// c14R20: Exists reads through Get, so that the get hooks see the read.
func c14R20(c *Ctx, r *Report) {
	const rule = "C14-R20"
	r.SetFloor(rule, 1)
	const fname = "database.(*Interface).Exists"
	fn := c.Func(fname)
	if fn == nil {
		r.Undecided(rule, fname, "anchor function missing")
		return
	}
	x := ReachInstr(fn, nil, isExit, func(in ssa.Instruction) bool {
		ci, ok := in.(*ssa.Call)
		if !ok {
			return false
		}
		n := calleeName(ci.Common())
		return n == "database.Interface.Get" || n == "database.Interface.getRecord" || n == "database.Controller.Get"
	})
	r.Check(x == nil, rule, fname+" / the read goes through the record get", "every return is preceded by Get / getRecord",
		"Exists answers from the metadata alone on some path: the PreGet / PostGet hooks registered for the key are not called for this read and cannot veto it", posOf(c, x))
}

// c17R15: the fstree backend reads a record file in one piece.
func c17R15(c *Ctx, r *Report) {
	const rule = "C17-R15"
	r.SetFloor(rule, 2)
	for _, fn := range funcsOfPkgs(c, "database/storage/fstree") {
		if fn.Blocks == nil {
			continue
		}
		for i, ci := range callsIn(fn, "database/record.NewRawWrapper") {
			call, ok := ci.(*ssa.Call)
			if !ok || len(call.Call.Args) < 3 {
				continue
			}
			var other []string
			for _, o := range c.Origins(call.Call.Args[2]) {
				if o != "call:os.ReadFile#0" && o != "call:io.ReadAll#0" {
					other = append(other, o)
				}
			}
			r.Check(len(other) == 0, rule, fmt.Sprintf("%s / record #%d is parsed from os.ReadFile's result", fnKey(outerFn(fn)), i+1), "the data comes from os.ReadFile",
				"the record file is not read in one piece ("+strings.Join(other, ", ")+"): with a size taken earlier (from the directory walk) a file replaced in between is read as a truncated prefix of its new content, or the query fails with an unexpected EOF", c.Pos(call.Pos()))
		}
	}
}

func init() {
	extend("C01", "(R18) A30 over package modules: no inner := of an outer same-typed variable that is read after the block (the outer variable would keep its old value).", shadowRule("C01-R18", "an inner := declares a new variable, the outer one that is read afterwards keeps its old (zero) value: the error or result computed in the block is lost", "modules"))
	extend("C03", "(R17) A30 over the database packages; (R18) who-may-call table of Interface.checkCache.", shadowRule("C03-R17", "an inner := declares a new variable, the outer one that is read afterwards keeps its old (nil) value: a nil metadata reads as 'not found', and a write that is guarded by the permission check on the existing record's metadata goes through unchecked", "database", "database/record", "database/query", "database/storage/hashmap", "database/storage/bbolt", "database/storage/badger", "database/storage/fstree", "runtime", "notifications"),
		func(c *Ctx, r *Report) {
			whoMayCallRule(c, r, "C03-R18", 2, "database.Interface.checkCache", []string{"database.(*Interface).getRecord", "database.(*Interface).getMeta"},
				"the read cache is consulted outside getRecord / getMeta, which are where a cached record's permission is checked against the interface's options on every access: a record that was re-flagged secret after it was cached is handed out")
		})
	extend("C02", "(R29) the badger query builds the records it hands out on Item.ValueCopy.", c02R29)
	extend("C04", "(R22) valueCache.getData returns no nil in the case of a value-carrying option type.", c04R22)
	extend("C05", "(R18) every store to Module.Ctx is the result of context.WithCancel; (R19) runWorker calls the worker function on every path to a return.", c05R18, c05R19)
	extend("C06", "(R21) stopAllTasks looks at the stop function's result channel on every way to its report.", c06R21)
	extend("C07", "(R22) newTask stores a non-zero constant maximum delay; (R23) markDependencies marks every dependency.", c07R22, c07R23)
	extend("C08", "(R17) NewWrapper stores the format parameter.", c08R17)
	extend("C09", "(R19) MimeDump returns no constant nil error; (R20) MimeTypeToFormat is read in FormatFromAccept only.", c09R19, c09R20)
	extend("C10", "(R13) = C16-R22: package container compares no byte slice with nil.", noSliceNilCompare("C10-R13", "a nil slice is taken for 'nothing there' although it is also what a zero-length result looks like: a zero-length request or block is refused, after its length prefix was already consumed", "container"))
	extend("C16", "(R22) package container compares no byte slice with nil (lengths decide).", noSliceNilCompare("C16-R22", "a nil slice is taken for 'nothing there' although it is also what a zero-length result looks like: a zero-length request or block is refused, after its length prefix was already consumed", "container"))
	extend("C11", "(R27) every condition printer passes keys and string values through escapeString on every path; (R28) a regex condition built with the caller's operator carries the compiled expression.", c11R27, c11R28)
	extend("C12", "(R21) api.devMode is the configuration getter itself; (R22) A31 over package api: hand-written struct copies are complete.", c12R21, partialCopyRule("C12-R22", "a field-by-field copy leaves a field at its zero value", "api"))
	extend("C14", "(R19) = C03-R12 (the metadata object of a record is never replaced, so flags survive PutNew); (R20) Exists reads through Get.", borrowRule(c03R12, "C03-R12", "C14-R19", 1, nil), c14R20)
	extend("C15", "(R14) A32: a function of package modules named for one priority uses that priority's constants.", c15R14)
	extend("C17", "(R15) the fstree backend parses records from os.ReadFile's result.", c17R15)
	extend("C19", "(R28) SelectVersions re-selects every resource; (R29) A31 over package updater: hand-written struct copies are complete.", c19R28, partialCopyRule("C19-R29", "a field-by-field copy of an index or resource leaves a field at its zero value: an index registered as pre-release is taken for a stable one, its versions are selected and counted as stable", "updater"))
	extend("C20", "(R14) log.pkgLevels is never written or emptied in place.", c20R14)
}
