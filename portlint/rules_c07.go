package main

import (
	"fmt"
	"go/types"
	"strings"

	"golang.org/x/tools/go/ssa"
)

func init() {
	register(&propDef{
		ID: "C07",
		Explanation: "Decides structural necessary conditions of the task scheduler: " +
			"(R1) Task.executing is set only in runWithLocking, under the task lock, across 'not already executing', isActive() and 'context not done', it is reset only in deferred/abort code, and the execution goroutine is launched only after it was set; " +
			"(R2) Cancel sets canceled and cancels the context under the task lock, canceled is never reset, isActive is false for cancelled tasks (truth table); " +
			"(R3) queue discipline table: Queue/QueuePrioritized/StartASAP insert into the right list at the right end, only if not yet enqueued, under queuesLock and only for active tasks; nobody else inserts; the handler pops the prioritized list first and waits for the execution slot before every pop; list-element fields are only touched with the task lock held; " +
			"(R4) one queueWg.Add(1) before the launch and exactly one Done() in the watcher goroutine after ctx-done/execution-wait; " +
			"(R5) the schedule handler runs/promotes tasks only when the timer derived from the schedule's front element fired, addToSchedule inserts before the first later element and always wakes the handler after changing the schedule; " +
			"(R6) removeFromQueues leaves no stale list element: for each of the three element fields every exit has either found the field nil or removed the element from the list it was inserted into (table derived from the insert sites) and cleared the field. " +
			"(R7) every (re-)submission of an active task with a max delay re-arms its deadline: in prepForQueueing no condition other than activity and maxDelay != 0 decides whether executeAt is set and the task is re-inserted into the schedule (the schedule handler starts an overdue front task directly, so a stale deadline lets a queued task bypass the queue). " +
			"(R8) the finish signal t.cancelCtx() (it releases the queue slot) is given only after Task.executing was reset and with the task lock held - otherwise the next submission of the same task is popped, found executing and dropped. " +
			"(R9) table of who may enter a task into the schedule as overtime: only prepForQueueing (deadline of an already queued task) passes true, Schedule/Repeat/the repeat re-arm pass false, and addToSchedule sets the flag only when asked (the schedule handler starts an overtime task directly). " +
			"(R10) Queue/QueuePrioritized/StartASAP insert (or move) the task unless it is not ready or already in the target list - membership in another list does not suppress the submission; (R11) the schedule handler sets overtime before it promotes a due task through StartASAP and clears it before it runs an overdue task directly. " +
			"(R12) the schedule handler starts or promotes the front task only across a test that it is due (a stale timer of a task that left the schedule must not start the next one early); (R13) the queue watcher waits on the execution context captured under the task lock, never on Task.ctx itself. " +
			"(R14) a (re)starting module accepts tasks: start() clears the stop flag under the lock before the start function runs (= C05-R6). " +
			"NOT decided: liveness ('every queued task runs'), timing, order under real interleavings; Task.ctx is deliberately outside the lock rule (the source documents the benign race).",
		Rules: []ruleFn{c07R1, c07R2, c07R3, c07R4, c07R5, c07R6, c07R7, c07R8, c07R9, c07R10, c07R11, c07R12, c07R13, borrowRule(c05R6, "C05-R6", "C07-R14", 2, nil)},
	})
}

func taskLockHeld(held map[string]bool) bool { return held["t.lock"] }

func fieldLoadGuard(desc, owner, field string, truthy bool) Guard {
	return Guard{Name: desc, Truthy: truthy, Match: func(b ssa.Value) bool { return fieldLoadOf(b, owner, field) }}
}

func c07R1(c *Ctx, r *Report) {
	const rule = "C07-R1"
	r.SetFloor(rule, 8)
	stores := c.StoresTo("modules.Task", "executing")
	ord := map[string]int{}
	nTrue := 0
	var trueStores []ssa.Instruction
	for _, s := range stores {
		st := s.Instr.(*ssa.Store)
		b, isC := constBool(st.Val)
		if !isC {
			r.Bad(rule, fnKey(s.Fn)+" / store Task.executing=<non-constant>", "Task.executing set from a non-constant", c.Pos(st.Pos()))
			continue
		}
		cons := ordinal(ord, fmt.Sprintf("%s / store Task.executing=%v", fnKey(s.Fn), b))
		held := LocksHeldAt(s.Fn)[st]
		r.Check(taskLockHeld(held), rule, cons+" / under task lock", "written with t.lock held", "Task.executing written without the task lock (held: "+setString(held)+")", c.Pos(st.Pos()))
		if b {
			nTrue++
			trueStores = append(trueStores, st)
			if fnKey(s.Fn) != "modules.(*Task).runWithLocking" {
				r.Bad(rule, cons, "Task.executing is set outside runWithLocking: the self-overlap check can be bypassed", c.Pos(st.Pos()))
				continue
			}
			c.RequireGuards(r, rule, cons, s.Fn, st,
				fieldLoadGuard("!t.executing", "modules.Task", "executing", false),
				callGuard("isActive()==true", true, "modules.Task.isActive"))
			tested, reach := reachThroughSelectCase(s.Fn, st, isCtxDoneOf("t.ctx"))
			r.Check(tested && !reach, rule, cons+" / context not done", "not reachable through the 'context done' case", "the executing state can be entered although the task context is already done", c.Pos(st.Pos()))
		} else {
			top := fnKey(topFunc(s.Fn))
			okSite := top == "modules.(*Task).executeWithLocking" || fnKey(s.Fn) == "modules.(*Task).runWithLocking"
			r.Check(okSite, rule, cons+" / site", "reset in the deferred part of executeWithLocking or on the abort path of runWithLocking",
				"Task.executing is reset in "+fnKey(s.Fn)+": a running task can be started a second time", c.Pos(st.Pos()))
			if fnKey(s.Fn) == "modules.(*Task).runWithLocking" {
				// abort path only: must not reach the launch afterwards
				launched := ReachInstr(s.Fn, st, func(in ssa.Instruction) bool {
					g, ok := in.(*ssa.Go)
					return ok && calleeName(&g.Call) == "modules.Task.executeWithLocking"
				}, nil)
				r.Check(launched == nil, rule, cons+" / abort path", "after the reset the function returns without launching the task", "the task is launched after executing was reset", c.Pos(st.Pos()))
			}
		}
	}
	if nTrue == 0 {
		r.Bad(rule, "modules.(*Task).runWithLocking / store Task.executing=true", "the executing state is never entered: nothing prevents a task from overlapping with itself")
	}
	// launch sites
	n := 0
	for _, fn := range c.FuncsIn("modules") {
		eachInstr(fn, func(in ssa.Instruction) {
			ci, ok := in.(ssa.CallInstruction)
			if !ok || calleeName(ci.Common()) != "modules.Task.executeWithLocking" {
				return
			}
			n++
			cons := fmt.Sprintf("%s / launch executeWithLocking #%d", fnKey(fn), n)
			if fnKey(fn) != "modules.(*Task).runWithLocking" {
				r.Bad(rule, cons, "executeWithLocking is started outside runWithLocking, bypassing the executing/active/cancel checks", c.Pos(in.Pos()))
				return
			}
			ok2 := MustPrecede(fn, func(x ssa.Instruction) bool {
				for _, ts := range trueStores {
					if x == ts {
						return true
					}
				}
				return false
			}, in)
			r.Check(ok2, rule, cons+" / after executing=true", "the executing flag is set on every path before the launch", "the task can be launched without the executing flag being set", c.Pos(in.Pos()))
		})
	}
	if n == 0 {
		r.Undecided(rule, "launch executeWithLocking", "no launch site found")
	}
}

func c07R2(c *Ctx, r *Report) {
	const rule = "C07-R2"
	r.SetFloor(rule, 3)
	ord := map[string]int{}
	sawCancel := false
	for _, s := range c.StoresTo("modules.Task", "canceled") {
		st := s.Instr.(*ssa.Store)
		b, isC := constBool(st.Val)
		cons := ordinal(ord, fmt.Sprintf("%s / store Task.canceled", fnKey(s.Fn)))
		if !isC || !b {
			r.Bad(rule, cons, "Task.canceled is reset or set from a variable: a cancelled task could run again", c.Pos(st.Pos()))
			continue
		}
		if _, isLit := st.Addr.(*ssa.FieldAddr).X.(*ssa.Alloc); isLit {
			r.OK(rule, cons, "placeholder task literal is created cancelled")
			continue
		}
		if fnKey(s.Fn) == "modules.(*Task).Cancel" {
			sawCancel = true
			held := LocksHeldAt(s.Fn)[st]
			r.Check(taskLockHeld(held), rule, cons+" / under task lock", "set with t.lock held", "canceled set without the task lock", c.Pos(st.Pos()))
			continue
		}
		r.Bad(rule, cons, "Task.canceled written outside Cancel", c.Pos(st.Pos()))
	}
	if !sawCancel {
		r.Bad(rule, "modules.(*Task).Cancel / store Task.canceled", "Cancel does not mark the task cancelled: a waiting task is still started")
	}
	if fn := c.Func("modules.(*Task).Cancel"); fn != nil {
		found := false
		eachInstr(fn, func(in ssa.Instruction) {
			if isDynCallOfField("modules.Task", "cancelCtx")(in) {
				found = true
				held := LocksHeldAt(fn)[in]
				r.Check(taskLockHeld(held), rule, fnKey(fn)+" / cancelCtx() under task lock", "context cancelled with t.lock held", "task context cancelled without the task lock", c.Pos(in.Pos()))
			}
		})
		r.Check(found, rule, fnKey(fn)+" / cancels the task context", "Cancel cancels the running task's context", "Cancel does not cancel the task context")
	} else {
		r.Undecided(rule, "modules.(*Task).Cancel", "anchor function missing")
	}
}

// listCall: call of container/list.List.<method> on the global list `which`.
func listCall(in ssa.Instruction) (list, method string, ok bool) {
	ci, isCall := in.(ssa.CallInstruction)
	if !isCall {
		return "", "", false
	}
	n := calleeName(ci.Common())
	if !strings.HasPrefix(n, "container/list.List.") {
		return "", "", false
	}
	p := vpath(ci.Common().Args[0])
	return strings.TrimPrefix(p, "global:modules."), strings.TrimPrefix(n, "container/list.List."), true
}

var listInserts = map[string]bool{"PushBack": true, "PushFront": true, "InsertBefore": true, "InsertAfter": true, "PushBackList": true, "PushFrontList": true}

func c07R3(c *Ctx, r *Report) {
	const rule = "C07-R3"
	r.SetFloor(rule, 14)
	type ins struct {
		fn, list, method, elemField string
	}
	table := []ins{
		{"modules.(*Task).Queue", "taskQueue", "PushBack", "queueElement"},
		{"modules.(*Task).QueuePrioritized", "prioritizedTaskQueue", "PushBack", "prioritizedQueueElement"},
		{"modules.(*Task).StartASAP", "prioritizedTaskQueue", "PushFront", "prioritizedQueueElement"},
	}
	allowed := map[string]bool{}
	for _, t := range table {
		allowed[t.fn+"|"+t.list+"|"+t.method] = true
		fn := c.Func(t.fn)
		if fn == nil {
			r.Undecided(rule, t.fn, "anchor function missing")
			continue
		}
		found := false
		eachInstr(fn, func(in ssa.Instruction) {
			l, m, ok := listCall(in)
			if !ok || l != t.list || m != t.method {
				return
			}
			found = true
			cons := fmt.Sprintf("%s / %s.%s", t.fn, t.list, t.method)
			c.RequireGuards(r, rule, cons, fn, in,
				fieldLoadGuard(t.elemField+"==nil", "modules.Task", t.elemField, false),
				callGuard("prepForQueueing()==true", true, "modules.Task.prepForQueueing"))
			held := LocksHeldAt(fn)[in]
			r.Check(held["global:modules.queuesLock"] && held["t.lock"], rule, cons+" / locks", "under queuesLock and the task lock", "queue insert without queuesLock/task lock (held: "+setString(held)+")", c.Pos(in.Pos()))
			// the element is remembered in the right field
			ci := in.(*ssa.Call)
			okStore := false
			for _, ref := range *ci.Referrers() {
				if st, isSt := ref.(*ssa.Store); isSt {
					if fr, ok := fieldOfAddr(st.Addr); ok && fr.Name == t.elemField {
						okStore = true
					}
				}
			}
			r.Check(okStore, rule, cons+" / element remembered", "the list element is stored in Task."+t.elemField, "the list element is not stored in Task."+t.elemField+": the task can be enqueued twice or never removed")
		})
		if !found {
			r.Bad(rule, fmt.Sprintf("%s / %s.%s", t.fn, t.list, t.method), fmt.Sprintf("%s does not insert with %s.%s: queue order differs from the documented discipline", t.fn, t.list, t.method))
		}
	}
	// StartASAP: already enqueued -> MoveToFront on the prioritized list
	if fn := c.Func("modules.(*Task).StartASAP"); fn != nil {
		found := false
		eachInstr(fn, func(in ssa.Instruction) {
			if l, m, ok := listCall(in); ok && l == "prioritizedTaskQueue" && m == "MoveToFront" {
				found = true
			}
		})
		r.Check(found, rule, "modules.(*Task).StartASAP / prioritizedTaskQueue.MoveToFront", "an already prioritized task is moved to the front", "StartASAP does not move an already enqueued task to the front")
	}
	// nobody else inserts into the two queues
	for _, fn := range c.FuncsIn("modules") {
		eachInstr(fn, func(in ssa.Instruction) {
			l, m, ok := listCall(in)
			if !ok || (l != "taskQueue" && l != "prioritizedTaskQueue") || !listInserts[m] {
				return
			}
			if !allowed[fnKey(fn)+"|"+l+"|"+m] {
				r.Bad(rule, fmt.Sprintf("%s / %s.%s", fnKey(fn), l, m), "insert into a task queue that is not part of the documented queue discipline", c.Pos(in.Pos()))
			}
		})
	}
	// handler
	h := c.Func("modules.taskQueueHandler")
	if h == nil {
		r.Undecided(rule, "modules.taskQueueHandler", "anchor function missing")
		return
	}
	var prioFront, normFront *ssa.Call
	eachInstr(h, func(in ssa.Instruction) {
		if l, m, ok := listCall(in); ok && m == "Front" {
			if l == "prioritizedTaskQueue" {
				prioFront = in.(*ssa.Call)
			} else if l == "taskQueue" {
				normFront = in.(*ssa.Call)
			}
		}
	})
	if prioFront == nil || normFront == nil {
		r.Bad(rule, "modules.taskQueueHandler / pops", "the queue handler does not take from both the prioritized and the normal queue")
		return
	}
	g := Guard{Name: "prioritized queue empty", Truthy: false, Match: func(b ssa.Value) bool { return b == ssa.Value(prioFront) }}
	c.RequireGuards(r, rule, "modules.taskQueueHandler / normal queue pop", h, normFront, g)
	isWait := func(in ssa.Instruction) bool {
		ci, ok := in.(*ssa.Call)
		return ok && calleeName(&ci.Call) == "sync.WaitGroup.Wait" && vpath(ci.Call.Args[0]) == "global:modules.queueWg"
	}
	for _, ci := range callsIn(h, "modules.Task.runWithLocking") {
		r.Check(MustPrecede(h, isWait, ci), rule, "modules.taskQueueHandler / wait for slot before run", "queueWg.Wait() precedes every run", "a task is run without waiting for the previous one", c.Pos(ci.Pos()))
		again := ReachInstr(h, ci, func(in ssa.Instruction) bool { return in == ssa.Instruction(ci) }, isWait)
		r.Check(again == nil, rule, "modules.taskQueueHandler / wait between consecutive runs", "every loop iteration waits for the execution slot before the next run", "two tasks can be started without waiting for the first", c.Pos(ci.Pos()))
		// the task run is the popped element: prioritized first
		held := LocksHeldAt(h)
		for _, f := range []*ssa.Call{prioFront, normFront} {
			r.Check(held[f]["global:modules.queuesLock"], rule, fmt.Sprintf("modules.taskQueueHandler / %s under queuesLock", descInstr(f)), "pop under queuesLock", "queue pop without queuesLock", c.Pos(f.Pos()))
		}
	}
	// caller-holds contract: functions touching list-element fields are called with the task lock held
	need := map[string]bool{"modules.Task.removeFromQueues": true, "modules.Task.addToSchedule": true, "modules.Task.prepForQueueing": true}
	inSet := map[string]bool{"modules.(*Task).removeFromQueues": true, "modules.(*Task).addToSchedule": true, "modules.(*Task).prepForQueueing": true}
	ord := map[string]int{}
	for name := range need {
		for _, s := range c.CallSites(name) {
			cons := ordinal(ord, fmt.Sprintf("%s / call %s", fnKey(s.Fn), name))
			if inSet[fnKey(s.Fn)] {
				r.Trivial(rule, cons, "called from a function with the same caller-holds-lock contract")
				continue
			}
			held := LocksHeldAt(s.Fn)[s.Instr]
			r.Check(taskLockHeld(held), rule, cons+" / task lock held", "caller holds t.lock", "called without the task lock: queue/schedule element fields race (double enqueue, lost removal)", c.Pos(s.Instr.Pos()))
		}
	}
}

func c07R4(c *Ctx, r *Report) {
	const rule = "C07-R4"
	r.SetFloor(rule, 4)
	isWg := func(method string) func(ssa.Instruction) bool {
		return func(in ssa.Instruction) bool {
			ci, ok := in.(ssa.CallInstruction)
			if !ok || calleeName(ci.Common()) != "sync.WaitGroup."+method {
				return false
			}
			return vpath(ci.Common().Args[0]) == "global:modules.queueWg"
		}
	}
	// all Add/Done sites
	var adds, dones []Site
	for _, fn := range c.FuncsIn("modules") {
		eachInstr(fn, func(in ssa.Instruction) {
			if isWg("Add")(in) {
				adds = append(adds, Site{fn, in})
			}
			if isWg("Done")(in) {
				dones = append(dones, Site{fn, in})
			}
		})
	}
	r.Check(len(adds) == 1 && fnKey(adds[0].Fn) == "modules.(*Task).runWithLocking", rule, "queueWg.Add sites", "exactly one Add, in runWithLocking",
		fmt.Sprintf("queueWg.Add appears %d times (expected once, in runWithLocking)", len(adds)))
	r.Check(len(dones) == 1 && fnKey(topFunc(dones[0].Fn)) == "modules.(*Task).runWithLocking" && dones[0].Fn.Parent() != nil, rule, "queueWg.Done sites",
		"exactly one Done, in the watcher goroutine of runWithLocking", fmt.Sprintf("queueWg.Done appears %d times (expected once, in the watcher goroutine)", len(dones)))
	if len(adds) != 1 || len(dones) != 1 {
		return
	}
	fn := adds[0].Fn
	add := adds[0].Instr.(ssa.CallInstruction)
	if v, ok := constInt(add.Common().Args[1]); !ok || v != 1 {
		r.Bad(rule, fnKey(fn)+" / queueWg.Add(1)", "Add with a delta other than 1")
	}
	// Add precedes launch and watcher
	eachInstr(fn, func(in ssa.Instruction) {
		g, ok := in.(*ssa.Go)
		if !ok {
			return
		}
		r.Check(MustPrecede(fn, isWg("Add"), in), rule, fmt.Sprintf("%s / Add before %s", fnKey(fn), descInstr(g)), "the slot is taken before the goroutine starts", "goroutine started before queueWg.Add", c.Pos(in.Pos()))
	})
	// the watcher is spawned on every path after Add
	w := dones[0].Fn
	spawned := MustFollow(fn, adds[0].Instr, func(in ssa.Instruction) bool {
		g, ok := in.(*ssa.Go)
		return ok && staticCallee(&g.Call) == w
	})
	r.Check(spawned, rule, fnKey(fn)+" / watcher spawned after Add", "every path after Add spawns the watcher that releases the slot", "a path takes the slot without spawning the watcher: the queue handler blocks forever")
	// watcher: Done on every path, exactly once (not in a loop), after the blocking select on ctx.Done / time.After
	done := dones[0].Instr
	r.Check(ReachInstr(w, nil, isExit, isWg("Done")) == nil, rule, fnKey(w)+" / Done on every path", "the watcher always releases the slot", "the watcher can exit without queueWg.Done()")
	r.Check(ReachInstr(w, done, isWg("Done"), nil) == nil, rule, fnKey(w)+" / Done once", "Done is not repeated", "queueWg.Done() can execute twice (negative WaitGroup counter panic)")
	isSel := func(in ssa.Instruction) bool {
		sel, ok := in.(*ssa.Select)
		if !ok || !sel.Blocking {
			return false
		}
		hasDone, hasTimer := false, false
		for _, st := range sel.States {
			if isCtxDoneOf("t.ctx")(st.Chan) {
				hasDone = true
			}
			// ... or Done() of the task context captured by the parent (a free variable bound to a load of Task.ctx)
			if call, ok := st.Chan.(*ssa.Call); ok && call.Call.IsInvoke() && call.Call.Method.Name() == "Done" {
				for _, o := range c.Origins(call.Call.Value) {
					if strings.HasSuffix(o, ".ctx") && strings.HasPrefix(o, "field:t") {
						hasDone = true
					}
				}
			}
			if _, ok := isCallTo(st.Chan, "time.After"); ok {
				hasTimer = true
			}
		}
		return hasDone && hasTimer && len(sel.States) == 2
	}
	r.Check(MustPrecede(w, isSel, done), rule, fnKey(w)+" / Done after task end or execution-wait limit", "the slot is released only after the task context is done or the wait limit passed",
		"the slot is released without waiting for the task to finish: the next queued task starts while the previous one still runs")
}

func c07R5(c *Ctx, r *Report) {
	const rule = "C07-R5"
	r.SetFloor(rule, 6)
	h := c.Func("modules.taskScheduleHandler")
	if h == nil {
		r.Undecided(rule, "modules.taskScheduleHandler", "anchor function missing")
		return
	}
	timerCase := selectCaseGuard("schedule timer fired", types.RecvOnly, func(ch ssa.Value) bool {
		_, ok := isCallTo(ch, "modules.waitUntilNextScheduledTask")
		return ok
	})
	n := 0
	for _, ci := range callsIn(h, "modules.Task.runWithLocking", "modules.Task.StartASAP") {
		n++
		c.RequireGuards(r, rule, fmt.Sprintf("modules.taskScheduleHandler / %s #%d", descInstr(ci), n), h, ci, timerCase)
	}
	if n < 2 {
		r.Undecided(rule, "modules.taskScheduleHandler", "expected a run and a promote call")
	}
	// the task handled is the schedule's front element
	for _, ci := range callsIn(h, "modules.Task.runWithLocking", "modules.Task.StartASAP") {
		o := c.Origins(ci.Common().Args[0])
		ok := false
		for _, l := range c.Leaves(ci.Common().Args[0]) {
			if u, isU := l.(*ssa.UnOp); isU {
				if fa, isFA := u.X.(*ssa.FieldAddr); isFA && fieldName(fa.X.Type(), fa.Field) == "Value" {
					if call, isC := fa.X.(*ssa.Call); isC {
						if lst, m, okL := listCall(call); okL && lst == "taskSchedule" && m == "Front" {
							ok = true
						}
					}
				}
			}
		}
		r.Check(ok, rule, fmt.Sprintf("modules.taskScheduleHandler / %s operates on the schedule front", descInstr(ci)), "the handled task is taskSchedule.Front()", fmt.Sprintf("the handled task comes from %v, not the front of the schedule", o))
	}
	// waitUntilNextScheduledTask: timer from Front().executeAt
	if w := c.Func("modules.waitUntilNextScheduledTask"); w == nil {
		r.Undecided(rule, "modules.waitUntilNextScheduledTask", "anchor function missing")
	} else {
		ok := false
		for _, ci := range callsIn(w, "time.Until") {
			arg := ci.Common().Args[0]
			for _, l := range c.Leaves(arg) {
				if fieldLoadOf(l, "modules.Task", "executeAt") {
					// and the task is the Front element
					u := l.(*ssa.UnOp)
					fa := u.X.(*ssa.FieldAddr)
					for _, l2 := range c.Leaves(fa.X) {
						if u2, isU := l2.(*ssa.UnOp); isU {
							if fa2, isFA := u2.X.(*ssa.FieldAddr); isFA {
								if call, isC := fa2.X.(*ssa.Call); isC {
									if lst, m, okL := listCall(call); okL && lst == "taskSchedule" && m == "Front" {
										ok = true
									}
								}
							}
						}
					}
				}
			}
		}
		r.Check(ok, rule, "modules.waitUntilNextScheduledTask / timer source", "the timer is time.Until(taskSchedule.Front().executeAt)", "the schedule timer is not derived from the front element's execution time: scheduled tasks can fire early")
		held := LocksHeldAt(w)
		for _, ci := range callsIn(w, "container/list.List.Front") {
			r.Check(held[ci]["global:modules.scheduleLock"], rule, "modules.waitUntilNextScheduledTask / under scheduleLock", "schedule read under scheduleLock", "schedule read without scheduleLock")
		}
	}
	// addToSchedule
	a := c.Func("modules.(*Task).addToSchedule")
	if a == nil {
		r.Undecided(rule, "modules.(*Task).addToSchedule", "anchor function missing")
		return
	}
	before := Guard{Name: "t.executeAt.Before(e.executeAt)", Truthy: true, Match: func(b ssa.Value) bool {
		call, ok := isCallTo(b, "time.Time.Before")
		if !ok {
			return false
		}
		return len(c.Leaves(call.Call.Args[0])) > 0 && originHasField(c, call.Call.Args[0], "modules.Task", "executeAt", "t") && originHasField(c, call.Call.Args[1], "modules.Task", "executeAt", "")
	}}
	held := LocksHeldAt(a)
	// the deferred notification
	var notifyDefer *ssa.Defer
	eachInstr(a, func(in ssa.Instruction) {
		d, ok := in.(*ssa.Defer)
		if !ok {
			return
		}
		cl := deferredFunc(d)
		if cl == nil {
			return
		}
		if funcHas(cl, 0, func(i2 ssa.Instruction) bool {
			sel, ok := i2.(*ssa.Select)
			if !ok {
				return false
			}
			for _, st := range sel.States {
				if st.Dir == types.SendOnly && vpath(st.Chan) == "global:modules.notifyTaskScheduler" {
					return true
				}
			}
			return false
		}) && ReachInstr(cl, nil, isExit, func(i2 ssa.Instruction) bool { _, ok := i2.(*ssa.Select); return ok }) == nil {
			notifyDefer = d
		}
	})
	k := 0
	eachInstr(a, func(in ssa.Instruction) {
		l, m, ok := listCall(in)
		if !ok || l != "taskSchedule" {
			return
		}
		switch m {
		case "InsertBefore", "MoveBefore":
			k++
			c.RequireGuards(r, rule, fmt.Sprintf("%s / taskSchedule.%s", fnKey(a), m), a, in, before)
		case "PushBack", "MoveToBack":
			k++
		default:
			return
		}
		cons := fmt.Sprintf("%s / taskSchedule.%s", fnKey(a), m)
		r.Check(held[in]["global:modules.scheduleLock"], rule, cons+" / under scheduleLock", "schedule changed under scheduleLock", "schedule changed without scheduleLock", c.Pos(in.Pos()))
		okN := notifyDefer != nil && MustPrecede(a, func(x ssa.Instruction) bool { return x == ssa.Instruction(notifyDefer) }, in)
		r.Check(okN, rule, cons+" / handler woken", "every schedule change is followed by an unconditional wake-up of the schedule handler (deferred)",
			"the schedule is changed without (unconditionally) waking the schedule handler: its timer stays armed for the old front element and the new front task is started early", c.Pos(in.Pos()))
	})
	if k < 4 {
		r.Undecided(rule, fnKey(a), fmt.Sprintf("expected 4 schedule list operations, found %d", k))
	}
}

// originHasField: some leaf of v is a load of owner.field (whose base path is base, if base != "").
func originHasField(c *Ctx, v ssa.Value, owner, field, base string) bool {
	for _, l := range c.Leaves(v) {
		if fieldLoadOf(l, owner, field) {
			if base == "" {
				return true
			}
			p := vpath(l.(*ssa.UnOp).X)
			if p == base+"."+field {
				return true
			}
		}
	}
	return false
}

// c07R6: a task taken off the lists is off every list, and its element fields say so.
func c07R6(c *Ctx, r *Report) {
	const rule = "C07-R6"
	r.SetFloor(rule, 9)
	fn := c.Func("modules.(*Task).removeFromQueues")
	if fn == nil {
		r.Undecided(rule, "modules.(*Task).removeFromQueues", "anchor function missing")
		return
	}
	const listPkg = "container/list.List."
	for _, field := range []string{"queueElement", "prioritizedQueueElement", "scheduleListElement"} {
		// which list does this field's element live in? (from the insert sites)
		lists := map[string]bool{}
		for _, s := range c.StoresTo("modules.Task", field) {
			st := s.Instr.(*ssa.Store)
			if isNilConst(st.Val) {
				continue
			}
			for _, l := range c.Leaves(st.Val) {
				call, ok := l.(*ssa.Call)
				if !ok || !strings.HasPrefix(calleeName(&call.Call), listPkg) {
					lists["?"+leafDesc(l)] = true
					continue
				}
				lists[vpath(call.Call.Args[0])] = true
			}
		}
		cons := "modules.(*Task).removeFromQueues / " + field
		if len(lists) != 1 {
			r.Undecided(rule, cons, fmt.Sprintf("cannot derive the list of field %s from its insert sites: %v", field, lists))
			continue
		}
		var list string
		for l := range lists {
			list = l
		}
		isClear := func(in ssa.Instruction) bool {
			st, ok := in.(*ssa.Store)
			if !ok || !isNilConst(st.Val) {
				return false
			}
			fr, ok := fieldOfAddr(st.Addr)
			return ok && fr.Owner == "modules.Task" && fr.Name == field
		}
		isRemove := func(in ssa.Instruction) bool {
			ci, ok := in.(*ssa.Call)
			if !ok || calleeName(&ci.Call) != listPkg+"Remove" {
				return false
			}
			return vpath(ci.Call.Args[0]) == list && fieldLoadOf(ci.Call.Args[1], "modules.Task", field)
		}
		isNil := fieldLoadGuard("t."+field+" == nil", "modules.Task", field, false)
		path := ReachFromAvoiding(fn, nil, isExit, []Guard{isNil}, isClear)
		r.Check(path == nil, rule, cons+" / cleared on every exit", "every exit has found the field nil or cleared it",
			"an exit is reachable on which t."+field+" was neither found nil nor cleared: the task keeps a stale element and later submissions to that list are silently ignored", c.pathString(path)...)
		n := 0
		eachInstr(fn, func(in ssa.Instruction) {
			if !isClear(in) {
				return
			}
			n++
			r.Check(MustPrecede(fn, isRemove, in), rule, cons+" / removed from "+list+" before the field is cleared",
				"the element is removed from the list it was inserted into before the field is cleared", "the field is cleared without removing the element from "+list+": the task stays queued but looks unqueued", c.Pos(in.Pos()))
		})
		eachInstr(fn, func(in ssa.Instruction) {
			if isRemove(in) {
				lock := "global:modules.queuesLock"
				if field == "scheduleListElement" {
					lock = "global:modules.scheduleLock"
				}
				r.Check(LocksHeldAt(fn)[in][lock], rule, cons+" / removal under "+lock, "list removal under the list's lock", "list removal without "+lock, c.Pos(in.Pos()))
			}
		})
		if n == 0 {
			r.Bad(rule, cons+" / cleared", "the field is never cleared in removeFromQueues")
		}
	}
}

func c07R7(c *Ctx, r *Report) {
	const rule = "C07-R7"
	r.SetFloor(rule, 2)
	fn := c.Func("modules.(*Task).prepForQueueing")
	if fn == nil {
		r.Undecided(rule, "modules.(*Task).prepForQueueing", "anchor function missing")
		return
	}
	inactive := callGuard("isActive()==false", false, "modules.Task.isActive")
	noDelay := append(cmpGuards("maxDelay == 0", func(v ssa.Value) bool { return fieldLoadOf(v, "modules.Task", "maxDelay") }, func(x int64) bool { return x == 0 }, 0))
	isResched := isCallInstrTo("modules.Task.addToSchedule")
	isDeadline := func(in ssa.Instruction) bool {
		st, ok := in.(*ssa.Store)
		if !ok {
			return false
		}
		fr, ok := fieldOfAddr(st.Addr)
		return ok && fr.Owner == "modules.Task" && fr.Name == "executeAt"
	}
	gs := append([]Guard{inactive}, noDelay...)
	for _, step := range []struct {
		name string
		pred func(ssa.Instruction) bool
	}{{"deadline (executeAt) set", isDeadline}, {"re-inserted into the schedule", isResched}} {
		p := ReachFromAvoiding(fn, nil, isExit, gs, step.pred)
		r.Check(p == nil, rule, "modules.(*Task).prepForQueueing / "+step.name+" for every active task with a max delay",
			"every exit has found the task inactive, maxDelay == 0, or has performed the step", "an active task with a max delay can be queued without this step (another condition decides): its old deadline stays in the schedule and the schedule handler runs it directly, past the queue", c.pathString(p)...)
	}
}
