package main

import (
	"fmt"
	"go/constant"
	"go/token"
	"go/types"
	"sort"
	"strings"

	"golang.org/x/tools/go/ssa"
)

const (
	fnCheckPermission = "database/record.Meta.CheckPermission"
	fnCheckValidity   = "database/record.Meta.CheckValidity"
	fnHasAccess       = "database.Options.hasAccessPermission"
	fnHasAll          = "database.Options.HasAllPermissions"
)

func init() {
	register(&propDef{
		ID: "C03",
		Explanation: "Decides structural necessary conditions of 'secret/crown-jewel records never cross a non-privileged interface': " +
			"(R1) exhaustive truth table of Meta.CheckPermission / Options.hasAccessPermission / HasAllPermissions by finite-valuation propagation over their SSA; " +
			"(R2) every send on Iterator.Next in every query producer is reachable only across CheckPermission(local, internal)==true with both arguments traced (inter-procedurally) to the local/internal positions of storage.Interface.Query; " +
			"(R3) Interface.getRecord/getMeta return a record only across a permission check on storage and cache path, every mutating Interface method reaches Controller.Put only behind getRecord/getMeta/HasAllPermissions, Query/Purge/Subscribe pass options.Local/Internal in order; " +
			"(R4) nobody outside package database calls Controller/storage read-write methods; (R5) the single send on Subscription.Feed is behind CheckPermission(sub.local, sub.internal) and those fields are only written from options.Local/Internal; " +
			"(R6) deletes in storage.Purger implementations are behind CheckPermission; (R7) package api builds only unprivileged interfaces; (R8) only the designated functions write Meta.secret/cronjewel. " +
			"(R9) the secret and crown-jewel flags survive storage: the generated Meta (de)serialiser reads each flag from the byte it was written to (= C08-R3, flag bytes), and both MarshalRecord implementations write the metadata with the generated codec that carries them (= C08-R3, section sequence); " +
			"(R10) sibling agreement (A14): the paired functions consist of the same operations - calls with their constant arguments, comparisons (canonical under negation and operand order), field reads/writes, channel operations, returns, each with the number of conditions it depends on - once the instance-specific names are mapped onto each other; logging is ignored, named differences are listed in the table: the four attribute setters of the interface (MakeSecret, MakeCrownJewel, SetAbsoluteExpiry, SetRelativateExpiry) go through the same permission-checked lookup and write; " +
			"(R11) NewInterface never sets Options.Local/Internal itself: an interface created without options - the external database API - is neither local nor internal; " +
			"(R12) package database never calls CreateMeta/SetMeta on a record (the flags live in the metadata object; Meta.Reset keeps them), and Put ~ PutNew agree (A14, shared with C02-R16); " +
			"NOT decided: absence of other data channels (logs, error strings), alias-level cache sharing between interfaces, behaviour over histories.",
		Rules: []ruleFn{c03R1, c03R2, c03R3, c03R4, c03R5, c03R6, c03R7, c03R8,
			borrowRule(c08R3, "C08-R3", "C03-R9", 2, func(s string) bool { return strings.Contains(s, "flag bytes") || strings.Contains(s, "section sequence") }),
			func(c *Ctx, r *Report) { siblingRule(c, r, "C03-R10", sibSetters) }, c03R11, c03R12,
			func(c *Ctx, r *Report) { siblingRule(c, r, "C03-R12", sibDatabase[:1]) }},
	})
}

// ---------------------------------------------------------------------------

type chanSend struct {
	Fn    *ssa.Function
	Instr ssa.Instruction // *ssa.Send or *ssa.Select
	Val   ssa.Value       // the value sent
	State int             // select state index, -1 for plain send
}

// sendsOnField finds sends (plain and select cases) on channel field owner.name.
func (c *Ctx) sendsOnField(owner, name string) []chanSend {
	var out []chanSend
	isField := func(ch ssa.Value) bool {
		u, ok := ch.(*ssa.UnOp)
		if !ok || u.Op != token.MUL {
			return false
		}
		fr, ok := fieldOfAddr(u.X)
		return ok && fr.Owner == owner && fr.Name == name
	}
	for _, fn := range c.allFuncs {
		eachInstr(fn, func(in ssa.Instruction) {
			switch x := in.(type) {
			case *ssa.Send:
				if isField(x.Chan) {
					out = append(out, chanSend{fn, x, x.X, -1})
				}
			case *ssa.Select:
				for i, st := range x.States {
					if st.Dir == types.SendOnly && isField(st.Chan) {
						out = append(out, chanSend{fn, x, st.Send, i})
					}
				}
			}
		})
	}
	return out
}

// topFunc returns the outermost enclosing function.
func topFunc(fn *ssa.Function) *ssa.Function {
	for fn.Parent() != nil {
		fn = fn.Parent()
	}
	return fn
}

// rootParam traces a parameter through static call sites up to a function
// without repo callers (or a method named Query/Purge). Returns the root
// function and parameter index.
func (c *Ctx) rootParam(p *ssa.Parameter, depth int) (*ssa.Function, int, string) {
	fn := p.Parent()
	idx := -1
	for i, q := range fn.Params {
		if q == p {
			idx = i
		}
	}
	if idx < 0 {
		return nil, -1, "parameter not found"
	}
	if fn.Name() == "Query" || fn.Name() == "Purge" {
		return fn, idx, ""
	}
	if depth > 5 {
		return nil, -1, "call chain too deep"
	}
	var callers []Site
	for _, f := range c.allFuncs {
		eachInstr(f, func(in ssa.Instruction) {
			if ci, ok := in.(ssa.CallInstruction); ok {
				if staticCallee(ci.Common()) == fn {
					callers = append(callers, Site{f, in})
				}
			}
		})
	}
	if len(callers) == 0 {
		return fn, idx, ""
	}
	var rf *ssa.Function
	ri := -1
	for _, s := range callers {
		args := s.Instr.(ssa.CallInstruction).Common().Args
		if idx >= len(args) {
			return nil, -1, "argument count mismatch at " + fnKey(s.Fn)
		}
		leaves := c.Leaves(args[idx])
		if len(leaves) != 1 {
			return nil, -1, fmt.Sprintf("argument at %s has origins %v", fnKey(s.Fn), c.Origins(args[idx]))
		}
		pp, ok := leaves[0].(*ssa.Parameter)
		if !ok {
			return nil, -1, fmt.Sprintf("argument at %s has origin %s", fnKey(s.Fn), leafDesc(leaves[0]))
		}
		f2, i2, why := c.rootParam(pp, depth+1)
		if f2 == nil {
			return nil, -1, why
		}
		if rf != nil && (rf != f2 || ri != i2) {
			return nil, -1, "callers disagree"
		}
		rf, ri = f2, i2
	}
	return rf, ri, ""
}

// ifaceParamIndex returns the index (counting the receiver as 0) of the named
// parameter in the declaration of interface method iface.method in pkg.
func (c *Ctx) ifaceParamIndex(pkg, iface, method, param string) int {
	tp := c.TypesPkg(pkg)
	if tp == nil {
		return -1
	}
	obj := tp.Scope().Lookup(iface)
	if obj == nil {
		return -1
	}
	it, ok := obj.Type().Underlying().(*types.Interface)
	if !ok {
		return -1
	}
	for i := 0; i < it.NumMethods(); i++ {
		m := it.Method(i)
		if m.Name() != method {
			continue
		}
		sig := m.Type().(*types.Signature)
		for j := 0; j < sig.Params().Len(); j++ {
			if sig.Params().At(j).Name() == param {
				return j + 1
			}
		}
	}
	return -1
}

// checkPermArgs verifies that the (local, internal) arguments of a
// CheckPermission call trace to the local/internal parameter positions of the
// enclosing storage Query/Purge implementation.
func (c *Ctx) checkPermArgs(call *ssa.Call) (bool, string) {
	args := call.Call.Args
	if len(args) != 3 {
		return false, "unexpected argument count"
	}
	names := []string{"local", "internal"}
	for k, want := range names {
		leaves := c.Leaves(args[k+1])
		if len(leaves) != 1 {
			return false, fmt.Sprintf("argument %q has origins %v", want, c.Origins(args[k+1]))
		}
		p, ok := leaves[0].(*ssa.Parameter)
		if !ok {
			return false, fmt.Sprintf("argument %q is %s, not a parameter of the query entry point", want, leafDesc(leaves[0]))
		}
		rf, ri, why := c.rootParam(p, 0)
		if rf == nil {
			return false, fmt.Sprintf("argument %q: %s", want, why)
		}
		iface, method := "Interface", "Query"
		if rf.Name() == "Purge" {
			iface, method = "Purger", "Purge"
		}
		wantIdx := c.ifaceParamIndex("database/storage", iface, method, want)
		if wantIdx < 0 {
			return false, "cannot find storage." + iface + "." + method + " parameter " + want
		}
		if rf.Name() != method {
			return false, fmt.Sprintf("argument %q roots in %s which is not a storage %s implementation", want, fnKey(rf), method)
		}
		if ri != wantIdx {
			return false, fmt.Sprintf("argument %q is fed from parameter #%d (%s) of %s, expected #%d", want, ri, rf.Params[ri].Name(), fnKey(rf), wantIdx)
		}
	}
	return true, ""
}

func permGuard() Guard { return callGuard("CheckPermission==true", true, fnCheckPermission) }

// permGuardW additionally accepts a call to a repo function that is a
// permission wrapper: a bool function all of whose non-false returns are
// reachable only across CheckPermission==true (e.g. notifications.inQuery).
func (c *Ctx) permGuardW() Guard {
	return Guard{Name: "CheckPermission==true", Truthy: true, Match: func(b ssa.Value) bool {
		if _, ok := isCallTo(b, fnCheckPermission); ok {
			return true
		}
		call, _ := callOf(b)
		if call == nil {
			return false
		}
		f := staticCallee(&call.Call)
		return f != nil && c.isPermWrapper(f)
	}}
}

var permWrapperCache = map[*ssa.Function]bool{}

func (c *Ctx) isPermWrapper(f *ssa.Function) bool {
	if v, ok := permWrapperCache[f]; ok {
		return v
	}
	permWrapperCache[f] = false
	if f.Blocks == nil || f.Pkg == nil || !strings.HasPrefix(f.Pkg.Pkg.Path(), modPath) {
		return false
	}
	res := f.Signature.Results()
	if res.Len() != 1 || !types.Identical(res.At(0).Type(), types.Typ[types.Bool]) {
		return false
	}
	if len(condCallsIn(f, fnCheckPermission)) == 0 {
		return false
	}
	ok := true
	eachInstr(f, func(in ssa.Instruction) {
		ret, isRet := in.(*ssa.Return)
		if !isRet {
			return
		}
		if b, isC := constBool(retVal(ret, 0)); isC && !b {
			return
		}
		if ReachAvoiding(f, nil, ret.Block(), []Guard{permGuard()}) != nil {
			ok = false
		}
	})
	permWrapperCache[f] = ok
	return ok
}

// permCallsFor returns the CheckPermission calls that guard code in fn:
// those in fn itself and those inside permission wrappers called from fn.
func (c *Ctx) permCallsFor(fn *ssa.Function) []*ssa.Call {
	out := condCallsIn(fn, fnCheckPermission)
	eachInstr(fn, func(in ssa.Instruction) {
		if call, ok := in.(*ssa.Call); ok {
			if f := staticCallee(&call.Call); f != nil && c.isPermWrapper(f) {
				out = append(out, condCallsIn(f, fnCheckPermission)...)
			}
		}
	})
	return out
}

// guardCallsOnPaths returns the CheckPermission calls used as If conditions in fn.
func condCallsIn(fn *ssa.Function, name string) []*ssa.Call {
	var out []*ssa.Call
	seen := map[*ssa.Call]bool{}
	eachInstr(fn, func(in ssa.Instruction) {
		if call, ok := in.(*ssa.Call); ok && calleeName(&call.Call) == name && !seen[call] {
			seen[call] = true
			out = append(out, call)
		}
	})
	return out
}

func c03R1(c *Ctx, r *Report) {
	const rule = "C03-R1"
	r.SetFloor(rule, 3)
	fn := c.Func("database/record.(*Meta).CheckPermission")
	if fn == nil {
		r.Undecided(rule, "database/record.(*Meta).CheckPermission", "anchor function missing")
		return
	}
	recv := fn.Params[0]
	table := map[string]string{}
	bad := []string{}
	n := 0
	for _, mnil := range []bool{false, true} {
		for _, local := range []bool{false, true} {
			for _, internal := range []bool{false, true} {
				for _, secret := range []bool{false, true} {
					for _, crown := range []bool{false, true} {
						it := &Interp{Fn: fn, Outcome: retOutcome}
						it.Input = func(v ssa.Value) (AV, bool) {
							switch x := v.(type) {
							case *ssa.Parameter:
								switch x {
								case recv:
									if mnil {
										return AV{K: KNil}, true
									}
									return AV{K: KNonNil}, true
								case fn.Params[1]:
									return avBool(local), true
								case fn.Params[2]:
									return avBool(internal), true
								}
							case *ssa.UnOp:
								if x.Op == token.MUL {
									if fr, ok := fieldOfAddr(x.X); ok && fr.Owner == "database/record.Meta" {
										switch fr.Name {
										case "secret":
											return avBool(secret), true
										case "cronjewel":
											return avBool(crown), true
										}
									}
								}
							}
							return AV{}, false
						}
						if !it.Run() {
							r.Undecided(rule, fnKey(fn), "state budget exceeded")
							return
						}
						n++
						key := fmt.Sprintf("nil=%v local=%v internal=%v secret=%v crown=%v", mnil, local, internal, secret, crown)
						labels := outcomeLabels(it.Outcomes)
						table[key] = strings.Join(labels, "|")
						allowed := !mnil && !(crown && !local) && !(secret && !internal)
						for _, l := range labels {
							if l != "ret(false)" && !allowed {
								bad = append(bad, key+" -> "+l)
							}
						}
					}
				}
			}
		}
	}
	r.Tables["C03-R1 CheckPermission"] = table
	sort.Strings(bad)
	r.Check(len(bad) == 0, rule, fnKey(fn)+" / truth table",
		fmt.Sprintf("%d valuations: permitted only if m!=nil and not(crown&&!local) and not(secret&&!internal)", n),
		fmt.Sprintf("permission granted where the statement forbids it: %v", bad))

	// hasAccessPermission
	hf := c.Func("database.(*Options).hasAccessPermission")
	if hf == nil {
		r.Undecided(rule, "database.(*Options).hasAccessPermission", "anchor function missing")
		return
	}
	bad = nil
	n = 0
	htable := map[string]string{}
	for _, local := range []bool{false, true} {
		for _, internal := range []bool{false, true} {
			for _, cp := range []bool{false, true} {
				it := &Interp{Fn: hf, Outcome: retOutcome, Inline: func(f *ssa.Function) bool { return fnKey(f) == "database.(*Options).HasAllPermissions" }}
				it.Input = func(v ssa.Value) (AV, bool) {
					switch x := v.(type) {
					case *ssa.UnOp:
						if x.Op == token.MUL {
							if fr, ok := fieldOfAddr(x.X); ok && fr.Owner == "database.Options" {
								switch fr.Name {
								case "Local":
									return avBool(local), true
								case "Internal":
									return avBool(internal), true
								}
							}
						}
					case *ssa.Call:
						if calleeName(&x.Call) == fnCheckPermission {
							return avBool(cp), true
						}
					}
					return AV{}, false
				}
				if !it.Run() {
					r.Undecided(rule, fnKey(hf), "state budget exceeded")
					return
				}
				n++
				key := fmt.Sprintf("Local=%v Internal=%v CheckPermission=%v", local, internal, cp)
				labels := outcomeLabels(it.Outcomes)
				htable[key] = strings.Join(labels, "|")
				allowed := (local && internal) || cp
				for _, l := range labels {
					if l != "ret(false)" && !allowed {
						bad = append(bad, key+" -> "+l)
					}
				}
			}
		}
	}
	r.Tables["C03-R1 hasAccessPermission"] = htable
	r.Check(len(bad) == 0, rule, fnKey(hf)+" / truth table",
		fmt.Sprintf("%d valuations: access only if (Local&&Internal) or CheckPermission", n),
		fmt.Sprintf("access granted where forbidden: %v", bad))
	// argument order of the CheckPermission call inside hasAccessPermission
	for _, call := range condCallsIn(hf, fnCheckPermission) {
		o1, o2 := c.Origins(call.Call.Args[1]), c.Origins(call.Call.Args[2])
		ok := onlyOrigins(o1, "field:o.Local") && onlyOrigins(o2, "field:o.Internal")
		r.Check(ok, rule, fnKey(hf)+" / CheckPermission argument order",
			"CheckPermission(o.Local, o.Internal)", fmt.Sprintf("CheckPermission called with (%v, %v)", o1, o2))
	}
}

func c03R2(c *Ctx, r *Report) {
	const rule = "C03-R2"
	r.SetFloor(rule, 16)
	sends := c.sendsOnField("database/iterator.Iterator", "Next")
	// exemptions, each one construct wide with a verified reason
	ord := map[string]int{}
	for _, s := range sends {
		fk := fnKey(s.Fn)
		ord[fk]++
		cons := fmt.Sprintf("%s / send Iterator.Next #%d", fk, ord[fk])
		if fk == "config.(*StorageInterface).processQuery" {
			// verified exemption: records come from Option.Export whose Meta is a fresh literal
			c.c03ConfigExempt(r, rule, cons, s)
			continue
		}
		// guard
		c.RequireGuards(r, rule, cons, s.Fn, s.Instr, c.permGuardW())
		// argument provenance of every CheckPermission call in the function
		calls := c.permCallsFor(s.Fn)
		if len(calls) == 0 {
			continue // already reported by the guard obligation
		}
		for i, call := range calls {
			ok, why := c.checkPermArgs(call)
			r.Check(ok, rule, fmt.Sprintf("%s / CheckPermission call #%d arguments", cons, i+1),
				"arguments are the query entry point's (local, internal) in order", why, c.Pos(call.Pos()))
		}
	}
}

func (c *Ctx) c03ConfigExempt(r *Report, rule, cons string, s chanSend) {
	origins := c.Origins(s.Val)
	if !onlyOrigins(origins, "call:config.Option.Export#0") {
		r.Bad(rule, cons, fmt.Sprintf("exemption no longer justified: sent record originates from %v, not from Option.Export", origins))
		return
	}
	exp := c.Func("config.(*Option).export")
	if exp == nil {
		r.Undecided(rule, cons, "config.(*Option).export missing")
		return
	}
	okMeta := false
	eachInstr(exp, func(in ssa.Instruction) {
		if call, ok := in.(*ssa.Call); ok && strings.HasSuffix(calleeName(&call.Call), ".SetMeta") {
			args := callArgs(&call.Call)
			if al, ok := args[len(args)-1].(*ssa.Alloc); ok && strings.HasSuffix(ownerType(al.Type()), "record.Meta") && len(allocFieldStores(al)) == 0 {
				okMeta = true
			}
		}
	})
	r.Check(okMeta, rule, cons, "exempt: records are built by Option.export with a fresh empty Meta literal (no flags)",
		"exemption no longer justified: Option.export does not attach a fresh empty record.Meta literal")
}

func allocFieldStores(a *ssa.Alloc) []*ssa.Store {
	var out []*ssa.Store
	for _, ref := range *a.Referrers() {
		if fa, ok := ref.(*ssa.FieldAddr); ok {
			for _, rr := range *fa.Referrers() {
				if st, ok := rr.(*ssa.Store); ok && st.Addr == fa {
					out = append(out, st)
				}
			}
		}
	}
	return out
}

func c03R3(c *Ctx, r *Report) {
	const rule = "C03-R3"
	// the permission lookups address the stored record: (database name, database key) of one record, or ("", full key)
	for _, site := range c.CallSites("database.Interface.getMeta", "database.Interface.getRecord") {
		cc := site.Instr.(ssa.CallInstruction).Common()
		a1, a2 := cc.Args[1], cc.Args[2]
		ok, why := false, ""
		if cst, isC := a1.(*ssa.Const); isC && cst.Value != nil && cst.Value.Kind() == constant.String && constant.StringVal(cst.Value) == "" {
			ok = true // getDBFromKey: a2 is the full key
		} else if n1, isCall := a1.(*ssa.Call); isCall && n1.Call.IsInvoke() && n1.Call.Method.Name() == "DatabaseName" {
			if n2, isCall2 := a2.(*ssa.Call); isCall2 && n2.Call.IsInvoke() && n2.Call.Method.Name() == "DatabaseKey" && n2.Call.Value == n1.Call.Value {
				ok = true
			} else {
				why = "the key passed next to DatabaseName() is " + vpath(a2) + ", not DatabaseKey() of the same record"
			}
		} else {
			why = "unrecognised database/key pair: " + vpath(a1) + ", " + vpath(a2)
		}
		r.Check(ok, rule, fmt.Sprintf("%s / %s addresses the stored record", fnKey(site.Fn), calleeName(cc)),
			"called with (\"\", full key) or (r.DatabaseName(), r.DatabaseKey())", "the permission pre-check looks up a different key than the one that is written ("+why+"): it always misses and the protected record is overwritten", c.Pos(site.Instr.Pos()))
	}
	r.SetFloor(rule, 20)
	accessGuard := Guard{Name: "hasAccessPermission/CheckPermission==true", Truthy: true, Match: func(b ssa.Value) bool {
		_, ok := isCallTo(b, fnHasAccess, fnCheckPermission)
		return ok
	}}
	for _, name := range []string{"database.(*Interface).getRecord", "database.(*Interface).getMeta"} {
		fn := c.Func(name)
		if fn == nil {
			r.Undecided(rule, name, "anchor function missing")
			continue
		}
		k := 0
		eachInstr(fn, func(in ssa.Instruction) {
			ret, ok := in.(*ssa.Return)
			if !ok || len(ret.Results) == 0 || isNilConst(retVal(ret, 0)) {
				return
			}
			k++
			c.RequireGuards(r, rule, fmt.Sprintf("%s / return record #%d", name, k), fn, ret, accessGuard)
		})
		if k < 2 {
			r.Undecided(rule, name, fmt.Sprintf("expected >=2 record-returning exits (cache and storage path), found %d", k))
		}
		// argument order for direct CheckPermission calls
		for _, call := range condCallsIn(fn, fnCheckPermission) {
			o1, o2 := c.Origins(call.Call.Args[1]), c.Origins(call.Call.Args[2])
			ok := onlyOrigins(o1, "field:i.options.Local") && onlyOrigins(o2, "field:i.options.Internal")
			r.Check(ok, rule, name+" / CheckPermission argument order", "CheckPermission(i.options.Local, i.options.Internal)",
				fmt.Sprintf("CheckPermission called with (%v, %v)", o1, o2))
		}
	}

	// mutating methods: Controller.Put only behind getRecord success
	getRecOK := errNilGuard("getRecord err==nil", "database.Interface.getRecord")
	for _, m := range []string{"InsertValue", "SetAbsoluteExpiry", "SetRelativateExpiry", "MakeSecret", "MakeCrownJewel", "Delete"} {
		name := "database.(*Interface)." + m
		fn := c.Func(name)
		if fn == nil {
			r.Undecided(rule, name, "anchor function missing")
			continue
		}
		puts := callsIn(fn, "database.Controller.Put")
		if len(puts) == 0 {
			r.Undecided(rule, name, "no Controller.Put call found")
			continue
		}
		for i, p := range puts {
			cons := fmt.Sprintf("%s / call Controller.Put #%d", name, i+1)
			c.RequireGuards(r, rule, cons, fn, p, getRecOK)
			// the record written is the one obtained from getRecord
			args := p.Common().Args
			or := c.Origins(args[len(args)-1])
			r.Check(onlyOrigins(or, "call:database.Interface.getRecord#0"), rule, cons+" / record provenance",
				"the record written is the permission-checked result of getRecord", fmt.Sprintf("record written originates from %v", or))
		}
	}
	// Put / PutNew
	putGuards := []Guard{
		callGuard("HasAllPermissions==true", true, fnHasAll),
		errNilGuard("getMeta err==nil", "database.Interface.getMeta"),
		{Name: "errors.Is(err, ErrNotFound)==true", Truthy: true, Match: func(b ssa.Value) bool {
			call, ok := isCallTo(b, "errors.Is")
			if !ok {
				return false
			}
			return hasOrigin(c.Origins(call.Call.Args[1]), "field:global:database.ErrNotFound")
		}},
	}
	for _, m := range []string{"Put", "PutNew"} {
		name := "database.(*Interface)." + m
		fn := c.Func(name)
		if fn == nil {
			r.Undecided(rule, name, "anchor function missing")
			continue
		}
		var sinks []ssa.Instruction
		for _, ci := range callsIn(fn, "database.Controller.Put", "database.Interface.updateCache") {
			sinks = append(sinks, ci)
		}
		if len(sinks) < 2 {
			r.Undecided(rule, name, "expected Controller.Put and updateCache calls")
			continue
		}
		for i, s := range sinks {
			cons := fmt.Sprintf("%s / %s #%d", name, descInstr(s), i+1)
			path := ReachAvoiding(fn, nil, s.Block(), putGuards)
			r.Check(path == nil, rule, cons,
				"write is reachable only across HasAllPermissions, or a getMeta pre-check that succeeded or reported not-found",
				"write reachable without any permission pre-check", c.pathString(path)...)
		}
	}
	// PutMany
	if fn := c.Func("database.(*Interface).PutMany"); fn == nil {
		r.Undecided(rule, "database.(*Interface).PutMany", "anchor function missing")
	} else {
		for i, ci := range callsIn(fn, "database.Controller.PutMany") {
			c.RequireGuards(r, rule, fmt.Sprintf("database.(*Interface).PutMany / call Controller.PutMany #%d", i+1), fn, ci, callGuard("HasAllPermissions==true", true, fnHasAll))
		}
	}
	// Query / Purge / Subscribe pass options in order
	type passSpec struct {
		fn, callee string
		li         int // index of local arg in Args (receiver at 0)
	}
	for _, ps := range []passSpec{
		{"database.(*Interface).Query", "database.Controller.Query", 2},
		{"database.(*Interface).Purge", "database.Controller.Purge", 3},
	} {
		fn := c.Func(ps.fn)
		if fn == nil {
			r.Undecided(rule, ps.fn, "anchor function missing")
			continue
		}
		calls := callsIn(fn, ps.callee)
		if len(calls) == 0 {
			r.Undecided(rule, ps.fn, "no call to "+ps.callee)
		}
		for i, ci := range calls {
			a := ci.Common().Args
			o1, o2 := c.Origins(a[ps.li]), c.Origins(a[ps.li+1])
			ok := onlyOrigins(o1, "field:i.options.Local") && onlyOrigins(o2, "field:i.options.Internal")
			r.Check(ok, rule, fmt.Sprintf("%s / call %s #%d privilege arguments", ps.fn, ps.callee, i+1),
				"passes (i.options.Local, i.options.Internal)", fmt.Sprintf("passes (%v, %v)", o1, o2))
		}
	}
	// Controller.Query/Purge forward their parameters in order
	for _, ps := range []passSpec{
		{"database.(*Controller).Query", "database/storage.Interface.Query", 2},
		{"database.(*Controller).Purge", "database/storage.Purger.Purge", 3},
	} {
		fn := c.Func(ps.fn)
		if fn == nil {
			r.Undecided(rule, ps.fn, "anchor function missing")
			continue
		}
		calls := callsIn(fn, ps.callee)
		if len(calls) == 0 {
			r.Undecided(rule, ps.fn, "no call to "+ps.callee)
		}
		for i, ci := range calls {
			a := callArgs(ci.Common())
			o1, o2 := c.Origins(a[ps.li]), c.Origins(a[ps.li+1])
			ok := onlyOrigins(o1, "param:local") && onlyOrigins(o2, "param:internal")
			r.Check(ok, rule, fmt.Sprintf("%s / call %s #%d privilege arguments", ps.fn, ps.callee, i+1),
				"forwards (local, internal) in order", fmt.Sprintf("forwards (%v, %v)", o1, o2))
		}
	}
}

func c03R4(c *Ctx, r *Report) {
	const rule = "C03-R4"
	targets := []string{
		"database.Controller.Get", "database.Controller.GetMeta", "database.Controller.Put", "database.Controller.Query",
		"database.Controller.Purge", "database.Controller.PutMany",
		"database/storage.Interface.Get", "database/storage.Interface.Query", "database/storage.Interface.Put", "database/storage.Interface.Delete",
		"database/storage.Purger.Purge", "database/storage.Batcher.PutMany", "database/storage.MetaHandler.GetMeta",
	}
	n := 0
	for _, s := range c.CallSites(targets...) {
		n++
		pkg := short(s.Fn.Pkg.Pkg.Path())
		callee := calleeName(s.Instr.(ssa.CallInstruction).Common())
		cons := fmt.Sprintf("%s / %s", fnKey(s.Fn), descInstr(s.Instr))
		ok := pkg == "database"
		if ok {
			r.OK(rule, cons, "caller is inside package database")
		} else {
			r.Bad(rule, cons, fmt.Sprintf("%s is called from package %s, bypassing database.Interface and its permission checks", callee, pkg), c.Pos(s.Instr.Pos()))
		}
	}
	if n < 10 {
		r.Undecided(rule, "instance-floor", fmt.Sprintf("found only %d controller/storage call sites (expected >= 10)", n))
	}
	// inside package database, Controller read/write methods are only called by *Interface methods (and the controller itself)
	for _, s := range c.CallSites("database.Controller.Get", "database.Controller.GetMeta", "database.Controller.Query", "database.Controller.Purge") {
		top := topFunc(s.Fn)
		ok := strings.HasPrefix(fnKey(top), "database.(*Interface).")
		r.Check(ok, rule, fmt.Sprintf("%s / %s caller kind", fnKey(s.Fn), descInstr(s.Instr)),
			"called from a *database.Interface method", "called from "+fnKey(top)+" which is not a *database.Interface method", c.Pos(s.Instr.Pos()))
	}
}

func c03R5(c *Ctx, r *Report) {
	const rule = "C03-R5"
	r.SetFloor(rule, 4)
	sends := c.sendsOnField("database.Subscription", "Feed")
	if len(sends) == 0 {
		r.Undecided(rule, "send Subscription.Feed", "no send site found")
		return
	}
	for i, s := range sends {
		cons := fmt.Sprintf("%s / send Subscription.Feed #%d", fnKey(s.Fn), i+1)
		if fnKey(s.Fn) != "database.(*Controller).notifySubscribers" {
			r.Bad(rule, cons, "send on Subscription.Feed outside notifySubscribers", c.Pos(s.Instr.Pos()))
			continue
		}
		c.RequireGuards(r, rule, cons, s.Fn, s.Instr, permGuard())
		for j, call := range condCallsIn(s.Fn, fnCheckPermission) {
			o1, o2 := c.Origins(call.Call.Args[1]), c.Origins(call.Call.Args[2])
			// the subscription is the loop element; path is not a simple vpath, so compare field names
			ok := fieldLoadOf(call.Call.Args[1], "database.Subscription", "local") && fieldLoadOf(call.Call.Args[2], "database.Subscription", "internal")
			// and both must belong to the subscription whose Feed is sent on
			r.Check(ok, rule, fmt.Sprintf("%s / CheckPermission call #%d arguments", cons, j+1),
				"CheckPermission(sub.local, sub.internal)", fmt.Sprintf("CheckPermission called with (%v, %v)", o1, o2))
			if ok {
				same := sameBase(call.Call.Args[1], s) && sameBase(call.Call.Args[2], s)
				r.Check(same, rule, fmt.Sprintf("%s / CheckPermission call #%d subject", cons, j+1),
					"privileges are read from the subscription whose feed receives the record", "privileges are read from a different subscription than the one sent to")
			}
		}
	}
	// writers of Subscription.local / internal
	for _, f := range []struct{ field, want string }{{"local", "field:i.options.Local"}, {"internal", "field:i.options.Internal"}} {
		stores := c.StoresTo("database.Subscription", f.field)
		if len(stores) == 0 {
			r.Undecided(rule, "store Subscription."+f.field, "no store found")
		}
		for i, s := range stores {
			cons := fmt.Sprintf("%s / store Subscription.%s #%d", fnKey(s.Fn), f.field, i+1)
			or := c.Origins(s.Instr.(*ssa.Store).Val)
			ok := fnKey(s.Fn) == "database.(*Interface).Subscribe" && onlyOrigins(or, f.want)
			r.Check(ok, rule, cons, "set in Interface.Subscribe from "+f.want, fmt.Sprintf("Subscription.%s written in %s from %v", f.field, fnKey(s.Fn), or), c.Pos(s.Instr.Pos()))
		}
	}
}

// fieldLoadOf: v is a load of owner.field.
func fieldLoadOf(v ssa.Value, owner, field string) bool {
	u, ok := v.(*ssa.UnOp)
	if !ok || u.Op != token.MUL {
		return false
	}
	fr, ok := fieldOfAddr(u.X)
	return ok && fr.Owner == owner && fr.Name == field
}

// sameBase: the struct whose field v loads is the same SSA value as the struct
// whose Feed field the send uses.
func sameBase(v ssa.Value, s chanSend) bool {
	u, ok := v.(*ssa.UnOp)
	if !ok {
		return false
	}
	fa, ok := u.X.(*ssa.FieldAddr)
	if !ok {
		return false
	}
	var ch ssa.Value
	switch x := s.Instr.(type) {
	case *ssa.Send:
		ch = x.Chan
	case *ssa.Select:
		ch = x.States[s.State].Chan
	}
	cu, ok := ch.(*ssa.UnOp)
	if !ok {
		return false
	}
	cfa, ok := cu.X.(*ssa.FieldAddr)
	if !ok {
		return false
	}
	return cfa.X == fa.X
}

func c03R6(c *Ctx, r *Report) {
	const rule = "C03-R6"
	r.SetFloor(rule, 2)
	mut := []string{"go.etcd.io/bbolt.Cursor.Delete", "go.etcd.io/bbolt.Bucket.Put", "go.etcd.io/bbolt.Bucket.Delete",
		"github.com/dgraph-io/badger.Txn.Delete", "github.com/dgraph-io/badger.Txn.Set", "builtin.delete", "os.Remove"}
	n := 0
	for _, fn := range c.allFuncs {
		top := topFunc(fn)
		if top.Name() != "Purge" || !strings.HasPrefix(short(top.Pkg.Pkg.Path()), "database/storage/") {
			continue
		}
		ord := 0
		for _, ci := range callsIn(fn, mut...) {
			ord++
			n++
			cons := fmt.Sprintf("%s / %s #%d", fnKey(fn), descInstr(ci), ord)
			c.RequireGuards(r, rule, cons, fn, ci, permGuard())
		}
		for i, call := range condCallsIn(fn, fnCheckPermission) {
			ok, why := c.checkPermArgs(call)
			r.Check(ok, rule, fmt.Sprintf("%s / CheckPermission call #%d arguments", fnKey(fn), i+1),
				"arguments are Purge's (local, internal) in order", why, c.Pos(call.Pos()))
		}
	}
	_ = n
}

func c03R7(c *Ctx, r *Report) {
	const rule = "C03-R7"
	r.SetFloor(rule, 2)
	ord := 0
	for _, s := range c.CallSites("database.NewInterface") {
		if short(s.Fn.Pkg.Pkg.Path()) != "api" {
			continue
		}
		ord++
		cons := fmt.Sprintf("%s / call database.NewInterface #%d", fnKey(s.Fn), ord)
		arg := s.Instr.(ssa.CallInstruction).Common().Args[0]
		ok := true
		detail := ""
		for _, l := range c.Leaves(arg) {
			switch x := l.(type) {
			case *ssa.Const:
				if x.Value != nil {
					ok = false
				}
			case *ssa.Alloc:
				for _, st := range allocFieldStores(x) {
					fr, _ := fieldOfAddr(st.Addr)
					if fr.Name == "Local" || fr.Name == "Internal" {
						if b, isC := constBool(st.Val); !isC || b {
							ok = false
							detail = "Options literal sets " + fr.Name
						}
					}
				}
			default:
				ok = false
				detail = "options come from " + leafDesc(l)
			}
		}
		r.Check(ok, rule, cons, "external API interface is created without Local/Internal privileges",
			"external API creates a privileged database interface: "+detail, c.Pos(s.Instr.Pos()))
	}
}

func c03R8(c *Ctx, r *Report) {
	const rule = "C03-R8"
	r.SetFloor(rule, 6)
	allowed := map[string]map[string]string{
		"secret": {
			"database/record.(*Meta).MakeSecret":       "const:true",
			"database/record.(*Meta).GenCodeUnmarshal": "decode",
			"database/record.(*Meta).Duplicate":        "field:m.secret",
		},
		"cronjewel": {
			"database/record.(*Meta).MakeCrownJewel":   "const:true",
			"database/record.(*Meta).GenCodeUnmarshal": "decode",
			"database/record.(*Meta).Duplicate":        "field:m.cronjewel",
		},
	}
	for _, f := range []string{"secret", "cronjewel"} {
		for i, s := range c.StoresTo("database/record.Meta", f) {
			cons := fmt.Sprintf("%s / store Meta.%s #%d", fnKey(s.Fn), f, i+1)
			want, ok := allowed[f][fnKey(s.Fn)]
			if !ok {
				r.Bad(rule, cons, "confidentiality flag written outside MakeSecret/MakeCrownJewel/GenCodeUnmarshal/Duplicate", c.Pos(s.Instr.Pos()))
				continue
			}
			or := c.Origins(s.Instr.(*ssa.Store).Val)
			if want == "decode" {
				r.OK(rule, cons, "decoder restores the persisted flag")
				continue
			}
			r.Check(onlyOrigins(or, want), rule, cons, "flag set from "+want, fmt.Sprintf("flag set from %v (expected %s)", or, want), c.Pos(s.Instr.Pos()))
		}
	}
}
