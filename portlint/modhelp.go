package main

import (
	"fmt"
	"go/token"
	"go/types"
	"strings"

	"golang.org/x/tools/go/ssa"
)

// helpers shared by the modules rules (C05, C06, C07, C15)

const (
	fnAtomicAdd  = "sync/atomic.AddInt32"
	fnAtomicLoad = "sync/atomic.LoadInt32"
	aboolPkg     = "github.com/tevino/abool.AtomicBool."
	fnCheckStop  = "modules.Module.checkIfStopComplete"
)

// atomicAdd: in is atomic.AddInt32(<path>, <const>).
func atomicAdd(in ssa.Instruction) (path string, delta int64, ok bool) {
	ci, isCall := in.(ssa.CallInstruction)
	if !isCall || calleeName(ci.Common()) != fnAtomicAdd {
		return "", 0, false
	}
	a := ci.Common().Args
	d, isC := constInt(a[1])
	if !isC {
		return "", 0, false
	}
	return counterPath(a[0]), d, true
}

// counterPath: the place an atomic operand denotes. A counter pointer that was
// copied into a local (possibly captured by a closure) is traced back to the
// field it was loaded from, so `w := m.workerCnt; atomic.AddInt32(w, 1)` is
// still an operation on m.workerCnt.
func counterPath(v ssa.Value) string {
	p := vpath(v)
	if i := strings.LastIndex(p, "."); i >= 0 && moduleCounters[p[i+1:]] {
		return p
	}
	if curCtx == nil {
		return p
	}
	found := ""
	for _, l := range curCtx.Leaves(v) {
		if _, fr, ok := fieldLoad(l); ok && moduleCounters[fr.Name] {
			if q := vpath(l); q != "" {
				if found != "" && found != q {
					return p // ambiguous
				}
				found = q
			} else {
				found = "?." + fr.Name
			}
		} else {
			return p
		}
	}
	if found != "" {
		return found
	}
	return p
}

// curCtx is the loaded program (set by Load); used by helpers that have no Ctx parameter.
var curCtx *Ctx

// aboolOp: in is <path>.<method>() on an abool.
func aboolOp(in ssa.Instruction) (path, method string, ok bool) {
	ci, isCall := in.(ssa.CallInstruction)
	if !isCall {
		return "", "", false
	}
	n := calleeName(ci.Common())
	if !strings.HasPrefix(n, aboolPkg) {
		return "", "", false
	}
	return vpath(ci.Common().Args[0]), strings.TrimPrefix(n, aboolPkg), true
}

func isAboolOp(path, method string) func(ssa.Instruction) bool {
	return func(in ssa.Instruction) bool {
		if _, isDefer := in.(*ssa.Defer); isDefer {
			return false
		}
		p, m, ok := aboolOp(in)
		return ok && p == path && m == method
	}
}

// aboolGuard: cond is <path>.<method>(...) with the given truthiness.
func aboolGuard(desc, path, method string, truthy bool) Guard {
	return Guard{Name: desc, Truthy: truthy, Match: func(b ssa.Value) bool {
		call, ok := b.(*ssa.Call)
		if !ok {
			return false
		}
		p, m, ok := aboolOp(call)
		return ok && p == path && m == method
	}}
}

// deferredClosure returns the function run by a defer instruction (closure or
// named function), or nil.
func deferredFunc(d *ssa.Defer) *ssa.Function { return staticCallee(&d.Call) }

// funcHas reports whether fn, or a repo function it calls statically (up to
// depth levels deep), contains an instruction satisfying pred.
func funcHas(fn *ssa.Function, depth int, pred func(ssa.Instruction) bool) bool {
	if fn == nil || fn.Blocks == nil {
		return false
	}
	found := false
	eachInstr(fn, func(in ssa.Instruction) {
		if found {
			return
		}
		if pred(in) {
			found = true
			return
		}
		if depth > 0 {
			if ci, ok := in.(*ssa.Call); ok {
				if callee := staticCallee(&ci.Call); callee != nil && callee.Pkg == fn.Pkg && callee != fn {
					if funcHas(callee, depth-1, pred) {
						found = true
					}
				}
			}
		}
	})
	return found
}

// isBenignCall: calls that cannot run foreign code or block (used for "the
// defer is registered before anything else can happen").
func isBenignCall(ci ssa.CallInstruction) bool {
	n := calleeName(ci.Common())
	switch {
	case strings.HasPrefix(n, "sync/atomic."), strings.HasPrefix(n, aboolPkg), strings.HasPrefix(n, "builtin."),
		n == "time.Now", strings.HasPrefix(n, "sync.Mutex."), strings.HasPrefix(n, "sync.RWMutex."):
		return true
	}
	return false
}

// deferRegisteredRightAfter: on every path from `start`, a defer satisfying
// isWanted is registered before any non-benign call, go statement or return.
func deferRegisteredRightAfter(fn *ssa.Function, start ssa.Instruction, isWanted func(*ssa.Defer) bool) (ssa.Instruction, bool) {
	risky := func(in ssa.Instruction) bool {
		switch x := in.(type) {
		case *ssa.Return, *ssa.Go, *ssa.Panic:
			return true
		case *ssa.Call:
			return !isBenignCall(x)
		case *ssa.Defer:
			return false
		}
		return false
	}
	barrier := func(in ssa.Instruction) bool {
		d, ok := in.(*ssa.Defer)
		return ok && isWanted(d)
	}
	bad := ReachInstr(fn, start, risky, barrier)
	return bad, bad == nil
}

// recoverInfo describes a deferred closure that recovers.
type recoverInfo struct {
	Defer        *ssa.Defer
	Closure      *ssa.Function
	Recover      *ssa.Call
	ReportsPanic bool // NewPanicError + Report on the non-nil branch
}

// findRecoverDefers returns the defers in fn whose closure calls recover().
func (c *Ctx) findRecoverDefers(fn *ssa.Function) []recoverInfo {
	var out []recoverInfo
	eachInstr(fn, func(in ssa.Instruction) {
		d, ok := in.(*ssa.Defer)
		if !ok {
			return
		}
		cl := deferredFunc(d)
		if cl == nil || cl.Blocks == nil {
			return
		}
		var rec *ssa.Call
		eachInstr(cl, func(i2 ssa.Instruction) {
			if call, ok := i2.(*ssa.Call); ok && calleeName(&call.Call) == "builtin.recover" {
				rec = call
			}
		})
		if rec == nil {
			return
		}
		ri := recoverInfo{Defer: d, Closure: cl, Recover: rec}
		// NewPanicError and Report reachable only across recover()!=nil
		g := Guard{Name: "recover()!=nil", Truthy: true, Match: func(b ssa.Value) bool { return b == ssa.Value(rec) }}
		np := callsIn(cl, "modules.Module.NewPanicError")
		rp := callsIn(cl, "modules.ModuleError.Report")
		if len(np) > 0 && len(rp) > 0 {
			ri.ReportsPanic = true
			for _, x := range append(np, rp...) {
				if ReachAvoiding(cl, nil, x.Block(), []Guard{g}) != nil {
					// reported even without panic: still "reports"
					_ = x
				}
			}
			// the panic value must be passed to NewPanicError
			for _, x := range np {
				args := x.Common().Args
				if len(args) < 4 || args[3] != ssa.Value(rec) {
					ri.ReportsPanic = false
				}
			}
		}
		out = append(out, ri)
	})
	return out
}

// selectRecvGuard: the If tests "select index == k" where state k receives
// from a channel satisfying pred; passed when that case is chosen.
func selectCaseGuard(desc string, dir types.ChanDir, pred func(ch ssa.Value) bool) Guard {
	return Guard{Name: desc, Truthy: true, Match: func(b ssa.Value) bool {
		bo, ok := b.(*ssa.BinOp)
		if !ok || bo.Op != token.EQL {
			return false
		}
		ex, ok := bo.X.(*ssa.Extract)
		if !ok || ex.Index != 0 {
			return false
		}
		sel, ok := ex.Tuple.(*ssa.Select)
		if !ok {
			return false
		}
		k, isC := constInt(bo.Y)
		if !isC || k < 0 || int(k) >= len(sel.States) {
			return false
		}
		st := sel.States[k]
		return st.Dir == dir && pred(st.Chan)
	}}
}

// chanFromCall: ch is the result of a call to one of names (e.g. ctx.Done()).
func chanFromCall(ch ssa.Value, names ...string) (*ssa.Call, bool) {
	return isCallTo(ch, names...)
}

// isCtxDone: ch = <x>.Done() where x has a path with the given suffix.
func isCtxDoneOf(suffix string) func(ssa.Value) bool {
	return func(ch ssa.Value) bool {
		call, ok := ch.(*ssa.Call)
		if !ok || !call.Call.IsInvoke() || call.Call.Method.Name() != "Done" {
			return false
		}
		return strings.HasSuffix(vpath(call.Call.Value), suffix)
	}
}

// dynCallSite describes a call through a function value.
type dynCallSite struct {
	Fn     *ssa.Function
	Instr  ssa.CallInstruction
	Callee string // description of where the function value comes from
}

// dynamicCalls lists all calls through function-typed values (not static, not
// interface methods, not builtins) in the given package.
func (c *Ctx) dynamicCalls(pkg string) []dynCallSite {
	var out []dynCallSite
	for _, fn := range c.FuncsIn(pkg) {
		eachInstr(fn, func(in ssa.Instruction) {
			ci, ok := in.(ssa.CallInstruction)
			if !ok {
				return
			}
			cc := ci.Common()
			if cc.IsInvoke() {
				return
			}
			switch cc.Value.(type) {
			case *ssa.Function, *ssa.MakeClosure, *ssa.Builtin:
				return
			}
			out = append(out, dynCallSite{fn, ci, strings.Join(c.Origins(cc.Value), "+")})
		})
	}
	return out
}

// closurePassedTo reports whether fn is a closure that is passed as an
// argument to a call of one of the named functions in its parent.
func closurePassedTo(fn *ssa.Function, names ...string) (string, bool) {
	p := fn.Parent()
	if p == nil {
		return "", false
	}
	res := ""
	eachInstr(p, func(in ssa.Instruction) {
		ci, ok := in.(ssa.CallInstruction)
		if !ok {
			return
		}
		n := calleeName(ci.Common())
		match := false
		for _, w := range names {
			if n == w {
				match = true
			}
		}
		if !match {
			return
		}
		for _, a := range ci.Common().Args {
			if mc, ok := unwrapConv(a).(*ssa.MakeClosure); ok && mc.Fn == fn {
				res = n
			}
		}
	})
	return res, res != ""
}

func posOf(c *Ctx, in ssa.Instruction) string {
	if in == nil {
		return "-"
	}
	return c.Pos(in.Pos())
}

func ordinal(m map[string]int, base string) string {
	m[base]++
	if m[base] > 1 {
		return fmt.Sprintf("%s #%d", base, m[base])
	}
	return base
}
