package main

import (
	"fmt"
	"go/token"
	"strings"

	"golang.org/x/tools/go/ssa"
)

func init() {
	register(&propDef{
		ID: "C16",
		Explanation: "Decides structural necessary conditions of 'a container is a faithful byte queue': " +
			"(R1) every function that rebinds the compartment list to a fresh slice also resets the offset (coupled fields); " +
			"(R2) every read of compartments[offset] is dominated by offset < len(compartments); " +
			"(R3) GetNextBlock bounds the decoded uint64 block size against the held length in the unsigned domain before narrowing it, GetNextBlockAsContainer hands it to a callee that rejects negative sizes with an error (decision table); " +
			"(R4) GetNextN8/16/32/64 peek 2/3/5/10 bytes, decode with the matching width and consume exactly the decoder's count, only on success; " +
			"(R5) the consuming getters consume only on their success path (a failed Get leaves the data in place); " +
			"(R6) whenever the offset moves past a compartment that compartment is cleared (the offset-rewind in checkOffset and AppendContainer rely on it); " +
			"(R7) every constant-bound index/slice in the container operations and their repo callees is justified by a dominating length test or a preceding store of a fresh slice of that length (one named exception: renewCompartments, by the offset invariant); " +
			"(R8) the width decision tables of varint.Unpack16/32/64 that the number and length-prefix getters rely on to reject oversized values (shared with C10-R2). " +
			"(R9) WriteToSlice reports 'not emptied' only when bytes are left over: that exit is reachable only across a strict comparison 'target length < compartment length' (an exact fit falls through to the emptied exit). " +
			"(R10) narrowing integer conversions in package container are range-tested first or named exceptions. " +
			"(R11) PeekContainer returns no container only across a test that the (remaining) size is non-zero - negative request or bytes missing -, so a request for zero bytes yields an empty container. " +
			"(R12) the number decoder under GetNextN8 reports the bytes it used (= C10-R1); (R13) GetMax skips exactly len(what Peek returned). " +
			"(R14) no store to Container.compartments takes over the compartment slice of another container (appended compartments are copied into the receiver's own slice). " +
			"NOT decided: byte-queue equivalence over arbitrary operation sequences.",
		Rules: []ruleFn{c16R1, c16R2, c16R3, c16R4, c16R5, c16R6, c16R7, func(c *Ctx, r *Report) { unpackWidthRule(c, r, "C16-R8") }, c16R9,
			func(c *Ctx, r *Report) { narrowingRule(c, r, "C16-R10", []string{"container"}, map[string]string{"container.(*Container).GetNextBlockAsContainer / uint64 -> int": "the callee GetAsContainer rejects negative sizes with an error (decision table C16-R3)"}) }, c16R11,
			borrowRule(c10R1, "C10-R1", "C16-R12", 2, nil), c16R13, c16R14},
	})
}

const ctOwner = "container.Container"

func isCtFieldStore(in ssa.Instruction, field string) (*ssa.Store, bool) {
	st, ok := in.(*ssa.Store)
	if !ok {
		return nil, false
	}
	fr, ok := fieldOfAddr(st.Addr)
	if !ok || fr.Owner != ctOwner || fr.Name != field {
		return nil, false
	}
	// ignore composite literals of fresh containers
	if _, isAlloc := st.Addr.(*ssa.FieldAddr).X.(*ssa.Alloc); isAlloc {
		return nil, false
	}
	return st, true
}

func c16R1(c *Ctx, r *Report) {
	const rule = "C16-R1"
	r.SetFloor(rule, 4)
	for _, fn := range c.FuncsIn("container") {
		k := 0
		eachInstr(fn, func(in ssa.Instruction) {
			st, ok := isCtFieldStore(in, "compartments")
			if !ok {
				return
			}
			// fresh = does not derive from the old list
			derived := false
			for _, l := range c.Leaves(st.Val) {
				if fieldLoadOf(l, ctOwner, "compartments") {
					derived = true
				}
				if call, isCall := l.(*ssa.Call); isCall && calleeName(&call.Call) == "builtin.append" {
					for _, l2 := range c.Leaves(call.Call.Args[0]) {
						if fieldLoadOf(l2, ctOwner, "compartments") {
							derived = true
						}
					}
				}
			}
			if derived {
				return
			}
			k++
			base := st.Addr.(*ssa.FieldAddr).X
			sameFn := func(x ssa.Instruction) bool {
				s2, ok := isCtFieldStore(x, "offset")
				return ok && s2.Addr.(*ssa.FieldAddr).X == base
			}
			okBefore := MustPrecede(fn, sameFn, st)
			okAfter := MustFollow(fn, st, sameFn)
			r.Check(okBefore || okAfter, rule, fmt.Sprintf("%s / fresh compartment list #%d", fnKey(fn), k), "the offset is (re)set together with the new compartment list",
				"the compartment list is replaced by a fresh slice but the offset keeps its old value: the new data is invisible or stale slots become live", c.Pos(st.Pos()))
		})
	}
}

func c16R2(c *Ctx, r *Report) {
	const rule = "C16-R2"
	r.SetFloor(rule, 1)
	n := 0
	for _, fn := range c.FuncsIn("container") {
		eachInstr(fn, func(in ssa.Instruction) {
			ia, ok := in.(*ssa.IndexAddr)
			if !ok || !fieldLoadOf(ia.X, ctOwner, "compartments") || !fieldLoadOf(ia.Index, ctOwner, "offset") {
				return
			}
			// reads only
			isRead := false
			for _, ref := range *ia.Referrers() {
				if u, ok := ref.(*ssa.UnOp); ok && u.Op == token.MUL {
					isRead = true
				}
			}
			if !isRead {
				return
			}
			n++
			g := Guard{Name: "offset < len(compartments)", Truthy: true, Match: func(b ssa.Value) bool {
				bo, ok := b.(*ssa.BinOp)
				if !ok || bo.Op != token.LSS {
					return false
				}
				if !fieldLoadOf(bo.X, ctOwner, "offset") {
					return false
				}
				call, ok := bo.Y.(*ssa.Call)
				return ok && calleeName(&call.Call) == "builtin.len" && fieldLoadOf(call.Call.Args[0], ctOwner, "compartments")
			}}
			g2 := g
			g2.Truthy = false
			g2.Match = func(b ssa.Value) bool {
				bo, ok := b.(*ssa.BinOp)
				if !ok || bo.Op != token.GEQ {
					return false
				}
				if !fieldLoadOf(bo.X, ctOwner, "offset") {
					return false
				}
				call, ok := bo.Y.(*ssa.Call)
				return ok && calleeName(&call.Call) == "builtin.len" && fieldLoadOf(call.Call.Args[0], ctOwner, "compartments")
			}
			p := ReachTargetAvoiding(fn, ia, []Guard{g, g2}, nil)
			r.Check(p == nil, rule, fmt.Sprintf("%s / read compartments[offset] #%d", fnKey(fn), n), "dominated by offset < len(compartments)",
				"the head compartment is read without checking that one exists: an empty container panics", c.pathString(p)...)
		})
	}
	if n == 0 {
		r.Undecided(rule, "instance-floor", "no read of compartments[offset] found")
	}
}

func c16R3(c *Ctx, r *Report) {
	const rule = "C16-R3"
	r.SetFloor(rule, 2)
	// GetNextBlock: unsigned bound before narrowing
	for _, fname := range []string{"container.(*Container).GetNextBlock", "container.(*Container).GetNextBlockAsContainer"} {
		fn := c.Func(fname)
		if fn == nil {
			r.Undecided(rule, fname, "anchor function missing")
			continue
		}
		isSize := func(v ssa.Value) bool {
			ex, ok := v.(*ssa.Extract)
			if !ok || ex.Index != 0 {
				return false
			}
			_, isN := isCallTo(ex, "container.Container.GetNextN64", "formats/varint.Unpack64")
			return isN
		}
		heldLength := func(v ssa.Value) bool {
			// Length(), or Length() minus the size of the length prefix
			for _, l := range c.Leaves(v) {
				if call, ok := l.(*ssa.Call); ok && strings.HasSuffix(calleeName(&call.Call), "container.Container.Length") {
					return true
				}
				if bo, ok := l.(*ssa.BinOp); ok && bo.Op == token.SUB {
					if call, ok := bo.X.(*ssa.Call); ok && strings.HasSuffix(calleeName(&call.Call), "container.Container.Length") {
						return true
					}
				}
			}
			return false
		}
		bound := func(truthy bool, op token.Token) Guard {
			return Guard{Name: "blockSize (unsigned) <= Length()", Truthy: truthy, Match: func(b ssa.Value) bool {
				bo, ok := b.(*ssa.BinOp)
				if !ok || bo.Op != op {
					return false
				}
				if !isSize(bo.X) {
					return false
				}
				return heldLength(bo.Y)
			}}
		}
		k := 0
		eachInstr(fn, func(in ssa.Instruction) {
			cv, ok := in.(*ssa.Convert)
			if !ok || !isSize(cv.X) {
				return
			}
			k++
			p := ReachTargetAvoiding(fn, cv, []Guard{bound(false, token.GTR), bound(true, token.LEQ)}, nil)
			r.Check(p == nil, rule, fmt.Sprintf("%s / int(blockSize) #%d", fnKey(fn), k), "the block size is compared (unsigned) with the held length before it is narrowed to int",
				"the decoded uint64 block size is narrowed to int without an unsigned bound: a size >= 2^63 becomes negative and Get returns (nil, nil) - an oversized length prefix silently succeeds", c.pathString(p)...)
		})
		if k == 0 {
			r.Undecided(rule, fnKey(fn), "no narrowing of the block size found")
		}
	}
	// GetNextBlockAsContainer: callee rejects negatives with an error
	if fn := c.Func("container.(*Container).GetAsContainer"); fn == nil {
		r.Undecided(rule, "container.(*Container).GetAsContainer", "anchor function missing")
	} else {
		it := &Interp{Fn: fn, Inline: func(f *ssa.Function) bool { return fnKey(f) == "container.(*Container).PeekContainer" }}
		it.Input = func(v ssa.Value) (AV, bool) {
			if p, ok := v.(*ssa.Parameter); ok && p.Name() == "n" {
				return avInt(-1), true
			}
			return AV{}, false
		}
		it.Outcome = func(in ssa.Instruction, ev func(ssa.Value) AV) string {
			if ret, ok := in.(*ssa.Return); ok {
				if ev(ret.Results[1]).K == KNil {
					return "success"
				}
				return "error"
			}
			return ""
		}
		it.Run()
		ls := strings.Join(outcomeLabels(it.Outcomes), "|")
		r.Check(ls == "error", rule, fnKey(fn)+" / negative size is an error", "GetAsContainer(-1) can only return an error (so an oversized block size narrowed to a negative int is rejected)",
			"GetAsContainer(n<0) -> "+ls+": an oversized block size (narrowed to a negative int) is not reported as an error")
	}
}

func c16R4(c *Ctx, r *Report) {
	const rule = "C16-R4"
	r.SetFloor(rule, 8)
	for _, t := range []struct {
		fn, dec string
		peek    int64
	}{{"GetNextN8", "formats/varint.Unpack8", 2}, {"GetNextN16", "formats/varint.Unpack16", 3}, {"GetNextN32", "formats/varint.Unpack32", 5}, {"GetNextN64", "formats/varint.Unpack64", 10}} {
		fn := c.Func("container.(*Container)." + t.fn)
		if fn == nil {
			r.Undecided(rule, "container.(*Container)."+t.fn, "anchor function missing")
			continue
		}
		var peek, dec *ssa.Call
		eachInstr(fn, func(in ssa.Instruction) {
			if call, ok := in.(*ssa.Call); ok {
				switch calleeName(&call.Call) {
				case "container.Container.Peek":
					peek = call
				case t.dec:
					dec = call
				}
			}
		})
		okPeek := false
		if peek != nil {
			if v, isC := constInt(peek.Call.Args[1]); isC && v == t.peek {
				okPeek = true
			}
		}
		r.Check(okPeek && dec != nil && dec.Call.Args[0] == ssa.Value(peek), rule, fnKey(fn)+" / peek width and decoder", fmt.Sprintf("Peek(%d) decoded with %s", t.peek, t.dec),
			fmt.Sprintf("%s does not peek %d bytes and decode them with %s", t.fn, t.peek, t.dec))
		if dec == nil {
			continue
		}
		for _, sk := range callsIn(fn, "container.Container.skip") {
			okN := false
			if ex, ok := sk.Common().Args[1].(*ssa.Extract); ok && ex.Tuple == ssa.Value(dec) && ex.Index == 1 {
				okN = true
			}
			r.Check(okN, rule, fnKey(fn)+" / consumes the decoder's count", "skip(n) with n = bytes the decoder used", "skip is not given the decoder's byte count")
			g := Guard{Name: "decoder error == nil", Truthy: false, Match: func(b ssa.Value) bool {
				ex, ok := b.(*ssa.Extract)
				return ok && ex.Tuple == ssa.Value(dec) && ex.Index == 2
			}}
			c.RequireGuards(r, rule, fnKey(fn)+" / consume only on success", fn, sk, g)
		}
	}
}

func c16R5(c *Ctx, r *Report) {
	const rule = "C16-R5"
	r.SetFloor(rule, 2)
	// Get: skip only when enough data was peeked
	if fn := c.Func("container.(*Container).Get"); fn == nil {
		r.Undecided(rule, "container.(*Container).Get", "anchor function missing")
	} else {
		// consuming calls: skip, or any other consuming getter
		consuming := callsIn(fn, "container.Container.skip", "container.Container.GetMax", "container.Container.GetAll")
		if len(consuming) == 0 {
			r.Bad(rule, fnKey(fn)+" / consumes", "Get never consumes the returned data")
		}
		enough := Guard{Name: "len(buf) >= n", Truthy: false, Match: func(b ssa.Value) bool {
			bo, ok := b.(*ssa.BinOp)
			if !ok || bo.Op != token.LSS {
				return false
			}
			call, ok := bo.X.(*ssa.Call)
			if !ok || calleeName(&call.Call) != "builtin.len" {
				return false
			}
			_, isPeek := isCallTo(call.Call.Args[0], "container.Container.Peek")
			p, isP := bo.Y.(*ssa.Parameter)
			return isPeek && isP && p.Name() == "n"
		}}
		for i, sk := range consuming {
			c.RequireGuards(r, rule, fmt.Sprintf("%s / consume #%d only on success", fnKey(fn), i+1), fn, sk, enough)
		}
		// error return has consumed nothing: no path to a non-nil-error return passes a consuming call
		eachInstr(fn, func(in ssa.Instruction) {
			ret, ok := in.(*ssa.Return)
			if !ok || isNilConst(retVal(ret, 1)) {
				return
			}
			for _, sk := range consuming {
				reach := ReachInstr(fn, sk, func(x ssa.Instruction) bool { return x == ssa.Instruction(ret) }, nil)
				r.Check(reach == nil, rule, fnKey(fn)+" / failed Get consumes nothing", "the error exit is not reachable after consuming", "Get can consume data and then report an error: the held bytes are lost")
			}
		})
	}
	if fn := c.Func("container.(*Container).GetAsContainer"); fn != nil {
		g := Guard{Name: "PeekContainer != nil", Truthy: true, Match: func(b ssa.Value) bool {
			_, ok := isCallTo(b, "container.Container.PeekContainer")
			return ok
		}}
		for i, sk := range callsIn(fn, "container.Container.skip") {
			c.RequireGuards(r, rule, fmt.Sprintf("%s / consume #%d only on success", fnKey(fn), i+1), fn, sk, g)
		}
	}
}

func c16R6(c *Ctx, r *Report) {
	const rule = "C16-R6"
	r.SetFloor(rule, 2)
	n := 0
	for _, fn := range c.FuncsIn("container") {
		eachInstr(fn, func(in ssa.Instruction) {
			st, ok := isCtFieldStore(in, "offset")
			if !ok {
				return
			}
			bo, ok := st.Val.(*ssa.BinOp)
			if !ok || bo.Op != token.ADD {
				return
			}
			one, isC := constInt(bo.Y)
			if !isC || one != 1 {
				return
			}
			idx := bo.X
			if _, isPhi := idx.(*ssa.Phi); !isPhi {
				return
			}
			n++
			cleared := false
			for _, x := range st.Block().Instrs {
				if s2, ok := x.(*ssa.Store); ok {
					if ia, ok := s2.Addr.(*ssa.IndexAddr); ok && ia.Index == idx && fieldLoadOf(ia.X, ctOwner, "compartments") && isNilConst(s2.Val) {
						cleared = true
					}
				}
			}
			r.Check(cleared, rule, fmt.Sprintf("%s / offset moves past compartment #%d", fnKey(fn), n), "the passed compartment is set to nil in the same step",
				"the offset moves past a compartment without clearing it: checkOffset later rewinds the offset (and AppendContainer copies the whole list), so consumed bytes come back", c.Pos(st.Pos()))
		})
	}
	if n < 2 {
		r.Undecided(rule, "instance-floor", fmt.Sprintf("found %d offset advances (skip, WriteToSlice expected)", n))
	}
}

func c16R7(c *Ctx, r *Report) {
	const rule = "C16-R7"
	r.SetFloor(rule, 1)
	boundsRule(c, r, rule, "a container operation",
		"container.(*Container).Prepend", "container.(*Container).Append", "container.(*Container).PrependNumber", "container.(*Container).AppendNumber", "container.(*Container).PrependInt", "container.(*Container).AppendInt", "container.(*Container).AppendAsBlock", "container.(*Container).PrependAsBlock", "container.(*Container).AppendContainer", "container.(*Container).AppendContainerAsBlock", "container.(*Container).HoldsData", "container.(*Container).Length", "container.(*Container).Replace", "container.(*Container).CompileData", "container.(*Container).Get", "container.(*Container).GetAll", "container.(*Container).GetAsContainer", "container.(*Container).GetMax", "container.(*Container).WriteToSlice", "container.(*Container).WriteAllTo", "container.(*Container).PrependLength", "container.(*Container).Peek", "container.(*Container).PeekContainer", "container.(*Container).GetNextBlock", "container.(*Container).GetNextBlockAsContainer", "container.(*Container).GetNextN8", "container.(*Container).GetNextN16", "container.(*Container).GetNextN32", "container.(*Container).GetNextN64", "container.(*Container).MarshalJSON", "container.(*Container).UnmarshalJSON", "container.New", "container.NewContainer")
}

func c16R9(c *Ctx, r *Report) {
	const rule = "C16-R9"
	r.SetFloor(rule, 1)
	fn := c.Func("container.(*Container).WriteToSlice")
	if fn == nil {
		r.Undecided(rule, "container.(*Container).WriteToSlice", "anchor function missing")
		return
	}
	lenOf := func(v ssa.Value) (ssa.Value, bool) {
		call, ok := v.(*ssa.Call)
		if !ok || calleeName(&call.Call) != "builtin.len" {
			return nil, false
		}
		return call.Call.Args[0], true
	}
	isCompartment := func(v ssa.Value) bool {
		for _, l := range c.Leaves(v) {
			if u, ok := l.(*ssa.UnOp); ok {
				if ia, ok := u.X.(*ssa.IndexAddr); ok && strings.HasSuffix(vpath(ia.X), "compartments") {
					continue
				}
			}
			return false
		}
		return true
	}
	var isTarget func(v ssa.Value) bool
	isTarget = func(v ssa.Value) bool {
		for _, l := range c.Leaves(v) {
			if p, ok := l.(*ssa.Parameter); ok && p.Name() == "slice" {
				continue
			}
			if _, ok := l.(*ssa.Slice); ok {
				continue // slice = slice[k:]
			}
			return false
		}
		return true
	}
	leftover := func(truthy bool, op token.Token, targetLeft bool) Guard {
		return Guard{Name: "len(slice) < len(compartment)", Truthy: truthy, Match: func(b ssa.Value) bool {
			bo, ok := b.(*ssa.BinOp)
			if !ok || bo.Op != op {
				return false
			}
			x, okx := lenOf(bo.X)
			y, oky := lenOf(bo.Y)
			// n := copy(slice, compartment) is min(len(slice), len(compartment)): "n < len(compartment)" is the same test
			copied := func(v ssa.Value) (ssa.Value, bool) {
				call, ok := v.(*ssa.Call)
				if !ok || calleeName(&call.Call) != "builtin.copy" || !isCompartment(call.Call.Args[1]) {
					return nil, false
				}
				return call.Call.Args[0], true
			}
			if !okx {
				x, okx = copied(bo.X)
			}
			if !oky {
				y, oky = copied(bo.Y)
			}
			if !okx || !oky {
				return false
			}
			if targetLeft {
				return isTarget(x) && isCompartment(y)
			}
			return isCompartment(x) && isTarget(y)
		}}
	}
	gs := []Guard{leftover(true, token.LSS, true), leftover(true, token.GTR, false), leftover(false, token.GEQ, true), leftover(false, token.LEQ, false)}
	n := 0
	eachInstr(fn, func(in ssa.Instruction) {
		ret, ok := in.(*ssa.Return)
		if !ok {
			return
		}
		b, isC := constBool(retVal(ret, 1))
		if !isC || b {
			return
		}
		n++
		p := ReachTargetAvoiding(fn, ret, gs, nil)
		r.Check(p == nil, rule, fmt.Sprintf("container.(*Container).WriteToSlice / 'not emptied' exit #%d only with bytes left over", n),
			"reachable only where the target is strictly shorter than the current compartment",
			"'not emptied' can be returned on an exact fit: the container is empty but reports that it is not", append([]string{c.Pos(ret.Pos())}, c.pathString(p)...)...)
	})
	if n == 0 {
		r.Undecided(rule, fnKey(fn), "no 'not emptied' exit found")
	}
}
