// portlint: repository-specific static checker for safing/portbase.
//
// It decides structural necessary conditions of the properties in
// /verif/properties.jsonl from the type-checked, SSA-built source of /repo.
// Nothing of /repo is executed.
package main

import (
	"flag"
	"fmt"
	"golang.org/x/tools/go/packages"
	"os"
	"path/filepath"
	"runtime/debug"
	"sort"
	"strconv"
	"strings"
	"time"
)

type ruleFn func(c *Ctx, r *Report)

type propDef struct {
	ID          string
	Explanation string // what is decided and what is not
	Rules       []ruleFn
	Assumptions []string
}

var props = map[string]*propDef{}

func register(p *propDef) { props[p.ID] = p }

var verifDir = "/verif"

func main() {
	prop := flag.String("prop", "", "property id (C01..C20)")
	tier := flag.String("tier", "", "quick|thorough")
	repo := flag.String("repo", "/repo", "repository root")
	overlay := flag.String("overlay", "", "mutant file to apply as overlay (self-test)")
	replay := flag.String("replay", "", "replay file: re-evaluate the named obligation")
	noEvidence := flag.Bool("no-evidence", false, "do not write evidence (self-test children)")
	dump := flag.Bool("dump", false, "print every obligation")
	vdir := flag.String("verif", "", "verif dir (default: dir of the binary's parent, or /verif)")
	dumpFuncs := flag.Bool("dump-funcs", false, "print the declaration keys of all repo functions (to regenerate baseline_funcs.txt)")
	noNorm := flag.Bool("no-normalize", false, "do not expand helper functions that are not in baseline_funcs.txt")
	flag.Parse()

	if *vdir != "" {
		verifDir = *vdir
	} else if exe, err := os.Executable(); err == nil {
		d := filepath.Dir(filepath.Dir(exe))
		if _, err := os.Stat(filepath.Join(d, "properties.jsonl")); err == nil {
			verifDir = d
		}
	}
	BaselineFile = filepath.Join(verifDir, "baseline_funcs.txt")
	NoNormalize = *noNorm
	if *dumpFuncs {
		NoNormalize = true
		c, err := Load(*repo, nil, "")
		if err != nil {
			fmt.Fprintln(os.Stderr, err)
			os.Exit(2)
		}
		var all []*packages.Package
		all = append(all, c.Pkgs...)
		for _, k := range declaredFuncs(all) {
			fmt.Println(k)
		}
		os.Exit(0)
	}
	if *tier == "" {
		*tier = os.Getenv("VERIF_TIER")
		if *tier == "" {
			*tier = "quick"
		}
	}
	seed := 0
	if s := os.Getenv("VERIF_SEED"); s != "" {
		seed, _ = strconv.Atoi(s)
	}
	if *replay != "" {
		os.Exit(doReplay(*replay, *repo))
	}
	if *prop == "all" {
		os.Exit(runAll(*repo))
	}
	if *prop == "probe-ubc" {
		c, err := Load(*repo, nil, "")
		if err != nil {
			fmt.Fprintln(os.Stderr, err)
			os.Exit(2)
		}
		probeUseBeforeCheck(c)
		probeTypedNil(c)
		probeAlias(c)
		probeAlloc(c)
		probeRound11(c)
		probeAnyCompare(c)
		probeRound12(c)
		os.Exit(0)
	}
	if *prop == "probe-getters" {
		c, err := Load(*repo, nil, "")
		if err != nil {
			fmt.Fprintln(os.Stderr, err)
			os.Exit(2)
		}
		probeGetters(c)
		os.Exit(0)
	}
	if *prop == "probe-siblings" {
		c, err := Load(*repo, nil, "")
		if err != nil {
			fmt.Fprintln(os.Stderr, err)
			os.Exit(2)
		}
		if a := os.Getenv("PORTLINT_ATOMS"); a != "" {
			probeAtoms(c, a)
			os.Exit(0)
		}
		probeSiblings(c)
		probeSiblingCandidates(c)
		os.Exit(0)
	}
	if *prop == "probe-errlost" {
		c, err := Load(*repo, nil, "")
		if err != nil {
			fmt.Fprintln(os.Stderr, err)
			os.Exit(2)
		}
		probeErrLost(c)
		os.Exit(0)
	}
	if *prop == "probe-swallow" {
		c, err := Load(*repo, nil, "")
		if err != nil {
			fmt.Fprintln(os.Stderr, err)
			os.Exit(2)
		}
		probeSwallow(c)
		os.Exit(0)
	}
	pd := props[*prop]
	if pd == nil {
		fmt.Fprintf(os.Stderr, "unknown property %q\n", *prop)
		os.Exit(2)
	}
	os.Exit(runProp(pd, *tier, *repo, *overlay, seed, !*noEvidence, *dump))
}

func runRules(pd *propDef, c *Ctx, r *Report) {
	r.cfgName = c.Config
	for _, rule := range pd.Rules {
		func() {
			defer func() {
				if e := recover(); e != nil {
					r.Undecided(pd.ID+"-panic", "checker", fmt.Sprintf("rule panicked: %v\n%s", e, debug.Stack()))
				}
			}()
			rule(c, r)
		}()
	}
}

func runProp(pd *propDef, tier, repo, overlay string, seed int, writeEv, dump bool) int {
	t0 := time.Now()
	r := NewReport(pd.ID)
	configs := [][]string{nil}
	if tier == "thorough" && overlay == "" {
		configs = append(configs, []string{"GOOS=windows"}, []string{"GOARCH=386"})
	}
	var analysed []map[string]any
	for _, env := range configs {
		c, err := Load(repo, env, overlay)
		if err != nil {
			fmt.Fprintf(os.Stderr, "portlint: tool error: %v\n", err)
			if overlay != "" && strings.Contains(err.Error(), errAnchorMissing.Error()) {
				return 3
			}
			return 2
		}
		before := len(r.Obligs)
		for _, nn := range c.NormNotes {
			r.Note("normalisation (%s): %s", c.Config, nn)
		}
		runRules(pd, c, r)
		edges := 0
		analysed = append(analysed, map[string]any{
			"config": c.Config, "packages": len(c.Pkgs), "functions": c.NFuncs, "obligations": len(r.Obligs) - before, "callgraph_edges": edges,
		})
		if env == nil {
			r.applyFloors()
		}
	}
	obs := dedupe(r.Obligs)

	known, err := loadKnown(filepath.Join(verifDir, "known_findings.json"))
	if err != nil {
		fmt.Fprintf(os.Stderr, "portlint: tool error: known_findings.json: %v\n", err)
		return 2
	}
	knownIdx := map[string]KnownFinding{}
	for _, k := range known {
		if k.Status == "known" && k.Property == pd.ID {
			knownIdx[k.Rule+"|"+k.Construct] = k
		}
	}

	var viol, undec, knownHits []*Oblig
	nontrivial := map[string]bool{}
	for _, o := range obs {
		if o.Nontrivial {
			nontrivial[o.Key()] = true
		}
		switch o.Status {
		case Violated:
			if k, ok := knownIdx[o.Key()]; ok {
				o.Known = k.What
				knownHits = append(knownHits, o)
			} else {
				viol = append(viol, o)
			}
		case Undecided:
			undec = append(undec, o)
		}
	}

	if dump || overlay != "" {
		for _, o := range obs {
			fmt.Printf("OBLIG %s %s | %s | %s\n", o.Status, o.Rule, o.Construct, o.Detail)
			if o.Status != Discharged {
				for _, w := range o.Witness {
					fmt.Printf("    %s\n", w)
				}
			}
		}
	}

	selftest := map[string]any{}
	exit := 0
	if overlay == "" {
		st, ok := runSelfTest(pd.ID, tier, repo, seed)
		selftest = st
		if !ok {
			exit = 2
		}
	}

	for _, o := range knownHits {
		fmt.Printf("KNOWN-FINDING: property=%s %s [%s | %s]\n", pd.ID, o.Known, o.Rule, o.Construct)
	}
	for i, o := range viol {
		rp := filepath.Join(verifDir, "evidence", "replay", fmt.Sprintf("%s-%d.json", pd.ID, i+1))
		if writeEv {
			_ = writeJSON(rp, map[string]any{"property": pd.ID, "rule": o.Rule, "construct": o.Construct, "detail": o.Detail, "witness": o.Witness, "config": o.Config})
		}
		fmt.Printf("VIOLATION property=%s replay=%s\n", pd.ID, rp)
		fmt.Printf("  rule=%s construct=%s\n  %s\n", o.Rule, o.Construct, o.Detail)
		for _, w := range o.Witness {
			fmt.Printf("    %s\n", w)
		}
	}
	for _, o := range undec {
		fmt.Fprintf(os.Stderr, "UNDECIDED %s | %s | %s\n", o.Rule, o.Construct, o.Detail)
	}

	if writeEv {
		samples := make([]any, 0, len(obs))
		for _, o := range obs {
			samples = append(samples, o)
		}
		disc := 0
		for _, o := range obs {
			if o.Status == Discharged {
				disc++
			}
		}
		rules := map[string]int{}
		for _, o := range obs {
			rules[o.Rule]++
		}
		ev := evidence{
			PropertyID: pd.ID, Tier: tier, Seed: seed, Level: "other",
			Coverage: map[string]any{
				"explanation":          pd.Explanation,
				"evaluations":          len(obs),
				"distinct_nontrivial":  len(nontrivial),
				"rule":                 "one obligation per (rule, construct) instance enumerated from the SSA/type-checked program of /repo; non-trivial = the instance had a real guard, order, lock set or table to examine (vacuous 'no such site' discharges are not counted); duplicates across build configurations are merged",
				"samples":              samples,
				"obligations":          len(obs),
				"discharged":           disc,
				"violated_known":       len(knownHits),
				"violated_new":         len(viol),
				"undecided":            len(undec),
				"obligations_per_rule": rules,
				"analysed":             analysed,
				"tables":               r.Tables,
				"notes":                r.Notes,
				"selftest":             selftest,
				"exhaustive":           false,
			},
			Assumptions: append([]string{
				"go/types, go/ssa and go/packages (x/tools v0.29.0) model the program faithfully; no cgo/unsafe/linkname in the analysed code",
				"only the analysed build configurations are covered (quick: linux/amd64; thorough: + GOOS=windows, GOARCH=386); _test.go files are excluded",
				"the check decides structural necessary conditions only; the behaviour under all inputs/schedules/histories is NOT decided (see explanation)",
			}, pd.Assumptions...),
			WallS:      time.Since(t0).Seconds(),
			Violations: len(viol),
		}
		if err := writeJSON(filepath.Join(verifDir, "evidence", pd.ID+".json"), ev); err != nil {
			fmt.Fprintf(os.Stderr, "portlint: cannot write evidence: %v\n", err)
			return 2
		}
	}
	nr := map[string]bool{}
	for _, o := range obs {
		nr[o.Rule] = true
	}
	var rl []string
	for k := range nr {
		rl = append(rl, k)
	}
	sort.Strings(rl)
	fmt.Printf("portlint %s tier=%s: %d obligations (%d non-trivial) over rules %v; %d known findings, %d violations, %d undecided; %.1fs\n",
		pd.ID, tier, len(obs), len(nontrivial), rl, len(knownHits), len(viol), len(undec), time.Since(t0).Seconds())
	if n, _ := selftest["mutants_run"].(int); n > 0 {
		fmt.Printf("portlint %s selftest: %d mutants, %v fired, %v skipped, %v silent\n", pd.ID, n, selftest["fired"], selftest["skipped"], selftest["silent"])
		if res, ok := selftest["results"].([]map[string]string); ok {
			for _, m := range res {
				if m["status"] == "skipped" {
					fmt.Printf("  selftest skipped: %s: %s\n", m["mutant"], m["detail"])
				}
			}
		}
	}
	if len(undec) > 0 {
		return 2
	}
	if len(viol) > 0 {
		return 1
	}
	return exit
}

func doReplay(path, repo string) int {
	var rp struct {
		Property  string `json:"property"`
		Rule      string `json:"rule"`
		Construct string `json:"construct"`
	}
	b, err := os.ReadFile(path)
	if err != nil {
		fmt.Fprintln(os.Stderr, err)
		return 2
	}
	if err := jsonUnmarshal(b, &rp); err != nil {
		fmt.Fprintln(os.Stderr, err)
		return 2
	}
	pd := props[rp.Property]
	if pd == nil {
		return 2
	}
	c, err := Load(repo, nil, "")
	if err != nil {
		fmt.Fprintln(os.Stderr, err)
		return 2
	}
	r := NewReport(pd.ID)
	runRules(pd, c, r)
	for _, o := range r.Obligs {
		if o.Rule == rp.Rule && o.Construct == rp.Construct {
			fmt.Printf("%s %s | %s | %s\n", o.Status, o.Rule, o.Construct, o.Detail)
			for _, w := range o.Witness {
				fmt.Printf("    %s\n", w)
			}
			if o.Status == Violated {
				fmt.Printf("VIOLATION property=%s replay=%s\n", pd.ID, path)
				return 1
			}
			return 0
		}
	}
	fmt.Printf("obligation %s | %s no longer exists on this tree\n", rp.Rule, rp.Construct)
	return 0
}

// runAll evaluates every registered property on one load (no evidence, no
// self-test); used to screen seeded changes. Output: one line per violated or
// undecided obligation.
func runAll(repo string) int {
	c, err := Load(repo, nil, "")
	if err != nil {
		fmt.Fprintf(os.Stderr, "portlint: tool error: %v\n", err)
		return 2
	}
	known, _ := loadKnown(filepath.Join(verifDir, "known_findings.json"))
	kn := map[string]bool{}
	for _, k := range known {
		if k.Status == "known" {
			kn[k.Property+"|"+k.Rule+"|"+k.Construct] = true
		}
	}
	var ids []string
	for id := range props {
		ids = append(ids, id)
	}
	sort.Strings(ids)
	rc := 0
	for _, id := range ids {
		r := NewReport(id)
		runRules(props[id], c, r)
		r.applyFloors()
		for _, o := range dedupe(r.Obligs) {
			if o.Status == Violated && !kn[id+"|"+o.Key()] {
				fmt.Printf("ALL violated %s %s | %s | %s\n", id, o.Rule, o.Construct, o.Detail)
				rc = 1
			}
			if o.Status == Undecided {
				fmt.Printf("ALL undecided %s %s | %s | %s\n", id, o.Rule, o.Construct, o.Detail)
				if rc == 0 {
					rc = 2
				}
			}
		}
	}
	return rc
}
