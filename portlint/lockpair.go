package main

import (
	"fmt"

	"golang.org/x/tools/go/ssa"
)

// A9 lock pairing: every lock acquired in a function is released on every
// path to a return of that function, directly or by a registered defer.

// pairOp classifies ci as an acquire (+1) or release (-1) of a named lock.
// Besides sync.(RW)Mutex it recognises parameterless Lock/Unlock/RLock/RUnlock
// methods called through interfaces (record.Record embeds sync.Locker).
func pairOp(ci ssa.CallInstruction) (name string, op int) {
	if n, o, _ := lockOp(ci); o != 0 {
		return n, o
	}
	cc := ci.Common()
	if !cc.IsInvoke() || len(cc.Args) != 0 {
		return "", 0
	}
	p := vpath(cc.Value)
	if p == "" {
		p = "?"
	}
	switch cc.Method.Name() {
	case "Lock":
		return p, 1
	case "Unlock":
		return p, -1
	case "RLock":
		return "R:" + p, 1
	case "RUnlock":
		return "R:" + p, -1
	}
	return "", 0
}

func releases(in ssa.Instruction, name string) bool {
	ci, ok := in.(ssa.CallInstruction)
	if !ok {
		return false
	}
	if n, op := pairOp(ci); op == -1 && n == name {
		return true
	}
	if d, ok := in.(*ssa.Defer); ok {
		if cl := deferredFunc(d); cl != nil && cl.Blocks != nil {
			return funcHas(cl, 0, func(x ssa.Instruction) bool {
				c2, ok := x.(ssa.CallInstruction)
				if !ok {
					return false
				}
				n, op := pairOp(c2)
				return op == -1 && n == name
			})
		}
	}
	return false
}

// lockReleaseRule checks the pairing in each of fns; handOver lists functions
// that by contract return with the lock held (name -> reason).
func lockReleaseRule(c *Ctx, r *Report, rule string, fns []*ssa.Function, handOver map[string]string) int {
	n := 0
	for _, fn := range fns {
		ord := map[string]int{}
		eachInstr(fn, func(in ssa.Instruction) {
			ci, ok := in.(ssa.CallInstruction)
			if !ok {
				return
			}
			if _, isDefer := in.(*ssa.Defer); isDefer {
				return
			}
			name, op := pairOp(ci)
			if op != 1 {
				return
			}
			n++
			cons := ordinal(ord, fmt.Sprintf("%s / %s acquired", fnKey(fn), name))
			if why, ok := handOver[fnKey(fn)+" / "+name]; ok {
				r.Trivial(rule, cons, "returns with the lock held by contract: "+why)
				return
			}
			leak := ReachInstr(fn, in, isExit, func(x ssa.Instruction) bool { return releases(x, name) })
			r.Check(leak == nil, rule, cons+" is released on every path to a return",
				"released (directly or by a registered defer) on every path", fmt.Sprintf("lock %s acquired at %s is still held at the return at %s: the next user of the lock blocks forever", name, c.Pos(in.Pos()), posOf(c, leak)))
		})
	}
	return n
}

// lockRuleFor builds the rule instance for one property: the functions of the
// given packages (and optionally the functions reachable from roots).
func lockRuleFor(rule string, floor int, pkgs []string, roots []string, handOver map[string]string) ruleFn {
	return func(c *Ctx, r *Report) {
		r.SetFloor(rule, floor)
		seen := map[*ssa.Function]bool{}
		var fns []*ssa.Function
		add := func(fn *ssa.Function) {
			if fn != nil && !seen[fn] && fn.Blocks != nil {
				seen[fn] = true
				fns = append(fns, fn)
			}
		}
		for _, p := range pkgs {
			for _, fn := range c.FuncsIn(p) {
				add(fn)
			}
		}
		var rf []*ssa.Function
		for _, n := range roots {
			fn := c.Func(n)
			if fn == nil {
				r.Undecided(rule, n, "anchor function missing")
				continue
			}
			rf = append(rf, fn)
		}
		for _, fn := range c.staticallyReachable(rf...) {
			add(fn)
		}
		if len(fns) == 0 {
			r.Undecided(rule, "functions", "no function to analyse")
			return
		}
		lockReleaseRule(c, r, rule, fns, handOver)
	}
}

const lockRuleText = "every lock acquired in a function is released (directly or by a registered defer) on every path to a return of that function, so no operation leaves a lock behind that wedges the next one; functions that hand the lock over by contract are named exceptions"
