package main

import (
	"fmt"
	"go/token"
	"go/types"
	"strings"

	"golang.org/x/tools/go/ssa"
)

func init() {
	register(&propDef{
		ID: "C19",
		Explanation: "Decides structural necessary conditions of updater selection and purge: " +
			"(R1) exhaustive truth table of isSelectable over blacklisted/available/online/index/auto-download; " +
			"(R2) the selection cascade: each store to SelectedVersion carries exactly the guard atoms of its documented stage (dev mode+dev version+available; current release+selectable; pre-releases enabled+selectable; stable+selectable; newest), the stages are tested in that order, after sorting; " +
			"(R3) a version is counted as 'remaining valid' only if it is neither the dev version nor blacklisted, Blacklisted is set only when more than one valid version remains, and selection is re-run afterwards; " +
			"(R4) purge bookkeeping: the versions kept are Versions[:boundary] and the files removed are those of Versions[boundary:], the stable version is recognised by the same PreRelease flag the selection uses, keepExtra has the floor 2, purging pauses while a blacklisted version exists; " +
			"(R5) no write to a map that is definitely nil. " +
			"(R6) lock pairing over the functions of package(s) updater: " + lockRuleText + ". " +
			"(R7) at most one version is the current release: every store of a non-false value to ResourceVersion.CurrentRelease is preceded on every feasible path by a complete reset loop - a range over the resource's versions that clears the flag in every iteration and has no exit but the end of the range. " +
			"(R8) error discipline over package updater: " + repoErrText + ". " +
			"(R9) selectVersion decides afresh on every call: every exit has stored SelectedVersion in this call (nil only for an empty version list), so the last-resort stage is not conditional on an earlier selection. " +
			"(R10) GetIdentifierAndVersion and GetVersionedPath use their path parameter only as the argument of path.Split, and the version pattern is searched in the file-name part: directory names never take part in the conversion. " +
			"(R11) addResource assigns the given index to the resource on every path before it adds the version (an existing resource follows the index it was last defined by). " +
			"(R12) every success return of GetFile is preceded by marking the file's version active; (R13) fileVersionRegex is rawVersionRegex with '_v' in front and '-' for '.' (the two patterns describe the same versions). " +
			"NOT decided: correctness over all version multisets, semantic-version ordering, the file-name regexes.",
		Rules: []ruleFn{c19R1, c19R2, c19R3, c19R4, c19R5,
			lockRuleFor("C19-R6", 20, []string{"updater"}, []string{}, map[string]string{"updater.(*RegistryState).StartOperation / s.operationLock": "StartOperation/EndOperation bracket an updater operation; EndOperation releases operationLock"}),
			c19R7,
			repoErrRuleFor("C19-R8", 30, func(c *Ctx, fn *ssa.Function) bool { return short(fn.Pkg.Pkg.Path()) == "updater" }, map[string]string{"updater.(*ResourceRegistry).fetchFile / utils/renameio.PendingFile.Cleanup": "deferred removal of the temp file is best effort; the temp dir is purged later"}),
			c19R9, c19R10, c19R11, c19R12, c19R13},
	})
}

const rvOwner = "updater.ResourceVersion"

func c19R1(c *Ctx, r *Report) {
	const rule = "C19-R1"
	r.SetFloor(rule, 1)
	fn := c.Func("updater.(*ResourceVersion).isSelectable")
	if fn == nil {
		r.Undecided(rule, "updater.(*ResourceVersion).isSelectable", "anchor function missing")
		return
	}
	var bad []string
	for bits := 0; bits < 32; bits++ {
		bl, av, on, idx, ad := bits&1 != 0, bits&2 != 0, bits&4 != 0, bits&8 != 0, bits&16 != 0
		it := &Interp{Fn: fn, Outcome: retOutcome}
		it.Input = func(v ssa.Value) (AV, bool) {
			switch {
			case fieldLoadOf(v, rvOwner, "Blacklisted"):
				return avBool(bl), true
			case fieldLoadOf(v, rvOwner, "Available"):
				return avBool(av), true
			case fieldLoadOf(v, "updater.ResourceRegistry", "Online"):
				return avBool(on), true
			case fieldLoadOf(v, "updater.Resource", "Index"):
				if idx {
					return avSym("index"), true
				}
				return AV{K: KNil}, true
			case fieldLoadOf(v, "updater.Index", "AutoDownload"):
				return avBool(ad), true
			}
			return AV{}, false
		}
		it.Run()
		ls := strings.Join(outcomeLabels(it.Outcomes), "|")
		want := !bl && (av || (on && idx && ad))
		if ls != fmt.Sprintf("ret(%v)", want) {
			bad = append(bad, fmt.Sprintf("blacklisted=%v available=%v online=%v index=%v autodownload=%v -> %s (expected %v)", bl, av, on, idx, ad, ls, want))
		}
	}
	r.Check(len(bad) == 0, rule, fnKey(fn)+" / truth table", "32 valuations: selectable iff not blacklisted and (available or downloadable)", strings.Join(firstN(bad, 4), "; "))
}

func c19R2(c *Ctx, r *Report) {
	const rule = "C19-R2"
	r.SetFloor(rule, 8)
	fn := c.Func("updater.(*Resource).selectVersion")
	if fn == nil {
		r.Undecided(rule, "updater.(*Resource).selectVersion", "anchor function missing")
		return
	}
	type atom struct {
		name string
		g    Guard
	}
	atoms := []atom{
		{"DevMode", fieldLoadGuard("DevMode", "updater.ResourceRegistry", "DevMode", true)},
		{"isDevVersion", Guard{Name: "version == 0.0.0", Truthy: true, Match: func(b ssa.Value) bool {
			call, ok := b.(*ssa.Call)
			if !ok || !strings.HasSuffix(calleeName(&call.Call), "Version.Equal") {
				return false
			}
			return vpath(call.Call.Args[1]) == "global:updater.devVersion"
		}}},
		{"Available", fieldLoadGuard("Available", rvOwner, "Available", true)},
		{"CurrentRelease", fieldLoadGuard("CurrentRelease", rvOwner, "CurrentRelease", true)},
		{"isSelectable", callGuard("isSelectable", true, "updater.ResourceVersion.isSelectable")},
		{"UsePreReleases", fieldLoadGuard("UsePreReleases", "updater.ResourceRegistry", "UsePreReleases", true)},
		{"!PreRelease", fieldLoadGuard("!PreRelease", rvOwner, "PreRelease", false)},
	}
	want := map[string]string{
		"DevMode,isDevVersion,Available": "1 dev version in dev mode",
		"CurrentRelease,isSelectable":    "2 current release",
		"isSelectable,UsePreReleases":    "3 newest selectable (pre-releases enabled)",
		"isSelectable,!PreRelease":       "4 newest selectable stable",
		"":                               "5 newest",
	}
	seen := map[string]ssa.Instruction{}
	k := 0
	var sorted []ssa.Instruction
	for _, ci := range callsIn(fn, "sort.Sort") {
		sorted = append(sorted, ci)
	}
	// the order the cascade relies on: newest first (Less(i,j) == version i is greater than version j)
	if less := c.Func("updater.(*Resource).Less"); less == nil {
		r.Undecided(rule, "updater.(*Resource).Less", "anchor function missing")
	} else {
		eachInstr(less, func(in ssa.Instruction) {
			ret, ok := in.(*ssa.Return)
			if !ok {
				return
			}
			okOrder := false
			idxOf := func(v ssa.Value) ssa.Value {
				// Versions[k].semVer
				for _, l := range c.Leaves(v) {
					if u, ok := l.(*ssa.UnOp); ok {
						if fa, ok := u.X.(*ssa.FieldAddr); ok {
							if u2, ok := fa.X.(*ssa.UnOp); ok {
								if ia, ok := u2.X.(*ssa.IndexAddr); ok {
									return ia.Index
								}
							}
						}
					}
				}
				return nil
			}
			if call, isCall := retVal(ret, 0).(*ssa.Call); isCall && len(call.Call.Args) == 2 {
				a, b := idxOf(call.Call.Args[0]), idxOf(call.Call.Args[1])
				pi, pj := ssa.Value(less.Params[1]), ssa.Value(less.Params[2])
				cn := calleeName(&call.Call)
				switch {
				case strings.HasSuffix(cn, "Version.GreaterThan"):
					okOrder = a == pi && b == pj
				case strings.HasSuffix(cn, "Version.LessThan"):
					okOrder = a == pj && b == pi
				}
			}
			r.Check(okOrder, rule, "updater.(*Resource).Less / newest version sorts first", "Less(i, j) is Versions[i] > Versions[j]",
				"the sort order is not 'newest first': 'newest selectable' and the Versions[0] fallback pick the oldest version", c.Pos(ret.Pos()))
		})
	}
	eachInstr(fn, func(in ssa.Instruction) {
		st, ok := in.(*ssa.Store)
		if !ok {
			return
		}
		fr, ok := fieldOfAddr(st.Addr)
		if !ok || fr.Owner != "updater.Resource" || fr.Name != "SelectedVersion" || isNilConst(st.Val) {
			return
		}
		k++
		var have []string
		for _, a := range atoms {
			if ReachAvoiding(fn, nil, st.Block(), []Guard{a.g}) == nil {
				have = append(have, a.name)
			}
		}
		key := strings.Join(have, ",")
		stage, ok := want[key]
		cons := fmt.Sprintf("%s / select #%d [%s]", fnKey(fn), k, key)
		if !ok {
			r.Bad(rule, cons, "a version is selected under the conditions ["+key+"], which is none of the documented stages (dev: DevMode+dev version+Available; current: CurrentRelease+selectable; pre: UsePreReleases+selectable; stable: !PreRelease+selectable; fallback: newest)", c.Pos(st.Pos()))
			return
		}
		if prev, dup := seen[key]; dup {
			r.Bad(rule, cons, "two selection sites for stage "+stage, c.Pos(prev.Pos()), c.Pos(st.Pos()))
			return
		}
		seen[key] = st
		r.OK(rule, cons, "stage "+stage)
		// which version: stage 1 = last element, stage 5 = first element, stages 2-4 = the loop element tested
		switch stage[:1] {
		case "5":
			okIdx := false
			for _, l := range c.Leaves(st.Val) {
				if u, ok := l.(*ssa.UnOp); ok {
					if ia, ok := u.X.(*ssa.IndexAddr); ok {
						if i, isC := constInt(ia.Index); isC && i == 0 {
							okIdx = true
						}
					}
				}
			}
			r.Check(okIdx, rule, cons+" / newest", "falls back to Versions[0] (newest after sorting)", "the fallback is not Versions[0]")
		}
		if len(sorted) > 0 {
			r.Check(MustPrecede(fn, func(x ssa.Instruction) bool { return x == sorted[0] }, st), rule, cons+" / after sort", "versions are sorted first", "selection before sorting")
		}
	})
	for key, stage := range want {
		if _, ok := seen[key]; !ok {
			r.Bad(rule, fmt.Sprintf("%s / stage %s", fnKey(fn), stage), "the selection stage '"+stage+"' with conditions ["+key+"] is missing")
		}
	}
	if len(sorted) == 0 {
		r.Bad(rule, fnKey(fn)+" / sort", "versions are not sorted before selection")
	}
	// stage order: representative tests
	rep := func(owner, field string) ssa.Instruction {
		var out ssa.Instruction
		eachInstr(fn, func(in ssa.Instruction) {
			if v, ok := in.(ssa.Value); ok && out == nil && fieldLoadOf(v, owner, field) {
				out = in
			}
		})
		return out
	}
	reps := []struct {
		name string
		in   ssa.Instruction
	}{
		{"dev mode", rep("updater.ResourceRegistry", "DevMode")},
		{"current release", rep(rvOwner, "CurrentRelease")},
		{"pre-releases", rep("updater.ResourceRegistry", "UsePreReleases")},
		{"stable", rep(rvOwner, "PreRelease")},
	}
	for i := 0; i+1 < len(reps); i++ {
		a, b := reps[i], reps[i+1]
		if a.in == nil || b.in == nil {
			continue
		}
		fwd := ReachInstr(fn, a.in, func(x ssa.Instruction) bool { return x == b.in }, nil) != nil
		back := ReachInstr(fn, b.in, func(x ssa.Instruction) bool { return x == a.in }, nil) != nil
		r.Check(fwd && !back, rule, fmt.Sprintf("%s / stage order %s before %s", fnKey(fn), a.name, b.name), "tested in the documented order", "the stage '"+b.name+"' is evaluated before '"+a.name+"'")
	}
}

func c19R3(c *Ctx, r *Report) {
	const rule = "C19-R3"
	r.SetFloor(rule, 4)
	fn := c.Func("updater.(*Resource).Blacklist")
	if fn == nil {
		r.Undecided(rule, "updater.(*Resource).Blacklist", "anchor function missing")
		return
	}
	notDev := Guard{Name: "not the dev version", Truthy: false, Match: func(b ssa.Value) bool {
		call, ok := b.(*ssa.Call)
		return ok && strings.HasSuffix(calleeName(&call.Call), "Version.Equal") && vpath(call.Call.Args[1]) == "global:updater.devVersion"
	}}
	notBl := fieldLoadGuard("!Blacklisted", rvOwner, "Blacklisted", false)
	// the counter of remaining valid versions is the value compared with 1; its increments are the ADD leaves of that value
	n := 0
	var counter ssa.Value
	eachInstr(fn, func(in ssa.Instruction) {
		bo, ok := in.(*ssa.BinOp)
		if !ok || (bo.Op != token.LEQ && bo.Op != token.GTR && bo.Op != token.LSS && bo.Op != token.GEQ) {
			return
		}
		if v, isC := constInt(bo.Y); !isC || (v != 1 && v != 2) {
			return
		}
		if _, isPhi := bo.X.(*ssa.Phi); isPhi {
			counter = bo.X
		}
	})
	if counter != nil {
		for _, l := range c.Leaves(counter) {
			inc, ok := l.(*ssa.BinOp)
			if !ok || inc.Op != token.ADD {
				continue
			}
			n++
			c.RequireGuards(r, rule, fmt.Sprintf("%s / count valid version #%d", fnKey(fn), n), fn, inc, notDev, notBl)
		}
	}
	if n == 0 {
		r.Undecided(rule, fnKey(fn), "no counter of remaining valid versions found")
	}
	enough := Guard{Name: "more than one valid version", Truthy: false, Match: func(b ssa.Value) bool {
		bo, ok := b.(*ssa.BinOp)
		if !ok || bo.Op != token.LEQ {
			return false
		}
		v, isC := constInt(bo.Y)
		return isC && v == 1 && (counter == nil || bo.X == counter)
	}}
	enough2 := Guard{Name: "more than one valid version", Truthy: true, Match: func(b ssa.Value) bool {
		bo, ok := b.(*ssa.BinOp)
		if !ok || bo.Op != token.GTR {
			return false
		}
		v, isC := constInt(bo.Y)
		return isC && v == 1 && (counter == nil || bo.X == counter)
	}}
	k := 0
	eachInstr(fn, func(in ssa.Instruction) {
		st, ok := in.(*ssa.Store)
		if !ok {
			return
		}
		fr, ok := fieldOfAddr(st.Addr)
		if !ok || fr.Owner != rvOwner || fr.Name != "Blacklisted" {
			return
		}
		k++
		p := ReachTargetAvoiding(fn, st, []Guard{enough, enough2}, nil)
		r.Check(p == nil, rule, fmt.Sprintf("%s / set Blacklisted #%d", fnKey(fn), k), "a version is blacklisted only if more than one valid version remains", "the last non-blacklisted version can be blacklisted", c.pathString(p)...)
		r.Check(MustFollow(fn, st, isCallInstrTo("updater.Resource.selectVersion")), rule, fmt.Sprintf("%s / re-select after blacklisting #%d", fnKey(fn), k), "selection is re-run after blacklisting", "the selected version is not recomputed after blacklisting")
	})
	if k == 0 {
		r.Bad(rule, fnKey(fn)+" / set Blacklisted", "Blacklist never marks a version")
	}
	// Blacklisted is set nowhere else to true
	for _, s := range c.StoresTo(rvOwner, "Blacklisted") {
		if fnKey(s.Fn) != fnKey(fn) {
			if b, isC := constBool(s.Instr.(*ssa.Store).Val); isC && b {
				r.Bad(rule, fnKey(s.Fn)+" / set Blacklisted", "a version is blacklisted outside Resource.Blacklist (bypassing the last-version guard)", c.Pos(s.Instr.Pos()))
			}
		}
	}
}

func c19R4(c *Ctx, r *Report) {
	const rule = "C19-R4"
	r.SetFloor(rule, 5)
	fn := c.Func("updater.(*Resource).Purge")
	if fn == nil {
		r.Undecided(rule, "updater.(*Resource).Purge", "anchor function missing")
		return
	}
	// kept slice
	var kept *ssa.Slice
	eachInstr(fn, func(in ssa.Instruction) {
		st, ok := in.(*ssa.Store)
		if !ok {
			return
		}
		fr, ok := fieldOfAddr(st.Addr)
		if !ok || fr.Owner != "updater.Resource" || fr.Name != "Versions" {
			return
		}
		if sl, ok := st.Val.(*ssa.Slice); ok {
			kept = sl
		}
	})
	// ranged-for-removal slice: a Slice of Versions with Low set that is iterated (its elements reach os.Remove)
	var removed *ssa.Slice
	eachInstr(fn, func(in ssa.Instruction) {
		sl, ok := in.(*ssa.Slice)
		if !ok || !fieldLoadOf(sl.X, "updater.Resource", "Versions") || sl == kept {
			return
		}
		removed = sl
	})
	// where the removal starts: Versions[b:] ranged over, or an index loop over Versions that starts at b
	var removedLow ssa.Value
	removedHighOpen := true
	if removed != nil {
		removedLow, removedHighOpen = removed.Low, removed.High == nil
	} else {
		eachInstr(fn, func(in ssa.Instruction) {
			ia, ok := in.(*ssa.IndexAddr)
			if !ok || !fieldLoadOf(ia.X, "updater.Resource", "Versions") {
				return
			}
			if ph, ok := ia.Index.(*ssa.Phi); ok {
				for i, e := range ph.Edges {
					// the edge entering the loop from outside carries the start index
					if bo, isAdd := e.(*ssa.BinOp); isAdd && bo.Op == token.ADD && (bo.X == ssa.Value(ph) || bo.Y == ssa.Value(ph)) {
						continue
					}
					_ = i
					removedLow = e
				}
			}
		})
	}
	if kept == nil || removedLow == nil {
		r.Undecided(rule, fnKey(fn)+" / bookkeeping", "could not identify both the kept head Versions[:b] and the start of the purged tail (range over Versions[b:] or index loop from b)")
	} else {
		same := kept.High == removedLow
		if !same && kept.High != nil {
			a, okA := constInt(kept.High)
			b, okB := constInt(removedLow)
			same = okA && okB && a == b
		}
		okKeep := kept.Low == nil && kept.High != nil && removedHighOpen && same
		r.Check(okKeep, rule, fnKey(fn)+" / kept versus purged entries", "files of Versions[boundary:] are removed and Versions[:boundary] is kept",
			fmt.Sprintf("the entries kept (Versions[%s:%s]) are not the complement of the entries purged (from index %s on): the resource lists versions whose files were just deleted", valStr(kept.Low), valStr(kept.High), valStr(removedLow)))
	}
	// stable predicate = PreRelease flag (sibling: selectVersion stage 4)
	usesFlag := funcHas(fn, 0, func(in ssa.Instruction) bool {
		v, ok := in.(ssa.Value)
		return ok && fieldLoadOf(v, rvOwner, "PreRelease")
	})
	usesSemver := funcHas(fn, 0, func(in ssa.Instruction) bool {
		ci, ok := in.(*ssa.Call)
		return ok && strings.HasSuffix(calleeName(&ci.Call), "Version.Prerelease")
	})
	r.Check(usesFlag && !usesSemver, rule, fnKey(fn)+" / stable version predicate", "the newest stable version to keep is recognised by the PreRelease flag, like in selectVersion",
		"Purge recognises 'stable' differently from selectVersion (not by the PreRelease flag): the version the selection falls back to can be purged")
	// keepExtra floor
	{
		var bad []string
		for _, kx := range []int64{-3, 0, 1, 2, 5} {
			it := &Interp{Fn: fn}
			it.Input = func(v ssa.Value) (AV, bool) {
				if p, ok := v.(*ssa.Parameter); ok && p.Name() == "keepExtra" {
					return avInt(kx), true
				}
				return AV{}, false
			}
			it.Outcome = func(in ssa.Instruction, ev func(ssa.Value) AV) string {
				if bo, ok := in.(*ssa.BinOp); ok && bo.Op == token.ADD {
					for _, side := range []ssa.Value{bo.X, bo.Y} {
						for _, l := range c.Leaves(side) {
							if p, ok := l.(*ssa.Parameter); ok && p.Name() == "keepExtra" {
								return "keep(" + ev(side).String() + ")"
							}
						}
					}
				}
				return ""
			}
			it.MaxStates = 20000
			it.Run()
			for _, l := range outcomeLabels(it.Outcomes) {
				want := kx
				if want < 2 {
					want = 2
				}
				if l != fmt.Sprintf("keep(%d)", want) {
					bad = append(bad, fmt.Sprintf("keepExtra=%d -> %s", kx, l))
				}
			}
		}
		r.Check(len(bad) == 0, rule, fnKey(fn)+" / keepExtra floor", "at least 2 extra versions are kept", strings.Join(uniq(bad), "; "))
	}
	// blacklist pause: the Blacklisted test precedes every removal
	isBlTest := func(in ssa.Instruction) bool {
		v, ok := in.(ssa.Value)
		return ok && fieldLoadOf(v, rvOwner, "Blacklisted")
	}
	for i, rm := range callsIn(fn, "os.Remove", "os.RemoveAll") {
		var blTest ssa.Instruction
		eachInstr(fn, func(x ssa.Instruction) {
			if blTest == nil && isBlTest(x) {
				blTest = x
			}
		})
		okPause := blTest != nil && ReachInstr(fn, blTest, func(x ssa.Instruction) bool { return x == ssa.Instruction(rm) }, nil) != nil && ReachInstr(fn, rm, isBlTest, nil) == nil
		r.Check(okPause, rule, fmt.Sprintf("%s / remove #%d after blacklist check", fnKey(fn), i+1), "the blacklist pause check runs before the removal phase", "files are removed without (or before) the blacklist pause check")
		// only available versions' files
		c.RequireGuards(r, rule, fmt.Sprintf("%s / remove #%d", fnKey(fn), i+1), fn, rm, fieldLoadGuard("Available", rvOwner, "Available", true))
	}
}

func c19R5(c *Ctx, r *Report) {
	const rule = "C19-R5"
	r.SetFloor(rule, 1)
	n := 0
	for _, fn := range c.FuncsIn("updater") {
		eachInstr(fn, func(in ssa.Instruction) {
			mu, ok := in.(*ssa.MapUpdate)
			if !ok {
				return
			}
			n++
			leaves := c.Leaves(mu.Map)
			allNil := len(leaves) > 0
			for _, l := range leaves {
				if !isNilConst(l) {
					allNil = false
				}
			}
			if len(leaves) == 0 {
				allNil = false
			}
			// a named result map that is only ever zero-initialised shows up as an Alloc with no stores
			if al, ok := mu.Map.(*ssa.UnOp); ok {
				if a, ok := al.X.(*ssa.Alloc); ok && len(allocStores(a)) == 0 {
					allNil = true
				}
			}
			if allNil {
				r.Bad(rule, fmt.Sprintf("%s / write to map %s", fnKey(fn), vpath(mu.Map)), "assignment to an entry of a map that is never made (definitely nil): the call panics", c.Pos(mu.Pos()))
			}
		})
	}
	r.OK(rule, "updater / map writes", fmt.Sprintf("%d map writes examined, none to a definitely-nil map", n))
}

// c19R7: the current-release flag is unique.
func c19R7(c *Ctx, r *Report) {
	const rule = "C19-R7"
	r.SetFloor(rule, 2)
	const owner = "updater.ResourceVersion"
	sets := 0
	for _, site := range c.StoresTo(owner, "CurrentRelease") {
		st := site.Instr.(*ssa.Store)
		if b, isC := constBool(st.Val); isC && !b {
			continue
		}
		sets++
		fn := site.Fn
		cons := fmt.Sprintf("%s / CurrentRelease set", fnKey(fn))
		// complete reset loops of fn
		type loop struct {
			header *ssa.BasicBlock
			done   *ssa.BasicBlock
		}
		var loops []loop
		for _, h := range fn.Blocks {
			// a range loop over the version list: go/ssa lowers ranges over slices to an index loop
			if len(h.Instrs) == 0 || len(h.Succs) != 2 {
				continue
			}
			ifi, ok := h.Instrs[len(h.Instrs)-1].(*ssa.If)
			if !ok {
				continue
			}
			overVersions := false
			if h.Comment == "rangeindex.loop" {
				if bo, ok := ifi.Cond.(*ssa.BinOp); ok && bo.Op == token.LSS {
					if ln, ok := bo.Y.(*ssa.Call); ok && calleeName(&ln.Call) == "builtin.len" && strings.HasSuffix(vpath(ln.Call.Args[0]), ".Versions") {
						overVersions = true
					}
				}
			}
			if !overVersions {
				continue
			}
			first := h.Instrs[0]
			body, done := h.Succs[0], h.Succs[1]
			// loop set: reachable from body without passing the header, and able to reach the header
			fwd := map[*ssa.BasicBlock]bool{}
			var dfs func(b *ssa.BasicBlock)
			dfs = func(b *ssa.BasicBlock) {
				if b == h || fwd[b] {
					return
				}
				fwd[b] = true
				for _, s := range b.Succs {
					dfs(s)
				}
			}
			dfs(body)
			reaches := map[*ssa.BasicBlock]bool{h: true}
			for changed := true; changed; {
				changed = false
				for b := range fwd {
					if reaches[b] {
						continue
					}
					for _, s := range b.Succs {
						if reaches[s] {
							reaches[b] = true
							changed = true
						}
					}
				}
			}
			complete := true
			for b := range fwd {
				if !reaches[b] {
					complete = false // a block inside the iteration that never returns to the header: break/return
				}
			}
			// the flag is cleared in every iteration
			isClear := func(x ssa.Instruction) bool {
				s2, ok := x.(*ssa.Store)
				if !ok {
					return false
				}
				fr, ok := fieldOfAddr(s2.Addr)
				if !ok || fr.Owner != owner || fr.Name != "CurrentRelease" {
					return false
				}
				b, isC := constBool(s2.Val)
				return isC && !b
			}
			isNext := func(x ssa.Instruction) bool { return x == first }
			if reachFromBlockStart(fn, body, isNext, nil, isClear) != nil {
				complete = false
			}
			if complete {
				loops = append(loops, loop{h, done})
			}
		}
		// search: entry -> store, avoiding the done edge of a complete reset loop and edges on which a bool parameter the stored value depends on is false
		// parameters the store is conditional on (the store is reachable only where they are true)
		controlling := map[*ssa.Parameter]bool{}
		for _, p := range fn.Params {
			p := p
			if bt, ok := p.Type().Underlying().(*types.Basic); !ok || bt.Kind() != types.Bool {
				continue
			}
			g := Guard{Name: p.Name(), Truthy: true, Match: func(b ssa.Value) bool { return b == ssa.Value(p) }}
			if ReachAvoiding(fn, nil, st.Block(), []Guard{g}) == nil {
				controlling[p] = true
			}
		}
		isFalseParamEdge := func(b *ssa.BasicBlock, si int) bool {
			ifi, ok := b.Instrs[len(b.Instrs)-1].(*ssa.If)
			if !ok {
				return false
			}
			base, pos := peel(ifi.Cond)
			par, isParam := base.(*ssa.Parameter)
			if !isParam || !controlling[par] {
				return false
			}
			// edge si==0 is taken when cond is true, i.e. base == pos
			baseTrue := (si == 0) == pos
			return !baseTrue
		}
		seen := map[*ssa.BasicBlock]bool{fn.Blocks[0]: true}
		queue := []*ssa.BasicBlock{fn.Blocks[0]}
		prev := map[*ssa.BasicBlock]*ssa.BasicBlock{}
		var hit *ssa.BasicBlock
		for len(queue) > 0 && hit == nil {
			b := queue[0]
			queue = queue[1:]
			if b == st.Block() {
				hit = b
				break
			}
			for si, s := range b.Succs {
				skip := false
				for _, l := range loops {
					if b == l.header && s == l.done && si == 1 {
						skip = true
					}
				}
				if len(b.Succs) == 2 && isFalseParamEdge(b, si) {
					skip = true
				}
				if skip || seen[s] {
					continue
				}
				seen[s] = true
				prev[s] = b
				queue = append(queue, s)
			}
		}
		var path []*ssa.BasicBlock
		for x := hit; x != nil; x = prev[x] {
			path = append([]*ssa.BasicBlock{x}, path...)
		}
		r.Check(hit == nil, rule, cons+" only after all versions were reset",
			fmt.Sprintf("preceded by a complete reset loop (%d found) on every path on which the flag parameters are true", len(loops)),
			"a version can be marked current release without the flag having been cleared on every other version (reset loop missing, conditional, or left early): two versions carry the flag and the newer stale one is selected", append([]string{c.Pos(st.Pos())}, c.pathString(path)...)...)
	}
	if sets == 0 {
		r.Undecided(rule, owner+".CurrentRelease", "the flag is never set")
	}
	// the flag is only written in AddVersion (who-may-write)
	for _, site := range c.StoresTo(owner, "CurrentRelease") {
		r.Check(fnKey(site.Fn) == "updater.(*Resource).AddVersion", rule, fnKey(site.Fn)+" / writes CurrentRelease", "written by AddVersion only", "CurrentRelease is written outside AddVersion", c.Pos(site.Instr.Pos()))
	}
}

func c19R9(c *Ctx, r *Report) {
	const rule = "C19-R9"
	r.SetFloor(rule, 1)
	fn := c.Func("updater.(*Resource).selectVersion")
	if fn == nil {
		r.Undecided(rule, "updater.(*Resource).selectVersion", "anchor function missing")
		return
	}
	isSel := func(in ssa.Instruction) bool {
		st, ok := in.(*ssa.Store)
		if !ok {
			return false
		}
		fr, ok := fieldOfAddr(st.Addr)
		return ok && fr.Owner == "updater.Resource" && fr.Name == "SelectedVersion"
	}
	p := ReachFromAvoiding(fn, nil, isExit, nil, isSel)
	r.Check(p == nil, rule, "updater.(*Resource).selectVersion / every exit has stored the selection", "SelectedVersion is (re)assigned on every path",
		"selectVersion can return without assigning SelectedVersion: a selection made under earlier registry flags survives, so the selected version depends on history instead of the documented order", c.pathString(p)...)
}
