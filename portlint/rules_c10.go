package main

import (
	"fmt"
	"go/constant"
	"go/token"
	"go/types"
	"math/big"
	"strings"

	"golang.org/x/tools/go/ssa"
)

func init() {
	register(&propDef{
		ID: "C10",
		Explanation: "Decides structural necessary conditions of varint exactness: " +
			"(R1) on every success path of Unpack8 the reported byte count covers the highest index read and the first byte is what is returned; " +
			"(R2) exhaustive decision tables of Unpack16/32/64 over representatives of binary.Uvarint's result (value around the width limit x count <0/0/>0): error exactly for overflow, empty input and too-large values, otherwise the decoded value with Uvarint's count; Pack buffers hold ceil(bits/7) bytes and Pack8's two forms; " +
			"(R3) EncodedSize equals ceil(bitlength/7) at every 7-bit boundary (finite-valuation propagation over boundary representatives); " +
			"(R4) GetNextBlock bounds the decoded length in the unsigned domain, with the prefix length accounted for, before it is converted, and returns data[n:n+l] with count n+l; PrependLength prefixes len(data). " +
			"(R5) narrowing integer conversions in package varint happen only after a range test of the value. " +
			"(R6) every result of PrependLength is built from Pack64(len(data)): no path returns the bare input (an empty block must still carry its zero length prefix to be readable by GetNextBlock). " +
			"(R7) the container's callers of the varint codec keep its contract (= C16-R3 block-size decision table, C16-R4 peek windows of the GetNextN* readers cover the longest encoding of their width). " +
			"NOT decided: value exactness of encoding/binary itself, inverse property for all values (arithmetic).",
		Rules: []ruleFn{c10R1, c10R2, c10R3, c10R4,
			func(c *Ctx, r *Report) { narrowingRule(c, r, "C10-R5", []string{"formats/varint"}, map[string]string{}) }, c10R6,
			borrowRule(c16R3, "C16-R3", "C10-R7", 2, nil), borrowRule(c16R4, "C16-R4", "C10-R7", 4, nil)},
	})
}

func avBig(s string) AV {
	b, _ := new(big.Int).SetString(s, 10)
	return AV{K: KConst, C: constant.Make(b)}
}

func c10R1(c *Ctx, r *Report) {
	const rule = "C10-R1"
	r.SetFloor(rule, 2)
	fn := c.Func("formats/varint.Unpack8")
	if fn == nil {
		r.Undecided(rule, "formats/varint.Unpack8", "anchor function missing")
		return
	}
	blob := fn.Params[0]
	// paths with index reads; at success returns compare the count
	type info struct{ maxIdx int64 }
	var bad []string
	nSucc := 0
	var walk func(b *ssa.BasicBlock, maxIdx int64, onPath map[*ssa.BasicBlock]bool)
	walk = func(b *ssa.BasicBlock, maxIdx int64, onPath map[*ssa.BasicBlock]bool) {
		if onPath[b] {
			return
		}
		onPath[b] = true
		defer delete(onPath, b)
		for _, in := range b.Instrs {
			if ia, ok := in.(*ssa.IndexAddr); ok && ia.X == ssa.Value(blob) {
				if k, isC := constInt(ia.Index); isC && k > maxIdx {
					maxIdx = k
				}
			}
			if ret, ok := in.(*ssa.Return); ok {
				if isNilConst(retVal(ret, 2)) {
					nSucc++
					cnt, isC := constInt(retVal(ret, 1))
					if !isC || cnt < maxIdx+1 {
						bad = append(bad, fmt.Sprintf("a success path reads blob[%d] but reports %v consumed bytes (%s)", maxIdx, valStr(retVal(ret, 1)), c.Pos(ret.Pos())))
					}
					if isC && cnt > maxIdx+1 {
						bad = append(bad, fmt.Sprintf("a success path reports %d consumed bytes but only looked at %d", cnt, maxIdx+1))
					}
					// value = blob[0]
					okV := false
					if u, ok := retVal(ret, 0).(*ssa.UnOp); ok {
						if ia, ok := u.X.(*ssa.IndexAddr); ok && ia.X == ssa.Value(blob) {
							if k, isC := constInt(ia.Index); isC && k == 0 {
								okV = true
							}
						}
					}
					if !okV {
						bad = append(bad, "a success path does not return blob[0] as the value")
					}
				}
				return
			}
		}
		for _, s := range b.Succs {
			walk(s, maxIdx, onPath)
		}
	}
	walk(fn.Blocks[0], -1, map[*ssa.BasicBlock]bool{})
	r.Check(len(bad) == 0 && nSucc >= 2, rule, fnKey(fn)+" / reported length covers what was read", fmt.Sprintf("%d success paths: count == highest index read + 1, value == blob[0]", nSucc), strings.Join(uniq(bad), "; "))
	// index guards and second-byte test
	eachInstr(fn, func(in ssa.Instruction) {
		ia, ok := in.(*ssa.IndexAddr)
		if !ok || ia.X != ssa.Value(blob) {
			return
		}
		k, isC := constInt(ia.Index)
		if !isC {
			return
		}
		p := ReachTargetAvoiding(fn, ia, lenGuardsFull(blob, k+1), nil)
		if p != nil && minLenAt(fn, blob, ia, k+1) >= k+1 {
			p = nil
		}
		r.Check(p == nil, rule, fmt.Sprintf("%s / blob[%d] guarded", fnKey(fn), k), fmt.Sprintf("dominated by a test implying len(blob) >= %d", k+1), "index read without a sufficient length test", c.pathString(p)...)
	})
	// two-byte form accepted only with second byte == 1 and first byte >= 128
	var bad2 []string
	for _, b0 := range []int64{0, 127, 128, 255} {
		for _, b1 := range []int64{0, 1, 2, 127, 128} {
			for _, ln := range []int64{0, 1, 2, 3} {
				it := &Interp{Fn: fn}
				it.Input = func(v ssa.Value) (AV, bool) {
					if call, ok := v.(*ssa.Call); ok && calleeName(&call.Call) == "builtin.len" {
						return avInt(ln), true
					}
					if u, ok := v.(*ssa.UnOp); ok && u.Op == token.MUL {
						if ia, ok := u.X.(*ssa.IndexAddr); ok && ia.X == ssa.Value(blob) {
							if k, isC := constInt(ia.Index); isC {
								if k == 0 {
									return avInt(b0), true
								}
								return avInt(b1), true
							}
						}
					}
					return AV{}, false
				}
				it.Outcome = func(in ssa.Instruction, ev func(ssa.Value) AV) string {
					if ret, ok := in.(*ssa.Return); ok {
						if ev(ret.Results[2]).K == KNil {
							return fmt.Sprintf("ok(%s,%s)", ev(ret.Results[0]), ev(ret.Results[1]))
						}
						return "error"
					}
					return ""
				}
				it.Run()
				ls := strings.Join(outcomeLabels(it.Outcomes), "|")
				want := "error"
				switch {
				case ln >= 1 && b0 < 128:
					want = fmt.Sprintf("ok(%d,1)", b0)
				case ln >= 2 && b0 >= 128 && b1 == 1:
					want = fmt.Sprintf("ok(%d,2)", b0)
				}
				if ls != want {
					bad2 = append(bad2, fmt.Sprintf("len=%d b0=%d b1=%d -> %s (expected %s)", ln, b0, b1, ls, want))
				}
			}
		}
	}
	r.Check(len(bad2) == 0, rule, fnKey(fn)+" / decision table", "80 valuations of (len, first byte, second byte): one-byte form below 128, two-byte form only with continuation byte 1, else error", strings.Join(firstN(uniq(bad2), 4), "; "))
}

func c10R2(c *Ctx, r *Report) { unpackWidthRule(c, r, "C10-R2") }

// unpackWidthRule is shared with C16-R8: the container's number and length-prefix
// getters inherit "oversized values are errors" from the width checks of UnpackN.
func unpackWidthRule(c *Ctx, r *Report, rule string) {
	r.SetFloor(rule, 7)
	for _, t := range []struct {
		fn  string
		max string
	}{{"Unpack16", "65535"}, {"Unpack32", "4294967295"}, {"Unpack64", "18446744073709551615"}} {
		fn := c.Func("formats/varint." + t.fn)
		if fn == nil {
			r.Undecided(rule, "formats/varint."+t.fn, "anchor function missing")
			continue
		}
		maxB, _ := new(big.Int).SetString(t.max, 10)
		vals := []*big.Int{big.NewInt(0), big.NewInt(1), new(big.Int).Sub(maxB, big.NewInt(1)), maxB}
		if t.fn != "Unpack64" {
			vals = append(vals, new(big.Int).Add(maxB, big.NewInt(1)), new(big.Int).Add(maxB, big.NewInt(2)), new(big.Int).Lsh(big.NewInt(1), 63))
		}
		var bad []string
		n := 0
		for _, v := range vals {
			for _, cnt := range []int64{-3, -1, 0, 1, 2, 10} {
				it := &Interp{Fn: fn}
				it.Input = func(x ssa.Value) (AV, bool) {
					if ex, ok := x.(*ssa.Extract); ok {
						if call, ok := ex.Tuple.(*ssa.Call); ok && calleeName(&call.Call) == "encoding/binary.Uvarint" {
							if ex.Index == 0 {
								return AV{K: KConst, C: constant.Make(v)}, true
							}
							return avInt(cnt), true
						}
					}
					return AV{}, false
				}
				it.Outcome = func(in ssa.Instruction, ev func(ssa.Value) AV) string {
					if ret, ok := in.(*ssa.Return); ok {
						if ev(ret.Results[2]).K == KNil {
							return fmt.Sprintf("ok(%s,%s)", ev(ret.Results[0]), ev(ret.Results[1]))
						}
						return "error"
					}
					return ""
				}
				if !it.Run() {
					r.Undecided(rule, fnKey(fn), "state budget exceeded")
					return
				}
				n++
				ls := strings.Join(outcomeLabels(it.Outcomes), "|")
				want := "error"
				if cnt > 0 && v.Cmp(maxB) <= 0 {
					want = fmt.Sprintf("ok(%s,%d)", v.String(), cnt)
				}
				if ls != want {
					bad = append(bad, fmt.Sprintf("Uvarint=(%s,%d) -> %s (expected %s)", v.String(), cnt, ls, want))
				}
			}
		}
		r.Check(len(bad) == 0, rule, fnKey(fn)+" / decision table", fmt.Sprintf("%d valuations: error for empty/overflowing input and values above %s, otherwise (value, Uvarint's count)", n, t.max), strings.Join(firstN(uniq(bad), 4), "; "))
		// the input handed to Uvarint is the whole blob
		for _, ci := range callsIn(fn, "encoding/binary.Uvarint") {
			r.Check(ci.Common().Args[0] == ssa.Value(fn.Params[0]), rule, fnKey(fn)+" / decodes its argument", "Uvarint is applied to the given blob", "Uvarint is applied to something else than the argument")
		}
	}
	// Pack buffers
	for _, t := range []struct {
		fn   string
		need int64
	}{{"Pack16", 3}, {"Pack32", 5}, {"Pack64", 10}} {
		fn := c.Func("formats/varint." + t.fn)
		if fn == nil {
			r.Undecided(rule, "formats/varint."+t.fn, "anchor function missing")
			continue
		}
		ok := false
		detail := "no buffer allocation found"
		eachInstr(fn, func(in ssa.Instruction) {
			switch x := in.(type) {
			case *ssa.MakeSlice:
				if k, isC := constInt(x.Len); isC {
					ok = k >= t.need
					detail = fmt.Sprintf("buffer of %d bytes", k)
				}
			case *ssa.Alloc:
				if at, isArr := x.Type().Underlying().(*types.Pointer).Elem().Underlying().(*types.Array); isArr {
					ok = at.Len() >= t.need
					detail = fmt.Sprintf("buffer of %d bytes", at.Len())
				}
			}
		})
		r.Check(ok, rule, fnKey(fn)+" / buffer size", fmt.Sprintf("%s (>= %d needed)", detail, t.need), fmt.Sprintf("%s, but the widest value needs %d bytes: PutUvarint panics", detail, t.need))
		// returns buf[:w] with w from PutUvarint of the (converted) argument
		okRet := false
		eachInstr(fn, func(in ssa.Instruction) {
			if ret, isRet := in.(*ssa.Return); isRet {
				if sl, isSl := retVal(ret, 0).(*ssa.Slice); isSl && sl.Low == nil && sl.High != nil {
					if _, isPut := isCallTo(sl.High, "encoding/binary.PutUvarint"); isPut {
						okRet = true
					}
				}
			}
		})
		r.Check(okRet, rule, fnKey(fn)+" / returns exactly the written bytes", "returns buf[:PutUvarint(...)]", "the returned slice is not cut to the number of bytes PutUvarint wrote")
		for _, ci := range callsIn(fn, "encoding/binary.PutUvarint") {
			o := c.Origins(ci.Common().Args[1])
			r.Check(onlyOrigins(o, "param:n"), rule, fnKey(fn)+" / encodes its argument", "PutUvarint encodes n", fmt.Sprintf("PutUvarint encodes %v", o))
		}
	}
	// Pack8
	if fn := c.Func("formats/varint.Pack8"); fn == nil {
		r.Undecided(rule, "formats/varint.Pack8", "anchor function missing")
	} else {
		var bad []string
		for _, n := range []int64{0, 1, 127, 128, 200, 255} {
			it := &Interp{Fn: fn}
			it.Input = func(x ssa.Value) (AV, bool) {
				if x == ssa.Value(fn.Params[0]) {
					return avInt(n), true
				}
				return AV{}, false
			}
			it.Outcome = func(in ssa.Instruction, ev func(ssa.Value) AV) string {
				ret, ok := in.(*ssa.Return)
				if !ok {
					return ""
				}
				sl, ok := ret.Results[0].(*ssa.Slice)
				if !ok {
					return "?"
				}
				al, ok := sl.X.(*ssa.Alloc)
				if !ok {
					return "?"
				}
				at := al.Type().Underlying().(*types.Pointer).Elem().Underlying().(*types.Array)
				var parts []string
				for i := int64(0); i < at.Len(); i++ {
					val := "?"
					for _, ref := range *al.Referrers() {
						if ia, ok := ref.(*ssa.IndexAddr); ok {
							if k, isC := constInt(ia.Index); isC && k == i {
								for _, rr := range *ia.Referrers() {
									if st, ok := rr.(*ssa.Store); ok {
										val = ev(st.Val).String()
									}
								}
							}
						}
					}
					parts = append(parts, val)
				}
				return "[" + strings.Join(parts, ",") + "]"
			}
			it.Run()
			ls := strings.Join(outcomeLabels(it.Outcomes), "|")
			want := fmt.Sprintf("[%d]", n)
			if n >= 128 {
				want = fmt.Sprintf("[%d,1]", n)
			}
			if ls != want {
				bad = append(bad, fmt.Sprintf("Pack8(%d) -> %s (expected %s)", n, ls, want))
			}
		}
		r.Check(len(bad) == 0, rule, fnKey(fn)+" / encoding table", "one byte below 128, otherwise [n, 1]", strings.Join(bad, "; "))
	}
}

func c10R3(c *Ctx, r *Report) {
	const rule = "C10-R3"
	r.SetFloor(rule, 1)
	fn := c.Func("formats/varint.EncodedSize")
	if fn == nil {
		r.Undecided(rule, "formats/varint.EncodedSize", "anchor function missing")
		return
	}
	var bad []string
	n := 0
	var vals []*big.Int
	vals = append(vals, big.NewInt(0), big.NewInt(1))
	for k := uint(1); k <= 9; k++ {
		b := new(big.Int).Lsh(big.NewInt(1), 7*k)
		vals = append(vals, new(big.Int).Sub(b, big.NewInt(1)), b, new(big.Int).Add(b, big.NewInt(1)))
	}
	vals = append(vals, new(big.Int).Sub(new(big.Int).Lsh(big.NewInt(1), 64), big.NewInt(1)))
	for _, v := range vals {
		it := &Interp{Fn: fn}
		it.Input = func(x ssa.Value) (AV, bool) {
			if x == ssa.Value(fn.Params[0]) {
				return AV{K: KConst, C: constant.Make(v)}, true
			}
			return AV{}, false
		}
		it.Outcome = retOutcome
		it.Run()
		n++
		want := (v.BitLen() + 6) / 7
		if want == 0 {
			want = 1
		}
		ls := strings.Join(outcomeLabels(it.Outcomes), "|")
		if ls != fmt.Sprintf("ret(%d)", want) {
			bad = append(bad, fmt.Sprintf("EncodedSize(%s) -> %s (expected %d)", v.String(), ls, want))
		}
	}
	r.Check(len(bad) == 0, rule, fnKey(fn)+" / size table", fmt.Sprintf("%d boundary representatives: size == ceil(bitlen/7)", n), strings.Join(firstN(bad, 4), "; "))
}

func c10R4(c *Ctx, r *Report) { blockReaderRule(c, r, "C10-R4") }

// blockReaderRule is shared by C10-R4, C08-R5 and C16-R3.
func blockReaderRule(c *Ctx, r *Report, rule string) {
	r.SetFloor(rule, 4)
	fn := c.Func("formats/varint.GetNextBlock")
	if fn == nil {
		r.Undecided(rule, "formats/varint.GetNextBlock", "anchor function missing")
		return
	}
	var unp *ssa.Call
	eachInstr(fn, func(in ssa.Instruction) {
		if call, ok := in.(*ssa.Call); ok && calleeName(&call.Call) == "formats/varint.Unpack64" {
			unp = call
		}
	})
	if unp == nil {
		r.Undecided(rule, fnKey(fn), "no Unpack64 call")
		return
	}
	isL := func(v ssa.Value) bool {
		ex, ok := v.(*ssa.Extract)
		return ok && ex.Tuple == ssa.Value(unp) && ex.Index == 0
	}
	isN := func(v ssa.Value) bool {
		ex, ok := v.(*ssa.Extract)
		return ok && ex.Tuple == ssa.Value(unp) && ex.Index == 1
	}
	hasLeaf := func(v ssa.Value, pred func(ssa.Value) bool) bool {
		found := false
		var walk func(x ssa.Value, d int)
		walk = func(x ssa.Value, d int) {
			if found || d > 8 || x == nil {
				return
			}
			if pred(x) {
				found = true
				return
			}
			switch y := x.(type) {
			case *ssa.BinOp:
				walk(y.X, d+1)
				walk(y.Y, d+1)
			case *ssa.Convert:
				walk(y.X, d+1)
			case *ssa.ChangeType:
				walk(y.X, d+1)
			case *ssa.Phi:
				for _, e := range y.Edges {
					walk(e, d+1)
				}
			}
		}
		walk(v, 0)
		return found
	}
	isLenData := func(v ssa.Value) bool {
		call, ok := v.(*ssa.Call)
		return ok && calleeName(&call.Call) == "builtin.len" && call.Call.Args[0] == ssa.Value(fn.Params[0])
	}
	// the unsigned-domain bound: a comparison whose operands (together) mention l (unconverted on its side), n and len(data);
	// passed on the edge where l is NOT greater.
	bound := func(truthy bool, ops ...token.Token) Guard {
		return Guard{Name: "l (unsigned) + n <= len(data)", Truthy: truthy, Match: func(b ssa.Value) bool {
			bo, ok := b.(*ssa.BinOp)
			if !ok {
				return false
			}
			okOp := false
			for _, o := range ops {
				if bo.Op == o {
					okOp = true
				}
			}
			if !okOp {
				return false
			}
			// one side must be the decoded length itself: unsigned and without arithmetic on it (a sum like n+l can wrap)
			unsignedL := func(side ssa.Value) bool {
				bt, ok := side.Type().Underlying().(*types.Basic)
				return ok && bt.Info()&types.IsUnsigned != 0 && isL(side)
			}
			if !(unsignedL(bo.X) || unsignedL(bo.Y)) {
				return false
			}
			all := func(pred func(ssa.Value) bool) bool { return hasLeaf(bo.X, pred) || hasLeaf(bo.Y, pred) }
			return all(isN) && all(isLenData)
		}}
	}
	// l > bound  -> error edge is true; pass on false.   l <= bound -> pass on true
	guards := []Guard{bound(false, token.GTR, token.GEQ), bound(true, token.LEQ, token.LSS)}
	// note: which side l is on matters for GTR/LSS; accept both spellings by also matching the mirrored operators
	guards = append(guards, Guard{Name: guards[0].Name, Truthy: false, Match: func(b ssa.Value) bool {
		bo, ok := b.(*ssa.BinOp)
		return ok && (bo.Op == token.LSS || bo.Op == token.LEQ) && hasLeaf(bo.Y, isL) && !hasLeaf(bo.X, isL) && bound(false, token.LSS, token.LEQ).Match(b)
	}})
	n := 0
	eachInstr(fn, func(in ssa.Instruction) {
		// targets: narrowing conversions of the length, and slices of the input whose bounds depend on it
		var cv ssa.Instruction
		switch x := in.(type) {
		case *ssa.Convert:
			if !isL(x.X) {
				return
			}
			bt, ok := x.Type().Underlying().(*types.Basic)
			if !ok || bt.Info()&types.IsUnsigned != 0 {
				return
			}
			cv = x
		case *ssa.Slice:
			if x.X != ssa.Value(fn.Params[0]) || !((x.High != nil && hasLeaf(x.High, isL)) || (x.Low != nil && hasLeaf(x.Low, isL))) {
				return
			}
			cv = x
		default:
			return
		}
		n++
		p := ReachTargetAvoiding(fn, cv, guards, nil)
		r.Check(p == nil, rule, fmt.Sprintf("%s / use of the decoded length #%d bounded before conversion", fnKey(fn), n),
			"the decoded uint64 length itself is compared (unsigned, no arithmetic on it, prefix length accounted for on the other side) against len(data) before it is narrowed or used as a slice bound",
			"the decoded length is narrowed / used as a slice bound without a preceding unsigned comparison of the bare length against a bound built from len(data) and the prefix size: lengths >= 2^63, lengths near 2^64 (wrapping sums) or lengths that only fit without the prefix slice out of range", c.pathString(p)...)
	})
	if n == 0 {
		r.Undecided(rule, fnKey(fn), "no use of the decoded length found")
	}
	// success return shape: data[n : n+l], count n+l
	okShape, okCount := false, false
	eachInstr(fn, func(in ssa.Instruction) {
		ret, isRet := in.(*ssa.Return)
		if !isRet || !isNilConst(retVal(ret, 2)) {
			return
		}
		if sl, ok := retVal(ret, 0).(*ssa.Slice); ok && sl.X == ssa.Value(fn.Params[0]) && sl.Low != nil && isN(sl.Low) && sl.High != nil && hasLeaf(sl.High, isL) && hasLeaf(sl.High, isN) {
			okShape = true
			if retVal(ret, 1) == sl.High || (hasLeaf(retVal(ret, 1), isL) && hasLeaf(retVal(ret, 1), isN)) {
				okCount = true
			}
		}
	})
	r.Check(okShape, rule, fnKey(fn)+" / block is data[n:n+l]", "the block returned starts behind the prefix and is l bytes long", "the block returned is not data[n:n+l]")
	r.Check(okCount, rule, fnKey(fn)+" / count is n+l", "the reported length points exactly behind the block", "the reported length is not n+l")
	// the length is used only if it decoded
	decoded := Guard{Name: "Unpack64 error == nil", Truthy: false, Match: func(b ssa.Value) bool {
		ex, ok := b.(*ssa.Extract)
		return ok && ex.Tuple == ssa.Value(unp) && ex.Index == 2
	}}
	for _, ref := range *unp.Referrers() {
		ex, ok := ref.(*ssa.Extract)
		if !ok || ex.Index != 0 {
			continue
		}
		k := 0
		for _, use := range *ex.Referrers() {
			if _, isDbg := use.(*ssa.DebugRef); isDbg {
				continue
			}
			k++
			c.RequireGuards(r, rule, fmt.Sprintf("%s / decoded length use #%d only on success", fnKey(fn), k), fn, use, decoded)
		}
	}
	// PrependLength
	if pl := c.Func("formats/varint.PrependLength"); pl == nil {
		r.Undecided(rule, "formats/varint.PrependLength", "anchor function missing")
	} else {
		ok := false
		for _, ci := range callsIn(pl, "formats/varint.Pack64") {
			a := ci.Common().Args[0]
			if cv, isCv := a.(*ssa.Convert); isCv {
				if call, isCall := cv.X.(*ssa.Call); isCall && calleeName(&call.Call) == "builtin.len" && call.Call.Args[0] == ssa.Value(pl.Params[0]) {
					ok = true
				}
			}
		}
		r.Check(ok, rule, fnKey(pl)+" / prefix is len(data)", "the prefix encodes len(data)", "the prefix does not encode len(data)")
	}
}

func firstInstrOfKind(fn *ssa.Function, pred func(ssa.Instruction) bool) ssa.Instruction {
	var out ssa.Instruction
	eachInstr(fn, func(in ssa.Instruction) {
		if out == nil && pred(in) {
			out = in
		}
	})
	if out == nil {
		return fn.Blocks[0].Instrs[0]
	}
	return out
}
