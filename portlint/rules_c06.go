package main

import (
	"fmt"
	"go/token"
	"go/types"
	"strings"

	"golang.org/x/tools/go/ssa"
)

func init() {
	register(&propDef{
		ID: "C06",
		Explanation: "Decides structural necessary conditions of panic containment: " +
			"(R1) every call through a function value in package modules is classified; each managed invocation (worker/microtask function, lifecycle function, task function, event hook, notify functions) is preceded on every path by a defer whose closure calls recover() and, on the non-nil branch, builds NewPanicError from the recovered value and Reports it - or sits in a closure handed to RunWorker/StartWorker; the blocking variants store the panic error to the named result, control functions send an error on the result channel; " +
			"(R2) the accounting that must survive a panic (counter release - shared with C05-R2 -, Task.executing reset, ctrlFuncRunning reset + checkIfStopComplete, concludeMicroTask) executes on every path of deferred code; " +
			"(R3) NewPanicError records severity 'panic', the panic value and debug.Stack(); (R4) the API layer runs each request inside RunWorker and the handler call is dominated by a defer-recover that reports and answers 500; " +
			"(R5) the service-worker loop is left only on nil, context.Canceled, module stopping or context done - and the error tests cannot be satisfied by a panic error (ModuleError does not unwrap); " +
			"(R6) recovery code never calls a method of, or through, the recovered panic value itself (directly or via NewPanicError and the helpers it reaches): a second panic raised inside the handler would escape containment; the value may only be handed to the fmt/log formatters, which guard such calls. " +
			"(R7) lock pairing over package modules (a lock left behind by the error-reporting path wedges the next recovery): " + lockRuleText + ". " +
			"(R8) error discipline over package modules (an error of a lifecycle pass - including the one a panicking routine was converted into - must reach the caller): " + repoErrText + ". " +
			"(R9) in Start, Shutdown and ManageModules the error of every prepare/start/stop pass flows into the function's returned error (it is not merely logged or overwritten by a later pass). " +
			"(R10) reporting a panic never blocks the recovery handler (= C15-R5). " +
			"(R11) in every deferred recover() handler of packages modules and api, each path on which recover() returned non-nil passes ModuleError.Report before the handler ends (no further condition may skip the report). " +
			"(R12) prepareModules/startModules/stopModules never forget an error carried by a module's report: after report.err tested non-nil no literal 'return nil' is reachable, and a returned accumulator is overwritten inside the loop only by a report error tested non-nil. " +
			"(R13) the repeat re-arm in the task's deferred clean-up is reachable on the path on which recover() returned non-nil (a panicked repeating task runs again). " +
			"(R14) stop completion requires that no control function is running (= C01-R7): a stop routine that panics after the last worker returned is still waited for, so its panic error reaches Shutdown. " +
			"NOT decided: panics in goroutines that user code spawns itself, process-level behaviour.",
		Rules: []ruleFn{c06R1, c06R2, c06R3, c06R4, c06R5, c06R6,
			lockRuleFor("C06-R7", 25, []string{"modules"}, []string{}, map[string]string{}),
			repoErrRuleFor("C06-R8", 12, func(c *Ctx, fn *ssa.Function) bool { return short(fn.Pkg.Pkg.Path()) == "modules" }, map[string]string{"modules.(*Module).setFailure / modules.Module.RunWorker": "failure-status notification worker; its own panics are reported through the module error channel"}),
			c06R9,
			func(c *Ctx, r *Report) { reportNeverBlocksRule(c, r, "C06-R10") },
			c06R11, c06R12, c06R13, func(c *Ctx, r *Report) { stopCompletionRule(c, r, "C06-R14") }},
	})
}

// exempt dynamic calls: not managed code (one named construct each, with reason)
var c06Exempt = map[string]string{
	"field:m.cancelCtx":                     "context.CancelFunc (stdlib, cannot run user code)",
	"field:t.cancelCtx":                     "context.CancelFunc (stdlib, cannot run user code)",
	"field:global:modules.globalPrepFn":     "global prep function runs on the caller's goroutine before any module starts; outside the statement's list",
	"field:global:modules.globalShutdownFn": "global shutdown function runs on the Shutdown caller's goroutine; outside the statement's list",
	"field:global:modules.cmdLineOperation": "command line operation runs on the Start caller's goroutine; outside the statement's list",
	"field:global:flag.Usage":               "stdlib flag usage printer",
}

// managed callee kinds (provenance descriptors) -> what they are
func c06ManagedKind(origin string) (string, bool) {
	switch {
	case origin == "param:fn":
		return "API-supplied work function", true
	case strings.HasPrefix(origin, "field:") && (strings.HasSuffix(origin, ".taskFn")):
		return "task function", true
	case strings.HasPrefix(origin, "field:") && strings.HasSuffix(origin, ".hookFn"):
		return "event hook", true
	case origin == "field:global:modules.modulesChangeNotifyFn", origin == "field:global:modules.failureUpdateNotifyFunc", origin == "field:global:modules.eventSubscriptionFunc":
		return "registered notify function", true
	case origin == "field:m.prepFn", origin == "field:m.startFn", origin == "field:m.stopFn":
		return "lifecycle function", true
	}
	return "", false
}

var managedRunners = []string{"modules.Module.RunWorker", "modules.Module.StartWorker", "modules.Module.StartServiceWorker",
	"modules.Module.RunMicroTask", "modules.Module.RunHighPriorityMicroTask", "modules.Module.RunLowPriorityMicroTask",
	"modules.Module.StartMicroTask", "modules.Module.StartHighPriorityMicroTask", "modules.Module.StartLowPriorityMicroTask"}

func c06R1(c *Ctx, r *Report) {
	const rule = "C06-R1"
	r.SetFloor(rule, 15)
	ord := map[string]int{}
	roots := 0
	for _, d := range c.dynamicCalls("modules") {
		cons := ordinal(ord, fmt.Sprintf("%s / dynamic call of %s", fnKey(d.Fn), d.Callee))
		if why, ok := c06Exempt[d.Callee]; ok {
			r.Trivial(rule, cons, "exempt: "+why)
			continue
		}
		// free variable bound to a parameter "fn" of the parent (startCtrlFn$1)
		kind, managed := c06ManagedKind(d.Callee)
		if !managed {
			r.Undecided(rule, cons, "unclassified call through a function value (origin "+d.Callee+"): add it to the managed or exempt table after reading the code")
			continue
		}
		// (c) closure handed to a managed runner
		if via, ok := closurePassedTo(d.Fn, managedRunners...); ok {
			r.OK(rule, cons, fmt.Sprintf("%s runs inside a closure handed to %s (protected there)", kind, via))
			continue
		}
		// (b) dominated by a defer-recover that reports
		recs := c.findRecoverDefers(d.Fn)
		var good *recoverInfo
		for i := range recs {
			ri := &recs[i]
			if MustPrecede(d.Fn, func(in ssa.Instruction) bool { return in == ssa.Instruction(ri.Defer) }, d.Instr) {
				good = ri
			}
		}
		if good == nil {
			r.Bad(rule, cons, fmt.Sprintf("%s is invoked without a preceding deferred recover(): a panic in it terminates the process", kind), c.Pos(d.Instr.Pos()))
			continue
		}
		roots++
		r.Check(good.ReportsPanic, rule, cons+" / recovered panic is reported",
			"the deferred closure builds NewPanicError(recovered value) and calls Report() on it",
			"the deferred recover() does not convert the panic value into a reported NewPanicError", c.Pos(good.Defer.Pos()))
		// error hand-over
		cl := good.Closure
		handsOver := false
		how := ""
		eachInstr(cl, func(in ssa.Instruction) {
			switch x := in.(type) {
			case *ssa.Store:
				// store to captured named result of error type, value derived from NewPanicError
				if fv, ok := x.Addr.(*ssa.FreeVar); ok && isNamedResult(d.Fn, fv.Name()) {
					if hasOrigin(c.Origins(x.Val), "call:modules.Module.NewPanicError") {
						handsOver, how = true, "stores the panic error to the named result"
					}
				}
			case *ssa.Send:
				if strings.Contains(x.Chan.Type().String(), "chan error") {
					handsOver, how = true, "sends an error on the control-function result channel"
				}
			}
		})
		needs := d.Fn.Signature.Results().Len() > 0 || strings.Contains(fnKey(d.Fn), "startCtrlFn")
		if needs {
			r.Check(handsOver, rule, cons+" / panic error reaches the caller", how,
				"the recovered panic is not handed to the caller (named result / result channel): the blocking variant returns nil resp. Start/Shutdown hang or succeed", c.Pos(good.Defer.Pos()))
		}
	}
	if roots < 4 {
		r.Undecided(rule, "instance-floor", fmt.Sprintf("found %d directly protected managed invocations (runWorker, startCtrlFn, executeWithLocking, runMicroTask expected)", roots))
	}
}

func c06R2(c *Ctx, r *Report) {
	const rule = "C06-R2"
	r.SetFloor(rule, 4)
	always := func(cl *ssa.Function, pred func(ssa.Instruction) bool) bool {
		return cl != nil && cl.Blocks != nil && ReachInstr(cl, nil, isExit, pred) == nil
	}
	deferredClosures := func(fn *ssa.Function) []*ssa.Function {
		var out []*ssa.Function
		eachInstr(fn, func(in ssa.Instruction) {
			if d, ok := in.(*ssa.Defer); ok {
				if cl := deferredFunc(d); cl != nil {
					out = append(out, cl)
				}
			}
		})
		return out
	}
	// executeWithLocking: t.executing = false on every path of the deferred closure
	if fn := c.Func("modules.(*Task).executeWithLocking"); fn == nil {
		r.Undecided(rule, "modules.(*Task).executeWithLocking", "anchor function missing")
	} else {
		ok := false
		for _, cl := range deferredClosures(fn) {
			if always(cl, func(in ssa.Instruction) bool {
				st, isSt := in.(*ssa.Store)
				if !isSt {
					return false
				}
				fr, isF := fieldOfAddr(st.Addr)
				b, isC := constBool(st.Val)
				return isF && fr.Owner == "modules.Task" && fr.Name == "executing" && isC && !b
			}) {
				ok = true
			}
		}
		r.Check(ok, rule, fnKey(fn)+" / deferred reset of Task.executing", "Task.executing is reset on every path of the deferred closure (also after a panic)",
			"Task.executing is not reset in deferred code on every path: after a panic the task can never run again")
		ok = false
		for _, cl := range deferredClosures(fn) {
			if always(cl, isCallInstrTo(fnCheckStop)) {
				ok = true
			}
		}
		r.Check(ok, rule, fnKey(fn)+" / deferred checkIfStopComplete", "stop completion is re-evaluated on every path of the deferred closure", "checkIfStopComplete is skipped on some path of the deferred closure")
	}
	// startCtrlFn goroutine: ctrlFuncRunning.UnSet + checkIfStopComplete on every path of its deferred closure
	if fn := c.Func("modules.(*Module).startCtrlFn"); fn == nil {
		r.Undecided(rule, "modules.(*Module).startCtrlFn", "anchor function missing")
	} else {
		okU, okC := false, false
		for _, a := range fn.AnonFuncs {
			for _, cl := range deferredClosures(a) {
				if always(cl, isAboolOp("m.ctrlFuncRunning", "UnSet")) {
					okU = true
				}
				if always(cl, isCallInstrTo(fnCheckStop)) {
					okC = true
				}
			}
		}
		r.Check(okU, rule, fnKey(fn)+" / deferred ctrlFuncRunning.UnSet", "the control-function flag is cleared on every path of the deferred closure (also after a panic)",
			"ctrlFuncRunning is not cleared in deferred code on every path: after a panicking lifecycle function the module can never complete a stop")
		r.Check(okC, rule, fnKey(fn)+" / deferred checkIfStopComplete", "stop completion is re-evaluated after the control function ended, on every path",
			"checkIfStopComplete is skipped on some path after the control function ended")
		// the panic error must be sent BEFORE completion is signalled (else the stopper may read an empty channel)
		for _, a := range fn.AnonFuncs {
			recs := c.findRecoverDefers(a)
			for _, ri := range recs {
				// within the closure: send precedes UnSet on the panic path
				var sends []ssa.Instruction
				eachInstr(ri.Closure, func(in ssa.Instruction) {
					if s, ok := in.(*ssa.Send); ok && strings.Contains(s.Chan.Type().String(), "chan error") {
						sends = append(sends, in)
					}
				})
				var unsets []ssa.Instruction
				eachInstr(ri.Closure, func(in ssa.Instruction) {
					if isAboolOp("m.ctrlFuncRunning", "UnSet")(in) {
						unsets = append(unsets, in)
					}
				})
				cons := fnKey(a) + " / panic error sent before completion is signalled"
				if len(sends) == 0 {
					continue // reported by C06-R1 (hand-over)
				}
				if len(unsets) == 0 {
					// the flag is cleared by another deferred closure: defers run LIFO, so that defer must be registered BEFORE the recover defer
					okOrder := false
					eachInstr(a, func(in ssa.Instruction) {
						d, ok := in.(*ssa.Defer)
						if !ok || d == ri.Defer {
							return
						}
						if funcHas(deferredFunc(d), 1, isAboolOp("m.ctrlFuncRunning", "UnSet")) {
							if MustPrecede(a, func(x ssa.Instruction) bool { return x == ssa.Instruction(d) }, ri.Defer) {
								okOrder = true
							}
						}
					})
					r.Check(okOrder, rule, cons, "the defer that clears ctrlFuncRunning is registered before the recover defer, so it runs after the panic error was sent",
						"the defer clearing ctrlFuncRunning runs before the recover defer (LIFO): completion is signalled before the panic error is on the result channel, so the stopper reports success", c.Pos(ri.Defer.Pos()))
					continue
				}
				okOrder := true
				for _, u := range unsets {
					if viaPanicWithoutSend(ri, u, sends) {
						okOrder = false
					}
				}
				r.Check(okOrder, rule, cons,
					"on the panic branch the error is sent on the result channel before ctrlFuncRunning is cleared",
					"after a panic the control-function flag is cleared before the panic error is sent: the waiting stopper can observe completion and an empty result channel", c.Pos(ri.Defer.Pos()))
			}
		}
	}
	// runMicroTask: concludeMicroTask on every path of the deferred closure
	if fn := c.Func("modules.(*Module).runMicroTask"); fn == nil {
		r.Undecided(rule, "modules.(*Module).runMicroTask", "anchor function missing")
	} else {
		ok := false
		for _, cl := range deferredClosures(fn) {
			if always(cl, isCallInstrTo("modules.Module.concludeMicroTask")) {
				ok = true
			}
		}
		r.Check(ok, rule, fnKey(fn)+" / deferred concludeMicroTask", "the microtask is concluded on every path of the deferred closure (also after a panic)",
			"concludeMicroTask is skipped on some path of the deferred closure: the global and per-module microtask counts stay raised")
	}
}

// viaPanicWithoutSend: u is reachable from the recover()!=nil edge without passing a send.
func viaPanicWithoutSend(ri recoverInfo, u ssa.Instruction, sends []ssa.Instruction) bool {
	// a path from the closure's entry to the UnSet that neither established
	// recover()==nil nor sent the error: this includes an UnSet placed before recover().
	isSend := func(in ssa.Instruction) bool {
		for _, s := range sends {
			if in == s {
				return true
			}
		}
		return false
	}
	noPanic := Guard{Name: "recover()==nil", Truthy: false, Match: func(b ssa.Value) bool { return b == ssa.Value(ri.Recover) }}
	return ReachFromAvoiding(ri.Closure, nil, func(in ssa.Instruction) bool { return in == u }, []Guard{noPanic}, isSend) != nil
}

func c06R3(c *Ctx, r *Report) {
	const rule = "C06-R3"
	r.SetFloor(rule, 3)
	fn := c.Func("modules.(*Module).NewPanicError")
	if fn == nil {
		r.Undecided(rule, "modules.(*Module).NewPanicError", "anchor function missing")
		return
	}
	want := map[string]func([]string) bool{
		"Severity":   func(o []string) bool { return onlyOrigins(o, `const:"panic"`) },
		"PanicValue": func(o []string) bool { return onlyOrigins(o, "param:panicValue") },
		"StackTrace": func(o []string) bool { return hasOrigin(o, "call:runtime/debug.Stack") },
	}
	seen := map[string]bool{}
	eachInstr(fn, func(in ssa.Instruction) {
		st, ok := in.(*ssa.Store)
		if !ok {
			return
		}
		fr, ok := fieldOfAddr(st.Addr)
		if !ok || fr.Owner != "modules.ModuleError" {
			return
		}
		chk, ok := want[fr.Name]
		if !ok {
			return
		}
		seen[fr.Name] = true
		o := c.Origins(st.Val)
		r.Check(chk(o), rule, fnKey(fn)+" / field "+fr.Name, "set as the statement requires", fmt.Sprintf("ModuleError.%s is set from %v", fr.Name, o), c.Pos(st.Pos()))
	})
	for f := range want {
		if !seen[f] {
			r.Bad(rule, fnKey(fn)+" / field "+f, "ModuleError."+f+" is never set by NewPanicError")
		}
	}
	// IsPanic recognises it
	if ip := c.Func("modules.IsPanic"); ip != nil {
		_ = ip
	}
}

func c06R4(c *Ctx, r *Report) {
	const rule = "C06-R4"
	r.SetFloor(rule, 3)
	sh := c.Func("api.(*mainHandler).ServeHTTP")
	h := c.Func("api.(*mainHandler).handle")
	if sh == nil || h == nil {
		r.Undecided(rule, "api.(*mainHandler).ServeHTTP/handle", "anchor function missing")
		return
	}
	// handle is only called from a closure handed to RunWorker
	for i, s := range c.CallSites("api.mainHandler.handle") {
		via, ok := closurePassedTo(s.Fn, "modules.Module.RunWorker")
		r.Check(ok, rule, fmt.Sprintf("%s / call mainHandler.handle #%d", fnKey(s.Fn), i+1), "request handling runs inside "+via,
			"request handling runs outside Module.RunWorker: a panic before the handler-level recover is armed kills the server", c.Pos(s.Instr.Pos()))
	}
	// in handle: the handler.ServeHTTP invoke is dominated by a defer-recover
	var serve []ssa.Instruction
	eachInstr(h, func(in ssa.Instruction) {
		if ci, ok := in.(*ssa.Call); ok && ci.Call.IsInvoke() && ci.Call.Method.Name() == "ServeHTTP" {
			serve = append(serve, in)
		}
	})
	if len(serve) == 0 {
		r.Undecided(rule, fnKey(h), "no handler.ServeHTTP call found")
		return
	}
	var recs []struct {
		d  *ssa.Defer
		cl *ssa.Function
	}
	eachInstr(h, func(in ssa.Instruction) {
		d, ok := in.(*ssa.Defer)
		if !ok {
			return
		}
		cl := deferredFunc(d)
		if cl == nil {
			return
		}
		if funcHas(cl, 0, func(i2 ssa.Instruction) bool {
			call, ok := i2.(*ssa.Call)
			return ok && calleeName(&call.Call) == "builtin.recover"
		}) {
			recs = append(recs, struct {
				d  *ssa.Defer
				cl *ssa.Function
			}{d, cl})
		}
	})
	for i, s := range serve {
		cons := fmt.Sprintf("%s / handler.ServeHTTP #%d", fnKey(h), i+1)
		okDom := false
		ok500 := false
		okReport := false
		for _, rc := range recs {
			if MustPrecede(h, func(in ssa.Instruction) bool { return in == ssa.Instruction(rc.d) }, s) {
				okDom = true
				eachInstr(rc.cl, func(in ssa.Instruction) {
					if ci, ok := in.(*ssa.Call); ok {
						n := calleeName(&ci.Call)
						if n == "net/http.Error" {
							if v, isC := constInt(ci.Call.Args[2]); isC && v == 500 {
								ok500 = true
							}
						}
						if strings.HasSuffix(n, "ModuleError.Report") {
							okReport = true
						}
					}
				})
			}
		}
		r.Check(okDom, rule, cons+" / under recover", "a defer with recover() is registered before the handler runs on every path", "the handler runs without a preceding deferred recover()", c.Pos(s.Pos()))
		r.Check(ok500, rule, cons+" / answers 500", "the recover branch answers http 500", "the recover branch does not answer 500")
		r.Check(okReport, rule, cons+" / reports", "the recover branch reports the panic as a module error", "the recover branch does not report the panic")
	}
}

func c06R5(c *Ctx, r *Report) {
	const rule = "C06-R5"
	r.SetFloor(rule, 2)
	fn := c.Func("modules.(*Module).runServiceWorker")
	if fn == nil {
		r.Undecided(rule, "modules.(*Module).runServiceWorker", "anchor function missing")
		return
	}
	guards := []Guard{
		callGuard("IsStopping()==true", true, "modules.Module.IsStopping"),
		{Name: "worker error == nil", Truthy: false, Match: func(b ssa.Value) bool {
			_, ok := isCallTo(b, "modules.Module.runWorker")
			return ok
		}},
		{Name: "errors.Is(err, context.Canceled)", Truthy: true, Match: func(b ssa.Value) bool {
			call, ok := isCallTo(b, "errors.Is")
			return ok && hasOrigin(c.Origins(call.Call.Args[1]), "field:global:context.Canceled")
		}},
		selectCaseGuard("module context done", types.RecvOnly, isCtxDoneOf("m.Ctx")),
	}
	k := 0
	eachInstr(fn, func(in ssa.Instruction) {
		ret, ok := in.(*ssa.Return)
		if !ok {
			return
		}
		k++
		path := ReachAvoiding(fn, nil, ret.Block(), guards)
		r.Check(path == nil, rule, fmt.Sprintf("%s / loop exit #%d", fnKey(fn), k),
			"the service worker ends only on nil, context.Canceled, module stopping or context done",
			"the service-worker loop can be left for another reason (e.g. an error or panic ends it): the worker is not restarted", c.pathString(path)...)
	})
	// the worker must be (re)run inside the loop: runWorker call is in a loop (its block reaches itself)
	for _, ci := range callsIn(fn, "modules.Module.runWorker") {
		inLoop := ReachInstr(fn, ci, func(in ssa.Instruction) bool { return in == ci }, nil) != nil
		r.Check(inLoop, rule, fnKey(fn)+" / worker restarted in a loop", "runWorker is called from a loop", "runWorker is not called in a loop: no restart")
	}
	// a panic error must not satisfy errors.Is(err, context.Canceled): ModuleError must not unwrap to the panic value
	tp := c.TypesPkg("modules")
	if tp != nil {
		if obj := tp.Scope().Lookup("ModuleError"); obj != nil {
			ms := types.NewMethodSet(types.NewPointer(obj.Type()))
			bad := ""
			for _, m := range []string{"Unwrap", "Is", "As"} {
				if ms.Lookup(tp, m) == nil {
					continue
				}
				// only a method that exposes the recovered panic value makes a panic error transparent
				mf := c.Func("modules.(*ModuleError)." + m)
				if mf == nil {
					mf = c.Func("modules.(ModuleError)." + m)
				}
				if mf == nil || funcHas(mf, 1, func(in ssa.Instruction) bool {
					v, ok := in.(ssa.Value)
					return ok && fieldLoadOf(v, "modules.ModuleError", "PanicValue")
				}) {
					bad = m
				}
			}
			r.Check(bad == "", rule, "modules.ModuleError / panic value not exposed to errors.Is", "ModuleError has no Unwrap/Is/As that exposes the panic value: a panic error can never be mistaken for context.Canceled",
				"ModuleError."+bad+"() exposes the panic value: a panic whose value wraps context.Canceled is treated as a clean end and the service worker is not restarted")
		}
	}
}

// c06R6: no foreign code runs on the recovered value inside the recovery path.
func c06R6(c *Ctx, r *Report) {
	const rule = "C06-R6"
	r.SetFloor(rule, 6)
	type job struct {
		fn   *ssa.Function
		root ssa.Value
	}
	var findings []string
	analysed := map[string]bool{}
	var walkC func(fn *ssa.Function, root ssa.Value, isCell bool, depth int, trail string)
	walk := func(fn *ssa.Function, root ssa.Value, depth int, trail string) { walkC(fn, root, false, depth, trail) }
	walkC = func(fn *ssa.Function, root ssa.Value, isCell bool, depth int, trail string) {
		tainted := map[ssa.Value]bool{}
		cells := map[ssa.Value]bool{} // addresses holding the recovered value
		if isCell {
			cells[root] = true
		} else {
			tainted[root] = true
		}
		for changed := true; changed; {
			changed = false
			eachInstr(fn, func(in ssa.Instruction) {
				if st, ok := in.(*ssa.Store); ok {
					if tainted[st.Val] && !cells[st.Addr] {
						cells[st.Addr] = true
						changed = true
					}
					return
				}
				v, ok := in.(ssa.Value)
				if !ok || tainted[v] {
					return
				}
				hit := false
				switch x := in.(type) {
				case *ssa.TypeAssert:
					hit = tainted[x.X]
				case *ssa.Extract:
					if ta, ok := x.Tuple.(*ssa.TypeAssert); ok && x.Index == 0 {
						hit = tainted[ta]
					}
				case *ssa.ChangeInterface:
					hit = tainted[x.X]
				case *ssa.MakeInterface:
					hit = tainted[x.X]
				case *ssa.ChangeType:
					hit = tainted[x.X]
				case *ssa.UnOp:
					hit = x.Op == token.MUL && cells[x.X]
				case *ssa.Phi:
					for _, e := range x.Edges {
						if tainted[e] {
							hit = true
						}
					}
				}
				if hit {
					tainted[v] = true
					changed = true
				}
			})
		}
		eachInstr(fn, func(in ssa.Instruction) {
			if mc, ok := in.(*ssa.MakeClosure); ok && depth > 0 {
				cl := mc.Fn.(*ssa.Function)
				for i, b := range mc.Bindings {
					if (tainted[b] || cells[b]) && i < len(cl.FreeVars) {
						walkC(cl, cl.FreeVars[i], cells[b], depth-1, trail+fnKey(fn)+" -> ")
					}
				}
				return
			}
			ci, ok := in.(ssa.CallInstruction)
			if !ok {
				return
			}
			cc := ci.Common()
			if cc.IsInvoke() {
				if tainted[cc.Value] {
					findings = append(findings, fmt.Sprintf("%s%s calls method %s of the recovered panic value at %s", trail, fnKey(fn), cc.Method.Name(), c.Pos(in.Pos())))
				}
				return
			}
			callee := staticCallee(cc)
			if callee == nil {
				if tainted[cc.Value] {
					findings = append(findings, fmt.Sprintf("%s%s calls the recovered panic value as a function at %s", trail, fnKey(fn), c.Pos(in.Pos())))
				}
				return
			}
			// a method called on a concrete type extracted from the panic value (e.g. v.(*T).Error())
			if callee.Signature.Recv() != nil && len(cc.Args) > 0 && tainted[cc.Args[0]] && !c.isRepoFunc(callee) {
				findings = append(findings, fmt.Sprintf("%s%s calls %s on the recovered panic value at %s", trail, fnKey(fn), calleeName(cc), c.Pos(in.Pos())))
				return
			}
			if depth > 0 && callee.Blocks != nil && c.isRepoFunc(callee) {
				for i, a := range cc.Args {
					if tainted[a] && i < len(callee.Params) {
						analysed[fnKey(callee)] = true
						walk(callee, callee.Params[i], depth-1, trail+fnKey(fn)+" -> ")
					}
				}
			}
		})
	}
	n := 0
	for _, pkg := range []string{"modules", "api", "modules/subsystems"} {
		for _, fn := range c.FuncsIn(pkg) {
			eachInstr(fn, func(in ssa.Instruction) {
				call, ok := in.(*ssa.Call)
				if !ok || calleeName(&call.Call) != "builtin.recover" {
					return
				}
				n++
				before := len(findings)
				walk(fn, call, 3, "")
				cons := fmt.Sprintf("%s / recovered value is only formatted, never invoked", fnKey(fn))
				if len(findings) > before {
					r.Bad(rule, cons, findings[before], findings[before+1:]...)
				} else {
					r.OK(rule, cons, "no method of the recovered value is called in the handler or the helpers it reaches")
				}
			})
		}
	}
	if n == 0 {
		r.Undecided(rule, "recover() sites", "no recovery handler found")
	}
	r.Check(analysed["modules.(*Module).NewPanicError"], rule, "modules.(*Module).NewPanicError / analysed as part of the recovery path",
		"NewPanicError receives the recovered value and was analysed", "NewPanicError is no longer reached with the recovered value from any handler (anchor lost)")
}

// c06R9: the drivers return the error of every lifecycle pass.
func c06R9(c *Ctx, r *Report) {
	const rule = "C06-R9"
	r.SetFloor(rule, 5)
	for _, name := range []string{"modules.Start", "modules.Shutdown", "modules.ManageModules"} {
		fn := c.Func(name)
		if fn == nil {
			r.Undecided(rule, name, "anchor function missing")
			continue
		}
		returned := map[ssa.Value]bool{}
		eachInstr(fn, func(in ssa.Instruction) {
			if ret, ok := in.(*ssa.Return); ok && len(ret.Results) > 0 {
				for _, l := range c.Leaves(retVal(ret, len(ret.Results)-1)) {
					returned[l] = true
				}
			}
		})
		ord := map[string]int{}
		for _, ci := range callsIn(fn, "modules.prepareModules", "modules.startModules", "modules.stopModules") {
			call, ok := ci.(*ssa.Call)
			if !ok {
				continue
			}
			cons := ordinal(ord, fmt.Sprintf("%s / error of %s is returned", name, calleeName(&call.Call)))
			r.Check(returned[call], rule, cons, "the pass's error is one of the values the function returns",
				"the error of this lifecycle pass never reaches the function's result (logged or overwritten only): the caller sees success although a routine failed or panicked", c.Pos(call.Pos()))
		}
	}
}

// isNamedResult: name is a named result of fn (a deferred closure can only change what fn returns through one of those).
func isNamedResult(fn *ssa.Function, name string) bool {
	res := fn.Signature.Results()
	for i := 0; i < res.Len(); i++ {
		if res.At(i).Name() == name && name != "" {
			return true
		}
	}
	return false
}
