package main

import (
	"fmt"
	"os"
	"go/token"
	"go/types"
	"strings"

	"golang.org/x/tools/go/ssa"
)

// A23: allocation sized by an input.
//
// A make([]T, n) whose length comes from a caller-supplied number or from a
// number decoded from input bytes is a crash point: the runtime panics with
// "makeslice: len out of range" (or the process is killed for memory) when
// the number is huge. The length has to be bounded first, either by clamping
// it to what is held (the length is then a Phi that has a non-input leaf) or
// by an upper-bounding comparison on every way to the allocation.
//
// inputSizedAllocSites returns the number of input-sized allocations that
// were decided and a description of each unbounded one.

var decodeCallees = []string{"varint.Unpack8", "varint.Unpack16", "varint.Unpack32", "varint.Unpack64",
	"GetNextN8", "GetNextN16", "GetNextN32", "GetNextN64", "binary.Uvarint", "binary.Varint",
	"Uint16", "Uint32", "Uint64"}

func isIntegerType(t types.Type) bool {
	b, ok := t.Underlying().(*types.Basic)
	return ok && b.Info()&types.IsInteger != 0
}

// inputLeaf tells whether a leaf of an allocation size is an input number.
func inputLeaf(l ssa.Value) bool {
	switch x := l.(type) {
	case *ssa.Parameter:
		return isIntegerType(x.Type())
	case *ssa.Extract:
		if call, ok := x.Tuple.(*ssa.Call); ok {
			n := calleeNameOr(call)
			for _, d := range decodeCallees {
				if n == d || strings.HasSuffix(n, "."+d) || strings.HasSuffix(n, ")."+d) {
					return isIntegerType(x.Type())
				}
			}
		}
	case *ssa.Call:
		n := calleeNameOr(x)
		for _, d := range decodeCallees {
			if n == d || strings.HasSuffix(n, "."+d) || strings.HasSuffix(n, ")."+d) {
				return isIntegerType(x.Type())
			}
		}
	}
	return false
}

// sizeLeaves is Leaves that also looks through arithmetic: the operands of
// +, -, * and shifts are sizes themselves.
func sizeLeaves(c *Ctx, v ssa.Value, d int, out map[ssa.Value]bool) {
	if d > 6 {
		out[v] = true
		return
	}
	for _, l := range c.Leaves(v) {
		if b, ok := l.(*ssa.BinOp); ok {
			switch b.Op {
			case token.ADD, token.SUB, token.MUL, token.SHL:
				sizeLeaves(c, b.X, d+1, out)
				sizeLeaves(c, b.Y, d+1, out)
				continue
			}
		}
		out[l] = true
	}
}

func negateRel(op token.Token) token.Token {
	switch op {
	case token.LSS:
		return token.GEQ
	case token.LEQ:
		return token.GTR
	case token.GTR:
		return token.LEQ
	case token.GEQ:
		return token.LSS
	case token.EQL:
		return token.NEQ
	case token.NEQ:
		return token.EQL
	}
	return token.ILLEGAL
}

func flipRel(op token.Token) token.Token {
	switch op {
	case token.LSS:
		return token.GTR
	case token.LEQ:
		return token.GEQ
	case token.GTR:
		return token.LSS
	case token.GEQ:
		return token.LEQ
	}
	return op
}

// upperBounded tells whether every way to block mb passes an edge on which
// the input leaf in is compared as in < X, in <= X or in == X.
func upperBounded(c *Ctx, fn *ssa.Function, mb *ssa.BasicBlock, in ssa.Value) bool {
	for _, b := range fn.Blocks {
		if b == mb || !b.Dominates(mb) || len(b.Instrs) == 0 {
			continue
		}
		iff, ok := b.Instrs[len(b.Instrs)-1].(*ssa.If)
		if !ok {
			continue
		}
		cond, ok := iff.Cond.(*ssa.BinOp)
		if !ok {
			continue
		}
		has := func(v ssa.Value) bool {
			set := map[ssa.Value]bool{}
			sizeLeaves(c, v, 0, set)
			return set[in]
		}
		rel := cond.Op
		switch {
		case has(cond.X) && !has(cond.Y):
		case has(cond.Y) && !has(cond.X):
			rel = flipRel(rel)
		default:
			continue
		}
		for s, succ := range b.Succs {
			if len(succ.Preds) != 1 || !(succ == mb || succ.Dominates(mb)) {
				continue
			}
			r := rel
			if s == 1 {
				r = negateRel(r)
			}
			if r == token.LSS || r == token.LEQ || r == token.EQL {
				return true
			}
		}
	}
	return false
}

func inputSizedAllocSites(c *Ctx, fn *ssa.Function) (n int, bad []string) {
	eachInstr(fn, func(in ssa.Instruction) {
		m, ok := in.(*ssa.MakeSlice)
		if !ok {
			return
		}
		for i, size := range []ssa.Value{m.Len, m.Cap} {
			if size == nil || (i == 1 && m.Cap == m.Len) {
				continue
			}
			set := map[ssa.Value]bool{}
			sizeLeaves(c, size, 0, set)
			var inputs []ssa.Value
			held := false
			for l := range set {
				switch {
				case inputLeaf(l):
					inputs = append(inputs, l)
				default:
					if _, isConst := l.(*ssa.Const); !isConst {
						held = true
					}
				}
			}
			if os.Getenv("PORTLINT_ALLOCDBG") != "" {
				for l := range set {
					fmt.Printf("DBG %s %s leaf=%s %T\n", fnKey(fn), c.Pos(m.Pos()), leafDesc(l), l)
				}
			}
			if len(inputs) == 0 {
				continue
			}
			n++
			if held {
				// clamped to (or combined with) an amount that is held
				continue
			}
			for _, l := range inputs {
				if !upperBounded(c, fn, m.Block(), l) {
					bad = append(bad, fmt.Sprintf("%s: make sized by %s without an upper bound", c.Pos(m.Pos()), leafDesc(l)))
				}
			}
		}
	})
	return
}

func probeAlloc(c *Ctx) {
	t := 0
	for _, fn := range c.AllFuncs() {
		if fn.Pkg == nil || fn.Blocks == nil {
			continue
		}
		n, bad := inputSizedAllocSites(c, fn)
		t += n
		if n > 0 {
			fmt.Printf("%s\tdecided=%d\n", fnKey(fn), n)
		}
		for _, b := range bad {
			fmt.Printf("%s\tBAD %s\n", fnKey(fn), b)
		}
	}
	fmt.Println("input-sized allocations:", t)
}

// allocRule: every input-sized allocation of the packages is bounded.
func allocRule(rule string, floor int, pkgs ...string) ruleFn {
	return func(c *Ctx, r *Report) {
		r.SetFloor(rule, floor)
		for _, fn := range funcsOfPkgs(c, pkgs...) {
			if fn.Blocks == nil {
				continue
			}
			n, bad := inputSizedAllocSites(c, fn)
			if n == 0 {
				continue
			}
			r.Check(len(bad) == 0, rule, fnKey(fn)+" / allocations sized by an input are bounded", fmt.Sprintf("%d input-sized allocation(s), each clamped to what is held or behind an upper-bounding comparison", n),
				"a request or a decoded length far beyond the data held makes the allocation itself panic (makeslice: len out of range) or exhaust memory before any length check is reached: "+strings.Join(bad, "; "), firstPos(bad))
		}
	}
}

func firstPos(bad []string) string {
	if len(bad) == 0 {
		return ""
	}
	if i := strings.Index(bad[0], ": "); i > 0 {
		return bad[0][:i]
	}
	return ""
}
