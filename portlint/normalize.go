package main

import (
	"bytes"
	"fmt"
	"go/ast"
	"go/token"
	"go/types"
	"os"
	"sort"
	"strings"
	"unicode"

	"golang.org/x/tools/go/packages"
)

// A11 helper normalisation. The rules are anchored to the functions of the
// tree they were confirmed on (baseline_funcs.txt). A clean-up that moves part
// of such a function into a NEW unexported helper would hide the construct a
// rule looks for. Before the analysis, calls to helpers that are not in the
// baseline are expanded in place (source-to-source, in memory only):
//
//	h(a)            ->  { prep; L: for { body'; break L } }
//	x, err := h(a)  ->  var r1 T1; var r2 T2; { ... }; x, err := r1, r2
//	return h(a)     ->  var r1 ...; { ... }; return r1, r2
//	if [!]h(a) {    ->  var r1 bool; { ... }; if [!]r1 {
//	defer/go h(a)   ->  defer/go func(params) results { body }(a)
//
// where body' is the helper's body with every `return e` turned into
// `{ r = e; break L }`. Helpers that use defer, recover, labels shared with the
// caller, variadic or generic parameters, or whose free names would bind
// differently at the call site are left alone. On the unchanged tree nothing is
// rewritten. If the rewritten package does not type-check it is analysed as is.

// useIIFE enables the function-literal fallback (measured on the refactoring corpus: no gain, one regression - off).
const useIIFE = false

type normEdit struct {
	start, end int // byte offsets in the file
	text       string
}

type normalizer struct {
	fset     *token.FileSet
	baseline map[string]bool
	src      map[string][]byte // file name -> current content
	edits    map[string][]normEdit
	imports  map[string]map[string]string // file -> import path -> local name to add
	seq      int
	Notes    []string
	handled  map[*ast.CallExpr]bool // calls already replaced by the expression-level pass
	tail     map[ast.Stmt]bool      // statements after which their function returns
}

func declKey(pkgPath string, d *ast.FuncDecl) string {
	k := short(pkgPath) + "."
	if d.Recv != nil && len(d.Recv.List) == 1 {
		t := d.Recv.List[0].Type
		if st, ok := t.(*ast.StarExpr); ok {
			t = st.X
		}
		if id, ok := t.(*ast.Ident); ok {
			k += id.Name + "."
		}
	}
	return k + d.Name.Name
}

func loadBaseline(path string) map[string]bool {
	b, err := os.ReadFile(path)
	if err != nil {
		return nil
	}
	m := map[string]bool{}
	for _, l := range strings.Split(string(b), "\n") {
		if l = strings.TrimSpace(l); l != "" {
			m[l] = true
		}
	}
	return m
}

// declaredFuncs lists the declaration keys of all functions of the repo packages.
func declaredFuncs(pkgs []*packages.Package) []string {
	var out []string
	for _, p := range pkgs {
		if !(p.PkgPath == modPath || strings.HasPrefix(p.PkgPath, modPath+"/")) {
			continue
		}
		for _, f := range p.Syntax {
			for _, d := range f.Decls {
				if fd, ok := d.(*ast.FuncDecl); ok {
					out = append(out, declKey(p.PkgPath, fd))
				}
			}
		}
	}
	sort.Strings(out)
	return out
}

func (n *normalizer) text(node ast.Node) string {
	p1, p2 := n.fset.Position(node.Pos()), n.fset.Position(node.End())
	return string(n.src[p1.Filename][p1.Offset:p2.Offset])
}

func (n *normalizer) fileSrc(name string) []byte {
	if b, ok := n.src[name]; ok {
		return b
	}
	b, _ := os.ReadFile(name)
	n.src[name] = b
	return b
}

type candidate struct {
	decl *ast.FuncDecl
	file *ast.File
	obj  *types.Func
}

// normalizeOnce performs one round over all repo packages; it returns the new
// overlay contents of the files it changed.
func (n *normalizer) normalizeOnce(pkgs []*packages.Package, overlay map[string][]byte) map[string][]byte {
	n.edits = map[string][]normEdit{}
	n.imports = map[string]map[string]string{}
	n.handled = map[*ast.CallExpr]bool{}
	n.tail = map[ast.Stmt]bool{}
	out := map[string][]byte{}
	for _, p := range pkgs {
		if !(p.PkgPath == modPath || strings.HasPrefix(p.PkgPath, modPath+"/")) {
			continue
		}
		for _, f := range p.Syntax {
			name := n.fset.Position(f.Pos()).Filename
			if b, ok := overlay[name]; ok {
				n.src[name] = b
			} else {
				n.fileSrc(name)
			}
		}
		cands := map[*types.Func]*candidate{}
		for _, f := range p.Syntax {
			for _, d := range f.Decls {
				fd, ok := d.(*ast.FuncDecl)
				if !ok || fd.Body == nil || n.baseline[declKey(p.PkgPath, fd)] {
					continue
				}
				if !n.inlinable(p, fd) {
					continue
				}
				if obj, ok := p.TypesInfo.Defs[fd.Name].(*types.Func); ok {
					cands[obj] = &candidate{fd, f, obj}
				}
			}
		}
		if len(cands) == 0 {
			continue
		}
		remaining := map[*types.Func]int{} // uses that could not be expanded
		expanded := map[*types.Func]int{}
		for _, f := range p.Syntax {
			for _, d := range f.Decls {
				fd, ok := d.(*ast.FuncDecl)
				if !ok || fd.Body == nil {
					continue
				}
				n.exprPass(p, f, fd, cands, expanded)
				n.walkFunc(p, f, fd, fd.Body, cands, expanded)
				if useIIFE {
					n.iifePass(p, f, fd, cands, expanded)
				}
			}
		}
		// every use of a candidate that is not one of the expanded calls keeps the declaration alive
		for id, obj := range p.TypesInfo.Uses {
			if fo, ok := obj.(*types.Func); ok && cands[fo] != nil {
				remaining[fo]++
				_ = id
			}
		}
		for fo, c := range cands {
			if remaining[fo] == expanded[fo] {
				// all uses were expanded: drop the declaration so that it is not analysed as a function of its own
				start := c.decl.Pos()
				if c.decl.Doc != nil {
					start = c.decl.Doc.Pos()
				}
				p1, p2 := n.fset.Position(start), n.fset.Position(c.decl.End())
				n.edits[p1.Filename] = append(n.edits[p1.Filename], normEdit{p1.Offset, p2.Offset, ""})
			}
			if expanded[fo] > 0 {
				n.Notes = append(n.Notes, fmt.Sprintf("%s expanded at %d call site(s)", declKey(p.PkgPath, c.decl), expanded[fo]))
			}
		}
	}
	for name, es := range n.edits {
		src := n.src[name]
		// an enclosing edit (a dropped declaration) wins over edits inside it
		sort.Slice(es, func(i, j int) bool {
			if es[i].start != es[j].start {
				return es[i].start < es[j].start
			}
			return es[i].end > es[j].end
		})
		var keep []normEdit
		lastEnd := -1
		for _, e := range es {
			if e.start < lastEnd {
				continue
			}
			keep = append(keep, e)
			if e.end > lastEnd {
				lastEnd = e.end
			}
		}
		es = keep
		sort.SliceStable(es, func(i, j int) bool { return es[i].start > es[j].start })
		buf := append([]byte{}, src...)
		for _, e := range es {
			if os.Getenv("PORTLINT_NORM_DEBUG") != "" {
				fmt.Fprintf(os.Stderr, "edit %s [%d,%d) replaced=%q by %q\n", name, e.start, e.end, string(src[e.start:e.end]), e.text)
			}
			buf = splice(buf, e.start, e.end, e.text)
		}
		if imps := n.imports[name]; len(imps) > 0 {
			// add the imports right after the package clause
			idx := bytes.Index(buf, []byte("\npackage "))
			if idx < 0 && bytes.HasPrefix(buf, []byte("package ")) {
				idx = -1
			}
			eol := bytes.IndexByte(buf[idx+1:], '\n') + idx + 1
			var ib strings.Builder
			var paths []string
			for path := range imps {
				paths = append(paths, path)
			}
			sort.Strings(paths)
			for _, path := range paths {
				fmt.Fprintf(&ib, "\nimport %s %q", imps[path], path)
			}
			buf = splice(buf, eol, eol, ib.String())
		}
		out[name] = buf
	}
	return out
}

func (n *normalizer) inlinable(p *packages.Package, fd *ast.FuncDecl) bool {
	name := fd.Name.Name
	if name == "init" || name == "main" || !unicode.IsLower(rune(name[0])) {
		return false
	}
	if fd.Type.TypeParams != nil {
		return false
	}
	if fd.Recv != nil {
		if len(fd.Recv.List) != 1 {
			return false
		}
		t := fd.Recv.List[0].Type
		if st, ok := t.(*ast.StarExpr); ok {
			t = st.X
		}
		if _, ok := t.(*ast.Ident); !ok {
			return false // generic receiver
		}
	}
	for _, f := range fd.Type.Params.List {
		if _, ok := f.Type.(*ast.Ellipsis); ok {
			return false
		}
	}
	obj, _ := p.TypesInfo.Defs[fd.Name].(*types.Func)
	ok := true
	ast.Inspect(fd.Body, func(x ast.Node) bool {
		switch y := x.(type) {
		case *ast.FuncLit:
			return false // its defers/returns are its own
		case *ast.CallExpr:
			if id, isID := y.Fun.(*ast.Ident); isID && obj != nil && p.TypesInfo.Uses[id] == types.Object(obj) {
				ok = false // recursive
			}
			if sel, isSel := y.Fun.(*ast.SelectorExpr); isSel && obj != nil && p.TypesInfo.Uses[sel.Sel] == types.Object(obj) {
				ok = false
			}
		case *ast.BranchStmt:
			if y.Tok == token.GOTO {
				ok = false
			}
		}
		return true
	})
	return ok
}

// frameUse reports whether the helper uses defer and/or recover: such a helper needs a function frame of its own,
// except that a helper with plain defers may be expanded where the caller returns right after it.
func frameUse(fd *ast.FuncDecl) (hasDefer, hasRecover bool) {
	ast.Inspect(fd.Body, func(x ast.Node) bool {
		switch y := x.(type) {
		case *ast.FuncLit:
			ast.Inspect(y, func(z ast.Node) bool {
				if c, ok := z.(*ast.CallExpr); ok {
					if id, isID := c.Fun.(*ast.Ident); isID && id.Name == "recover" {
						hasRecover = true
					}
				}
				return true
			})
			return false
		case *ast.DeferStmt:
			hasDefer = true
		case *ast.CallExpr:
			if id, isID := y.Fun.(*ast.Ident); isID && id.Name == "recover" {
				hasRecover = true
			}
		}
		return true
	})
	return
}

// walkFunc visits every statement list of fn (and of the function literals in it).
func (n *normalizer) walkFunc(p *packages.Package, file *ast.File, fn *ast.FuncDecl, body *ast.BlockStmt, cands map[*types.Func]*candidate, expanded map[*types.Func]int) {
	var lists func(stmts []ast.Stmt)
	var stmt func(s ast.Stmt)
	lits := func(node ast.Node) {
		ast.Inspect(node, func(x ast.Node) bool {
			if fl, ok := x.(*ast.FuncLit); ok {
				lists(fl.Body.List)
				return false
			}
			return true
		})
	}
	stmt = func(s ast.Stmt) {
		switch x := s.(type) {
		case *ast.BlockStmt:
			lists(x.List)
		case *ast.IfStmt:
			if x.Init != nil {
				lits(x.Init)
			}
			lits(x.Cond)
			lists(x.Body.List)
			if x.Else != nil {
				stmt(x.Else)
			}
		case *ast.ForStmt:
			lists(x.Body.List)
		case *ast.RangeStmt:
			lists(x.Body.List)
		case *ast.SwitchStmt:
			for _, c := range x.Body.List {
				lists(c.(*ast.CaseClause).Body)
			}
		case *ast.TypeSwitchStmt:
			for _, c := range x.Body.List {
				lists(c.(*ast.CaseClause).Body)
			}
		case *ast.SelectStmt:
			for _, c := range x.Body.List {
				lists(c.(*ast.CommClause).Body)
			}
		case *ast.LabeledStmt:
			stmt(x.Stmt)
		default:
			lits(s)
		}
	}
	lists = func(stmts []ast.Stmt) {
		for _, s := range stmts {
			if n.tryExpand(p, file, fn, s, cands, expanded) {
				continue
			}
			stmt(s)
		}
	}
	if len(body.List) > 0 {
		n.tail[body.List[len(body.List)-1]] = true
	}
	lists(body.List)
}

func (n *normalizer) calleeOf(p *packages.Package, call *ast.CallExpr, cands map[*types.Func]*candidate) (*candidate, ast.Expr) {
	switch f := call.Fun.(type) {
	case *ast.Ident:
		if fo, ok := p.TypesInfo.Uses[f].(*types.Func); ok && cands[fo] != nil && fo.Type().(*types.Signature).Recv() == nil {
			return cands[fo], nil
		}
	case *ast.SelectorExpr:
		if fo, ok := p.TypesInfo.Uses[f.Sel].(*types.Func); ok && cands[fo] != nil && fo.Type().(*types.Signature).Recv() != nil {
			if sel := p.TypesInfo.Selections[f]; sel != nil && sel.Kind() == types.MethodVal && len(sel.Index()) == 1 {
				return cands[fo], f.X
			}
		}
	}
	return nil, nil
}

// tryExpand rewrites statement s if it is one of the supported call shapes.
func (n *normalizer) tryExpand(p *packages.Package, file *ast.File, fn *ast.FuncDecl, s ast.Stmt, cands map[*types.Func]*candidate, expanded map[*types.Func]int) bool {
	var call *ast.CallExpr
	kind := ""
	switch x := s.(type) {
	case *ast.ExprStmt:
		if c, ok := x.X.(*ast.CallExpr); ok {
			call, kind = c, "expr"
		}
	case *ast.AssignStmt:
		if len(x.Rhs) == 1 && (x.Tok == token.DEFINE || x.Tok == token.ASSIGN) {
			if c, ok := x.Rhs[0].(*ast.CallExpr); ok {
				call, kind = c, "assign"
			}
		}
	case *ast.ReturnStmt:
		if len(x.Results) == 1 {
			if c, ok := x.Results[0].(*ast.CallExpr); ok {
				call, kind = c, "return"
			}
		} else if len(x.Results) > 1 {
			// return h(a), nil: the other results must be free of calls (their evaluation cannot be reordered observably)
			var only *ast.CallExpr
			simple := true
			for _, r := range x.Results {
				if c, ok := r.(*ast.CallExpr); ok && only == nil {
					only = c
					continue
				}
				ast.Inspect(r, func(y ast.Node) bool {
					switch y.(type) {
					case *ast.CallExpr, *ast.FuncLit, *ast.UnaryExpr:
						simple = false
					}
					return true
				})
			}
			if only != nil && simple {
				call, kind = only, "returnpart"
			}
		}
	case *ast.IfStmt:
		if x.Init == nil {
			cond := x.Cond
			if u, ok := cond.(*ast.UnaryExpr); ok && u.Op == token.NOT {
				cond = u.X
			}
			if c, ok := cond.(*ast.CallExpr); ok {
				call, kind = c, "if"
			}
		} else if as, ok := x.Init.(*ast.AssignStmt); ok && len(as.Rhs) == 1 {
			// if v, err := h(a); cond { ... }: the init runs first, so the call can be expanded in front of the if
			if c, ok := as.Rhs[0].(*ast.CallExpr); ok {
				call, kind = c, "ifinit"
			}
		}
	case *ast.SwitchStmt:
		if x.Init == nil && x.Tag != nil {
			if c, ok := x.Tag.(*ast.CallExpr); ok {
				call, kind = c, "switchtag"
			}
		}
	case *ast.DeferStmt:
		call, kind = x.Call, "defer"
	case *ast.GoStmt:
		call, kind = x.Call, "go"
	}
	if call == nil {
		return false
	}
	if n.handled[call] {
		return false
	}
	cand, recvExpr := n.calleeOf(p, call, cands)
	if cand == nil || cand.decl == fn {
		return false
	}
	if kind != "defer" && kind != "go" {
		hasDefer, hasRecover := frameUse(cand.decl)
		if hasRecover {
			return false
		}
		if hasDefer {
			// its deferred calls would run at the caller's return instead of its own: the same moment only if the caller returns right after the call
			namedRes := false
			if rs := cand.decl.Type.Results; rs != nil {
				for _, f := range rs.List {
					namedRes = namedRes || len(f.Names) > 0
				}
			}
			if namedRes || !(kind == "return" || (kind == "expr" && n.tail[s])) {
				return false
			}
		}
	}
	sig := cand.obj.Type().(*types.Signature)
	fileName := n.fset.Position(file.Pos()).Filename
	qual, addImp, okQ := n.qualifierFor(p, file, fileName)
	// names the callee body takes from its own file's imports and from package scope must mean the same here
	if !n.namesAgree(p, file, cand, call.Pos(), addImp) || !okQ() {
		return false
	}
	n.seq++
	id := n.seq
	lbl := fmt.Sprintf("_inl%d", id)
	typeStr := func(t types.Type) string { return types.TypeString(t, qual) }

	// parameters (receiver first)
	type par struct {
		name, typ, arg string
		isConst        bool
	}
	var pars []par
	if recvExpr != nil {
		rn := "_"
		if len(cand.decl.Recv.List[0].Names) == 1 {
			rn = cand.decl.Recv.List[0].Names[0].Name
		}
		arg := n.text(recvExpr)
		_, wantPtr := sig.Recv().Type().(*types.Pointer)
		if have := p.TypesInfo.TypeOf(recvExpr); have != nil {
			_, havePtr := have.Underlying().(*types.Pointer)
			if _, isNamedPtr := have.(*types.Pointer); isNamedPtr {
				havePtr = true
			}
			switch {
			case wantPtr && !havePtr:
				arg = "&(" + arg + ")"
			case !wantPtr && havePtr:
				arg = "*(" + arg + ")"
			}
		}
		pars = append(pars, par{rn, typeStr(sig.Recv().Type()), arg, false})
	}
	ai := 0
	for _, f := range cand.decl.Type.Params.List {
		names := f.Names
		if len(names) == 0 {
			names = []*ast.Ident{{Name: "_"}}
		}
		for _, nm := range names {
			if ai >= len(call.Args) {
				return false
			}
			tv, hasTV := p.TypesInfo.Types[call.Args[ai]]
			pars = append(pars, par{nm.Name, typeStr(sig.Params().At(ai).Type()), n.text(call.Args[ai]), hasTV && tv.Value != nil})
			ai++
		}
	}
	if ai != len(call.Args) {
		return false // f(g()) with a multi-value g
	}
	if !okQ() {
		return false
	}
	nres := sig.Results().Len()
	var resNames, resTypes, named []string
	for i := 0; i < nres; i++ {
		resNames = append(resNames, fmt.Sprintf("_inl%d_r%d", id, i+1))
		resTypes = append(resTypes, typeStr(sig.Results().At(i).Type()))
		if nm := sig.Results().At(i).Name(); nm != "" && nm != "_" {
			named = append(named, nm)
		}
	}
	if !okQ() {
		return false
	}

	if kind == "defer" || kind == "go" {
		var b strings.Builder
		b.WriteString(kind + " func(")
		for i, pr := range pars {
			if i > 0 {
				b.WriteString(", ")
			}
			b.WriteString(pr.name + " " + pr.typ)
		}
		b.WriteString(")")
		if nres > 0 {
			b.WriteString(" (")
			for i := 0; i < nres; i++ {
				if i > 0 {
					b.WriteString(", ")
				}
				if len(named) == nres {
					b.WriteString(named[i] + " ")
				}
				b.WriteString(resTypes[i])
			}
			b.WriteString(")")
		}
		b.WriteString(" " + n.text(cand.decl.Body) + "(")
		for i, pr := range pars {
			if i > 0 {
				b.WriteString(", ")
			}
			b.WriteString(pr.arg)
		}
		b.WriteString(")")
		n.replace(s, b.String())
		expanded[cand.obj]++
		n.handled[call] = true
		return true
	}

	// statement shapes
	var lhs []string
	switch kind {
	case "assign":
		as := s.(*ast.AssignStmt)
		if len(as.Lhs) != nres {
			return false
		}
		for _, l := range as.Lhs {
			lhs = append(lhs, n.text(l))
		}
	case "return":
		if fn.Type.Results == nil {
			return false
		}
	case "if", "switchtag", "returnpart":
		if nres != 1 {
			return false
		}
	case "ifinit":
		if as := s.(*ast.IfStmt).Init.(*ast.AssignStmt); len(as.Lhs) != nres {
			return false
		}
	}
	useResults := kind != "expr"
	var b strings.Builder
	if useResults {
		for i := 0; i < nres; i++ {
			fmt.Fprintf(&b, "var %s %s\n", resNames[i], resTypes[i])
		}
	}
	b.WriteString("{\n")
	if len(pars) > 0 {
		// arguments are evaluated once, in order, in the caller's scope; constants keep their untyped form
		tmps := make([]string, len(pars))
		var tl, al []string
		for i, pr := range pars {
			if pr.isConst {
				tmps[i] = pr.arg
				continue
			}
			tmps[i] = fmt.Sprintf("_inl%d_a%d", id, i+1)
			tl = append(tl, tmps[i])
			al = append(al, pr.arg)
		}
		if len(tl) > 0 {
			fmt.Fprintf(&b, "%s := %s\n", strings.Join(tl, ", "), strings.Join(al, ", "))
		}
		for i, pr := range pars {
			if pr.name == "_" {
				if !pr.isConst {
					fmt.Fprintf(&b, "_ = %s\n", tmps[i])
				}
				continue
			}
			fmt.Fprintf(&b, "var %s %s = %s\n_ = %s\n", pr.name, pr.typ, tmps[i], pr.name)
		}
	}
	if len(named) == nres {
		for i := 0; i < nres; i++ {
			fmt.Fprintf(&b, "var %s %s\n_ = %s\n", named[i], resTypes[i], named[i])
		}
	}
	fmt.Fprintf(&b, "%s:\nfor {\n", lbl)
	b.WriteString(n.rewriteBody(cand, lbl, id, resNames, named, useResults))
	fmt.Fprintf(&b, "\nbreak %s\n}\n}\n", lbl)
	switch kind {
	case "assign":
		as := s.(*ast.AssignStmt)
		fmt.Fprintf(&b, "%s %s %s\n", strings.Join(lhs, ", "), as.Tok.String(), strings.Join(resNames, ", "))
	case "return":
		fmt.Fprintf(&b, "return %s\n", strings.Join(resNames, ", "))
	case "if", "ifinit", "switchtag", "returnpart":
		// keep the statement, expand in front of it and replace only the call inside it
		p1, p2 := n.fset.Position(s.Pos()), n.fset.Position(call.Pos())
		p3 := n.fset.Position(call.End())
		n.edits[p1.Filename] = append(n.edits[p1.Filename], normEdit{p1.Offset, p1.Offset, b.String()})
		n.edits[p1.Filename] = append(n.edits[p1.Filename], normEdit{p2.Offset, p3.Offset, strings.Join(resNames, ", ")})
		expanded[cand.obj]++
		n.handled[call] = true
		// the branches of the statement may contain further calls
		return false
	}
	n.replace(s, b.String())
	expanded[cand.obj]++
	n.handled[call] = true
	return true
}

func (n *normalizer) replace(node ast.Node, text string) {
	p1, p2 := n.fset.Position(node.Pos()), n.fset.Position(node.End())
	n.edits[p1.Filename] = append(n.edits[p1.Filename], normEdit{p1.Offset, p2.Offset, text})
}

// rewriteBody returns the callee's statements with returns turned into assignments + break and labels made unique.
func (n *normalizer) rewriteBody(c *candidate, lbl string, id int, res, named []string, useResults bool) string {
	body := c.decl.Body
	p0 := n.fset.Position(body.Lbrace)
	pEnd := n.fset.Position(body.Rbrace)
	src := n.src[p0.Filename]
	type ed struct {
		s, e int
		t    string
	}
	var eds []ed
	nres := len(res)
	ast.Inspect(body, func(x ast.Node) bool {
		switch y := x.(type) {
		case *ast.FuncLit:
			return false
		case *ast.LabeledStmt:
			p := n.fset.Position(y.Label.End())
			eds = append(eds, ed{p.Offset, p.Offset, fmt.Sprintf("_i%d", id)})
		case *ast.BranchStmt:
			if y.Label != nil {
				p := n.fset.Position(y.Label.End())
				eds = append(eds, ed{p.Offset, p.Offset, fmt.Sprintf("_i%d", id)})
			}
		case *ast.ReturnStmt:
			p1, p2 := n.fset.Position(y.Pos()), n.fset.Position(y.End())
			var t string
			switch {
			case nres == 0:
				t = "break " + lbl
			case len(y.Results) == 0: // bare return with named results
				if useResults {
					t = fmt.Sprintf("{ %s = %s; break %s }", strings.Join(res, ", "), strings.Join(named, ", "), lbl)
				} else {
					t = "break " + lbl
				}
			default:
				var rs []string
				for _, r := range y.Results {
					rs = append(rs, n.text(r))
				}
				target := strings.Join(res, ", ")
				if !useResults {
					target = strings.TrimSuffix(strings.Repeat("_, ", nres), ", ")
				}
				t = fmt.Sprintf("{ %s = %s; break %s }", target, strings.Join(rs, ", "), lbl)
			}
			eds = append(eds, ed{p1.Offset, p2.Offset, t})
		}
		return true
	})
	sort.Slice(eds, func(i, j int) bool { return eds[i].s > eds[j].s })
	buf := append([]byte{}, src[p0.Offset+1:pEnd.Offset]...)
	base := p0.Offset + 1
	if os.Getenv("PORTLINT_NORM_DEBUG") != "" {
		fmt.Fprintf(os.Stderr, "rewriteBody %s: body=%q eds=%v\n", c.decl.Name.Name, string(buf), eds)
	}
	for _, e := range eds {
		buf = splice(buf, e.s-base, e.e-base, e.t)
	}
	if os.Getenv("PORTLINT_NORM_DEBUG") != "" {
		fmt.Fprintf(os.Stderr, "rewriteBody result=%q\n", string(buf))
	}
	return string(buf)
}

// qualifierFor returns a types.Qualifier for type expressions written into file,
// a function that registers an import to add, and a function reporting whether all names were expressible.
func (n *normalizer) qualifierFor(p *packages.Package, file *ast.File, fileName string) (types.Qualifier, func(path, name string) bool, func() bool) {
	ok := true
	have := map[string]string{} // path -> local name
	used := map[string]string{} // local name -> path
	for _, is := range file.Imports {
		path := strings.Trim(is.Path.Value, `"`)
		name := ""
		if is.Name != nil {
			name = is.Name.Name
		} else if ip := p.Imports[path]; ip != nil {
			name = ip.Name
		} else {
			name = path[strings.LastIndex(path, "/")+1:]
		}
		have[path] = name
		used[name] = path
	}
	add := func(path, name string) bool {
		if have[path] == name {
			return true
		}
		if _, taken := have[path]; taken {
			return false // imported under another name: the copied text would not resolve
		}
		if other, taken := used[name]; taken && other != path {
			return false
		}
		if p.Types.Scope().Lookup(name) != nil {
			return false
		}
		if n.imports[fileName] == nil {
			n.imports[fileName] = map[string]string{}
		}
		n.imports[fileName][path] = name
		have[path] = name
		used[name] = path
		return true
	}
	qual := func(tp *types.Package) string {
		if tp == p.Types {
			return ""
		}
		if nm, has := have[tp.Path()]; has && nm != "_" && nm != "." {
			return nm
		}
		if add(tp.Path(), tp.Name()) {
			return tp.Name()
		}
		ok = false
		return tp.Name()
	}
	return qual, add, func() bool { return ok }
}

// namesAgree checks that every package-level, universe or imported name the callee body uses resolves to the same object at the call site.
func (n *normalizer) namesAgree(p *packages.Package, file *ast.File, c *candidate, at token.Pos, addImp func(path, name string) bool) bool {
	scope := p.Types.Scope().Innermost(at)
	if scope == nil {
		return false
	}
	ok := true
	ast.Inspect(c.decl.Body, func(x ast.Node) bool {
		id, isID := x.(*ast.Ident)
		if !isID || !ok {
			return true
		}
		obj := p.TypesInfo.Uses[id]
		if obj == nil {
			return true
		}
		switch o := obj.(type) {
		case *types.PkgName:
			if c.file != file && !addImp(o.Imported().Path(), o.Name()) {
				ok = false
			}
			if _, found := scope.LookupParent(o.Name(), at); found != nil {
				if pn, isPkg := found.(*types.PkgName); !isPkg || pn.Imported().Path() != o.Imported().Path() {
					ok = false // shadowed by a local, or another package under that name, at the call site
				}
			}
		default:
			parent := obj.Parent()
			if parent == types.Universe || parent == p.Types.Scope() {
				if _, found := scope.LookupParent(obj.Name(), at); found != obj {
					ok = false
				}
			}
		}
		return true
	})
	return ok
}

// normalizeHelpers runs up to maxRounds rounds of expansion and returns the overlay to analyse (nil if nothing changed).
func normalizeHelpers(cfg *packages.Config, pkgs []*packages.Package, baseline map[string]bool) ([]*packages.Package, []string) {
	if baseline == nil {
		return pkgs, nil
	}
	n := &normalizer{baseline: baseline, src: map[string][]byte{}}
	_ = pkgs
	overlay := map[string][]byte{}
	for k, v := range cfg.Overlay {
		overlay[k] = v
	}
	cur := pkgs
	for round := 0; round < 4; round++ {
		n.fset = cur[0].Fset
		changed := n.normalizeOnce(cur, overlay)
		if len(changed) == 0 {
			break
		}
		for k, v := range changed {
			overlay[k] = v
			if d := os.Getenv("PORTLINT_NORM_DUMP"); d != "" {
				_ = os.MkdirAll(d, 0o755)
				_ = os.WriteFile(d+"/"+fmt.Sprintf("r%d_", round)+strings.ReplaceAll(strings.TrimPrefix(k, "/repo/"), "/", "__"), v, 0o644)
			}
		}
		cfg2 := *cfg
		cfg2.Overlay = overlay
		next, err := packages.Load(&cfg2, "./...")
		bad := err != nil
		var firstErr string
		if !bad {
			packages.Visit(next, nil, func(p *packages.Package) {
				for _, e := range p.Errors {
					if !bad {
						firstErr = e.Error()
					}
					bad = true
				}
			})
		}
		if bad {
			// give up only on the packages whose rewritten files do not type-check
			badDirs := map[string]bool{}
			if err == nil {
				packages.Visit(next, nil, func(p *packages.Package) {
					if len(p.Errors) > 0 {
						for _, f := range p.CompiledGoFiles {
							badDirs[f[:strings.LastIndex(f, "/")]] = true
						}
					}
				})
			}
			retry := false
			for k := range changed {
				if badDirs[k[:strings.LastIndex(k, "/")]] {
					if prev, had := cfg.Overlay[k]; had {
						overlay[k] = prev
					} else {
						delete(overlay, k)
					}
					retry = true
				}
			}
			n.Notes = append(n.Notes, "helper normalisation skipped for a package (rewritten source does not type-check: "+firstErr+")")
			if !retry || err != nil {
				return cur, n.Notes
			}
			cfg3 := *cfg
			cfg3.Overlay = overlay
			next, err = packages.Load(&cfg3, "./...")
			stillBad := err != nil
			if !stillBad {
				packages.Visit(next, nil, func(p *packages.Package) {
					if len(p.Errors) > 0 {
						stillBad = true
					}
				})
			}
			if stillBad {
				return cur, n.Notes
			}
			cur = next
			break
		}
		cur = next
	}
	return cur, n.Notes
}

// singleExpr returns the expression of a helper whose body is just "return <expr>".
func singleExpr(fd *ast.FuncDecl) ast.Expr {
	if len(fd.Body.List) != 1 {
		return nil
	}
	ret, ok := fd.Body.List[0].(*ast.ReturnStmt)
	if !ok || len(ret.Results) != 1 {
		return nil
	}
	hasLit := false
	ast.Inspect(ret.Results[0], func(x ast.Node) bool {
		if _, ok := x.(*ast.FuncLit); ok {
			hasLit = true
		}
		return true
	})
	if hasLit {
		return nil
	}
	return ret.Results[0]
}

func simpleArg(e ast.Expr) bool {
	switch x := e.(type) {
	case *ast.Ident, *ast.BasicLit:
		return true
	case *ast.SelectorExpr:
		return simpleArg(x.X)
	case *ast.ParenExpr:
		return simpleArg(x.X)
	case *ast.StarExpr:
		return simpleArg(x.X)
	case *ast.UnaryExpr:
		return (x.Op == token.AND || x.Op == token.SUB || x.Op == token.NOT) && simpleArg(x.X)
	case *ast.IndexExpr:
		return simpleArg(x.X) && simpleArg(x.Index)
	}
	return false
}

// exprPass replaces, anywhere in fn, calls of single-expression helpers by the expression itself
// (arguments substituted for parameters). Arguments must be free of calls, so evaluation order cannot change observably.
func (n *normalizer) exprPass(p *packages.Package, file *ast.File, fn *ast.FuncDecl, cands map[*types.Func]*candidate, expanded map[*types.Func]int) {
	fileName := n.fset.Position(file.Pos()).Filename
	ast.Inspect(fn.Body, func(x ast.Node) bool {
		call, ok := x.(*ast.CallExpr)
		if !ok {
			return true
		}
		cand, recvExpr := n.calleeOf(p, call, cands)
		if cand == nil || cand.decl == fn {
			return true
		}
		expr := singleExpr(cand.decl)
		if expr == nil {
			return true
		}
		sig := cand.obj.Type().(*types.Signature)
		qual, addImp, okQ := n.qualifierFor(p, file, fileName)
		if !n.namesAgree(p, file, cand, call.Pos(), addImp) {
			return true
		}
		// parameter objects -> argument text
		sub := map[types.Object]string{}
		okArgs := true
		bind := func(nameID *ast.Ident, want types.Type, arg ast.Expr, text string) {
			if !simpleArg(arg) {
				okArgs = false
				return
			}
			have := p.TypesInfo.TypeOf(arg)
			if have == nil {
				okArgs = false
				return
			}
			if !types.Identical(have, want) {
				if tv, isConst := p.TypesInfo.Types[arg]; isConst && tv.Value != nil {
					text = types.TypeString(want, qual) + "(" + text + ")"
				} else {
					okArgs = false
					return
				}
			}
			if nameID != nil && nameID.Name != "_" {
				if obj := p.TypesInfo.Defs[nameID]; obj != nil {
					sub[obj] = "(" + text + ")"
				}
			}
		}
		if recvExpr != nil {
			text := n.text(recvExpr)
			want := sig.Recv().Type()
			have := p.TypesInfo.TypeOf(recvExpr)
			if have != nil && !types.Identical(have, want) {
				if _, wantPtr := want.(*types.Pointer); wantPtr {
					text = "&" + text
				} else {
					text = "*" + text
				}
				// after the adjustment the types agree by construction of a valid method call
				have = want
			}
			var nameID *ast.Ident
			if len(cand.decl.Recv.List[0].Names) == 1 {
				nameID = cand.decl.Recv.List[0].Names[0]
			}
			if !simpleArg(recvExpr) {
				okArgs = false
			} else if nameID != nil && nameID.Name != "_" {
				if obj := p.TypesInfo.Defs[nameID]; obj != nil {
					sub[obj] = "(" + text + ")"
				}
			}
		}
		ai := 0
		for _, f := range cand.decl.Type.Params.List {
			names := f.Names
			if len(names) == 0 {
				names = []*ast.Ident{nil}
			}
			for _, nm := range names {
				if ai >= len(call.Args) {
					okArgs = false
					break
				}
				bind(nm, sig.Params().At(ai).Type(), call.Args[ai], n.text(call.Args[ai]))
				ai++
			}
		}
		if !okArgs || ai != len(call.Args) || !okQ() {
			return true
		}
		// substitute inside the expression text
		p0, p1 := n.fset.Position(expr.Pos()), n.fset.Position(expr.End())
		src := n.src[p0.Filename]
		type ed struct {
			s, e int
			t    string
		}
		var eds []ed
		ast.Inspect(expr, func(y ast.Node) bool {
			if id, ok := y.(*ast.Ident); ok {
				if t, has := sub[p.TypesInfo.Uses[id]]; has {
					a, b := n.fset.Position(id.Pos()), n.fset.Position(id.End())
					eds = append(eds, ed{a.Offset, b.Offset, t})
				}
			}
			return true
		})
		sort.Slice(eds, func(i, j int) bool { return eds[i].s > eds[j].s })
		buf := append([]byte{}, src[p0.Offset:p1.Offset]...)
		for _, e := range eds {
			buf = splice(buf, e.s-p0.Offset, e.e-p0.Offset, e.t)
		}
		n.replace(call, "("+string(buf)+")")
		n.handled[call] = true
		expanded[cand.obj]++
		return false // nested calls are handled in the next round
	})
}

// splice returns buf[:start] + text + buf[end:] in fresh memory.
func splice(buf []byte, start, end int, text string) []byte {
	out := make([]byte, 0, len(buf)+len(text))
	out = append(out, buf[:start]...)
	out = append(out, text...)
	return append(out, buf[end:]...)
}

// iifePass: a call of a non-baseline helper that could not be expanded as statements (it defers, or sits inside an
// expression) is replaced by a call of a function literal with the helper's body. That is always equivalent and turns
// the helper from a named function the rules do not know into a closure of the function they are anchored to.
func (n *normalizer) iifePass(p *packages.Package, file *ast.File, fn *ast.FuncDecl, cands map[*types.Func]*candidate, expanded map[*types.Func]int) {
	fileName := n.fset.Position(file.Pos()).Filename
	ast.Inspect(fn.Body, func(x ast.Node) bool {
		call, ok := x.(*ast.CallExpr)
		if !ok || n.handled[call] {
			return true
		}
		cand, recvExpr := n.calleeOf(p, call, cands)
		if cand == nil || cand.decl == fn {
			return true
		}
		sig := cand.obj.Type().(*types.Signature)
		qual, addImp, okQ := n.qualifierFor(p, file, fileName)
		if !n.namesAgree(p, file, cand, call.Pos(), addImp) {
			return true
		}
		typeStr := func(t types.Type) string { return types.TypeString(t, qual) }
		var params, args []string
		if recvExpr != nil {
			rn := "_"
			if len(cand.decl.Recv.List[0].Names) == 1 {
				rn = cand.decl.Recv.List[0].Names[0].Name
			}
			arg := n.text(recvExpr)
			_, wantPtr := sig.Recv().Type().(*types.Pointer)
			if have := p.TypesInfo.TypeOf(recvExpr); have != nil {
				_, havePtr := have.(*types.Pointer)
				switch {
				case wantPtr && !havePtr:
					arg = "&(" + arg + ")"
				case !wantPtr && havePtr:
					arg = "*(" + arg + ")"
				}
			}
			params = append(params, rn+" "+typeStr(sig.Recv().Type()))
			args = append(args, arg)
		}
		ai := 0
		for _, f := range cand.decl.Type.Params.List {
			names := f.Names
			if len(names) == 0 {
				names = []*ast.Ident{{Name: "_"}}
			}
			for _, nm := range names {
				if ai >= len(call.Args) {
					return true
				}
				params = append(params, nm.Name+" "+typeStr(sig.Params().At(ai).Type()))
				args = append(args, n.text(call.Args[ai]))
				ai++
			}
		}
		if ai != len(call.Args) {
			return true
		}
		var res []string
		for i := 0; i < sig.Results().Len(); i++ {
			v := sig.Results().At(i)
			if v.Name() != "" {
				res = append(res, v.Name()+" "+typeStr(v.Type()))
			} else {
				res = append(res, typeStr(v.Type()))
			}
		}
		if !okQ() {
			return true
		}
		text := "func(" + strings.Join(params, ", ") + ")"
		if len(res) > 0 {
			text += " (" + strings.Join(res, ", ") + ")"
		}
		text += " " + n.text(cand.decl.Body) + "(" + strings.Join(args, ", ") + ")"
		n.replace(call, text)
		n.handled[call] = true
		expanded[cand.obj]++
		return false
	})
}
