package main

import (
	"fmt"
	"go/constant"
	"go/token"
	"go/types"
	"sort"
	"strings"

	"golang.org/x/tools/go/ssa"
)

func init() {
	register(&propDef{
		ID: "C13",
		Explanation: "Decides structural necessary conditions of the database-API protocol: " +
			"(R1) reply discipline: every path through handleGet/handlePut/handleInsert/handleDelete sends exactly one reply (all paths enumerated), query/subscription processors end every non-shutdown exit with exactly one done|error, every reply carries the handler's own operation ID, each handler uses only the message types the protocol lists for it, qsub subscribes before it queries; " +
			"(R2) the dispatch table of Handle (command -> handler, create flag), malformed messages answered with an error; " +
			"(R4) a cancel message cannot crash the process: a subscription feed is closed only by Cancel, under the write lock, only when the subscription was still registered, at most once (shared with C14-R2); (R3) the accessor returned by Record.GetAccessor (nil for non-JSON wrappers) is nil-checked before every use. " +
			"(R5) every constant-bound index/slice in the repo functions statically reachable from DatabaseAPI.Handle is dominated by a length test implying the bound (or a named idiom/invariant). " +
			"(R6) lock pairing over the functions statically reachable from api.(*DatabaseAPI).Handle, api.MarshalRecord: " + lockRuleText + ". " +
			"(R7) Record.Marshal yields no data for a deleted record before any other rejection (processSub marshals before it looks at the deleted flag, so the del notification depends on it; shared with C08-R7). " +
			"(R8) error discipline over the database API (api/database.go): " + repoErrText + ". " +
			"(R9) in the subscription feed a deleted record is announced as del before any other classification: the new/upd replies are reachable only for records that are not deleted; " +
			"(R10) a database interface hands out a nil controller only together with getController's own error, and nothing on the controller-lookup path (getController and the database functions it statically reaches) uses ErrNotFound - Put/PutNew continue on ErrNotFound and use the controller; " +
			"(R11) lock pairing over the storage backends and the iterator (= C02-R9): a record or storage lock left behind by a query executor wedges every later request on that key; " +
			"(R12) every possibly successful Controller.Put notifies the subscribers (= C14-R10): a delete on a database without shadow delete still produces the del message; " +
			"NOT decided: absence of other panics for arbitrary messages, wedging, content preservation of written records.",
		Rules: []ruleFn{c13R1, c13R2, c13R3, func(c *Ctx, r *Report) { subscriptionFeedRule(c, r, "C13-R4") }, c13R5,
			lockRuleFor("C13-R6", 15, []string{}, []string{"api.(*DatabaseAPI).Handle", "api.MarshalRecord"}, map[string]string{}),
			func(c *Ctx, r *Report) { deletedFirstRule(c, r, "C13-R7") },
			repoErrRuleFor("C13-R8", 15, func(c *Ctx, fn *ssa.Function) bool {
				return short(fn.Pkg.Pkg.Path()) == "api" && inFile(c, fn, "api/database.go")
			}, map[string]string{"api.(*DatabaseAPI).processSub / database.Subscription.Cancel": "cancel at API shutdown is best effort; the feed is abandoned either way", "api.(*DatabaseWebsocketAPI).handler$1 / api.DatabaseWebsocketAPI.shutdown": "shutdown only returns the error it was given or a stop sentinel for the worker", "api.(*DatabaseWebsocketAPI).writer$1 / api.DatabaseWebsocketAPI.shutdown": "shutdown only returns the error it was given or a stop sentinel for the worker"}),
			c13R9, c13R10,
			lockRuleFor("C13-R11", 9, []string{"database/storage/hashmap", "database/storage/bbolt", "database/storage/badger", "database/storage/fstree", "database/storage/sinkhole", "database/storage", "database/iterator"}, []string{}, map[string]string{}),
			borrowRule(c14R10, "C14-R10", "C13-R12", 2, nil)},
	})
}

const fnAPISend = "api.DatabaseAPI.send"

// sendType returns the message type constant of an api.send call.
func sendType(in ssa.Instruction) (string, bool) {
	ci, ok := in.(*ssa.Call)
	if !ok || calleeName(&ci.Call) != fnAPISend {
		return "", false
	}
	if cst, ok := ci.Call.Args[2].(*ssa.Const); ok && cst.Value != nil && cst.Value.Kind() == constant.String {
		return constant.StringVal(cst.Value), true
	}
	return "?", true
}

func c13R1(c *Ctx, r *Report) {
	const rule = "C13-R1"
	r.SetFloor(rule, 20)
	// single-reply handlers
	for _, name := range []string{"handleGet", "handlePut", "handleInsert", "handleDelete"} {
		fn := c.Func("api.(*DatabaseAPI)." + name)
		if fn == nil {
			r.Undecided(rule, "api.(*DatabaseAPI)."+name, "anchor function missing")
			continue
		}
		paths, ok := enumPaths(fn, func(in ssa.Instruction) string {
			if t, ok := sendType(in); ok {
				return t
			}
			return ""
		}, nil)
		if !ok {
			r.Undecided(rule, fnKey(fn), "path enumeration failed")
			continue
		}
		hist := map[string]int{}
		bad := ""
		isBad := false
		for _, p := range paths {
			s := strings.Join(p, ",")
			hist[s]++
			if len(p) != 1 {
				bad, isBad = s, true
			}
		}
		r.Check(!isBad, rule, fnKey(fn)+" / exactly one reply per path", fmt.Sprintf("%d paths, each with exactly one reply: %v", len(paths), histString(hist)),
			fmt.Sprintf("a path through %s sends the replies [%s] (exactly one success/ok or error is prescribed)", name, bad))
	}
	// operation ID and message-type sets
	allowed := map[string][]string{
		"api.(*DatabaseAPI).handleGet":    {"error", "ok"},
		"api.(*DatabaseAPI).handleQuery":  {"error"},
		"api.(*DatabaseAPI).processQuery": {"error", "warning", "ok", "done"},
		"api.(*DatabaseAPI).handleSub":    {"error"},
		"api.(*DatabaseAPI).registerSub":  {"error"},
		"api.(*DatabaseAPI).processSub":   {"warning", "del", "new", "upd", "done"},
		"api.(*DatabaseAPI).handleQsub":   {"error"},
		"api.(*DatabaseAPI).cancelSub":    {"error"},
		"api.(*DatabaseAPI).handlePut":    {"error", "success"},
		"api.(*DatabaseAPI).handleInsert": {"error", "success"},
		"api.(*DatabaseAPI).handleDelete": {"error", "success"},
		"api.(*DatabaseAPI).Handle":       {"error"},
	}
	ord := map[string]int{}
	for _, s := range c.CallSites(fnAPISend) {
		top := fnKey(topFunc(s.Fn))
		ci := s.Instr.(*ssa.Call)
		t, _ := sendType(ci)
		cons := ordinal(ord, fmt.Sprintf("%s / send %s", fnKey(s.Fn), t))
		al, known := allowed[top]
		okT := false
		for _, a := range al {
			if a == t {
				okT = true
			}
		}
		if !known {
			r.Bad(rule, cons, "reply sent from a function outside the protocol table", c.Pos(ci.Pos()))
			continue
		}
		r.Check(okT, rule, cons+" / message type", "message type is one the protocol lists for this handler", fmt.Sprintf("%s answers with message type %q, which the protocol does not prescribe for it", top, t), c.Pos(ci.Pos()))
		if top == "api.(*DatabaseAPI).Handle" {
			continue // malformed messages may have no usable ID
		}
		o := c.Origins(ci.Call.Args[1])
		r.Check(onlyOrigins(o, "param:opID"), rule, cons+" / operation ID", "the reply carries the handler's opID", fmt.Sprintf("the reply carries %v instead of the request's operation ID", o), c.Pos(ci.Pos()))
	}
	// stream processors
	shutdownCase := selectCaseGuard("connection shutdown", types.RecvOnly, func(ch ssa.Value) bool { return fieldLoadOf(ch, "api.DatabaseAPI", "shutdownSignal") })
	for _, t := range []struct {
		fn    string
		final []string
	}{
		{"api.(*DatabaseAPI).processQuery", []string{"done", "error"}},
		{"api.(*DatabaseAPI).processSub", []string{"done"}},
	} {
		fn := c.Func(t.fn)
		if fn == nil {
			r.Undecided(rule, t.fn, "anchor function missing")
			continue
		}
		isFinal := func(in ssa.Instruction) bool {
			ty, ok := sendType(in)
			if !ok {
				return false
			}
			for _, f := range t.final {
				if f == ty {
					return true
				}
			}
			return false
		}
		k := 0
		eachInstr(fn, func(in ssa.Instruction) {
			ret, ok := in.(*ssa.Return)
			if !ok {
				return
			}
			k++
			p := ReachTargetAvoiding(fn, ret, []Guard{shutdownCase}, isFinal)
			r.Check(p == nil, rule, fmt.Sprintf("%s / exit #%d ends the stream", t.fn, k), "every exit that is not a connection shutdown is preceded by a final "+strings.Join(t.final, "|"),
				"the processor can end without the final "+strings.Join(t.final, "|")+" message: the client waits forever", c.pathString(p)...)
		})
		eachInstr(fn, func(in ssa.Instruction) {
			if !isFinal(in) {
				return
			}
			more := ReachInstr(fn, in, func(x ssa.Instruction) bool { _, ok := sendType(x); return ok }, nil)
			ty, _ := sendType(in)
			r.Check(more == nil, rule, fmt.Sprintf("%s / nothing after final %s", t.fn, ty), "no further message follows the final one", "a message can follow the final "+ty, posOf(c, more))
		})
		// the stream ends only when the feed is closed (nil record), and the feed read is the processor's own
	}
	// processQuery reports the iterator error
	if fn := c.Func("api.(*DatabaseAPI).processQuery"); fn != nil {
		eachInstr(fn, func(in ssa.Instruction) {
			if ty, ok := sendType(in); ok && ty == "done" {
				g := Guard{Name: "it.Err() == nil", Truthy: false, Match: func(b ssa.Value) bool {
					_, ok := isCallTo(b, "database/iterator.Iterator.Err")
					return ok
				}}
				c.RequireGuards(r, rule, fnKey(fn)+" / done only without iterator error", fn, in, g)
			}
		})
	}
	// qsub order
	if fn := c.Func("api.(*DatabaseAPI).handleQsub"); fn == nil {
		r.Undecided(rule, "api.(*DatabaseAPI).handleQsub", "anchor function missing")
	} else {
		for _, q := range callsIn(fn, "api.DatabaseAPI.processQuery") {
			r.Check(MustPrecede(fn, isCallInstrTo("api.DatabaseAPI.registerSub"), q), rule, fnKey(fn)+" / subscribe before query",
				"the subscription is registered before the query runs", "the query runs before the subscription exists: writes made while the query results are delivered are never reported", c.Pos(q.Pos()))
		}
		for _, s := range callsIn(fn, "api.DatabaseAPI.processSub") {
			r.Check(MustPrecede(fn, isCallInstrTo("api.DatabaseAPI.processQuery"), s), rule, fnKey(fn)+" / query replies before subscription replies",
				"the query is processed before the subscription feed", "subscription replies can precede the query replies")
			g := callGuard("query finished with done", true, "api.DatabaseAPI.processQuery")
			c.RequireGuards(r, rule, fnKey(fn)+" / subscription only after a finished query", fn, s, g)
		}
	}
}

func histString(h map[string]int) string {
	var ks []string
	for k, v := range h {
		ks = append(ks, fmt.Sprintf("[%s]x%d", k, v))
	}
	sort.Strings(ks)
	return strings.Join(ks, " ")
}

func c13R2(c *Ctx, r *Report) {
	const rule = "C13-R2"
	r.SetFloor(rule, 9)
	fn := c.Func("api.(*DatabaseAPI).Handle")
	if fn == nil {
		r.Undecided(rule, "api.(*DatabaseAPI).Handle", "anchor function missing")
		return
	}
	cmds := []string{"get", "query", "sub", "qsub", "create", "update", "insert", "delete", "cancel"}
	want := map[string]string{"get": "handleGet", "query": "handleQuery", "sub": "handleSub", "qsub": "handleQsub", "create": "handlePut(create=true)", "update": "handlePut(create=false)",
		"insert": "handleInsert", "delete": "handleDelete", "cancel": "handleCancel"}
	eqCmd := func(cmd string) Guard {
		return Guard{Name: "command == " + cmd, Truthy: true, Match: func(b ssa.Value) bool {
			bo, ok := b.(*ssa.BinOp)
			if !ok || bo.Op != token.EQL {
				return false
			}
			for _, side := range []ssa.Value{bo.X, bo.Y} {
				if cst, ok := side.(*ssa.Const); ok && cst.Value != nil && cst.Value.Kind() == constant.String && constant.StringVal(cst.Value) == cmd {
					return true
				}
			}
			return false
		}}
	}
	got := map[string]string{}
	eachInstr(fn, func(in ssa.Instruction) {
		g, ok := in.(*ssa.Go)
		if !ok {
			return
		}
		callee := strings.TrimPrefix(calleeName(&g.Call), "api.DatabaseAPI.")
		if callee == "handlePut" {
			if b, isC := constBool(g.Call.Args[4]); isC {
				callee = fmt.Sprintf("handlePut(create=%v)", b)
			}
		}
		var cs []string
		for _, cmd := range cmds {
			if ReachAvoiding(fn, nil, g.Block(), []Guard{eqCmd(cmd)}) == nil {
				cs = append(cs, cmd)
			}
		}
		cons := fmt.Sprintf("%s / go %s", fnKey(fn), callee)
		if len(cs) == 0 {
			r.Bad(rule, cons, callee+" is launched without the command being tested", c.Pos(g.Pos()))
			return
		}
		// the innermost (most specific) command is the last one matched
		cmd := cs[len(cs)-1]
		for _, x := range cs {
			if want[x] == callee {
				cmd = x
			}
		}
		got[cmd] = callee
		r.Check(want[cmd] == callee, rule, cons, fmt.Sprintf("command %q -> %s", cmd, callee), fmt.Sprintf("command %q is dispatched to %s (protocol: %s)", cmd, callee, want[cmd]), c.Pos(g.Pos()))
		// the opID handed to the handler is the first message part
	})
	for _, cmd := range cmds {
		if _, ok := got[cmd]; !ok {
			r.Bad(rule, fmt.Sprintf("%s / command %s", fnKey(fn), cmd), fmt.Sprintf("command %q has no handler", cmd))
		}
	}
	// exhaustive dispatch table by finite-valuation propagation: command x number of message parts x number of payload parts
	isSplitLen := func(v ssa.Value, n int64) bool {
		call, ok := v.(*ssa.Call)
		if !ok || calleeName(&call.Call) != "builtin.len" {
			return false
		}
		sp, ok := isCallTo(call.Call.Args[0], "bytes.SplitN")
		if !ok {
			return false
		}
		k, isC := constInt(sp.Call.Args[2])
		return isC && k == n
	}
	isCmdString := func(v ssa.Value) bool {
		cv, ok := v.(*ssa.Convert)
		if !ok {
			return false
		}
		u, ok := cv.X.(*ssa.UnOp)
		if !ok {
			return false
		}
		ia, ok := u.X.(*ssa.IndexAddr)
		if !ok {
			return false
		}
		idx, isC := constInt(ia.Index)
		if !isC || idx != 1 {
			return false
		}
		sp, ok := isCallTo(ia.X, "bytes.SplitN")
		if !ok {
			return false
		}
		k, _ := constInt(sp.Call.Args[2])
		return k == 3
	}
	var bad []string
	nval := 0
	for _, cmd := range append(append([]string{}, cmds...), "bogus", "") {
		for _, nparts := range []int64{1, 2, 3} {
			for _, ndata := range []int64{1, 2} {
				it := &Interp{Fn: fn}
				it.Input = func(v ssa.Value) (AV, bool) {
					if isCmdString(v) {
						return avStr(cmd), true
					}
					if isSplitLen(v, 3) {
						return avInt(nparts), true
					}
					if isSplitLen(v, 2) {
						return avInt(ndata), true
					}
					return AV{}, false
				}
				it.Mark = func(in ssa.Instruction) int {
					if _, ok := in.(*ssa.Go); ok {
						return 0
					}
					if _, ok := sendType(in); ok {
						return 0
					}
					return -1
				}
				it.Outcome = func(in ssa.Instruction, ev func(ssa.Value) AV) string {
					switch x := in.(type) {
					case *ssa.Go:
						callee := strings.TrimPrefix(calleeName(&x.Call), "api.DatabaseAPI.")
						if callee == "handlePut" {
							callee = "handlePut(create=" + ev(x.Call.Args[4]).String() + ")"
						}
						return "go:" + callee
					case *ssa.Return:
						return "ret"
					}
					if t, ok := sendType(in); ok {
						return "send:" + t
					}
					return ""
				}
				if !it.Run() {
					r.Undecided(rule, fnKey(fn), "state budget exceeded")
					return
				}
				nval++
				var acts []string
				for l := range it.Outcomes {
					if l != "ret" {
						acts = append(acts, l)
					}
				}
				sort.Strings(acts)
				act := strings.Join(acts, "|")
				expect := "send:error"
				switch {
				case nparts == 2 && cmd == "cancel":
					expect = "go:handleCancel"
				case nparts == 3 && (cmd == "create" || cmd == "update" || cmd == "insert"):
					if ndata == 2 {
						expect = "go:" + want[cmd]
					}
				case nparts == 3 && cmd != "cancel" && want[cmd] != "":
					expect = "go:" + want[cmd]
				}
				key := fmt.Sprintf("command=%q parts=%d payloadParts=%d", cmd, nparts, ndata)
				if act != expect {
					bad = append(bad, fmt.Sprintf("%s -> %s (protocol: %s)", key, act, expect))
				}
				for m := range it.Outcomes["ret"] {
					if m&1 == 0 {
						bad = append(bad, key+" -> returns without dispatching or replying")
					}
				}
			}
		}
	}
	r.Check(len(bad) == 0, rule, fnKey(fn)+" / dispatch table", fmt.Sprintf("%d valuations: every command reaches exactly its handler, malformed messages get an error reply, nothing is dropped", nval), strings.Join(firstN(uniq(bad), 4), "; "))
}

func c13R3(c *Ctx, r *Report) {
	const rule = "C13-R3"
	r.SetFloor(rule, 3)
	n := 0
	for _, fn := range c.allFuncs {
		eachInstr(fn, func(in ssa.Instruction) {
			call, ok := in.(*ssa.Call)
			if !ok || !call.Call.IsInvoke() || call.Call.Method.Name() != "GetAccessor" || objName(call.Call.Method) != "database/record.Record.GetAccessor" {
				return
			}
			n++
			cons := fmt.Sprintf("%s / GetAccessor result #%d", fnKey(fn), n)
			fromCall := func(v ssa.Value) bool {
				for _, l := range c.Leaves(v) {
					if l == ssa.Value(call) {
						return true
					}
				}
				return false
			}
			nonNil := Guard{Name: "accessor != nil", Truthy: true, Match: fromCall}
			// uses: method invocations on the value, and closures capturing it
			var uses []ssa.Instruction
			var cells []ssa.Value
			for _, ref := range *call.Referrers() {
				if st, ok := ref.(*ssa.Store); ok && st.Val == ssa.Value(call) {
					cells = append(cells, st.Addr)
				}
			}
			eachInstr(fn, func(x ssa.Instruction) {
				switch y := x.(type) {
				case *ssa.Call:
					if y.Call.IsInvoke() && y != call && fromCall(y.Call.Value) {
						uses = append(uses, x)
					} else if y != call {
						for _, a := range y.Call.Args {
							if fromCall(a) && a.Type().String() == call.Type().String() {
								uses = append(uses, x)
							}
						}
					}
				case *ssa.MakeClosure:
					for _, b := range y.Bindings {
						for _, cell := range cells {
							if b == cell {
								uses = append(uses, x)
							}
						}
						if fromCall(b) {
							uses = append(uses, x)
						}
					}
				}
			})
			if len(uses) == 0 {
				r.Trivial(rule, cons, "result is not used")
				return
			}
			var bad ssa.Instruction
			for _, u := range uses {
				if ReachTargetAvoiding(fn, u, []Guard{nonNil}, nil) != nil {
					bad = u
				}
			}
			r.Check(bad == nil, rule, cons+" / nil-checked before use", fmt.Sprintf("%d uses, all behind a nil check", len(uses)),
				"the accessor is used without a nil check; GetAccessor returns nil for records that are not JSON, so the handler panics (on an unprotected goroutine)", posOf(c, bad))
		})
	}
	if n < 3 {
		r.Undecided(rule, "instance-floor", fmt.Sprintf("found %d GetAccessor call sites (expected >= 3)", n))
	}
}

func c13R5(c *Ctx, r *Report) {
	const rule = "C13-R5"
	r.SetFloor(rule, 1)
	boundsRule(c, r, rule, "handling an arbitrary database-API message",
		"api.(*DatabaseAPI).Handle")
}

func c13R9(c *Ctx, r *Report) {
	const rule = "C13-R9"
	r.SetFloor(rule, 2)
	fn := c.Func("api.(*DatabaseAPI).processSub")
	if fn == nil {
		r.Undecided(rule, "api.(*DatabaseAPI).processSub", "anchor function missing")
		return
	}
	notDeleted := callGuard("IsDeleted()==false", false, "database/record.Meta.IsDeleted")
	for _, ci := range callsIn(fn, "api.DatabaseAPI.send") {
		a := ci.Common().Args
		cst, ok := a[2].(*ssa.Const)
		if !ok || cst.Value == nil || cst.Value.Kind() != constant.String {
			continue
		}
		mt := constant.StringVal(cst.Value)
		if mt != "new" && mt != "upd" {
			continue
		}
		c.RequireGuards(r, rule, fnKey(fn)+" / reply "+mt, fn, ci, notDeleted)
	}
}
