package main

import (
	"fmt"
	"go/token"
	"strings"

	"golang.org/x/tools/go/ssa"
)

// A20 loop alias: inside a loop, the address of a variable that lives outside
// the loop is put into a collection (map value, slice element, appended,
// stored into a field): every entry then points at the same variable and
// shows the values of the last iteration.
func loopAliasSites(fn *ssa.Function) (checked int, bad []string) {
	isAddrOfOuter := func(v ssa.Value, at *ssa.BasicBlock) (*ssa.Alloc, bool) {
		al, ok := v.(*ssa.Alloc)
		if !ok || !al.Heap {
			return nil, false
		}
		h := innermostHeader(fn, at)
		if h == nil {
			return nil, false
		}
		checkedLoop := h
		// is the allocation executed per iteration (inside the loop)?
		if al.Block() != nil && (al.Block() == checkedLoop || checkedLoop.Dominates(al.Block())) && innermostHeader(fn, al.Block()) != nil {
			return nil, false
		}
		return al, true
	}
	eachInstr(fn, func(in ssa.Instruction) {
		var vals []ssa.Value
		switch x := in.(type) {
		case *ssa.MapUpdate:
			vals = []ssa.Value{x.Value}
		case *ssa.Store:
			if _, isAlloc := x.Addr.(*ssa.Alloc); isAlloc {
				return
			}
			vals = []ssa.Value{x.Val}
		default:
			return
		}
		for _, v := range vals {
			if innermostHeader(fn, in.Block()) == nil {
				continue
			}
			if _, isPtr := v.(*ssa.Alloc); isPtr {
				checked++
			}
			if al, ok := isAddrOfOuter(v, in.Block()); ok {
				bad = append(bad, fmt.Sprintf("the address of %s (declared outside the loop) is stored in every iteration", al.Comment))
			}
		}
	})
	return checked, bad
}

// A21 deferred closure over a reassigned variable: `defer func() { x.Unlock() }()`
// releases whatever x holds when the function returns - if x is assigned again
// after the defer statement, the deferred call hits a different object (or nil).
func deferCapturedSites(fn *ssa.Function) (checked int, bad []string) {
	releasers := map[string]bool{"Unlock": true, "RUnlock": true, "Close": true, "Done": true, "Cleanup": true, "Cancel": true}
	eachInstr(fn, func(in ssa.Instruction) {
		d, ok := in.(*ssa.Defer)
		if !ok {
			return
		}
		mc, ok := d.Call.Value.(*ssa.MakeClosure)
		if !ok {
			return
		}
		cl := mc.Fn.(*ssa.Function)
		for i, b := range mc.Bindings {
			cell, ok := b.(*ssa.Alloc)
			if !ok || i >= len(cl.FreeVars) {
				continue
			}
			fv := cl.FreeVars[i]
			// does the closure call a releasing method on the captured variable's value?
			releases := ""
			eachInstr(cl, func(ci ssa.Instruction) {
				call, ok := ci.(ssa.CallInstruction)
				if !ok {
					return
				}
				cc := call.Common()
				name := ""
				var recv ssa.Value
				if cc.IsInvoke() {
					name, recv = cc.Method.Name(), cc.Value
				} else if callee := staticCallee(cc); callee != nil && callee.Signature.Recv() != nil && len(cc.Args) > 0 {
					name, recv = callee.Name(), cc.Args[0]
				}
				if !releasers[name] || recv == nil {
					return
				}
				if ld, ok := recv.(*ssa.UnOp); ok && ld.Op == token.MUL && ld.X == ssa.Value(fv) {
					releases = name
				}
			})
			if releases == "" {
				continue
			}
			checked++
			later := ReachInstr(fn, in, func(t ssa.Instruction) bool {
				st, ok := t.(*ssa.Store)
				return ok && st.Addr == ssa.Value(cell)
			}, nil)
			if later != nil {
				bad = append(bad, fmt.Sprintf("the deferred closure calls %s on variable %s, which is assigned again after the defer statement", releases, cell.Comment))
			}
		}
	})
	return checked, bad
}

// A22 append alias: the result of append(x.f, ...) ends up somewhere else than
// in x.f (another object's field, the return value): when x.f has spare
// capacity both slices share the backing array and the next append on either
// overwrites the other's elements.
func appendAliasSites(c *Ctx, fn *ssa.Function) (checked int, bad []string) {
	eachInstr(fn, func(in ssa.Instruction) {
		call, ok := in.(*ssa.Call)
		if !ok || calleeName(&call.Call) != "builtin.append" || len(call.Call.Args) == 0 {
			return
		}
		b0, f0, ok := fieldLoad(call.Call.Args[0])
		if !ok {
			return
		}
		checked++
		// where does the result go?
		seen := map[ssa.Value]bool{}
		var walk func(v ssa.Value, d int)
		walk = func(v ssa.Value, d int) {
			if seen[v] || d > 4 || v.Referrers() == nil {
				return
			}
			seen[v] = true
			for _, ref := range *v.Referrers() {
				switch r := ref.(type) {
				case *ssa.Phi:
					walk(r, d+1)
				case *ssa.Store:
					if r.Val != v {
						continue
					}
					if fa, ok := r.Addr.(*ssa.FieldAddr); ok {
						fr, _ := fieldOfAddr(fa)
						if fr == f0 && sameExpr(fa.X, b0, 0) {
							continue // stored back where it came from
						}
						bad = append(bad, fmt.Sprintf("append onto %s.%s is stored into %s.%s", exprStr(b0), f0.Name, exprStr(fa.X), fr.Name))
					} else if al, ok := r.Addr.(*ssa.Alloc); ok && al.Referrers() != nil {
						for _, ar := range *al.Referrers() {
							if ld, ok := ar.(*ssa.UnOp); ok && ld.Op == token.MUL {
								walk(ld, d+1)
							}
						}
					}
				case *ssa.Return:
					bad = append(bad, fmt.Sprintf("append onto %s.%s is returned", exprStr(b0), f0.Name))
				}
			}
		}
		walk(call, 0)
	})
	return checked, bad
}

func aliasRule(c *Ctx, r *Report, rule string, floor int, pkgs []string, exempt map[string]string) {
	r.SetFloor(rule, floor)
	for _, fn := range funcsOfPkgs(c, pkgs...) {
		if fn.Blocks == nil {
			continue
		}
		n1, b1 := loopAliasSites(fn)
		n2, b2 := deferCapturedSites(fn)
		n3, b3 := appendAliasSites(c, fn)
		if n1+n2+n3 == 0 {
			continue
		}
		var bad []string
		for _, b := range append(append(b1, b2...), b3...) {
			if _, ok := exempt[fnKey(fn)+" / "+b]; !ok {
				bad = append(bad, b)
			}
		}
		r.Check(len(bad) == 0, rule, fnKey(fn)+" / no unintended sharing", fmt.Sprintf("%d stores of addresses in loops, %d deferred releases of captured variables, %d appends onto fields: none shares what has to be separate", n1, n2, n3),
			strings.Join(bad, "; ")+": two holders end up with the same variable / backing array, and what one of them does next shows up in (or is released instead of) the other")
	}
}

func probeAlias(c *Ctx) {
	t1, t2, t3 := 0, 0, 0
	for _, fn := range c.AllFuncs() {
		if fn.Pkg == nil || fn.Blocks == nil {
			continue
		}
		n1, b1 := loopAliasSites(fn)
		n2, b2 := deferCapturedSites(fn)
		n3, b3 := appendAliasSites(c, fn)
		t1, t2, t3 = t1+n1, t2+n2, t3+n3
		for _, b := range append(append(b1, b2...), b3...) {
			fmt.Printf("%s\t%s\n", fnKey(fn), b)
		}
	}
	fmt.Println("checked:", t1, t2, t3)
}
