package main

import (
	"encoding/json"
	"fmt"
	"os"
	"path/filepath"
	"sort"
	"strings"
)

const (
	Discharged = "discharged"
	Violated   = "violated"
	Undecided  = "undecided"
)

// Oblig is one obligation: a rule applied to one construct.
type Oblig struct {
	Rule       string   `json:"rule"`      // e.g. "C03-R2"
	Construct  string   `json:"construct"` // stable key: function + semantic site; never a line number
	Status     string   `json:"status"`
	Detail     string   `json:"detail,omitempty"`
	Witness    []string `json:"witness,omitempty"` // human-readable path / positions
	Nontrivial bool     `json:"nontrivial"`
	Config     string   `json:"config,omitempty"`
	Known      string   `json:"known_finding,omitempty"`
}

func (o *Oblig) Key() string { return o.Rule + "|" + o.Construct }

// Report collects obligations for one property run.
type Report struct {
	Prop    string
	Obligs  []*Oblig
	Notes   []string
	Tables  map[string]any
	Floor   map[string]int // rule -> minimal number of obligations
	counts  map[string]int
	cfgName string
}

func NewReport(prop string) *Report {
	return &Report{Prop: prop, Tables: map[string]any{}, Floor: map[string]int{}, counts: map[string]int{}}
}

func (r *Report) add(rule, construct, status, detail string, nontrivial bool, witness ...string) *Oblig {
	o := &Oblig{Rule: rule, Construct: construct, Status: status, Detail: detail, Nontrivial: nontrivial, Witness: witness, Config: r.cfgName}
	r.Obligs = append(r.Obligs, o)
	r.counts[rule]++
	return o
}

// OK records a discharged obligation that had a real guard/order/table to examine.
func (r *Report) OK(rule, construct, detail string) { r.add(rule, construct, Discharged, detail, true) }

// Trivial records an obligation discharged vacuously.
func (r *Report) Trivial(rule, construct, detail string) {
	r.add(rule, construct, Discharged, detail, false)
}

// Bad records a violated obligation.
func (r *Report) Bad(rule, construct, detail string, witness ...string) {
	r.add(rule, construct, Violated, detail, true, witness...)
}

// Undecided records an obligation the rule could not decide (tool error).
func (r *Report) Undecided(rule, construct, detail string) {
	r.add(rule, construct, Undecided, detail, false)
}

// Check is a convenience: ok ? OK : Bad.
func (r *Report) Check(ok bool, rule, construct, okDetail, badDetail string, witness ...string) {
	if ok {
		r.OK(rule, construct, okDetail)
	} else {
		r.Bad(rule, construct, badDetail, witness...)
	}
}

// SetFloor declares the minimal instance count of a rule; fewer = undecided.
func (r *Report) SetFloor(rule string, n int) { r.Floor[rule] = n }

func (r *Report) Note(format string, a ...any) { r.Notes = append(r.Notes, fmt.Sprintf(format, a...)) }

func (r *Report) applyFloors() {
	rules := make([]string, 0, len(r.Floor))
	for k := range r.Floor {
		rules = append(rules, k)
	}
	sort.Strings(rules)
	for _, rule := range rules {
		if r.counts[rule] < r.Floor[rule] {
			r.Undecided(rule, "instance-floor", fmt.Sprintf("rule matched %d instances, confirmed floor is %d: the rule would pass vacuously", r.counts[rule], r.Floor[rule]))
		}
	}
}

// KnownFinding is an entry of /verif/known_findings.json.
type KnownFinding struct {
	Property  string `json:"property"`
	Rule      string `json:"rule"`
	Construct string `json:"construct"`
	What      string `json:"what"`
	Status    string `json:"status"` // "known" | "fixed"
	Commit    string `json:"commit,omitempty"`
}

func loadKnown(path string) ([]KnownFinding, error) {
	b, err := os.ReadFile(path)
	if err != nil {
		if os.IsNotExist(err) {
			return nil, nil
		}
		return nil, err
	}
	var f struct {
		Findings []KnownFinding `json:"findings"`
	}
	if err := json.Unmarshal(b, &f); err != nil {
		return nil, err
	}
	return f.Findings, nil
}

type evidence struct {
	PropertyID  string         `json:"property_id"`
	Tier        string         `json:"tier"`
	Seed        int            `json:"seed"`
	Level       string         `json:"level"`
	Coverage    map[string]any `json:"coverage"`
	Assumptions []string       `json:"assumptions"`
	WallS       float64        `json:"wall_s"`
	Violations  int            `json:"violations"`
}

// dedupe merges obligations with identical key+status across configurations.
func dedupe(obs []*Oblig) []*Oblig {
	seen := map[string]*Oblig{}
	var out []*Oblig
	for _, o := range obs {
		k := o.Key() + "|" + o.Status
		if p, ok := seen[k]; ok {
			if o.Config != "" && !strings.Contains(p.Config, o.Config) {
				p.Config += "+" + o.Config
			}
			continue
		}
		seen[k] = o
		out = append(out, o)
	}
	sort.SliceStable(out, func(i, j int) bool { return out[i].Key() < out[j].Key() })
	return out
}

func writeJSON(path string, v any) error {
	if err := os.MkdirAll(filepath.Dir(path), 0o755); err != nil {
		return err
	}
	b, err := json.MarshalIndent(v, "", " ")
	if err != nil {
		return err
	}
	tmp := path + ".tmp"
	if err := os.WriteFile(tmp, append(b, '\n'), 0o644); err != nil {
		return err
	}
	return os.Rename(tmp, path)
}

// borrowRule runs another property's rule on a scratch report and files the
// obligations of srcRule whose construct passes keep under dstRule: the same
// structural fact is a necessary condition of more than one property.
func borrowRule(src ruleFn, srcRule, dstRule string, floor int, keep func(construct string) bool) ruleFn {
	return func(c *Ctx, r *Report) {
		tmp := NewReport(r.Prop)
		tmp.cfgName = r.cfgName
		src(c, tmp)
		r.SetFloor(dstRule, floor)
		for _, o := range tmp.Obligs {
			if o.Rule != srcRule || o.Construct == "instance-floor" {
				continue
			}
			if keep != nil && !keep(o.Construct) {
				continue
			}
			r.add(dstRule, o.Construct, o.Status, o.Detail, o.Nontrivial, o.Witness...)
		}
	}
}
