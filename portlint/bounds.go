package main

import (
	"fmt"
	"go/token"
	"go/types"
	"sort"
	"strings"

	"golang.org/x/tools/go/ssa"
)

// constant-bound accesses of slices and strings (A8): an access x[K], x[:K],
// x[K:] with a constant K > 0 panics for every shorter x, so it must be
// dominated by a test that implies len(x) >= K (x[0] needs len(x) >= 1).

type boundAccess struct {
	Instr ssa.Instruction
	X     ssa.Value
	Need  int64
	Desc  string
	Tail  ssa.Value // for x[len(x)-k]: the difference itself (a test `len(x)-k >= 0` guards it as well)
}

func isSliceOrString(t types.Type) bool {
	switch u := t.Underlying().(type) {
	case *types.Slice:
		return true
	case *types.Basic:
		return u.Info()&types.IsString != 0
	}
	return false
}

// tailOffset: b is len(x)-k for a positive constant k (the k-th element from the end).
func tailOffset(b, x ssa.Value) (int64, bool) {
	k, _, ok := tailOffsetV(b, x)
	return k, ok
}

func tailOffsetV(b, x ssa.Value) (int64, ssa.Value, bool) {
	k, ok := tailOffset0(b, x)
	return k, b, ok
}

func tailOffset0(b, x ssa.Value) (int64, bool) {
	bo, ok := b.(*ssa.BinOp)
	if !ok || bo.Op != token.SUB {
		return 0, false
	}
	k, isC := constInt(bo.Y)
	if !isC || k <= 0 {
		return 0, false
	}
	call, ok := bo.X.(*ssa.Call)
	if !ok || calleeName(&call.Call) != "builtin.len" {
		return 0, false
	}
	a := call.Call.Args[0]
	if a == x || (vpath(a) != "" && vpath(a) == vpath(x)) {
		return k, true
	}
	return 0, false
}

func constBoundAccesses(fn *ssa.Function) []boundAccess {
	var out []boundAccess
	eachInstr(fn, func(in ssa.Instruction) {
		switch x := in.(type) {
		case *ssa.Slice:
			if !isSliceOrString(x.X.Type()) {
				return
			}
			need := int64(0)
			tail := int64(0)
			var tailV ssa.Value
			for _, b := range []ssa.Value{x.Low, x.High, x.Max} {
				if b == nil {
					continue
				}
				if v, isC := constInt(b); isC && v > need {
					need = v
				}
				if k, ok := tailOffset(b, x.X); ok && k > tail {
					tail, tailV = k, b
				}
			}
			if need > 0 {
				out = append(out, boundAccess{in, x.X, need, fmt.Sprintf("slice [%s:%s]", valStr(x.Low), valStr(x.High)), nil})
			}
			if tail > 0 {
				out = append(out, boundAccess{in, x.X, tail, fmt.Sprintf("slice bound len-%d", tail), tailV})
			}
		case *ssa.IndexAddr:
			if _, ok := x.X.Type().Underlying().(*types.Slice); !ok {
				return
			}
			if v, isC := constInt(x.Index); isC && v >= 0 {
				out = append(out, boundAccess{in, x.X, v + 1, fmt.Sprintf("index [%d]", v), nil})
			}
			if k, ok := tailOffset(x.Index, x.X); ok {
				out = append(out, boundAccess{in, x.X, k, fmt.Sprintf("index [len-%d]", k), x.Index})
			}
		case *ssa.Index:
			if !isSliceOrString(x.X.Type()) {
				return
			}
			if v, isC := constInt(x.Index); isC && v >= 0 {
				out = append(out, boundAccess{in, x.X, v + 1, fmt.Sprintf("index [%d]", v), nil})
			}
			if k, ok := tailOffset(x.Index, x.X); ok {
				out = append(out, boundAccess{in, x.X, k, fmt.Sprintf("index [len-%d]", k), x.Index})
			}
		}
	})
	return out
}

// staticallyReachable returns the repo functions reachable from roots through
// static calls, closures and go/defer statements.
func (c *Ctx) staticallyReachable(roots ...*ssa.Function) []*ssa.Function {
	seen := map[*ssa.Function]bool{}
	var order []*ssa.Function
	var visit func(fn *ssa.Function)
	visit = func(fn *ssa.Function) {
		if fn == nil || seen[fn] || fn.Blocks == nil || !c.isRepoFunc(fn) {
			return
		}
		seen[fn] = true
		order = append(order, fn)
		eachInstr(fn, func(in ssa.Instruction) {
			if mc, ok := in.(*ssa.MakeClosure); ok {
				visit(mc.Fn.(*ssa.Function))
			}
			if ci, ok := in.(ssa.CallInstruction); ok {
				visit(staticCallee(ci.Common()))
			}
		})
	}
	for _, r := range roots {
		visit(r)
	}
	sort.Slice(order, func(i, j int) bool { return fnKey(order[i]) < fnKey(order[j]) })
	return order
}

// lenGuardsFull extends lenGuards with the "len(x) != 0" / "len(x) == 0" forms (k == 1).
func lenGuardsFull(x ssa.Value, k int64) []Guard {
	gs := lenGuards(x, k)
	if k == 1 {
		isLenOf := func(v ssa.Value) bool {
			call, ok := v.(*ssa.Call)
			if !ok || calleeName(&call.Call) != "builtin.len" {
				return false
			}
			a := call.Call.Args[0]
			return a == x || (vpath(a) != "" && vpath(a) == vpath(x))
		}
		zero := func(bo *ssa.BinOp) bool {
			if isLenOf(bo.X) {
				v, isC := constInt(bo.Y)
				return isC && v == 0
			}
			if isLenOf(bo.Y) {
				v, isC := constInt(bo.X)
				return isC && v == 0
			}
			return false
		}
		gs = append(gs,
			Guard{Name: "len != 0", Truthy: true, Match: func(b ssa.Value) bool {
				bo, ok := b.(*ssa.BinOp)
				return ok && bo.Op == token.NEQ && zero(bo)
			}},
			Guard{Name: "not(len == 0)", Truthy: false, Match: func(b ssa.Value) bool {
				bo, ok := b.(*ssa.BinOp)
				return ok && bo.Op == token.EQL && zero(bo)
			}})
	}
	return gs
}

// boundsRule checks every constant-bound access in the functions reachable from roots.
func boundsRule(c *Ctx, r *Report, rule string, what string, roots ...string) {
	var rf []*ssa.Function
	for _, n := range roots {
		fn := c.Func(n)
		if fn == nil {
			r.Undecided(rule, n, "anchor function missing")
			continue
		}
		rf = append(rf, fn)
	}
	ord := map[string]int{}
	for _, fn := range c.staticallyReachable(rf...) {
		for _, a := range constBoundAccesses(fn) {
			cons := ordinal(ord, fmt.Sprintf("%s / %s of %s", fnKey(fn), a.Desc, strings.Join(c.Origins(a.X), "+")))
			if mk, ok := a.X.(*ssa.MakeSlice); ok {
				if v, isC := constInt(mk.Len); isC && v >= a.Need {
					r.Trivial(rule, cons, "freshly made slice of sufficient constant length")
					continue
				}
			}
			if sl, ok := a.X.(*ssa.Slice); ok {
				if _, isArr := sl.X.Type().Underlying().(*types.Pointer); isArr && sl.Low == nil && sl.High == nil {
					r.Trivial(rule, cons, "full slice of a fixed-size array")
					continue
				}
			}
			if a.Need == 1 {
				// strings.Split / SplitN(n != 0) / Fields-free idiom: the result always has at least one element
				if call, ok := isCallTo(a.X, "strings.Split", "strings.SplitN", "bytes.Split", "bytes.SplitN"); ok {
					nOK := true
					if len(call.Call.Args) == 3 {
						v, isC := constInt(call.Call.Args[2])
						nOK = isC && v != 0
					}
					if nOK {
						r.Trivial(rule, cons, "Split/SplitN with n != 0 returns at least one element")
						continue
					}
				}
			}
			if why, ok := boundsExempt[fnKey(fn)+" / "+a.Desc]; ok {
				r.Trivial(rule, cons, "named exception: "+why)
				continue
			}
			// a store of a fresh slice of sufficient constant length to the place x is loaded from re-establishes the bound
			var fresh func(ssa.Instruction) bool
			if ld, ok := a.X.(*ssa.UnOp); ok && ld.Op == token.MUL && vpath(ld.X) != "" {
				place, need := vpath(ld.X), a.Need
				fresh = func(in ssa.Instruction) bool {
					st, ok := in.(*ssa.Store)
					return ok && vpath(st.Addr) == place && freshLenAtLeast(st.Val, need)
				}
			}
			gs := lenGuardsFull(a.X, a.Need)
			if a.Tail != nil {
				tv := a.Tail
				gs = append(gs, cmpGuards("len(x)-k >= 0", func(v ssa.Value) bool { return v == tv }, func(x int64) bool { return x >= 0 }, 0)...)
			}
			p := ReachTargetAvoiding(fn, a.Instr, gs, fresh)
			if p != nil && minLenAt(fn, a.X, a.Instr, a.Need) >= a.Need {
				p = nil // the length tests on the way accumulate to the bound (e.g. len != 0 and len != 1)
			}
			r.Check(p == nil, rule, cons, fmt.Sprintf("dominated by a test implying len >= %d", a.Need),
				fmt.Sprintf("%s: %s with constant bound needs len >= %d but no dominating length test implies it: a shorter input panics", what, a.Desc, a.Need), append([]string{c.Pos(a.Instr.Pos())}, c.pathString(p)...)...)
		}
	}
}

// boundsExempt: accesses whose bound follows from a data-structure invariant
// rather than a local test (one named construct each, with the reason).
var boundsExempt = map[string]string{
	"container.(*Container).renewCompartments / slice [5:]": "the sliced value is make([][]byte, len(compartments)-offset+5): its length is >= 5 by the container invariant offset <= len(compartments), which the stores to offset maintain (C16-R1, R2, R6)",
}

// freshLenAtLeast: v is a newly allocated slice whose length is a constant >= need.
func freshLenAtLeast(v ssa.Value, need int64) bool {
	switch x := v.(type) {
	case *ssa.MakeSlice:
		n, isC := constInt(x.Len)
		return isC && n >= need
	case *ssa.Slice:
		if x.Low != nil || x.High != nil {
			return false
		}
		if _, isAlloc := x.X.(*ssa.Alloc); !isAlloc {
			return false
		}
		if pt, ok := x.X.Type().Underlying().(*types.Pointer); ok {
			if at, ok := pt.Elem().Underlying().(*types.Array); ok {
				return at.Len() >= need
			}
		}
	}
	return false
}

// minLenAt computes a lower bound of len(x) that holds whenever target is
// reached: a forward dataflow over the CFG in which every branch on a
// comparison of len(x) with a constant refines the bound on its two edges
// (so "len == 0" false, then "len == 1" false gives 2). The result is capped at limit.
func minLenAt(fn *ssa.Function, x ssa.Value, target ssa.Instruction, limit int64) int64 {
	isLenOf := func(v ssa.Value) bool {
		call, ok := v.(*ssa.Call)
		if !ok || calleeName(&call.Call) != "builtin.len" {
			return false
		}
		a := call.Call.Args[0]
		return a == x || (vpath(a) != "" && vpath(a) == vpath(x))
	}
	const dead = int64(1 << 40)
	// refine returns the smallest v >= lb with rel(v), or dead if none up to limit+1
	refine := func(lb int64, rel func(v int64) bool) int64 {
		for v := lb; v <= limit+1; v++ {
			if rel(v) {
				return v
			}
		}
		// relations are eventually constant beyond the compared constant: test a large value
		if rel(limit + 2) {
			return limit + 1
		}
		return dead
	}
	holds := func(op token.Token, a, b int64) bool {
		switch op {
		case token.LSS:
			return a < b
		case token.LEQ:
			return a <= b
		case token.GTR:
			return a > b
		case token.GEQ:
			return a >= b
		case token.EQL:
			return a == b
		case token.NEQ:
			return a != b
		}
		return true
	}
	edge := func(b *ssa.BasicBlock, si int, lb int64) int64 {
		if len(b.Succs) != 2 || len(b.Instrs) == 0 {
			return lb
		}
		ifi, ok := b.Instrs[len(b.Instrs)-1].(*ssa.If)
		if !ok {
			return lb
		}
		base, pos := peel(ifi.Cond)
		bo, ok := base.(*ssa.BinOp)
		if !ok {
			return lb
		}
		var c int64
		lenLeft := false
		if isLenOf(bo.X) {
			v, isC := constInt(bo.Y)
			if !isC {
				return lb
			}
			c, lenLeft = v, true
		} else if isLenOf(bo.Y) {
			v, isC := constInt(bo.X)
			if !isC {
				return lb
			}
			c = v
		} else {
			return lb
		}
		condTrue := (si == 0) == pos // the comparison itself is true on this edge
		return refine(lb, func(v int64) bool {
			var r bool
			if lenLeft {
				r = holds(bo.Op, v, c)
			} else {
				r = holds(bo.Op, c, v)
			}
			return r == condTrue
		})
	}
	in := map[*ssa.BasicBlock]int64{}
	for _, b := range fn.Blocks {
		in[b] = dead
	}
	in[fn.Blocks[0]] = 0
	for changed := true; changed; {
		changed = false
		for _, b := range fn.Blocks {
			if in[b] == dead {
				continue
			}
			for si, s := range b.Succs {
				v := edge(b, si, in[b])
				if v < in[s] {
					in[s] = v
					changed = true
				}
			}
		}
	}
	lb := in[target.Block()]
	if lb == dead || lb > limit {
		return limit
	}
	return lb
}
