package main

import (
	"fmt"
	"strings"

	"golang.org/x/tools/go/ssa"
)

// c01R11: once Shutdown has claimed the shutdown flag it stops the modules -
// whatever the state of the initial start was.
func c01R11(c *Ctx, r *Report) {
	const rule = "C01-R11"
	r.SetFloor(rule, 1)
	fn := c.Func("modules.Shutdown")
	if fn == nil {
		r.Undecided(rule, "modules.Shutdown", "anchor function missing")
		return
	}
	already := aboolGuard("shutdown already initiated", "global:modules.shutdownFlag", "SetToIf", false)
	p := ReachFromAvoiding(fn, nil, isExit, []Guard{already}, isCallInstrTo("modules.stopModules"))
	r.Check(p == nil, rule, "modules.Shutdown / stops the modules on every path", "every exit has either found a shutdown in progress or run stopModules",
		"Shutdown can return without running stopModules (another condition decides): modules that were started - e.g. before a later start failure - stay online", c.pathString(p)...)
}

// c05R12: an event hook belongs to the module that registers it: it runs as that module's worker and with that module's context.
func c05R12(c *Ctx, r *Report) {
	const rule = "C05-R12"
	r.SetFloor(rule, 1)
	n := 0
	for _, s := range c.StoresTo("modules.eventHook", "hookingModule") {
		n++
		st := s.Instr.(*ssa.Store)
		ok := false
		if len(s.Fn.Params) > 0 && st.Val == ssa.Value(s.Fn.Params[0]) && s.Fn.Signature.Recv() != nil {
			ok = true
		}
		r.Check(ok, rule, fnKey(s.Fn)+" / eventHook.hookingModule", "the hook is bound to the registering module (the method receiver)",
			"the hook is bound to "+leafDesc(st.Val)+" instead of the registering module: it runs as another module's worker with that module's context, so stopping the registering module neither cancels nor waits for it", c.Pos(st.Pos()))
	}
	if n == 0 {
		r.Bad(rule, "modules.eventHook.hookingModule", "no store found (anchor lost)")
	}
}

// c06R13: a panic does not take a repeating task off the schedule: the re-arm
// step of the task's deferred clean-up is reachable on the panic path.
func c06R13(c *Ctx, r *Report) {
	const rule = "C06-R13"
	r.SetFloor(rule, 1)
	fn := c.Func("modules.(*Task).executeWithLocking")
	if fn == nil {
		r.Undecided(rule, "modules.(*Task).executeWithLocking", "anchor function missing")
		return
	}
	n := 0
	for _, ri := range c.findRecoverDefers(fn) {
		ri := ri
		rearm := callsIn(ri.Closure, "modules.Task.addToSchedule")
		if len(rearm) == 0 {
			continue
		}
		n++
		noPanic := Guard{Name: "recover()==nil", Truthy: false, Match: func(b ssa.Value) bool { return b == ssa.Value(ri.Recover) }}
		for i, ci := range rearm {
			ci := ci
			p := ReachFromAvoiding(ri.Closure, ri.Recover, func(in ssa.Instruction) bool { return in == ssa.Instruction(ci) }, []Guard{noPanic}, nil)
			r.Check(p != nil, rule, fmt.Sprintf("%s / repeat re-arm #%d reachable after a panic", fnKey(ri.Closure), i+1), "the re-arm is not conditional on the absence of a panic",
				"a repeating task is re-armed only when recover() returned nil: after one panic it is silently dropped from the schedule and never runs again", c.Pos(ci.Pos()))
		}
	}
	if n == 0 {
		r.Bad(rule, "modules.(*Task).executeWithLocking / repeat re-arm", "the deferred clean-up no longer re-arms a repeating task")
	}
}

// c07R10: the three submission functions enqueue every active task that is not
// yet in the target list: no other condition decides.
func c07R10(c *Ctx, r *Report) {
	const rule = "C07-R10"
	r.SetFloor(rule, 3)
	for _, t := range []struct{ fn, field string }{{"modules.(*Task).Queue", "queueElement"}, {"modules.(*Task).QueuePrioritized", "prioritizedQueueElement"}, {"modules.(*Task).StartASAP", "prioritizedQueueElement"}} {
		fn := c.Func(t.fn)
		if fn == nil {
			r.Undecided(rule, t.fn, "anchor function missing")
			continue
		}
		notReady := callGuard("prepForQueueing()==false", false, "modules.Task.prepForQueueing")
		already := fieldLoadGuard(t.field+" != nil", "modules.Task", t.field, true)
		isInsert := func(in ssa.Instruction) bool {
			ci, ok := in.(ssa.CallInstruction)
			if !ok {
				return false
			}
			n := calleeName(ci.Common())
			return n == "container/list.List.PushBack" || n == "container/list.List.PushFront" || n == "container/list.List.MoveToFront"
		}
		p := ReachFromAvoiding(fn, nil, isExit, []Guard{notReady, already}, isInsert)
		r.Check(p == nil, rule, t.fn+" / enqueues unless inactive or already in its list", "every exit has found the task not ready, already in the target list, or has inserted it",
			"the submission can be dropped on another condition (e.g. because the task waits in a different queue): the task keeps its old, lower-priority slot", c.pathString(p)...)
	}
}

// c07R11: the schedule handler marks what it does with a due task: overtime is
// set before the task is promoted to the queues and cleared before it is run directly.
func c07R11(c *Ctx, r *Report) {
	const rule = "C07-R11"
	r.SetFloor(rule, 2)
	fn := c.Func("modules.taskScheduleHandler")
	if fn == nil {
		r.Undecided(rule, "modules.taskScheduleHandler", "anchor function missing")
		return
	}
	storeOf := func(v bool) func(ssa.Instruction) bool {
		return func(in ssa.Instruction) bool {
			if !isFieldStore("modules.Task", "overtime")(in) {
				return false
			}
			b, isC := constBool(in.(*ssa.Store).Val)
			return isC && b == v
		}
	}
	for _, t := range []struct {
		callee string
		val    bool
		why    string
	}{{"modules.Task.StartASAP", true, "a due task that StartASAP refuses to queue (cancelled while waiting) must be marked, else the handler finds it at the front of the schedule again and again and no later task is ever started"},
		{"modules.Task.runWithLocking", false, "a task run directly at its deadline must lose the overtime mark, else its next scheduling is treated as a deadline"}} {
		cs := callsIn(fn, t.callee)
		if len(cs) == 0 {
			r.Bad(rule, "modules.taskScheduleHandler / "+t.callee, "the schedule handler no longer calls "+t.callee)
			continue
		}
		for i, ci := range cs {
			ci := ci
			val := t.val
			// accepted spellings: a constant store, or "overtime = !old" where the call is reached only for the matching old value
			good := func(in ssa.Instruction) bool {
				if storeOf(val)(in) {
					return true
				}
				if !isFieldStore("modules.Task", "overtime")(in) {
					return false
				}
				u, ok := in.(*ssa.Store).Val.(*ssa.UnOp)
				if !ok || u.Op.String() != "!" || !fieldLoadOf(u.X, "modules.Task", "overtime") {
					return false
				}
				old := u.X
				g := Guard{Name: "old overtime value", Truthy: !val, Match: func(b ssa.Value) bool { return b == old }}
				return ReachTargetAvoiding(fn, ci, []Guard{g}, nil) == nil
			}
			ok := MustPrecede(fn, good, ci) && ReachInstr(fn, nil, func(in ssa.Instruction) bool { return in == ssa.Instruction(ci) }, nil) != nil
			// the store must be the last overtime write before the call
			last := true
			eachInstr(fn, func(in ssa.Instruction) {
				if storeOf(!t.val)(in) && ReachInstr(fn, in, func(x ssa.Instruction) bool { return x == ssa.Instruction(ci) }, storeOf(t.val)) != nil {
					// a contrary store reaches the call without the required store in between: only a problem if it is in the same iteration
					if in.Block() == ci.Block() {
						last = false
					}
				}
			})
			r.Check(ok && last, rule, fmt.Sprintf("modules.taskScheduleHandler / overtime=%v before %s #%d", t.val, strings.TrimPrefix(t.callee, "modules."), i+1),
				"every path to the call has set the flag", "the flag is not set on every path to the call: "+t.why, c.Pos(ci.Pos()))
		}
	}
}
