package main

import (
	"encoding/json"
	"fmt"
	"go/token"
	"go/types"
	"os"
	"sort"
	"strings"

	"golang.org/x/tools/go/callgraph"
	"golang.org/x/tools/go/callgraph/cha"
	"golang.org/x/tools/go/callgraph/vta"
	"golang.org/x/tools/go/packages"
	"golang.org/x/tools/go/ssa"
	"golang.org/x/tools/go/ssa/ssautil"
)

const modPath = "github.com/safing/portbase"

// BaselineFile lists the functions declared on the tree the rules were confirmed on; NoNormalize switches A11 off.
var (
	BaselineFile = "/verif/baseline_funcs.txt"
	NoNormalize  = false
)

// Ctx is the loaded, type-checked and SSA-built program of /repo.
type Ctx struct {
	RepoDir string
	Env     []string // extra environment (GOOS=..., GOARCH=...)
	Config  string   // description of build configuration

	Fset    *token.FileSet
	Pkgs    []*packages.Package // repo packages only
	PkgByID map[string]*packages.Package
	Prog    *ssa.Program
	SSA     map[string]*ssa.Package // by short path ("modules", "database/record")

	funcs    map[string]*ssa.Function // "modules.(*Module).start$2"
	allFuncs []*ssa.Function          // every repo function incl. anonymous
	cg       *callgraph.Graph

	NFuncs    int
	NormNotes []string // what the helper normalisation (normalize.go) did
	curPkg    string   // scratch: package of the function a rule is currently looking at
}

func short(path string) string {
	if path == modPath {
		return "."
	}
	return strings.TrimPrefix(path, modPath+"/")
}

// Load loads /repo. Tool errors are returned (exit 2), never a verdict.
func Load(repo string, env []string, overlayFile string) (*Ctx, error) {
	cfg := &packages.Config{
		Mode: packages.NeedName | packages.NeedFiles | packages.NeedCompiledGoFiles | packages.NeedImports |
			packages.NeedTypes | packages.NeedTypesInfo | packages.NeedSyntax | packages.NeedTypesSizes | packages.NeedModule,
		Dir:   repo,
		Tests: false,
		Env:   append(append(os.Environ(), "GOWORK=off", "GOFLAGS=-mod=mod", "GOPROXY=off", "GOSUMDB=off", "GOTOOLCHAIN=local"), env...),
	}
	if overlayFile != "" {
		ov, err := readOverlay(repo, overlayFile)
		if err != nil {
			return nil, err
		}
		cfg.Overlay = ov
	}
	pkgs, err := packages.Load(cfg, "./...")
	if err != nil {
		return nil, fmt.Errorf("packages.Load: %w", err)
	}
	c := &Ctx{RepoDir: repo, Env: env, PkgByID: map[string]*packages.Package{}, SSA: map[string]*ssa.Package{}, funcs: map[string]*ssa.Function{}}
	c.Config = "default"
	if len(env) > 0 {
		c.Config = strings.Join(env, ",")
	}
	nerr := 0
	var errs []string
	packages.Visit(pkgs, nil, func(p *packages.Package) {
		for _, e := range p.Errors {
			nerr++
			if len(errs) < 10 {
				errs = append(errs, e.Error())
			}
		}
	})
	if nerr > 0 {
		return nil, fmt.Errorf("%d load/type errors, e.g. %s", nerr, strings.Join(errs, "; "))
	}
	var normNotes []string
	if !NoNormalize {
		pkgs, normNotes = normalizeHelpers(cfg, pkgs, loadBaseline(BaselineFile))
	}
	c.NormNotes = normNotes
	for _, p := range pkgs {
		if p.PkgPath == modPath || strings.HasPrefix(p.PkgPath, modPath+"/") {
			c.Pkgs = append(c.Pkgs, p)
			c.PkgByID[short(p.PkgPath)] = p
		}
	}
	if len(c.Pkgs) < 20 {
		return nil, fmt.Errorf("only %d repo packages loaded (expected >= 20)", len(c.Pkgs))
	}
	sort.Slice(c.Pkgs, func(i, j int) bool { return c.Pkgs[i].PkgPath < c.Pkgs[j].PkgPath })
	c.Fset = c.Pkgs[0].Fset

	prog, spkgs := ssautil.Packages(pkgs, ssa.InstantiateGenerics)
	prog.Build()
	c.Prog = prog
	for i, sp := range spkgs {
		if sp == nil {
			continue
		}
		pp := pkgs[i].PkgPath
		if pp == modPath || strings.HasPrefix(pp, modPath+"/") {
			c.SSA[short(pp)] = sp
		}
	}
	// index functions: linker-style reachable set plus every declared function
	// and method of the repo packages (unreferenced methods included)
	all := ssautil.AllFunctions(prog)
	var addFn func(fn *ssa.Function)
	addFn = func(fn *ssa.Function) {
		if fn == nil || all[fn] {
			return
		}
		all[fn] = true
		for _, a := range fn.AnonFuncs {
			addFn(a)
		}
	}
	for _, sp := range c.SSA {
		for _, mem := range sp.Members {
			switch m := mem.(type) {
			case *ssa.Function:
				addFn(m)
			case *ssa.Type:
				for _, t := range []types.Type{m.Type(), types.NewPointer(m.Type())} {
					ms := prog.MethodSets.MethodSet(t)
					for i := 0; i < ms.Len(); i++ {
						if f := prog.MethodValue(ms.At(i)); f != nil && f.Synthetic == "" {
							addFn(f)
						}
					}
				}
			}
		}
	}
	for fn := range all {
		if fn.Pkg == nil {
			continue
		}
		pp := fn.Pkg.Pkg.Path()
		if !(pp == modPath || strings.HasPrefix(pp, modPath+"/")) {
			continue
		}
		if fn.Synthetic != "" && fn.Parent() == nil {
			// wrappers, bound methods, init: keep package init only
			if fn.Name() != "init" {
				continue
			}
		}
		if fn.Blocks == nil {
			continue
		}
		c.funcs[fnKey(fn)] = fn
		c.allFuncs = append(c.allFuncs, fn)
	}
	sort.Slice(c.allFuncs, func(i, j int) bool { return fnKey(c.allFuncs[i]) < fnKey(c.allFuncs[j]) })
	c.NFuncs = len(c.allFuncs)
	curCtx = c
	return c, nil
}

// fnKey is the stable construct name of a function: "<short pkg>.<RelString>".
func fnKey(fn *ssa.Function) string {
	if fn == nil {
		return "<nil>"
	}
	if fn.Pkg == nil {
		return fn.String()
	}
	return short(fn.Pkg.Pkg.Path()) + "." + fn.RelString(fn.Pkg.Pkg)
}

// Func returns the named repo function or nil.
func (c *Ctx) Func(key string) *ssa.Function { return c.funcs[key] }

// FuncsIn returns all repo functions (incl. anonymous) of a package.
func (c *Ctx) FuncsIn(pkg string) []*ssa.Function {
	var out []*ssa.Function
	for _, f := range c.allFuncs {
		if short(f.Pkg.Pkg.Path()) == pkg {
			out = append(out, f)
		}
	}
	return out
}

// AllFuncs returns all repo functions.
func (c *Ctx) AllFuncs() []*ssa.Function { return c.allFuncs }

// Anons returns fn and all functions nested in it.
func withAnons(fn *ssa.Function) []*ssa.Function {
	out := []*ssa.Function{fn}
	for _, a := range fn.AnonFuncs {
		out = append(out, withAnons(a)...)
	}
	return out
}

func (c *Ctx) CallGraph() *callgraph.Graph {
	if c.cg == nil {
		c.cg = vta.CallGraph(ssautil.AllFunctions(c.Prog), cha.CallGraph(c.Prog))
	}
	return c.cg
}

// TypesPkg returns the *types.Package of a repo package.
func (c *Ctx) TypesPkg(pkg string) *types.Package {
	if p := c.PkgByID[pkg]; p != nil {
		return p.Types
	}
	return nil
}

// Pos renders a position relative to the repo root.
func (c *Ctx) Pos(p token.Pos) string {
	if !p.IsValid() {
		return "-"
	}
	pos := c.Fset.Position(p)
	f := strings.TrimPrefix(pos.Filename, c.RepoDir+"/")
	return fmt.Sprintf("%s:%d", f, pos.Line)
}

type overlaySpec struct {
	File string `json:"file"` // relative to repo
	Old  string `json:"old"`
	New  string `json:"new"`
	// Count: which occurrence (1-based); 0 = must be unique
	Occurrence int `json:"occurrence,omitempty"`
}

type mutantFile struct {
	Name    string        `json:"name"`
	Prop    string        `json:"prop"`
	Expect  []string      `json:"expect"` // "rule|construct-substring" that must become violated
	Edits   []overlaySpec `json:"edits"`
	Comment string        `json:"comment,omitempty"`
}

var errAnchorMissing = fmt.Errorf("mutant anchor missing")

func readOverlay(repo, file string) (map[string][]byte, error) {
	b, err := os.ReadFile(file)
	if err != nil {
		return nil, err
	}
	var m mutantFile
	if err := json.Unmarshal(b, &m); err != nil {
		return nil, fmt.Errorf("%s: %w", file, err)
	}
	return applyEdits(repo, m.Edits)
}

func applyEdits(repo string, edits []overlaySpec) (map[string][]byte, error) {
	ov := map[string][]byte{}
	for _, e := range edits {
		path := repo + "/" + e.File
		src, ok := ov[path]
		if !ok {
			var err error
			src, err = os.ReadFile(path)
			if err != nil {
				return nil, fmt.Errorf("%w: %v", errAnchorMissing, err)
			}
		}
		s := string(src)
		n := strings.Count(s, e.Old)
		if n == 0 {
			return nil, fmt.Errorf("%w: %s: %q", errAnchorMissing, e.File, e.Old)
		}
		if e.Occurrence == 0 {
			if n != 1 {
				return nil, fmt.Errorf("%w: %s: anchor %q occurs %d times", errAnchorMissing, e.File, e.Old, n)
			}
			s = strings.Replace(s, e.Old, e.New, 1)
		} else {
			if n < e.Occurrence {
				return nil, fmt.Errorf("%w: %s: anchor %q occurs %d times, need %d", errAnchorMissing, e.File, e.Old, n, e.Occurrence)
			}
			idx := -1
			from := 0
			for k := 0; k < e.Occurrence; k++ {
				i := strings.Index(s[from:], e.Old)
				idx = from + i
				from = idx + len(e.Old)
			}
			s = s[:idx] + e.New + s[idx+len(e.Old):]
		}
		ov[path] = []byte(s)
	}
	return ov, nil
}

// isRepoFunc: fn is declared in the analysed module (has a body we can read).
func (c *Ctx) isRepoFunc(fn *ssa.Function) bool {
	p := fn.Pkg
	if p == nil && fn.Parent() != nil {
		p = fn.Parent().Pkg
	}
	if p == nil && fn.Origin() != nil {
		p = fn.Origin().Pkg
	}
	return p != nil && strings.HasPrefix(p.Pkg.Path(), "github.com/safing/portbase")
}
