package main

import (
	"fmt"
	"go/constant"
	"go/token"
	"go/types"
	"sort"
	"strings"

	"golang.org/x/tools/go/ssa"
)

func init() {
	register(&propDef{
		ID: "C01",
		Explanation: "Decides structural necessary conditions of the module lifecycle order: " +
			"(R1) exhaustive truth tables of readyToPrep/readyToStart/readyToStop over self-status x dependency-status x management flags (finite-valuation propagation; safety direction: 'ready' only in the states the statement allows, never while a dependency is not yet prepared/online resp. a reverse dependency is still stopping/online); " +
			"(R2) Module.prep/start/stop are launched only from the three driver loops and only on the statusReady arm of the matching readiness predicate of the same module; " +
			"(R3) Module.status is written only by the six lifecycle sites, under the module lock, each transient state only past the test of its predecessor state and each final state only on the success edge of the control function; " +
			"(R4) a routine that entered a blocking state (Starting/Stopping) stores a non-blocking state on every path before it reports; " +
			"(R7) the completion that lets a stopping module be marked offline requires the stop routine to have ended and all work counters to be zero (truth table shared with C05-R3); (R5) driver order (dependencies linked, prep, enabled-tree, start; tree, stop, start; shutdown flag, stop) under mgmtLock, registration refused once locked; (R6) the fix-point loops return success only when nothing is pending or waiting, and the stop pass is never left (with or without an error) while a launched stop is unreported; (R8) the per-module stop sequence ctrlFuncRunning.Set < stopFlag.Set < cancelCtx < stop function < wait < report (shared with C05-R1): a module that completes its stop early lets its dependencies stop while it still runs. " +
			"(R9) a lifecycle routine that panics is reported as failed, never as a success (the hand-over obligations of C06-R1 for startCtrlFn): a module whose start panicked must not count as started. " +
			"(R10) a pass that failed is reported: Start/Shutdown/ManageModules return the error of every prepare/start/stop pass (= C06-R9) and the passes never forget an error a module reported (= C06-R12) - 'returns without error' is what the statement ties the online set to; " +
			"(R11) Shutdown runs stopModules on every path on which it claimed the shutdown flag - also when the initial start never completed; " +
			"(R12) Module.Enable / Disable update the module's own enabled flag on every path (being enabled as a dependency does not replace the request); " +
			"NOT decided: real interleavings of concurrently starting modules, exactly-once stop over all histories, panics inside routines (C06).",
		Rules: []ruleFn{c01R1, c01R2, c01R3, c01R4, c01R5, c01R6, func(c *Ctx, r *Report) { stopCompletionRule(c, r, "C01-R7") },
			func(c *Ctx, r *Report) { stopSequenceRule(c, r, "C01-R8") },
			borrowRule(c06R1, "C06-R1", "C01-R9", 1, func(s string) bool { return strings.Contains(s, "startCtrlFn") }),
			borrowRule(c06R9, "C06-R9", "C01-R10", 5, nil), borrowRule(c06R12, "C06-R12", "C01-R10", 9, nil), c01R11, c01R12},
	})
}

// constVal looks up a package-level constant by name.
func (c *Ctx) constVal(pkg, name string) (int64, bool) {
	tp := c.TypesPkg(pkg)
	if tp == nil {
		return 0, false
	}
	k, ok := tp.Scope().Lookup(name).(*types.Const)
	if !ok {
		return 0, false
	}
	v, ok := constant.Int64Val(k.Val())
	return v, ok
}

func (c *Ctx) mustConsts(r *Report, rule, pkg string, names ...string) (map[string]int64, bool) {
	out := map[string]int64{}
	for _, n := range names {
		v, ok := c.constVal(pkg, n)
		if !ok {
			r.Undecided(rule, pkg+"."+n, "constant missing")
			return nil, false
		}
		out[n] = v
	}
	return out, true
}

// aboolRead: v is a call x.IsSet()/IsNotSet() on an abool whose receiver path is p.
func aboolRead(v ssa.Value) (path string, negated bool, ok bool) {
	call, isCall := v.(*ssa.Call)
	if !isCall {
		return "", false, false
	}
	n := calleeName(&call.Call)
	switch n {
	case "github.com/tevino/abool.AtomicBool.IsSet":
	case "github.com/tevino/abool.AtomicBool.IsNotSet":
		negated = true
	default:
		return "", false, false
	}
	p := vpath(call.Call.Args[0])
	return p, negated, p != ""
}

func c01R1(c *Ctx, r *Report) {
	const rule = "C01-R1"
	r.SetFloor(rule, 3)
	k, ok := c.mustConsts(r, rule, "modules", "StatusDead", "StatusPreparing", "StatusOffline", "StatusStopping", "StatusStarting", "StatusOnline",
		"statusWaiting", "statusReady", "statusNothingToDo")
	if !ok {
		return
	}
	statusNames := []string{"StatusDead", "StatusPreparing", "StatusOffline", "StatusStopping", "StatusStarting", "StatusOnline"}
	retReady := fmt.Sprintf("ret(%d)", k["statusReady"])

	type spec struct {
		fn string
		// allowedSelf: ready only if self status is this
		self string
		// wanted: predicate over flags under which acting is allowed
		wanted func(mgmt, enabled, asDep, shutdown bool) bool
		// mustWait: dependency states in which 'ready' must be unreachable after the dependency check
		mustWait []string
		depDesc  string
	}
	specs := []spec{
		{"modules.(*Module).readyToPrep", "StatusDead", func(_, _, _, _ bool) bool { return true }, []string{"StatusDead", "StatusPreparing"}, "dependency"},
		{"modules.(*Module).readyToStart", "StatusOffline", func(mgmt, en, dep, _ bool) bool { return !mgmt || en || dep },
			[]string{"StatusDead", "StatusPreparing", "StatusOffline", "StatusStopping", "StatusStarting"}, "dependency"},
		{"modules.(*Module).readyToStop", "StatusOnline", func(mgmt, en, dep, sd bool) bool { return !mgmt || sd || !(en || dep) },
			[]string{"StatusStopping", "StatusOnline"}, "reverse dependency"},
	}
	for _, sp := range specs {
		fn := c.Func(sp.fn)
		if fn == nil {
			r.Undecided(rule, sp.fn, "anchor function missing")
			continue
		}
		recv := fn.Params[0]
		table := map[string]string{}
		var bad []string
		n := 0
		sawDepCall := false
		for _, self := range statusNames {
			for _, dep := range statusNames {
				for flags := 0; flags < 16; flags++ {
					mgmt, en, asDep, sd := flags&1 != 0, flags&2 != 0, flags&4 != 0, flags&8 != 0
					it := &Interp{Fn: fn, Outcome: retOutcome}
					isDepStatus := func(v ssa.Value) bool {
						call, ok := v.(*ssa.Call)
						if !ok || calleeName(&call.Call) != "modules.Module.Status" {
							return false
						}
						return call.Call.Args[0] != ssa.Value(recv)
					}
					it.Input = func(v ssa.Value) (AV, bool) {
						if call, ok := v.(*ssa.Call); ok {
							if calleeName(&call.Call) == "modules.Module.Status" {
								if call.Call.Args[0] == ssa.Value(recv) {
									return avInt(k[self]), true
								}
								return avInt(k[dep]), true
							}
							if p, neg, ok := aboolRead(v); ok {
								var b, known bool
								switch p {
								case "global:modules.moduleMgmtEnabled":
									b, known = mgmt, true
								case "global:modules.shutdownFlag":
									b, known = sd, true
								case "m.enabled":
									b, known = en, true
								case "m.enabledAsDependency":
									b, known = asDep, true
								}
								if known {
									return avBool(b != neg), true
								}
							}
						}
						return AV{}, false
					}
					it.Mark = func(in ssa.Instruction) int {
						if v, ok := in.(ssa.Value); ok && isDepStatus(v) {
							sawDepCall = true
							return 0
						}
						return -1
					}
					if !it.Run() {
						r.Undecided(rule, sp.fn, "state budget exceeded")
						return
					}
					n++
					labels := outcomeLabels(it.Outcomes)
					viaDep := labelsWithMark(it.Outcomes, 0)
					key := fmt.Sprintf("self=%s dep=%s mgmt=%v enabled=%v asDep=%v shutdown=%v", self, dep, mgmt, en, asDep, sd)
					table[key] = strings.Join(labels, "|") + " ; after " + sp.depDesc + " check: " + strings.Join(viaDep, "|")
					for _, l := range labels {
						if l != retReady {
							continue
						}
						if self != sp.self {
							bad = append(bad, fmt.Sprintf("ready with own status %s (only %s allowed)", self, sp.self))
						}
						if !sp.wanted(mgmt, en, asDep, sd) {
							bad = append(bad, fmt.Sprintf("ready although not wanted (mgmt=%v enabled=%v asDep=%v shutdown=%v)", mgmt, en, asDep, sd))
						}
					}
					// the converse: in the right own state, wanted, and with nothing to wait for, the answer must be ready
					waitFor := false
					for _, mw := range sp.mustWait {
						if mw == dep {
							waitFor = true
						}
					}
					if self == sp.self && sp.wanted(mgmt, en, asDep, sd) && !waitFor {
						hasReady := false
						for _, l := range labels {
							if l == retReady {
								hasReady = true
							}
						}
						if !hasReady {
							bad = append(bad, fmt.Sprintf("not ready although wanted and nothing to wait for (own status %s, %s in state %s, mgmt=%v enabled=%v asDep=%v shutdown=%v)", self, sp.depDesc, dep, mgmt, en, asDep, sd))
						}
					}
					for _, mw := range sp.mustWait {
						if mw == dep {
							for _, l := range viaDep {
								if l == retReady {
									bad = append(bad, fmt.Sprintf("ready reachable after seeing a %s in state %s", sp.depDesc, dep))
								}
							}
						}
					}
				}
			}
		}
		if !sawDepCall {
			r.Undecided(rule, sp.fn, "no "+sp.depDesc+" status read found: the predicate no longer inspects "+sp.depDesc+" states in a recognisable way")
			continue
		}
		bad = uniq(bad)
		r.Tables[rule+" "+sp.fn] = compressTable(table)
		r.Check(len(bad) == 0, rule, sp.fn+" / truth table",
			fmt.Sprintf("%d valuations (6 own states x 6 %s states x 16 flag combinations): ready only when allowed", n, sp.depDesc),
			strings.Join(bad, "; "))
	}
}

func uniq(s []string) []string {
	m := map[string]bool{}
	var out []string
	for _, x := range s {
		if !m[x] {
			m[x] = true
			out = append(out, x)
		}
	}
	sort.Strings(out)
	return out
}

// compressTable groups valuations by outcome to keep evidence small.
func compressTable(t map[string]string) map[string]any {
	by := map[string][]string{}
	for k, v := range t {
		by[v] = append(by[v], k)
	}
	out := map[string]any{}
	for v, ks := range by {
		sort.Strings(ks)
		ex := ks
		if len(ex) > 3 {
			ex = ex[:3]
		}
		out[v] = map[string]any{"valuations": len(ks), "examples": ex}
	}
	return out
}

// cmpCallGuard: base is BinOp (call name) == const; passed when true.
func cmpCallGuard(desc, callName string, want int64, sameRecv ssa.Value) Guard {
	return Guard{Name: desc, Truthy: true, Match: func(b ssa.Value) bool {
		bo, ok := b.(*ssa.BinOp)
		if !ok || bo.Op != token.EQL {
			return false
		}
		x, y := bo.X, bo.Y
		if _, isC := x.(*ssa.Const); isC {
			x, y = y, x
		}
		call, ok := isCallTo(x, callName)
		if !ok {
			return false
		}
		if v, ok := constInt(y); !ok || v != want {
			return false
		}
		if sameRecv != nil && call.Call.Args[0] != sameRecv {
			return false
		}
		return true
	}}
}

func c01R2(c *Ctx, r *Report) {
	const rule = "C01-R2"
	r.SetFloor(rule, 3)
	ready, ok := c.constVal("modules", "statusReady")
	if !ok {
		r.Undecided(rule, "modules.statusReady", "constant missing")
		return
	}
	for _, t := range []struct{ method, driver, pred string }{
		{"modules.Module.prep", "modules.prepareModules", "modules.Module.readyToPrep"},
		{"modules.Module.start", "modules.startModules", "modules.Module.readyToStart"},
		{"modules.Module.stop", "modules.stopModules", "modules.Module.readyToStop"},
	} {
		sites := c.CallSites(t.method)
		if len(sites) == 0 {
			r.Undecided(rule, t.method, "no call site found")
			continue
		}
		for i, s := range sites {
			cons := fmt.Sprintf("%s / call %s #%d", fnKey(s.Fn), t.method, i+1)
			if fnKey(s.Fn) != t.driver {
				r.Bad(rule, cons, fmt.Sprintf("%s is launched outside its driver loop %s", t.method, t.driver), c.Pos(s.Instr.Pos()))
				continue
			}
			recv := s.Instr.(ssa.CallInstruction).Common().Args[0]
			c.RequireGuards(r, rule, cons, s.Fn, s.Instr, cmpCallGuard(t.pred+"()==statusReady (same module)", t.pred, ready, recv))
		}
	}
}

// statusCmpGuards: guards that are passed when m.status == want.
func statusCmpGuards(want int64) []Guard {
	isStatusLoad := func(v ssa.Value) bool { return fieldLoadOf(v, "modules.Module", "status") }
	mk := func(op token.Token, truthy bool) Guard {
		return Guard{Name: fmt.Sprintf("status==%d", want), Truthy: truthy, Match: func(b ssa.Value) bool {
			bo, ok := b.(*ssa.BinOp)
			if !ok || bo.Op != op {
				return false
			}
			x, y := bo.X, bo.Y
			if _, isC := x.(*ssa.Const); isC {
				x, y = y, x
			}
			if !isStatusLoad(x) {
				return false
			}
			v, ok := constInt(y)
			return ok && v == want
		}}
	}
	return []Guard{mk(token.EQL, true), mk(token.NEQ, false)}
}

func c01R3(c *Ctx, r *Report) {
	const rule = "C01-R3"
	r.SetFloor(rule, 12)
	k, ok := c.mustConsts(r, rule, "modules", "StatusDead", "StatusPreparing", "StatusOffline", "StatusStopping", "StatusStarting", "StatusOnline")
	if !ok {
		return
	}
	name := func(v int64) string {
		for n, x := range k {
			if x == v {
				return n
			}
		}
		return fmt.Sprint(v)
	}
	// which top-level lifecycle function may store which states
	allowed := map[string]map[string]bool{
		"modules.(*Module).prep":         {"StatusPreparing": true, "StatusOffline": true},
		"modules.(*Module).start":        {"StatusStarting": true, "StatusOnline": true, "StatusOffline": true},
		"modules.(*Module).stop":         {"StatusStopping": true},
		"modules.(*Module).stopAllTasks": {"StatusOffline": true},
	}
	pred := map[string]string{"StatusPreparing": "StatusDead", "StatusStarting": "StatusOffline", "StatusStopping": "StatusOnline"}
	stores := c.StoresTo("modules.Module", "status")
	ord := map[string]int{}
	for _, s := range stores {
		st := s.Instr.(*ssa.Store)
		top := fnKey(topFunc(s.Fn))
		v, isConst := constInt(st.Val)
		vn := "non-constant"
		if isConst {
			vn = name(v)
		}
		base := fmt.Sprintf("%s / store Module.status=%s", fnKey(s.Fn), vn)
		ord[base]++
		cons := base
		if ord[base] > 1 {
			cons = fmt.Sprintf("%s #%d", base, ord[base])
		}
		if !isConst || !allowed[top][vn] {
			r.Bad(rule, cons, fmt.Sprintf("Module.status=%s is stored in %s, which is not one of the lifecycle transitions (prep: Preparing/Offline, start: Starting/Online/Offline-on-failure, stop: Stopping, stopAllTasks: Offline)", vn, top), c.Pos(st.Pos()))
			continue
		}
		// lock held
		held := LocksHeldAt(s.Fn)[st]
		lockOK := false
		for l := range held {
			if strings.HasSuffix(l, ".RWMutex") && !strings.HasPrefix(l, "R:") {
				lockOK = true
			}
		}
		r.Check(lockOK, rule, cons+" / under module lock", "store happens with the module write lock held",
			fmt.Sprintf("Module.status written without holding the module lock (held: %s)", setString(held)), c.Pos(st.Pos()))
		// transient states: only past the predecessor test
		if p, isTransient := pred[vn]; isTransient {
			path := ReachAvoiding(s.Fn, nil, st.Block(), statusCmpGuards(k[p]))
			r.Check(path == nil, rule, cons+" / predecessor state", fmt.Sprintf("reachable only when status == %s was tested", p),
				fmt.Sprintf("state %s can be entered without testing that the module is %s", vn, p), c.pathString(path)...)
		}
		// success states: only on the err==nil edge of the control function
		if (vn == "StatusOnline") || (vn == "StatusOffline" && top == "modules.(*Module).prep") {
			g := Guard{Name: "control function error == nil", Truthy: false, Match: func(b ssa.Value) bool {
				if !types.Identical(b.Type(), types.Universe.Lookup("error").Type()) {
					return false
				}
				found := false
				for _, l := range c.Leaves(b) {
					if _, ok := isCallTo(l, "modules.Module.runCtrlFnWithTimeout"); ok {
						found = true
					} else if !isNilConst(l) {
						return false
					}
				}
				return found
			}}
			c.RequireGuards(r, rule, cons, s.Fn, st, g)
		}
		// Offline in start: only on the failure edge
		if vn == "StatusOffline" && top == "modules.(*Module).start" {
			g := Guard{Name: "control function error != nil", Truthy: true, Match: func(b ssa.Value) bool {
				if !types.Identical(b.Type(), types.Universe.Lookup("error").Type()) {
					return false
				}
				for _, l := range c.Leaves(b) {
					if _, ok := isCallTo(l, "modules.Module.runCtrlFnWithTimeout"); ok {
						return true
					}
				}
				return false
			}}
			c.RequireGuards(r, rule, cons, s.Fn, st, g)
		}
		// Offline(stop): after the wait on stopComplete
		if vn == "StatusOffline" && top == "modules.(*Module).stopAllTasks" {
			okWait := MustPrecede(s.Fn, func(in ssa.Instruction) bool {
				sel, ok := in.(*ssa.Select)
				if !ok || !sel.Blocking {
					return false
				}
				for _, stt := range sel.States {
					if stt.Dir == types.RecvOnly && strings.HasSuffix(vpath(stt.Chan), ".stopComplete") {
						return true
					}
				}
				return false
			}, st)
			r.Check(okWait, rule, cons+" / after completion wait", "the blocking select on stopComplete/timeout precedes the Offline store on every path",
				"module is marked Offline without waiting for its work to complete", c.Pos(st.Pos()))
		}
	}
}

func c01R4(c *Ctx, r *Report) {
	const rule = "C01-R4"
	r.SetFloor(rule, 2)
	k, ok := c.mustConsts(r, rule, "modules", "StatusStopping", "StatusStarting")
	if !ok {
		return
	}
	blocking := map[int64]bool{k["StatusStopping"]: true, k["StatusStarting"]: true}
	isNonBlockingStore := func(in ssa.Instruction) bool {
		st, ok := in.(*ssa.Store)
		if !ok {
			return false
		}
		fr, ok := fieldOfAddr(st.Addr)
		if !ok || fr.Owner != "modules.Module" || fr.Name != "status" {
			return false
		}
		v, isC := constInt(st.Val)
		return isC && !blocking[v]
	}
	isReportSend := func(in ssa.Instruction) bool {
		s, ok := in.(*ssa.Send)
		if !ok {
			return false
		}
		return strings.Contains(s.Chan.Type().String(), "modules.report")
	}
	// routines that run after a blocking state was stored by their launcher
	var routines []*ssa.Function
	if f := c.Func("modules.(*Module).stopAllTasks"); f != nil {
		routines = append(routines, f)
	} else {
		r.Undecided(rule, "modules.(*Module).stopAllTasks", "anchor function missing")
	}
	if st := c.Func("modules.(*Module).start"); st != nil {
		for _, a := range st.AnonFuncs {
			if len(callsIn(a, "modules.Module.runCtrlFnWithTimeout")) > 0 {
				routines = append(routines, a)
			}
		}
	} else {
		r.Undecided(rule, "modules.(*Module).start", "anchor function missing")
	}
	for _, fn := range routines {
		cons := fnKey(fn) + " / report after blocking state"
		bad := ReachInstr(fn, nil, isReportSend, isNonBlockingStore)
		hasSend := ReachInstr(fn, nil, isReportSend, nil) != nil
		if !hasSend {
			r.Undecided(rule, cons, "no report send found in routine")
			continue
		}
		if bad == nil {
			r.OK(rule, cons, "every path to the report send stores a non-blocking status (Offline/Online) first")
		} else {
			r.Bad(rule, cons, "the routine can report while the module is still in a blocking state (Starting/Stopping): dependencies then wait forever and are never stopped", c.Pos(bad.Pos()))
		}
	}
}

func c01R5(c *Ctx, r *Report) {
	const rule = "C01-R5"
	r.SetFloor(rule, 8)
	type ord struct {
		fn    string
		calls []string
	}
	for _, o := range []ord{
		{"modules.Start", []string{"modules.initDependencies", "modules.prepareModules", "modules.buildEnabledTree", "modules.startModules"}},
		{"modules.ManageModules", []string{"modules.buildEnabledTree", "modules.stopModules", "modules.startModules"}},
		{"modules.Shutdown", []string{"github.com/tevino/abool.AtomicBool.SetToIf", "modules.stopModules"}},
	} {
		fn := c.Func(o.fn)
		if fn == nil {
			r.Undecided(rule, o.fn, "anchor function missing")
			continue
		}
		held := LocksHeldAt(fn)
		for i, name := range o.calls {
			calls := callsIn(fn, name)
			if len(calls) == 0 {
				r.Bad(rule, fmt.Sprintf("%s / call %s", o.fn, name), "driver step missing: "+name+" is never called")
				continue
			}
			for j, ci := range calls {
				cons := fmt.Sprintf("%s / call %s #%d", o.fn, name, j+1)
				if strings.HasSuffix(name, "SetToIf") {
					if vpath(ci.Common().Args[0]) != "global:modules.shutdownFlag" {
						continue
					}
				}
				if i > 0 {
					prev := o.calls[i-1]
					okOrder := MustPrecede(fn, func(in ssa.Instruction) bool {
						c2, ok := in.(*ssa.Call)
						if !ok || calleeName(&c2.Call) != prev {
							return false
						}
						if strings.HasSuffix(prev, "SetToIf") {
							return vpath(c2.Call.Args[0]) == "global:modules.shutdownFlag"
						}
						return true
					}, ci)
					r.Check(okOrder, rule, cons+" / order", prev+" precedes "+name+" on every path", name+" can run before "+prev, c.Pos(ci.Pos()))
				}
				if !strings.HasSuffix(name, "SetToIf") {
					r.Check(held[ci]["global:modules.mgmtLock"], rule, cons+" / mgmtLock", "runs with mgmtLock held",
						name+" runs without mgmtLock: lifecycle passes are no longer serialised", c.Pos(ci.Pos()))
				}
			}
		}
	}
	// Shutdown: stopModules only when the shutdown flag was newly set
	if fn := c.Func("modules.Shutdown"); fn != nil {
		for i, ci := range callsIn(fn, "modules.stopModules") {
			g := Guard{Name: "shutdownFlag.SetToIf(false,true)==true", Truthy: true, Match: func(b ssa.Value) bool {
				call, ok := isCallTo(b, "github.com/tevino/abool.AtomicBool.SetToIf")
				return ok && vpath(call.Call.Args[0]) == "global:modules.shutdownFlag"
			}}
			c.RequireGuards(r, rule, fmt.Sprintf("modules.Shutdown / call modules.stopModules #%d", i+1), fn, ci, g)
		}
	}
	// Register refuses once modules are locked
	if fn := c.Func("modules.Register"); fn == nil {
		r.Undecided(rule, "modules.Register", "anchor function missing")
	} else {
		n := 0
		eachInstr(fn, func(in ssa.Instruction) {
			if mu, ok := in.(*ssa.MapUpdate); ok && vpath(mu.Map) == "global:modules.modules" {
				n++
				g := Guard{Name: "modulesLocked.IsSet()==false", Truthy: false, Match: func(b ssa.Value) bool {
					p, neg, ok := aboolRead(b)
					return ok && !neg && p == "global:modules.modulesLocked"
				}}
				c.RequireGuards(r, rule, "modules.Register / add to module registry", fn, mu, g)
			}
		})
		if n == 0 {
			r.Undecided(rule, "modules.Register", "no update of the module registry found")
		}
	}
	// Start locks registration before linking dependencies
	if fn := c.Func("modules.Start"); fn != nil {
		for i, ci := range callsIn(fn, "modules.initDependencies") {
			g := Guard{Name: "modulesLocked.SetToIf(false,true)==true", Truthy: true, Match: func(b ssa.Value) bool {
				call, ok := isCallTo(b, "github.com/tevino/abool.AtomicBool.SetToIf")
				return ok && vpath(call.Call.Args[0]) == "global:modules.modulesLocked"
			}}
			c.RequireGuards(r, rule, fmt.Sprintf("modules.Start / call modules.initDependencies #%d", i+1), fn, ci, g)
		}
	}
}

func c01R6(c *Ctx, r *Report) {
	const rule = "C01-R6"
	r.SetFloor(rule, 3)
	for _, name := range []string{"modules.prepareModules", "modules.startModules", "modules.stopModules"} {
		fn := c.Func(name)
		if fn == nil {
			r.Undecided(rule, name, "anchor function missing")
			continue
		}
		// every return inside the loop whose result is not an error built by fmt.Errorf / a received report error
		// must be reachable only across !(reportCnt < execCnt) and !(waiting > 0).
		// We identify the two comparisons structurally: a signed int LSS between two phi counters, and GTR of a phi with const 0.
		// execCnt is the counter incremented next to the launch of a routine; the other counter it is compared with counts reports
		launchIn := func(b *ssa.BasicBlock) bool {
			for _, in := range b.Instrs {
				if ci, ok := in.(ssa.CallInstruction); ok {
					switch calleeName(ci.Common()) {
					case "modules.Module.prep", "modules.Module.start", "modules.Module.stop":
						return true
					}
				}
			}
			return false
		}
		// a value counts launches if it is incremented next to a launch, or is a sum/merge involving such a value
		var execDerived func(v ssa.Value, seen map[ssa.Value]bool) bool
		execDerived = func(v ssa.Value, seen map[ssa.Value]bool) bool {
			if seen[v] || len(seen) > 40 {
				return false
			}
			seen[v] = true
			switch x := v.(type) {
			case *ssa.Phi:
				for _, e := range x.Edges {
					if execDerived(e, seen) {
						return true
					}
				}
			case *ssa.BinOp:
				if x.Op == token.ADD {
					if launchIn(x.Block()) {
						return true
					}
					return execDerived(x.X, seen) || execDerived(x.Y, seen)
				}
			}
			return false
		}
		isExec := func(v ssa.Value) bool {
			return isIntCounter(v) && execDerived(v, map[ssa.Value]bool{})
		}
		isReport := func(v ssa.Value) bool { return isIntCounter(v) && !isExec(v) }
		pendingGuards := relGuards("not(reportCnt < execCnt)", isReport, isExec, func(rep, exec int64) bool { return rep >= exec })
		waitingGuards := cmpGuards("not(waiting > 0)", func(v ssa.Value) bool { return isIntCounter(v) && !isExec(v) }, func(x int64) bool { return x <= 0 }, 0)
		k := 0
		kAny := 0
		eachInstr(fn, func(in ssa.Instruction) {
			ret, ok := in.(*ssa.Return)
			if !ok {
				return
			}
			if name == "modules.stopModules" {
				// the shutdown pass must not be left - with or without an error - while stop
				// routines it launched are still unreported: a failed stop does not excuse the others.
				kAny++
				c.RequireAny(r, rule, fmt.Sprintf("%s / return #%d leaves no launched stop unreported", name, kAny), fn, ret, "not(reportCnt < execCnt)", pendingGuards)
			}
			v := retVal(ret, 0)
			// success-like returns: nil constant, or a variable (lastErr) - not a fresh fmt.Errorf / rep.err
			// error-only returns (every origin is a fresh fmt.Errorf or a received report error) are not success exits
			errorOnly := true
			for _, l := range c.Leaves(v) {
				_, isErrorf := isCallTo(l, "fmt.Errorf")
				if !isErrorf && !fieldLoadOf(l, "modules.report", "err") {
					errorOnly = false
				}
			}
			if errorOnly {
				return
			}
			k++
			// a merged result (error on one edge, success on another) is judged per incoming success edge
			if ph, isPhi := v.(*ssa.Phi); isPhi && ph.Block() == ret.Block() {
				for gi, gs := range [][]Guard{pendingGuards, waitingGuards} {
					gname := []string{"not(reportCnt < execCnt)", "not(waiting > 0)"}[gi]
					okAll := true
					for i, e := range ph.Edges {
						isErr := true
						for _, l := range c.Leaves(e) {
							_, isErrorf := isCallTo(l, "fmt.Errorf")
							if !isErrorf && !fieldLoadOf(l, "modules.report", "err") {
								isErr = false
							}
						}
						if isErr {
							continue
						}
						if !phiEdgeGuardedAny(fn, ph, i, gs) {
							okAll = false
						}
					}
					r.Check(okAll, rule, fmt.Sprintf("%s / success return #%d / guard %s", name, k, gname), "every success edge of the merged result passes the guard",
						fmt.Sprintf("return at %s can yield success without passing [%s]", c.Pos(ret.Pos()), gname))
				}
				return
			}
			c.RequireAny(r, rule, fmt.Sprintf("%s / success return #%d", name, k), fn, ret, "not(reportCnt < execCnt)", pendingGuards)
			c.RequireAny(r, rule, fmt.Sprintf("%s / success return #%d", name, k), fn, ret, "not(waiting > 0)", waitingGuards)
		})
		if k == 0 {
			r.Undecided(rule, name, "no success return found")
		}
	}
}

func isIntCounter(v ssa.Value) bool {
	bt, ok := v.Type().Underlying().(*types.Basic)
	if !ok || bt.Kind() != types.Int {
		return false
	}
	switch x := v.(type) {
	case *ssa.Phi:
		return true
	case *ssa.BinOp:
		// counter += n, compared right away
		return x.Op == token.ADD
	}
	return false
}
