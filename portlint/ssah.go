package main

import (
	"fmt"
	"go/constant"
	"go/token"
	"go/types"
	"sort"
	"strings"

	"golang.org/x/tools/go/ssa"
)

// ---------------------------------------------------------------------------
// A1: callee resolution and naming

// objName renders a *types.Func as "pkg.Func" or "pkg.Type.Method"; repo
// packages use their short path.
func objName(f *types.Func) string {
	if f == nil {
		return ""
	}
	pkg := ""
	if f.Pkg() != nil {
		pkg = short(f.Pkg().Path())
	}
	sig, _ := f.Type().(*types.Signature)
	if sig != nil && sig.Recv() != nil {
		t := sig.Recv().Type()
		if p, ok := t.(*types.Pointer); ok {
			t = p.Elem()
		}
		switch n := t.(type) {
		case *types.Named:
			tp := ""
			if n.Obj().Pkg() != nil {
				tp = short(n.Obj().Pkg().Path())
			}
			return tp + "." + n.Obj().Name() + "." + f.Name()
		case *types.Interface:
			return pkg + ".<iface>." + f.Name()
		}
	}
	return pkg + "." + f.Name()
}

// calleeName returns the resolved callee of a call (static function, method
// via invoke, or builtin) as objName; "" for dynamic calls through values.
func calleeName(c *ssa.CallCommon) string {
	if c.IsInvoke() {
		return objName(c.Method)
	}
	switch v := c.Value.(type) {
	case *ssa.Function:
		if o, ok := v.Object().(*types.Func); ok && o != nil {
			return objName(o)
		}
		if v.Parent() != nil {
			return "closure:" + fnKey(v)
		}
		return v.String()
	case *ssa.Builtin:
		return "builtin." + v.Name()
	case *ssa.MakeClosure:
		if f, ok := v.Fn.(*ssa.Function); ok {
			return "closure:" + fnKey(f)
		}
	}
	return ""
}

// staticCallee returns the repo-level *ssa.Function invoked, following
// MakeClosure; nil for dynamic / interface calls.
func staticCallee(c *ssa.CallCommon) *ssa.Function {
	if c.IsInvoke() {
		return nil
	}
	switch v := c.Value.(type) {
	case *ssa.Function:
		return v
	case *ssa.MakeClosure:
		if f, ok := v.Fn.(*ssa.Function); ok {
			return f
		}
	}
	return nil
}

// callOf returns the CallCommon if v is a call value (or Extract of one).
func callOf(v ssa.Value) (*ssa.Call, int) {
	switch x := v.(type) {
	case *ssa.Call:
		return x, -1
	case *ssa.Extract:
		if c, ok := x.Tuple.(*ssa.Call); ok {
			return c, x.Index
		}
	}
	return nil, -1
}

// isCallTo reports whether v is (a result of) a call to one of names.
func isCallTo(v ssa.Value, names ...string) (*ssa.Call, bool) {
	c, _ := callOf(v)
	if c == nil {
		return nil, false
	}
	n := calleeName(&c.Call)
	for _, want := range names {
		if n == want {
			return c, true
		}
	}
	return nil, false
}

// callArgs returns the arguments of a call including the receiver for invoke
// mode as element 0.
func callArgs(c *ssa.CallCommon) []ssa.Value {
	if c.IsInvoke() {
		return append([]ssa.Value{c.Value}, c.Args...)
	}
	return c.Args
}

// eachInstr visits all instructions of fn (not nested anons).
func eachInstr(fn *ssa.Function, f func(ssa.Instruction)) {
	for _, b := range fn.Blocks {
		for _, in := range b.Instrs {
			f(in)
		}
	}
}

// callsIn lists call instructions (Call, Go, Defer) in fn whose callee is one
// of names.
func callsIn(fn *ssa.Function, names ...string) []ssa.CallInstruction {
	var out []ssa.CallInstruction
	eachInstr(fn, func(in ssa.Instruction) {
		ci, ok := in.(ssa.CallInstruction)
		if !ok {
			return
		}
		n := calleeName(ci.Common())
		for _, w := range names {
			if n == w {
				out = append(out, ci)
			}
		}
	})
	return out
}

// allCallSites finds call sites of names across all repo functions.
type Site struct {
	Fn    *ssa.Function
	Instr ssa.Instruction
}

func (c *Ctx) CallSites(names ...string) []Site {
	var out []Site
	for _, fn := range c.allFuncs {
		for _, ci := range callsIn(fn, names...) {
			out = append(out, Site{fn, ci})
		}
	}
	return out
}

// ---------------------------------------------------------------------------
// value paths: a stable textual description of where a value comes from

// unwrapConv peels conversions that do not change identity.
func unwrapConv(v ssa.Value) ssa.Value {
	for {
		switch x := v.(type) {
		case *ssa.ChangeType:
			v = x.X
		case *ssa.Convert:
			v = x.X
		case *ssa.MakeInterface:
			v = x.X
		case *ssa.ChangeInterface:
			v = x.X
		default:
			return v
		}
	}
}

// fieldName returns the name of field i of the struct (pointer) type t.
func fieldName(t types.Type, i int) string {
	if p, ok := t.Underlying().(*types.Pointer); ok {
		t = p.Elem()
	}
	if s, ok := t.Underlying().(*types.Struct); ok && i < s.NumFields() {
		return s.Field(i).Name()
	}
	return fmt.Sprintf("f%d", i)
}

// ownerType returns "pkg.Type" of the struct a FieldAddr/Field refers to.
func ownerType(t types.Type) string {
	if p, ok := t.Underlying().(*types.Pointer); ok {
		t = p.Elem()
	}
	if n, ok := t.(*types.Named); ok {
		p := ""
		if n.Obj().Pkg() != nil {
			p = short(n.Obj().Pkg().Path())
		}
		return p + "." + n.Obj().Name()
	}
	return t.String()
}

// vpath renders an access path for v: "m.status", "global:modules.mgmtLock",
// "t.module.Ctx". Loads are transparent. Returns "" when not a simple path.
func vpath(v ssa.Value) string {
	return vpathDepth(v, 0)
}

func vpathDepth(v ssa.Value, depth int) string {
	if depth > 12 {
		return ""
	}
	v = unwrapConv(v)
	switch x := v.(type) {
	case *ssa.Parameter:
		return x.Name()
	case *ssa.FreeVar:
		return x.Name()
	case *ssa.Global:
		return "global:" + short(x.Pkg.Pkg.Path()) + "." + x.Name()
	case *ssa.UnOp:
		if x.Op == token.MUL {
			return vpathDepth(x.X, depth+1)
		}
	case *ssa.FieldAddr:
		b := vpathDepth(x.X, depth+1)
		if b == "" {
			return ""
		}
		return b + "." + fieldName(x.X.Type(), x.Field)
	case *ssa.Field:
		b := vpathDepth(x.X, depth+1)
		if b == "" {
			return ""
		}
		return b + "." + fieldName(x.X.Type(), x.Field)
	case *ssa.Alloc:
		if x.Comment != "" {
			return x.Comment
		}
	case *ssa.Extract:
		if call, ok := x.Tuple.(*ssa.Call); ok {
			if n := calleeName(&call.Call); n != "" {
				return fmt.Sprintf("%s()#%d", n, x.Index)
			}
		}
	case *ssa.Call:
		if n := calleeName(&x.Call); n != "" {
			return n + "()"
		}
	case *ssa.Phi:
		// a phi whose operands share one path
		p := ""
		for _, e := range x.Edges {
			q := vpathDepth(e, depth+1)
			if q == "" || (p != "" && p != q) {
				return "phi(" + x.Name() + ")"
			}
			p = q
		}
		return p
	}
	return ""
}

// fieldRef identifies a struct field by owner type and name.
type fieldRef struct{ Owner, Name string }

func fieldOfAddr(v ssa.Value) (fieldRef, bool) {
	if fa, ok := v.(*ssa.FieldAddr); ok {
		return fieldRef{ownerType(fa.X.Type()), fieldName(fa.X.Type(), fa.Field)}, true
	}
	return fieldRef{}, false
}

// storesTo lists all Store instructions in the repo whose address is a
// FieldAddr of the given struct field (A4: who-may-write).
func (c *Ctx) StoresTo(owner, name string) []Site {
	var out []Site
	for _, fn := range c.allFuncs {
		eachInstr(fn, func(in ssa.Instruction) {
			if st, ok := in.(*ssa.Store); ok {
				if fr, ok := fieldOfAddr(st.Addr); ok && fr.Owner == owner && fr.Name == name {
					out = append(out, Site{fn, st})
				}
			}
		})
	}
	return out
}

// constInt returns the integer constant value of v, if any.
func constInt(v ssa.Value) (int64, bool) {
	v = unwrapConv(v)
	if c, ok := v.(*ssa.Const); ok && c.Value != nil && c.Value.Kind() == constant.Int {
		if i, ok := constant.Int64Val(c.Value); ok {
			return i, true
		}
	}
	return 0, false
}

func constBool(v ssa.Value) (bool, bool) {
	if c, ok := v.(*ssa.Const); ok && c.Value != nil && c.Value.Kind() == constant.Bool {
		return constant.BoolVal(c.Value), true
	}
	return false, false
}

func isNilConst(v ssa.Value) bool {
	c, ok := v.(*ssa.Const)
	return ok && c.Value == nil
}

// ---------------------------------------------------------------------------
// A2: edge guards and guarded reachability

// peel normalises an If condition to (base, truthyOnTrue): the true edge of
// the If is taken iff base is truthy (true / non-nil) == truthyOnTrue.
func peel(v ssa.Value) (ssa.Value, bool) {
	pos := true
	for {
		switch x := v.(type) {
		case *ssa.UnOp:
			if x.Op == token.NOT {
				v = x.X
				pos = !pos
				continue
			}
			if x.Op == token.MUL {
				if d := reachingStore(x); d != nil {
					v = d
					continue
				}
			}
		case *ssa.BinOp:
			if x.Op == token.EQL || x.Op == token.NEQ {
				var other ssa.Value
				var c *ssa.Const
				if cc, ok := x.Y.(*ssa.Const); ok {
					c, other = cc, x.X
				} else if cc, ok := x.X.(*ssa.Const); ok {
					c, other = cc, x.Y
				}
				if c != nil {
					if c.Value == nil { // nil comparison
						if x.Op == token.EQL {
							pos = !pos
						}
						v = other
						continue
					}
					if c.Value.Kind() == constant.Bool {
						b := constant.BoolVal(c.Value)
						if (x.Op == token.EQL) != b {
							pos = !pos
						}
						v = other
						continue
					}
				}
			}
		}
		return v, pos
	}
}

// reachingStore resolves a load of a local Alloc cell (named results and
// variables that go/ssa keeps in memory because of defer/closures) to the value
// of the unique store that reaches it along a chain of single-predecessor
// blocks. nil if not resolvable.
func reachingStore(load *ssa.UnOp) ssa.Value {
	al, ok := load.X.(*ssa.Alloc)
	if !ok {
		// field of the same struct value, stored earlier in the same block with no call in between
		if fa, isFA := load.X.(*ssa.FieldAddr); isFA {
			b := load.Block()
			idx := -1
			for i, in := range b.Instrs {
				if in == ssa.Instruction(load) {
					idx = i
				}
			}
			for i := idx - 1; i >= 0; i-- {
				switch x := b.Instrs[i].(type) {
				case *ssa.Store:
					if fa2, ok := x.Addr.(*ssa.FieldAddr); ok && fa2.X == fa.X && fa2.Field == fa.Field {
						return x.Val
					}
				case ssa.CallInstruction:
					return nil
				}
			}
		}
		return nil
	}
	b := load.Block()
	idx := -1
	for i, in := range b.Instrs {
		if in == ssa.Instruction(load) {
			idx = i
		}
	}
	for hops := 0; hops < 8 && b != nil; hops++ {
		if idx < 0 {
			idx = len(b.Instrs)
		}
		for i := idx - 1; i >= 0; i-- {
			switch x := b.Instrs[i].(type) {
			case *ssa.Store:
				if x.Addr == al {
					return x.Val
				}
			case ssa.CallInstruction:
				// a call could modify the cell only if it escapes
				if !allocIsLocal(al) {
					if _, isDefer := x.(*ssa.Defer); !isDefer {
						return nil
					}
				}
			}
		}
		if len(b.Preds) != 1 {
			return nil
		}
		b = b.Preds[0]
		idx = -1
	}
	return nil
}

// retVal returns result i of a return, resolving go/ssa's defer-spilled
// results (load of a result cell after rundefers) to the stored value.
func retVal(ret *ssa.Return, i int) ssa.Value {
	v := ret.Results[i]
	if u, ok := v.(*ssa.UnOp); ok && u.Op == token.MUL {
		if d := reachingStore(u); d != nil {
			return d
		}
	}
	return v
}

// Guard describes an atomic condition that must have been tested with a given
// outcome. Match is applied to the peeled base value.
type Guard struct {
	Name   string
	Match  func(base ssa.Value) bool
	Truthy bool // the guard is PASSED when base is truthy == Truthy
}

// callGuard: base is (result idx of) a call to name; passed when truthy==t.
func callGuard(desc string, truthy bool, names ...string) Guard {
	return Guard{Name: desc, Truthy: truthy, Match: func(b ssa.Value) bool {
		_, ok := isCallTo(b, names...)
		return ok
	}}
}

// errNilGuard: base is the error result of a call to name; passed when nil.
func errNilGuard(desc string, names ...string) Guard {
	return Guard{Name: desc, Truthy: false, Match: func(b ssa.Value) bool {
		c, ok := isCallTo(b, names...)
		if !ok {
			return false
		}
		_ = c
		return types.Identical(b.Type(), types.Universe.Lookup("error").Type())
	}}
}


// guardMatch applies g.Match to base and, for comparisons, to the logically
// equivalent spellings of the same test (operands swapped, operator negated),
// so that a guard written for "a < b" also recognises "b > a", "!(a >= b)" and
// an if/else whose branches were swapped around "a >= b". flip reports that the
// matched spelling has the opposite truth value of base.
func guardMatch(g Guard, base ssa.Value) (matched, flip bool) {
	if g.Match(base) {
		return true, false
	}
	bo, ok := base.(*ssa.BinOp)
	if !ok {
		return false, false
	}
	swap := map[token.Token]token.Token{token.LSS: token.GTR, token.GTR: token.LSS, token.LEQ: token.GEQ, token.GEQ: token.LEQ, token.EQL: token.EQL, token.NEQ: token.NEQ}
	neg := map[token.Token]token.Token{token.LSS: token.GEQ, token.GEQ: token.LSS, token.GTR: token.LEQ, token.LEQ: token.GTR, token.EQL: token.NEQ, token.NEQ: token.EQL}
	if _, isCmp := swap[bo.Op]; !isCmp {
		return false, false
	}
	type variant struct {
		op   token.Token
		x, y ssa.Value
		flip bool
	}
	vs := []variant{
		{swap[bo.Op], bo.Y, bo.X, false},
		{neg[bo.Op], bo.X, bo.Y, true},
		{swap[neg[bo.Op]], bo.Y, bo.X, true},
	}
	try := func(clone *ssa.BinOp) (ok bool) {
		// the clone has no type or position: a matcher that asks for them is not about comparisons
		defer func() {
			if recover() != nil {
				ok = false
			}
		}()
		return g.Match(clone)
	}
	for _, v := range vs {
		if try(&ssa.BinOp{Op: v.op, X: v.x, Y: v.y}) {
			return true, v.flip
		}
	}
	return false, false
}

type phiVal struct {
	kind  int8 // 0 unknown, 1 const, 2 guard
	b     bool // const value, or: phi truthy == guard-base truthy
	guard int
}

type gstate struct {
	blk *ssa.BasicBlock
	env string
}

// condOutcome evaluates cond at the end of block b under phi env; returns
// which successor edges (0=true,1=false) are allowed when edges that PASS any
// of the guards are forbidden.
func guardEdges(cond ssa.Value, env map[*ssa.Phi]phiVal, guards []Guard) (allowTrue, allowFalse bool) {
	base, pos := peel(cond)
	if b, ok := constBool(base); ok {
		t := b == pos
		return t, !t
	}
	if ph, ok := base.(*ssa.Phi); ok {
		if pv, ok := env[ph]; ok {
			switch pv.kind {
			case 1:
				t := pv.b == pos
				at, af := t, !t
				// the phi itself may be the guarded quantity: a feasible edge that passes the guard is still barred
				for _, g := range guards {
					if m, flip := guardMatch(g, base); m {
						if g.Truthy == (pos != flip) {
							at = false
						} else {
							af = false
						}
					}
				}
				return at, af
			case 2:
				// phi truthy == (guardbase truthy == pv.b)
				g := guards[pv.guard]
				// true edge taken iff phi truthy == pos
				// guard passed iff guardbase truthy == g.Truthy
				// phi truthy = (gb == pv.b) ; true edge: (gb==pv.b)==pos
				// when gb = g.Truthy (passed): phi truthy = (g.Truthy==pv.b); edge true iff that == pos
				passEdgeTrue := (g.Truthy == pv.b) == pos
				if passEdgeTrue {
					return false, true
				}
				return true, false
			}
		}
	}
	for _, g := range guards {
		if m, flip := guardMatch(g, base); m {
			// true edge taken iff base truthy == pos; passed iff (matched spelling) truthy == g.Truthy
			passEdgeTrue := g.Truthy == (pos != flip)
			if passEdgeTrue {
				return false, true
			}
			return true, false
		}
	}
	return true, true
}

func envKey(env map[*ssa.Phi]phiVal) string {
	if len(env) == 0 {
		return ""
	}
	var ks []string
	for p, v := range env {
		ks = append(ks, fmt.Sprintf("%s=%d%v%d", p.Name(), v.kind, v.b, v.guard))
	}
	sort.Strings(ks)
	return strings.Join(ks, ",")
}

// trackablePhi: phis whose truth value the path search follows - booleans, and
// nil-able values (errors, pointers) whose "truth" is being non-nil, so that a
// result merged from several branches and tested afterwards ("err != nil")
// keeps the connection to the branch that produced it.
func trackablePhi(ph *ssa.Phi) bool {
	switch t := ph.Type().Underlying().(type) {
	case *types.Basic:
		return t.Kind() == types.Bool
	case *types.Interface, *types.Pointer:
		return true
	}
	return false
}

func phiValue(op ssa.Value, guards []Guard, env map[*ssa.Phi]phiVal) phiVal {
	base, pos := peel(op)
	if b, ok := constBool(base); ok {
		return phiVal{kind: 1, b: b == pos}
	}
	if isNilConst(base) {
		return phiVal{kind: 1, b: !pos} // nil is "false"
	}
	if call, ok := base.(*ssa.Call); ok {
		if cn := calleeName(&call.Call); cn == "errors.New" || cn == "fmt.Errorf" {
			return phiVal{kind: 1, b: pos} // a fresh error is non-nil
		}
	}
	if al, ok := base.(*ssa.Alloc); ok && al != nil {
		return phiVal{kind: 1, b: pos} // address of a fresh object
	}
	if ph, ok := base.(*ssa.Phi); ok {
		if pv, ok := env[ph]; ok && pv.kind != 0 {
			if !pos {
				pv.b = !pv.b
			}
			return pv
		}
	}
	for i, g := range guards {
		if m, flip := guardMatch(g, base); m {
			return phiVal{kind: 2, b: pos != flip, guard: i}
		}
	}
	return phiVal{}
}

// ReachAvoiding searches a path from `from` (block; nil = entry) to the block
// of target that never crosses an edge on which one of the guards is PASSED.
// It returns the witness path (block indices with positions) or nil if every
// path passes one of the guards... note: "passes ANY guard" blocks the path, so
// to require several guards call it once per guard.
func ReachAvoiding(fn *ssa.Function, from *ssa.BasicBlock, target *ssa.BasicBlock, guards []Guard) []*ssa.BasicBlock {
	if from == nil || from == fn.Blocks[0] {
		return ReachFromAvoiding(fn, nil, func(in ssa.Instruction) bool { return in.Block() == target }, guards, nil)
	}
	// plain reachability from an inner block (no phi knowledge at the start)
	if len(from.Instrs) == 0 {
		return nil
	}
	if from == target {
		return []*ssa.BasicBlock{from}
	}
	return reachFromBlockStart(fn, from, func(in ssa.Instruction) bool { return in.Block() == target }, guards, nil)
}

// pathString renders a block path as positions.
func (c *Ctx) pathString(path []*ssa.BasicBlock) []string {
	var out []string
	for _, b := range path {
		if b == nil {
			continue
		}
		pos := token.NoPos
		for _, in := range b.Instrs {
			if in.Pos().IsValid() {
				pos = in.Pos()
				break
			}
		}
		out = append(out, fmt.Sprintf("b%d(%s)@%s", b.Index, b.Comment, c.Pos(pos)))
	}
	return out
}

// RequireGuards checks that instr is reachable from entry only across each
// of the guards (one obligation per guard).
func (c *Ctx) RequireGuards(r *Report, rule, construct string, fn *ssa.Function, instr ssa.Instruction, guards ...Guard) {
	for _, g := range guards {
		// first: does any If in fn match the guard at all?
		path := ReachAvoiding(fn, nil, instr.Block(), []Guard{g})
		cons := construct + " / guard " + g.Name
		if path == nil {
			r.OK(rule, cons, fmt.Sprintf("%s at %s is reachable only across [%s]", descInstr(instr), c.Pos(instr.Pos()), g.Name))
		} else {
			r.Bad(rule, cons, fmt.Sprintf("%s at %s is reachable without passing [%s]", descInstr(instr), c.Pos(instr.Pos()), g.Name), c.pathString(path)...)
		}
	}
}

// RequireAny checks that instr is reachable from entry only across an edge
// that passes at least one guard of the set (alternative spellings of one condition).
func (c *Ctx) RequireAny(r *Report, rule, construct string, fn *ssa.Function, instr ssa.Instruction, name string, guards []Guard) {
	path := ReachAvoiding(fn, nil, instr.Block(), guards)
	cons := construct + " / guard " + name
	if path == nil {
		r.OK(rule, cons, fmt.Sprintf("%s at %s is reachable only across [%s]", descInstr(instr), c.Pos(instr.Pos()), name))
	} else {
		r.Bad(rule, cons, fmt.Sprintf("%s at %s is reachable without passing [%s]", descInstr(instr), c.Pos(instr.Pos()), name), c.pathString(path)...)
	}
}

func descInstr(in ssa.Instruction) string {
	switch x := in.(type) {
	case ssa.CallInstruction:
		n := calleeName(x.Common())
		if n == "" {
			n = "dynamic call " + vpath(x.Common().Value)
		}
		switch in.(type) {
		case *ssa.Go:
			return "go " + n
		case *ssa.Defer:
			return "defer " + n
		}
		return "call " + n
	case *ssa.Store:
		return "store " + vpath(x.Addr)
	case *ssa.Send:
		return "send " + vpath(x.Chan)
	case *ssa.Return:
		return "return"
	}
	return in.String()
}

// ---------------------------------------------------------------------------
// instruction-level reachability (ordering rules)

// ReachInstr: is there a path from just after `start` (or from function entry
// if start == nil) to an instruction satisfying target that does not execute an
// instruction satisfying barrier? Returns the found target instruction.
func ReachInstr(fn *ssa.Function, start ssa.Instruction, target, barrier func(ssa.Instruction) bool) ssa.Instruction {
	type pos struct {
		b *ssa.BasicBlock
		i int
	}
	var queue []pos
	seen := map[*ssa.BasicBlock]bool{}
	if start == nil {
		queue = append(queue, pos{fn.Blocks[0], 0})
		seen[fn.Blocks[0]] = true
	} else {
		b := start.Block()
		for i, in := range b.Instrs {
			if in == start {
				queue = append(queue, pos{b, i + 1})
				break
			}
		}
	}
	for len(queue) > 0 {
		p := queue[0]
		queue = queue[1:]
		blocked := false
		for i := p.i; i < len(p.b.Instrs); i++ {
			in := p.b.Instrs[i]
			if target(in) {
				return in
			}
			if barrier != nil && barrier(in) {
				blocked = true
				break
			}
		}
		if blocked {
			continue
		}
		for _, s := range p.b.Succs {
			if !seen[s] {
				seen[s] = true
				queue = append(queue, pos{s, 0})
			}
		}
	}
	return nil
}

// MustPrecede: on every path from entry to `target`, an instruction satisfying
// `before` executes first.
func MustPrecede(fn *ssa.Function, before func(ssa.Instruction) bool, target ssa.Instruction) bool {
	return ReachInstr(fn, nil, func(in ssa.Instruction) bool { return in == target }, before) == nil
}

func isExit(in ssa.Instruction) bool {
	switch in.(type) {
	case *ssa.Return:
		return true
	}
	return false
}

// MustFollow: on every path from `start` to a normal return of fn an
// instruction satisfying `after` executes.
func MustFollow(fn *ssa.Function, start ssa.Instruction, after func(ssa.Instruction) bool) bool {
	return ReachInstr(fn, start, isExit, after) == nil
}

func isCallInstrTo(names ...string) func(ssa.Instruction) bool {
	return func(in ssa.Instruction) bool {
		ci, ok := in.(*ssa.Call)
		if !ok {
			return false
		}
		n := calleeName(ci.Common())
		for _, w := range names {
			if n == w {
				return true
			}
		}
		return false
	}
}

// ---------------------------------------------------------------------------
// A7: must-hold lock analysis

// lockOps maps callee names to +1 (acquire) / -1 (release); key suffix match on
// method name with sync receiver types.
func lockOp(ci ssa.CallInstruction) (name string, op int, write bool) {
	n := calleeName(ci.Common())
	switch n {
	case "sync.Mutex.Lock", "sync.RWMutex.Lock":
		op, write = 1, true
	case "sync.RWMutex.RLock":
		op = 1
	case "sync.Mutex.Unlock", "sync.RWMutex.Unlock":
		op, write = -1, true
	case "sync.RWMutex.RUnlock":
		op = -1
	default:
		return "", 0, false
	}
	args := ci.Common().Args
	if len(args) == 0 {
		return "", 0, false
	}
	p := vpath(args[0])
	if p == "" {
		p = "?"
	}
	if !write {
		p = "R:" + p
	}
	return p, op, write
}

// LocksHeldAt computes for every instruction of fn the set of locks that are
// held on all paths (must analysis). "R:x" marks a read lock on x.
func LocksHeldAt(fn *ssa.Function) map[ssa.Instruction]map[string]bool {
	in := map[*ssa.BasicBlock]map[string]bool{}
	out := map[*ssa.BasicBlock]map[string]bool{}
	res := map[ssa.Instruction]map[string]bool{}
	transfer := func(b *ssa.BasicBlock, s map[string]bool, record bool) map[string]bool {
		cur := map[string]bool{}
		for k := range s {
			cur[k] = true
		}
		for _, ins := range b.Instrs {
			if record {
				cp := map[string]bool{}
				for k := range cur {
					cp[k] = true
				}
				res[ins] = cp
			}
			if _, isDefer := ins.(*ssa.Defer); isDefer {
				continue
			}
			if _, isGo := ins.(*ssa.Go); isGo {
				continue
			}
			if ci, ok := ins.(ssa.CallInstruction); ok {
				name, op, _ := lockOp(ci)
				if op > 0 {
					cur[name] = true
				} else if op < 0 {
					delete(cur, name)
				}
			}
		}
		return cur
	}
	changed := true
	for iter := 0; changed && iter < 100; iter++ {
		changed = false
		for _, b := range fn.Blocks {
			var s map[string]bool
			if b == fn.Blocks[0] {
				s = map[string]bool{}
			} else {
				first := true
				for _, p := range b.Preds {
					o, ok := out[p]
					if !ok {
						continue // not yet computed: optimistic
					}
					if first {
						s = map[string]bool{}
						for k := range o {
							s[k] = true
						}
						first = false
					} else {
						for k := range s {
							if !o[k] {
								delete(s, k)
							}
						}
					}
				}
				if s == nil {
					s = map[string]bool{}
					if len(b.Preds) > 0 {
						// unreachable so far; skip
						continue
					}
				}
			}
			in[b] = s
			o := transfer(b, s, false)
			if !sameSet(o, out[b]) || out[b] == nil {
				out[b] = o
				changed = true
			}
		}
	}
	for _, b := range fn.Blocks {
		if s, ok := in[b]; ok {
			transfer(b, s, true)
		}
	}
	return res
}

func sameSet(a, b map[string]bool) bool {
	if len(a) != len(b) {
		return false
	}
	for k := range a {
		if !b[k] {
			return false
		}
	}
	return true
}

func setString(s map[string]bool) string {
	var ks []string
	for k := range s {
		ks = append(ks, k)
	}
	sort.Strings(ks)
	return "{" + strings.Join(ks, ",") + "}"
}

// ---------------------------------------------------------------------------
// A3: value provenance

// Leaves computes the set of origin values of v by a backward slice through
// Phi, Extract, conversions, type assertions, loads of local/captured cells
// (all stores unioned) and closure bindings. Leaves are Parameters, Globals,
// Consts, Calls/Extracts-of-calls, field loads (the UnOp/Field), Allocs,
// MakeClosures, Functions, BinOps and anything else unrecognised.
func (c *Ctx) Leaves(v ssa.Value) []ssa.Value {
	set := map[ssa.Value]bool{}
	c.leaves(v, set, map[ssa.Value]bool{}, 0)
	var out []ssa.Value
	for k := range set {
		out = append(out, k)
	}
	sort.Slice(out, func(i, j int) bool { return leafDesc(out[i]) < leafDesc(out[j]) })
	return out
}

// Origins returns the descriptors of Leaves(v):
// "param:<name>", "free:<name>", "global:<pkg.name>", "const:<val>",
// "field:<path>", "call:<callee>#<result>", "alloc:<comment>", ...
func (c *Ctx) Origins(v ssa.Value) []string {
	set := map[string]bool{}
	for _, l := range c.Leaves(v) {
		set[leafDesc(l)] = true
	}
	var out []string
	for k := range set {
		out = append(out, k)
	}
	sort.Strings(out)
	return out
}

func leafDesc(v ssa.Value) string {
	switch x := v.(type) {
	case *ssa.Parameter:
		return "param:" + x.Name()
	case *ssa.FreeVar:
		return "free:" + x.Name()
	case *ssa.Global:
		return "global:" + short(x.Pkg.Pkg.Path()) + "." + x.Name()
	case *ssa.Const:
		if x.Value == nil {
			return "const:nil"
		}
		return "const:" + x.Value.ExactString()
	case *ssa.Extract:
		if call, ok := x.Tuple.(*ssa.Call); ok {
			return fmt.Sprintf("call:%s#%d", calleeNameOr(call), x.Index)
		}
	case *ssa.Call:
		return fmt.Sprintf("call:%s#0", calleeNameOr(x))
	case *ssa.UnOp:
		if x.Op == token.MUL {
			if p := vpath(x.X); p != "" {
				return "field:" + p
			}
		}
	case *ssa.Field:
		if p := vpath(x); p != "" {
			return "field:" + p
		}
	case *ssa.Alloc:
		return "alloc:" + x.Comment
	case *ssa.MakeClosure:
		return "closure:" + fnKey(x.Fn.(*ssa.Function))
	case *ssa.Function:
		return "func:" + fnKey(x)
	case *ssa.BinOp:
		return "binop:" + x.Op.String()
	case *ssa.Slice:
		return "slice"
	}
	return "other:" + v.String()
}

func (c *Ctx) leaves(v ssa.Value, set map[ssa.Value]bool, seen map[ssa.Value]bool, depth int) {
	if v == nil || seen[v] || depth > 40 {
		return
	}
	seen[v] = true
	switch x := v.(type) {
	case *ssa.FreeVar:
		// resolve through the MakeClosure binding in the parent
		if b := freeVarBinding(x); b != nil {
			c.leaves(b, set, seen, depth+1)
		} else {
			set[x] = true
		}
	case *ssa.Phi:
		for _, e := range x.Edges {
			c.leaves(e, set, seen, depth+1)
		}
	case *ssa.Extract:
		if _, ok := x.Tuple.(*ssa.Call); ok {
			set[x] = true
		} else {
			c.leaves(x.Tuple, set, seen, depth+1)
		}
	case *ssa.ChangeType:
		c.leaves(x.X, set, seen, depth+1)
	case *ssa.Convert:
		c.leaves(x.X, set, seen, depth+1)
	case *ssa.MakeInterface:
		c.leaves(x.X, set, seen, depth+1)
	case *ssa.ChangeInterface:
		c.leaves(x.X, set, seen, depth+1)
	case *ssa.TypeAssert:
		c.leaves(x.X, set, seen, depth+1)
	case *ssa.UnOp:
		if x.Op == token.MUL {
			// load
			switch a := x.X.(type) {
			case *ssa.Alloc:
				for _, s := range allocStores(a) {
					c.leaves(s, set, seen, depth+1)
				}
				return
			case *ssa.FreeVar:
				if b := freeVarBinding(a); b != nil {
					if al, ok := b.(*ssa.Alloc); ok {
						for _, s := range allocStores(al) {
							c.leaves(s, set, seen, depth+1)
						}
						return
					}
				}
			}
		}
		set[x] = true
	default:
		set[v] = true
	}
}

func calleeNameOr(call *ssa.Call) string {
	n := calleeName(&call.Call)
	if n == "" {
		n = "dynamic:" + vpath(call.Call.Value)
	}
	return n
}

// freeVarBinding returns the value bound to fv in the (single) MakeClosure of
// its function in the parent, or nil.
func freeVarBinding(fv *ssa.FreeVar) ssa.Value {
	fn := fv.Parent()
	parent := fn.Parent()
	if parent == nil {
		return nil
	}
	idx := -1
	for i, f := range fn.FreeVars {
		if f == fv {
			idx = i
		}
	}
	if idx < 0 {
		return nil
	}
	var found ssa.Value
	eachInstr(parent, func(in ssa.Instruction) {
		if mc, ok := in.(*ssa.MakeClosure); ok && mc.Fn == fn && idx < len(mc.Bindings) {
			found = mc.Bindings[idx]
		}
	})
	return found
}

// allocStores returns all values stored into the alloc cell, in its own
// function and in all nested closures that capture it.
func allocStores(a *ssa.Alloc) []ssa.Value {
	var out []ssa.Value
	var visit func(fn *ssa.Function, addr ssa.Value)
	visit = func(fn *ssa.Function, addr ssa.Value) {
		eachInstr(fn, func(in ssa.Instruction) {
			switch x := in.(type) {
			case *ssa.Store:
				if x.Addr == addr {
					out = append(out, x.Val)
				}
			case *ssa.MakeClosure:
				for i, b := range x.Bindings {
					if b == addr {
						cf := x.Fn.(*ssa.Function)
						visit(cf, cf.FreeVars[i])
					}
				}
			}
		})
	}
	visit(a.Parent(), a)
	return out
}

// hasOrigin reports whether any origin has the given prefix.
func hasOrigin(origins []string, prefix string) bool {
	for _, o := range origins {
		if strings.HasPrefix(o, prefix) {
			return true
		}
	}
	return false
}

func onlyOrigins(origins []string, allowed ...string) bool {
	if len(origins) == 0 {
		return false
	}
	for _, o := range origins {
		ok := false
		for _, a := range allowed {
			if o == a {
				ok = true
			}
		}
		if !ok {
			return false
		}
	}
	return true
}

// ReachTargetAvoiding is ReachAvoiding with instruction precision: it searches
// a path from function entry to the instruction `target` that neither crosses
// an edge on which one of the guards is passed nor executes an instruction
// satisfying barrier. Returns the block path or nil.
func ReachTargetAvoiding(fn *ssa.Function, target ssa.Instruction, guards []Guard, barrier func(ssa.Instruction) bool) []*ssa.BasicBlock {
	return ReachFromAvoiding(fn, nil, func(in ssa.Instruction) bool { return in == target }, guards, barrier)
}

// ReachFromAvoiding generalises ReachTargetAvoiding: the search starts just
// after `start` (function entry when nil) and ends at the first instruction
// satisfying isTarget.
func ReachFromAvoiding(fn *ssa.Function, startAfter ssa.Instruction, isTarget func(ssa.Instruction) bool, guards []Guard, barrier func(ssa.Instruction) bool) []*ssa.BasicBlock {
	type node struct {
		st   gstate
		env  map[*ssa.Phi]phiVal
		vals map[ssa.Value]bool // truth (non-nil / true) of values tested on the way that later feed a merged result
		prev *node
		from int
	}
	// values worth remembering: operands of trackable phis
	tracked := map[ssa.Value]bool{}
	for _, b := range fn.Blocks {
		for _, in := range b.Instrs {
			ph, ok := in.(*ssa.Phi)
			if !ok {
				break
			}
			if !trackablePhi(ph) {
				continue
			}
			for _, e := range ph.Edges {
				base, _ := peel(e)
				switch base.(type) {
				case *ssa.Const, *ssa.Phi:
				default:
					tracked[base] = true
				}
			}
		}
	}
	// ... and values that more than one If of the function tests (a second test of the same value has only one feasible outcome)
	tested := map[ssa.Value]int{}
	for _, b := range fn.Blocks {
		if len(b.Instrs) == 0 {
			continue
		}
		if ifi, ok := b.Instrs[len(b.Instrs)-1].(*ssa.If); ok {
			base, _ := peel(ifi.Cond)
			switch base.(type) {
			case *ssa.Const, *ssa.Phi:
			default:
				tested[base]++
			}
		}
	}
	for v, n := range tested {
		if n > 1 {
			tracked[v] = true
		}
	}
	valsKey := func(m map[ssa.Value]bool) string {
		if len(m) == 0 {
			return ""
		}
		var ks []string
		for v, b := range m {
			ks = append(ks, fmt.Sprintf("%s=%v", v.Name(), b))
		}
		sort.Strings(ks)
		return "|" + strings.Join(ks, ",")
	}
	start := &node{st: gstate{fn.Blocks[0], ""}, env: map[*ssa.Phi]phiVal{}}
	seen := map[gstate]bool{start.st: true}
	if startAfter != nil {
		b := startAfter.Block()
		start = &node{st: gstate{b, "#start"}, env: map[*ssa.Phi]phiVal{}}
		for i, in := range b.Instrs {
			if in == startAfter {
				start.from = i + 1
			}
		}
		seen = map[gstate]bool{}
	}
	queue := []*node{start}
	for len(queue) > 0 {
		n := queue[0]
		queue = queue[1:]
		b := n.st.blk
		blocked := false
		for _, in := range b.Instrs[n.from:] {
			if isTarget(in) {
				var path []*ssa.BasicBlock
				for x := n; x != nil; x = x.prev {
					path = append([]*ssa.BasicBlock{x.st.blk}, path...)
				}
				return path
			}
			if barrier != nil && barrier(in) {
				blocked = true
				break
			}
		}
		if blocked {
			continue
		}
		allow := []bool{true, true}
		var condBase ssa.Value
		condPos := true
		if len(b.Instrs) > 0 {
			if ifi, ok := b.Instrs[len(b.Instrs)-1].(*ssa.If); ok {
				allow[0], allow[1] = guardEdges(ifi.Cond, n.env, guards)
				condBase, condPos = peel(ifi.Cond)
				if known, ok := n.vals[condBase]; ok {
					// the same value was tested before on this path: only the consistent edge is feasible
					t := known == condPos
					allow[0], allow[1] = allow[0] && t, allow[1] && !t
				}
			}
		}
		for si, s := range b.Succs {
			if si < 2 && len(b.Succs) == 2 && !allow[si] {
				continue
			}
			env := n.env
			vals := n.vals
			if condBase != nil && len(b.Succs) == 2 && tracked[condBase] {
				if _, known := vals[condBase]; !known {
					nv := map[ssa.Value]bool{}
					for k, v := range vals {
						nv[k] = v
					}
					nv[condBase] = (si == 0) == condPos
					vals = nv
				}
			}
			predIdx := -1
			for i, p := range s.Preds {
				if p == b {
					predIdx = i
					break
				}
			}
			var newEnv map[*ssa.Phi]phiVal
			for _, in := range s.Instrs {
				ph, ok := in.(*ssa.Phi)
				if !ok {
					break
				}
				if !trackablePhi(ph) {
					continue
				}
				if predIdx < 0 {
					continue
				}
				pv := phiValue(ph.Edges[predIdx], guards, n.env)
				if pv.kind == 0 {
					if base, pos := peel(ph.Edges[predIdx]); base != nil {
						if known, ok := vals[base]; ok {
							pv = phiVal{kind: 1, b: known == pos}
						}
					}
				}
				if newEnv == nil {
					newEnv = map[*ssa.Phi]phiVal{}
					for k, v := range env {
						newEnv[k] = v
					}
				}
				if pv.kind == 0 {
					delete(newEnv, ph)
				} else {
					newEnv[ph] = pv
				}
			}
			if newEnv != nil {
				env = newEnv
			}
			st := gstate{s, envKey(env) + valsKey(vals)}
			if seen[st] {
				continue
			}
			seen[st] = true
			queue = append(queue, &node{st: st, env: env, vals: vals, prev: n})
		}
	}
	return nil
}

// ReachesCallConst explores fn (with the given constant parameter values) by
// finite-valuation propagation and follows static calls into repo functions
// (passing on constant arguments) up to depth levels; it reports whether a call
// to one of the target callees is reachable.
func (c *Ctx) ReachesCallConst(fn *ssa.Function, params map[*ssa.Parameter]AV, depth int, targets ...string) (bool, []string) {
	var trail []string
	found := false
	var visit func(f *ssa.Function, ps map[*ssa.Parameter]AV, d int, stack []string)
	visit = func(f *ssa.Function, ps map[*ssa.Parameter]AV, d int, stack []string) {
		if found || f == nil || f.Blocks == nil {
			return
		}
		it := &Interp{Fn: f, MaxStates: 50000}
		it.Input = func(v ssa.Value) (AV, bool) {
			if p, ok := v.(*ssa.Parameter); ok {
				if a, ok := ps[p]; ok && a.K != Top {
					return a, true
				}
			}
			return AV{}, false
		}
		type pending struct {
			callee *ssa.Function
			ps     map[*ssa.Parameter]AV
		}
		var next []pending
		it.Outcome = func(in ssa.Instruction, ev func(ssa.Value) AV) string {
			ci, ok := in.(ssa.CallInstruction)
			if !ok {
				return ""
			}
			n := calleeName(ci.Common())
			for _, t := range targets {
				if n == t {
					found = true
					trail = append(append([]string{}, stack...), fnKey(f)+" -> "+t+" @"+c.Pos(in.Pos()))
				}
			}
			if d > 0 {
				if callee := staticCallee(ci.Common()); callee != nil && callee.Pkg != nil && strings.HasPrefix(callee.Pkg.Pkg.Path(), modPath) && callee.Blocks != nil {
					nps := map[*ssa.Parameter]AV{}
					for i, p := range callee.Params {
						if i < len(ci.Common().Args) {
							nps[p] = ev(ci.Common().Args[i])
						}
					}
					next = append(next, pending{callee, nps})
				}
			}
			return ""
		}
		it.Run()
		for _, p := range next {
			visit(p.callee, p.ps, d-1, append(stack, fnKey(f)))
		}
	}
	visit(fn, params, depth, nil)
	return found, trail
}

// heldLock reports whether a lock whose path ends in suffix is held (write
// lock, or also read lock if allowRead).
func heldLock(held map[string]bool, suffix string, allowRead bool) bool {
	for l := range held {
		if strings.HasPrefix(l, "R:") {
			if allowRead && strings.HasSuffix(l, suffix) {
				return true
			}
			continue
		}
		if strings.HasSuffix(l, suffix) {
			return true
		}
	}
	return false
}

// phiEdgeGuarded reports whether the idx-th incoming edge of phi can only be
// taken after guard g was passed.
func phiEdgeGuarded(fn *ssa.Function, phi *ssa.Phi, idx int, g Guard) bool {
	blk := phi.Block()
	if idx >= len(blk.Preds) {
		return false
	}
	p := blk.Preds[idx]
	if ReachAvoiding(fn, nil, p, []Guard{g}) == nil {
		return true
	}
	if len(p.Instrs) == 0 || len(p.Succs) != 2 {
		return false
	}
	ifi, ok := p.Instrs[len(p.Instrs)-1].(*ssa.If)
	if !ok {
		return false
	}
	at, af := guardEdges(ifi.Cond, map[*ssa.Phi]phiVal{}, []Guard{g})
	if at && af {
		return false // this If does not test the guard
	}
	allow := []bool{at, af}
	for si, s := range p.Succs {
		if s == blk && allow[si] {
			return false
		}
	}
	return true
}

// reachFromBlockStart is ReachFromAvoiding starting at the first instruction of blk.
func reachFromBlockStart(fn *ssa.Function, blk *ssa.BasicBlock, isTarget func(ssa.Instruction) bool, guards []Guard, barrier func(ssa.Instruction) bool) []*ssa.BasicBlock {
	if len(blk.Instrs) == 0 {
		return nil
	}
	first := blk.Instrs[0]
	if isTarget(first) {
		return []*ssa.BasicBlock{blk}
	}
	if barrier != nil && barrier(first) {
		return nil
	}
	return ReachFromAvoiding(fn, first, isTarget, guards, barrier)
}

// cmpGuards returns guards that are passed exactly on those edges of an
// integer comparison "x <op> const" (either operand order) that imply pred(x).
// pred must be a threshold predicate (monotone in x); implication is decided
// by evaluating the comparison on sample points around the constant and the
// thresholds given in probes.
func cmpGuards(name string, isX func(ssa.Value) bool, pred func(int64) bool, probes ...int64) []Guard {
	holds := func(op token.Token, a, b int64) bool {
		switch op {
		case token.LSS:
			return a < b
		case token.LEQ:
			return a <= b
		case token.GTR:
			return a > b
		case token.GEQ:
			return a >= b
		case token.EQL:
			return a == b
		case token.NEQ:
			return a != b
		}
		return false
	}
	mk := func(truthy bool) Guard {
		return Guard{Name: name, Truthy: truthy, Match: func(b ssa.Value) bool {
			bo, ok := b.(*ssa.BinOp)
			if !ok {
				return false
			}
			var cst int64
			xLeft := false
			if isX(bo.X) {
				v, isC := constInt(bo.Y)
				if !isC {
					return false
				}
				cst, xLeft = v, true
			} else if isX(bo.Y) {
				v, isC := constInt(bo.X)
				if !isC {
					return false
				}
				cst = v
			} else {
				return false
			}
			switch bo.Op {
			case token.LSS, token.LEQ, token.GTR, token.GEQ, token.EQL, token.NEQ:
			default:
				return false
			}
			samples := []int64{cst - 2, cst - 1, cst, cst + 1, cst + 2}
			for _, p := range probes {
				samples = append(samples, p-1, p, p+1)
			}
			any := false
			for _, x := range samples {
				var taken bool
				if xLeft {
					taken = holds(bo.Op, x, cst)
				} else {
					taken = holds(bo.Op, cst, x)
				}
				if taken != truthy {
					continue // this sample does not take the edge
				}
				any = true
				if !pred(x) {
					return false
				}
			}
			return any
		}}
	}
	return []Guard{mk(true), mk(false)}
}

// relGuards returns guards that are passed exactly on those edges of a
// comparison between two recognised quantities a and b (either operand order,
// any of < <= > >= == !=) that imply pred(a, b). pred must be an order
// relation between the two (decided on all pairs of a small sample).
func relGuards(name string, isA, isB func(ssa.Value) bool, pred func(a, b int64) bool) []Guard {
	holds := func(op token.Token, x, y int64) bool {
		switch op {
		case token.LSS:
			return x < y
		case token.LEQ:
			return x <= y
		case token.GTR:
			return x > y
		case token.GEQ:
			return x >= y
		case token.EQL:
			return x == y
		case token.NEQ:
			return x != y
		}
		return false
	}
	mk := func(truthy bool) Guard {
		return Guard{Name: name, Truthy: truthy, Match: func(v ssa.Value) bool {
			bo, ok := v.(*ssa.BinOp)
			if !ok {
				return false
			}
			switch bo.Op {
			case token.LSS, token.LEQ, token.GTR, token.GEQ, token.EQL, token.NEQ:
			default:
				return false
			}
			aLeft := false
			switch {
			case isA(bo.X) && isB(bo.Y):
				aLeft = true
			case isB(bo.X) && isA(bo.Y):
			default:
				return false
			}
			any := false
			for a := int64(0); a <= 3; a++ {
				for b := int64(0); b <= 3; b++ {
					var taken bool
					if aLeft {
						taken = holds(bo.Op, a, b)
					} else {
						taken = holds(bo.Op, b, a)
					}
					if taken != truthy {
						continue
					}
					any = true
					if !pred(a, b) {
						return false
					}
				}
			}
			return any
		}}
	}
	return []Guard{mk(true), mk(false)}
}

// phiEdgeGuardedAny is phiEdgeGuarded for a set of alternative spellings of one guard.
func phiEdgeGuardedAny(fn *ssa.Function, phi *ssa.Phi, idx int, gs []Guard) bool {
	blk := phi.Block()
	if idx >= len(blk.Preds) {
		return false
	}
	p := blk.Preds[idx]
	if ReachAvoiding(fn, nil, p, gs) == nil {
		return true
	}
	if len(p.Instrs) == 0 || len(p.Succs) != 2 {
		return false
	}
	ifi, ok := p.Instrs[len(p.Instrs)-1].(*ssa.If)
	if !ok {
		return false
	}
	at, af := guardEdges(ifi.Cond, map[*ssa.Phi]phiVal{}, gs)
	if at && af {
		return false
	}
	allow := []bool{at, af}
	for si, s := range p.Succs {
		if s == blk && allow[si] {
			return false
		}
	}
	return true
}
