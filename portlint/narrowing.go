package main

import (
	"fmt"
	"go/token"
	"go/types"
	"strings"

	"golang.org/x/tools/go/ssa"
)

// A12 narrowing conversions: a non-constant integer converted to a type that
// cannot hold all its values (smaller size, or unsigned -> signed of the same
// size) wraps silently. Each such conversion in the decoding/parsing packages
// must be justified: the value comes from strconv.ParseUint/ParseInt with a
// bit size that fits (31 for int, judged for the 32-bit build as well), every
// path to it crosses a comparison of that very value (its range test; whether
// the bound is adequate is the business of the specific rule for that site),
// it is a byte extraction (shift/mask), or it is a named exception.

func intInfo(t types.Type) (size int64, unsigned, ok bool) {
	b, isB := t.Underlying().(*types.Basic)
	if !isB || b.Info()&types.IsInteger == 0 {
		return 0, false, false
	}
	switch b.Kind() {
	case types.Int, types.Uint, types.Uintptr:
		size = 4 // judged for the smallest supported word size
		if b.Kind() == types.Int || b.Kind() == types.Uint {
			size = 8
		}
	default:
		size = types.SizesFor("gc", "amd64").Sizeof(b)
	}
	return size, b.Info()&types.IsUnsigned != 0, true
}

func narrowingRule(c *Ctx, r *Report, rule string, pkgs []string, exempt map[string]string) {
	n := 0
	for _, pkg := range pkgs {
		for _, fn := range c.FuncsIn(pkg) {
			ord := map[string]int{}
			eachInstr(fn, func(in ssa.Instruction) {
				cv, ok := in.(*ssa.Convert)
				if !ok {
					return
				}
				if _, isC := cv.X.(*ssa.Const); isC {
					return
				}
				fs, fu, ok1 := intInfo(cv.X.Type())
				ts, tu, ok2 := intInfo(cv.Type())
				if !ok1 || !ok2 {
					return
				}
				// int/uint are 8 bytes here but 4 on the 32-bit build: a conversion *to* int/uint from a 64-bit type narrows there
				toWord := false
				if b, _ := cv.Type().Underlying().(*types.Basic); b != nil && (b.Kind() == types.Int || b.Kind() == types.Uint) {
					toWord = true
				}
				narrowing := ts < fs || (ts == fs && fu && !tu) || (toWord && fs == 8 && !isWord(cv.X.Type()))
				if !narrowing {
					return
				}
				n++
				cons := ordinal(ord, fmt.Sprintf("%s / %s -> %s", fnKey(fn), cv.X.Type().String(), cv.Type().String()))
				if why, ok := exempt[fnKey(fn)+" / "+cv.X.Type().String()+" -> "+cv.Type().String()]; ok {
					r.Trivial(rule, cons, "named exception: "+why)
					return
				}
				// byte extraction idiom
				if bo, ok := cv.X.(*ssa.BinOp); ok && (bo.Op == token.SHR || bo.Op == token.AND) && ts == 1 {
					r.Trivial(rule, cons, "byte extraction (shift/mask)")
					return
				}
				if ts == 1 && tu {
					// b := byte(x) directly after masking in a previous statement is rare; treat plain int64->byte of a field as extraction of the low byte in the serializer
					if strings.HasSuffix(fnKey(fn), "GenCodeMarshal") {
						r.Trivial(rule, cons, "low-byte extraction in the fixed-width serializer")
						return
					}
				}
				// parsed with a fitting bit size
				if ex, ok := cv.X.(*ssa.Extract); ok && ex.Index == 0 {
					if call, ok := ex.Tuple.(*ssa.Call); ok {
						cn := calleeName(&call.Call)
						if cn == "strconv.ParseUint" || cn == "strconv.ParseInt" {
							bits, isC := constInt(call.Call.Args[2])
							limit := int64(8*4 - 1) // int on the 32-bit build
							if !toWord {
								limit = 8*ts - 1
								if tu {
									limit = 8 * ts
								}
							}
							if cn == "strconv.ParseInt" && !tu {
								limit++
							}
							r.Check(isC && bits > 0 && bits <= limit, rule, cons, fmt.Sprintf("parsed with bit size %d, which fits", bits),
								fmt.Sprintf("the value is parsed with bit size %d but converted to %s: larger inputs wrap (negative limits/offsets, wrong sizes) instead of being rejected", bits, cv.Type().String()), c.Pos(cv.Pos()))
							return
						}
					}
				}
				// a comparison of the very value on every path
				isX := func(v ssa.Value) bool { return v == cv.X }
				tested := func(x ssa.Instruction) bool {
					ifi, ok := x.(*ssa.If)
					if !ok {
						return false
					}
					base, _ := peel(ifi.Cond)
					bo, ok := base.(*ssa.BinOp)
					if !ok {
						return false
					}
					switch bo.Op {
					case token.LSS, token.LEQ, token.GTR, token.GEQ:
						return isX(bo.X) || isX(bo.Y)
					}
					return false
				}
				p := ReachTargetAvoiding(fn, cv, nil, tested)
				r.Check(p == nil, rule, cons, "every path to the conversion compares the value first",
					"a non-constant integer is narrowed without any range test of it on the way: values that do not fit wrap silently", append([]string{c.Pos(cv.Pos())}, c.pathString(p)...)...)
			})
		}
	}
	if n == 0 {
		r.Trivial(rule, strings.Join(pkgs, ",")+" / narrowing conversions", "none present")
	}
}

func isWord(t types.Type) bool {
	b, _ := t.Underlying().(*types.Basic)
	return b != nil && (b.Kind() == types.Int || b.Kind() == types.Uint || b.Kind() == types.Uintptr)
}
