package main

import (
	"fmt"
	"go/token"
	"strings"

	"golang.org/x/tools/go/ssa"
)

func init() {
	register(&propDef{
		ID: "C17",
		Explanation: "Decides structural necessary conditions of atomic publication: " +
			"(R1) CloseAtomicallyReplace orders fsync (success) < close (success) < rename(temp name, destination) < done flag; Cleanup removes the temp file unless done; " +
			"(R2) who may rename / write in place: os.Rename is called only by the rename primitive, the temp-dir probe (whose two rename operands must be temp files it created itself), the symlink helper and the unpack directory move; the covered components (fstree, renameio, utils atomic helpers, updater download) contain no in-place write (os.WriteFile/Create/OpenFile-for-write) to a destination path - only the detached signature file and the extraction into the temp dir are written directly (observations); " +
			"(R3) every renameio.TempFile is followed by a deferred Cleanup registered before anything else, every success exit passes CloseAtomicallyReplace, and the data written goes to the pending file; " +
			"(R4) the download is published only across: copy succeeded, byte count equals Content-Length, and no checksum mismatch under the 'require' policy. " +
			"(R5) in the covered components no error of a step that produces or publishes file content (write, copy, sync, chmod, rename, the atomic helpers themselves) is discarded. " +
			"(R6) errors turned into success: wherever the error of a content-producing or publishing step is tested and the function can still return success, the site is in a table with the exact tolerated condition - copyFromZipArchive tolerates only errors.Is(err, io.EOF) from CopyN, fstree.Put only a first write whose retry succeeded; the detached signature/index-cache writes and the post-publication chmod are named exceptions. " +
			"(R7) size caps are never silent: after io.CopyN copied its full cap (no error) success is returned only across a further read that found io.EOF, and no io.LimitReader feeds a content-producing or publishing step. " +
			"(R8 = part of R5) the error of a content step is examined on every path, not overwritten by a later assignment first; (R9) UnpackArchive holds the resource lock across the extraction (concurrent unpack requests share the temporary directory). " +
			"(R10) every os.OpenFile with O_CREATE in the covered packages also carries O_TRUNC, O_EXCL or O_APPEND (a shorter new content must not keep an older tail). " +
			"(R11) makeRequest hands out a response only across StatusCode == 200 (a 206 Partial Content would be published as the whole file). " +
			"NOT decided: file-system semantics, crash states, concurrent readers, the run-time choice of a same-mount temp directory.",
		Rules: []ruleFn{c17R1, c17R2, c17R3, c17R4, c17R5, c17R6, c17R7, c17R9, c17R10, c17R11},
	})
}

const fnCAR = "utils/renameio.PendingFile.CloseAtomicallyReplace"

func c17R1(c *Ctx, r *Report) {
	const rule = "C17-R1"
	r.SetFloor(rule, 5)
	fn := c.Func("utils/renameio.(*PendingFile).CloseAtomicallyReplace")
	if fn == nil {
		r.Undecided(rule, "utils/renameio.(*PendingFile).CloseAtomicallyReplace", "anchor function missing")
		return
	}
	find := func(name string) *ssa.Call {
		var out *ssa.Call
		eachInstr(fn, func(in ssa.Instruction) {
			if call, ok := in.(*ssa.Call); ok && calleeName(&call.Call) == name {
				out = call
			}
		})
		return out
	}
	sync, cls, ren := find("os.File.Sync"), find("os.File.Close"), find("os.Rename")
	if sync == nil || cls == nil || ren == nil {
		r.Bad(rule, fnKey(fn)+" / steps", fmt.Sprintf("a step is missing: Sync=%v Close=%v Rename=%v - without the fsync a crash after the rename can leave an empty or partial destination", sync != nil, cls != nil, ren != nil))
		return
	}
	nilErr := func(call *ssa.Call, name string) Guard {
		return Guard{Name: name + " error == nil", Truthy: false, Match: func(b ssa.Value) bool { return b == ssa.Value(call) }}
	}
	c.RequireGuards(r, rule, fnKey(fn)+" / close", fn, cls, nilErr(sync, "Sync"))
	c.RequireGuards(r, rule, fnKey(fn)+" / rename", fn, ren, nilErr(sync, "Sync"), nilErr(cls, "Close"))
	// rename(temp name, destination path)
	_, fromName := isCallTo(ren.Call.Args[0], "os.File.Name")
	r.Check(fromName && fieldLoadOf(ren.Call.Args[1], "utils/renameio.PendingFile", "path"), rule, fnKey(fn)+" / rename arguments", "rename(t.Name(), t.path)", "the rename does not move the temp file onto the destination path")
	// done only after successful rename
	k := 0
	eachInstr(fn, func(in ssa.Instruction) {
		st, ok := in.(*ssa.Store)
		if !ok {
			return
		}
		fr, ok := fieldOfAddr(st.Addr)
		if !ok || fr.Name != "done" {
			return
		}
		k++
		c.RequireGuards(r, rule, fnKey(fn)+" / done flag", fn, st, nilErr(ren, "Rename"))
	})
	if k == 0 {
		r.Bad(rule, fnKey(fn)+" / done flag", "the done flag is never set: Cleanup removes the published file")
	}
	// success return only after rename
	eachInstr(fn, func(in ssa.Instruction) {
		if ret, ok := in.(*ssa.Return); ok && isNilConst(retVal(ret, 0)) {
			p := ReachTargetAvoiding(fn, ret, nil, func(x ssa.Instruction) bool { return x == ssa.Instruction(ren) })
			r.Check(p == nil, rule, fnKey(fn)+" / success implies rename", "success is reported only after the rename", "success can be reported without the rename")
		}
	})
	// Cleanup: removes unless done
	if cl := c.Func("utils/renameio.(*PendingFile).Cleanup"); cl == nil {
		r.Undecided(rule, "utils/renameio.(*PendingFile).Cleanup", "anchor function missing")
	} else {
		for _, rm := range callsIn(cl, "os.Remove") {
			c.RequireGuards(r, rule, fnKey(cl)+" / remove temp file", cl, rm, fieldLoadGuard("!done", "utils/renameio.PendingFile", "done", false))
			_, fromName := isCallTo(rm.Common().Args[0], "os.File.Name")
			r.Check(fromName, rule, fnKey(cl)+" / removes the temp file", "removes t.Name()", "Cleanup removes something else than the temp file")
		}
	}
}

var c17Scope = []string{"database/storage/fstree", "utils/renameio", "utils", "updater"}

func inScope(pkg string) bool {
	for _, p := range c17Scope {
		if pkg == p {
			return true
		}
	}
	return false
}

func c17R2(c *Ctx, r *Report) {
	const rule = "C17-R2"
	r.SetFloor(rule, 6)
	allowedRename := map[string]string{
		"utils/renameio.(*PendingFile).CloseAtomicallyReplace": "the rename primitive",
		"utils/renameio.tempDir":                               "probe whether rename works between two temp files",
		"utils/renameio.Symlink":                               "rename of a freshly created symlink onto the destination",
		"updater.(*Resource).unpackZipArchive":                 "move of the fully extracted temp directory to its destination",
	}
	ord := map[string]int{}
	for _, s := range c.CallSites("os.Rename") {
		pkg := short(s.Fn.Pkg.Pkg.Path())
		if !inScope(pkg) {
			continue
		}
		cons := ordinal(ord, fnKey(s.Fn)+" / call os.Rename")
		why, ok := allowedRename[fnKey(s.Fn)]
		r.Check(ok, rule, cons, "allowed: "+why, "os.Rename is used outside the atomic-replace primitives: a destination can be replaced without the fsync/close protocol", c.Pos(s.Instr.Pos()))
		if fnKey(s.Fn) == "utils/renameio.tempDir" {
			// the probe may only touch throw-away files it created itself, never the caller's destination
			args := s.Instr.(ssa.CallInstruction).Common().Args
			for i, a := range args {
				okTmp := false
				if nm, isCall := a.(*ssa.Call); isCall && calleeName(&nm.Call) == "os.File.Name" && len(nm.Call.Args) == 1 {
					leaves := c.Leaves(nm.Call.Args[0])
					okTmp = len(leaves) > 0
					for _, l := range leaves {
						ct, idx := callOf(l)
						if ct == nil || idx != 0 || (calleeName(&ct.Call) != "os.CreateTemp" && calleeName(&ct.Call) != "io/ioutil.TempFile") {
							okTmp = false
						}
					}
				}
				r.Check(okTmp, rule, fmt.Sprintf("%s / probe argument #%d is a throw-away temp file", cons, i+1),
					"name of a file created by os.CreateTemp in the probe itself",
					"the same-mount probe renames from/to a path it did not create ("+strings.Join(c.Origins(a), "+")+"): the destination is replaced by an empty probe file before the real content arrives", c.Pos(s.Instr.Pos()))
			}
		}
	}
	// in-place writes
	writers := []string{"os.WriteFile", "os.Create", "os.OpenFile", "io/ioutil.WriteFile"}
	for _, s := range c.CallSites(writers...) {
		pkg := short(s.Fn.Pkg.Pkg.Path())
		if !inScope(pkg) {
			continue
		}
		ci := s.Instr.(ssa.CallInstruction)
		name := calleeName(ci.Common())
		if name == "os.OpenFile" {
			// read-only opens are fine
			if fl, isC := constInt(ci.Common().Args[1]); isC && fl&(1|2|64|512|1024) == 0 {
				continue
			}
		}
		cons := ordinal(ord, fmt.Sprintf("%s / call %s", fnKey(s.Fn), name))
		path := ci.Common().Args[0]
		o := c.Origins(path)
		switch {
		case pkg == "database/storage/fstree":
			r.Bad(rule, cons, "the file-tree backend writes a file in place: a crash or a concurrent reader observes a truncated/partial record file", c.Pos(ci.Pos()))
		case pkg == "utils/renameio":
			r.Bad(rule, cons, "the rename-based helper writes a file in place", c.Pos(ci.Pos()))
		case pkg == "utils":
			top := fnKey(topFunc(s.Fn))
			if strings.Contains(top, "Atomic") {
				r.Bad(rule, cons, "an atomic helper writes its destination in place", c.Pos(ci.Pos()))
			} else {
				r.Trivial(rule, cons, "not one of the atomic helpers")
			}
		case pkg == "updater":
			top := fnKey(topFunc(s.Fn))
			switch {
			case top == "updater.copyFromZipArchive":
				r.OK(rule, cons, "observation: extraction writes below the temp directory, which is renamed as a whole afterwards")
			case hasOriginSuffix(o, "filesig.Extension") || hasOrigin(o, "call:updater.ResourceVersion.storageSigPath") || isPathPlusConstSuffix(path):
				r.OK(rule, cons, "observation: the detached signature file is written directly (not one of the operations the statement lists)")
			case top == "updater.(*ResourceRegistry).fetchFile" || top == "updater.(*Resource).unpackZipArchive" || top == "updater.(*Resource).UnpackArchive":
				r.Bad(rule, cons, fmt.Sprintf("the download/unpack path writes %v in place", o), c.Pos(ci.Pos()))
			default:
				r.Trivial(rule, cons, "outside the operations the statement lists ("+top+")")
			}
		}
	}
	// positive floor: the covered writers go through TempFile
	for _, name := range []string{"database/storage/fstree.writeFile", "utils.CreateAtomic", "utils/renameio.WriteFile", "updater.(*ResourceRegistry).fetchFile"} {
		fn := c.Func(name)
		if fn == nil {
			r.Undecided(rule, name, "anchor function missing")
			continue
		}
		r.Check(len(callsIn(fn, "utils/renameio.TempFile")) > 0, rule, name+" / writes through a pending temp file", "uses renameio.TempFile", "does not create its output through renameio.TempFile")
	}
	// fstree.Put writes only through writeFile
	if put := c.Func("database/storage/fstree.(*FSTree).Put"); put != nil {
		n := len(callsIn(put, "database/storage/fstree.writeFile"))
		r.Check(n >= 1, rule, fnKey(put)+" / writes via writeFile", fmt.Sprintf("%d writeFile call(s)", n), "fstree.Put does not write through the atomic writeFile helper")
	}
}

func hasOriginSuffix(o []string, suf string) bool {
	for _, x := range o {
		if strings.HasSuffix(x, suf) {
			return true
		}
	}
	return false
}

func c17R3(c *Ctx, r *Report) {
	const rule = "C17-R3"
	r.SetFloor(rule, 12)
	sites := c.CallSites("utils/renameio.TempFile")
	if len(sites) < 4 {
		r.Undecided(rule, "renameio.TempFile sites", fmt.Sprintf("expected >= 4 sites, found %d", len(sites)))
	}
	for _, s := range sites {
		fn := s.Fn
		call := s.Instr.(*ssa.Call)
		cons := fnKey(fn) + " / pending file"
		var pf ssa.Value
		for _, ref := range *call.Referrers() {
			if ex, ok := ref.(*ssa.Extract); ok && ex.Index == 0 {
				pf = ex
			}
		}
		if pf == nil {
			r.Undecided(rule, cons, "result not extracted")
			continue
		}
		var isOurs func(v ssa.Value) bool
		isOurs = func(v ssa.Value) bool {
			for _, l := range c.Leaves(v) {
				if l == pf {
					return true
				}
				// the embedded *os.File of the pending file
				if u, ok := l.(*ssa.UnOp); ok {
					if fa, ok := u.X.(*ssa.FieldAddr); ok && fa.X != v && isOurs(fa.X) {
						return true
					}
				}
			}
			return false
		}
		// deferred Cleanup registered before anything else (after the error check)
		isCleanupDefer := func(d *ssa.Defer) bool {
			if calleeName(&d.Call) == "utils/renameio.PendingFile.Cleanup" && isOurs(d.Call.Args[0]) {
				return true
			}
			if cl := deferredFunc(d); cl != nil {
				return funcHas(cl, 0, isCallInstrTo("utils/renameio.PendingFile.Cleanup"))
			}
			return false
		}
		bad, ok := deferRegisteredRightAfter(fn, call, isCleanupDefer)
		// the error return directly after TempFile is allowed: treat returns guarded by err != nil of TempFile as fine
		if !ok {
			if ret, isRet := bad.(*ssa.Return); isRet {
				g := Guard{Name: "TempFile error == nil", Truthy: false, Match: func(b ssa.Value) bool {
					ex, ok := b.(*ssa.Extract)
					return ok && ex.Tuple == ssa.Value(call) && ex.Index == 1
				}}
				// is every risky instruction before the defer only reachable on the error edge?
				_ = ret
				ok = c.deferAfterSuccessOnly(fn, call, isCleanupDefer, g)
			} else if _, isCall := bad.(*ssa.Call); isCall {
				g := Guard{Name: "TempFile error == nil", Truthy: false, Match: func(b ssa.Value) bool {
					ex, ok := b.(*ssa.Extract)
					return ok && ex.Tuple == ssa.Value(call) && ex.Index == 1
				}}
				ok = c.deferAfterSuccessOnly(fn, call, isCleanupDefer, g)
			}
		}
		r.Check(ok, rule, cons+" / deferred Cleanup", "Cleanup is deferred directly after the temp file was created", "the temp file is not cleaned up on every exit (Cleanup not deferred right after creation): failed operations leave the destination's temp file behind or, worse, a later exit skips the removal", posOf(c, bad))
		// success exits pass CloseAtomicallyReplace on the pending file
		isCAR := func(in ssa.Instruction) bool {
			ci, ok := in.(*ssa.Call)
			return ok && calleeName(&ci.Call) == fnCAR && isOurs(ci.Call.Args[0])
		}
		k := 0
		eachInstr(fn, func(in ssa.Instruction) {
			ret, ok := in.(*ssa.Return)
			if !ok {
				return
			}
			last := retVal(ret, len(ret.Results)-1)
			if !isNilConst(last) {
				// "return t.CloseAtomicallyReplace()" is a success-or-error exit that passed the call
				if call2, isCall := last.(*ssa.Call); isCall && isCAR(call2) {
					k++
				}
				return
			}
			k++
			p := ReachTargetAvoiding(fn, ret, nil, isCAR)
			// paths that left before TempFile are irrelevant
			if p != nil && !MustPrecede(fn, func(x ssa.Instruction) bool { return x == ssa.Instruction(call) }, ret) {
				return
			}
			r.Check(p == nil, rule, cons+" / success passes CloseAtomicallyReplace", "every success exit published the pending file", "a success exit does not publish the pending file (nothing is written to the destination)", c.pathString(p)...)
		})
		r.Check(k > 0, rule, cons+" / publishes", "the pending file is published on success", "the pending file is never published")
		// data goes to the pending file: Write/io.Copy destinations
		wrote := false
		eachInstr(fn, func(in ssa.Instruction) {
			ci, ok := in.(*ssa.Call)
			if !ok {
				return
			}
			switch calleeName(&ci.Call) {
			case "os.File.Write":
				if isOurs(ci.Call.Args[0]) {
					wrote = true
				}
			case "io.Copy":
				dst := ci.Call.Args[0]
				if isOurs(dst) {
					wrote = true
				}
				for _, l := range c.Leaves(dst) {
					if mw, ok := l.(*ssa.Call); ok && calleeName(&mw.Call) == "io.MultiWriter" {
						wrote = true
					}
				}
			}
		})
		r.Check(wrote, rule, cons+" / data written to the pending file", "the content is written to the pending file", "no data is written to the pending file")
	}
}

// deferAfterSuccessOnly: everything risky that precedes the wanted defer is reachable only on the error edge of the creating call.
func (c *Ctx) deferAfterSuccessOnly(fn *ssa.Function, start ssa.Instruction, isWanted func(*ssa.Defer) bool, okGuard Guard) bool {
	// along the success edge (guard passed) the defer must come before any risky instruction.
	// Implementation: find the If testing the guard; start from its pass successor.
	for _, b := range fn.Blocks {
		ifi, ok := b.Instrs[len(b.Instrs)-1].(*ssa.If)
		if !ok {
			continue
		}
		base, pos := peel(ifi.Cond)
		if !okGuard.Match(base) {
			continue
		}
		succ := b.Succs[0]
		if (okGuard.Truthy == pos) == false {
			succ = b.Succs[1]
		}
		if len(succ.Instrs) == 0 {
			continue
		}
		first := succ.Instrs[0]
		if d, isD := first.(*ssa.Defer); isD && isWanted(d) {
			return true
		}
		risky := func(in ssa.Instruction) bool {
			switch x := in.(type) {
			case *ssa.Return, *ssa.Go, *ssa.Panic:
				return true
			case *ssa.Call:
				return !isBenignCall(x)
			}
			return false
		}
		if risky(first) {
			return false
		}
		bad := ReachInstr(fn, first, risky, func(in ssa.Instruction) bool {
			d, ok := in.(*ssa.Defer)
			return ok && isWanted(d)
		})
		return bad == nil
	}
	return false
}

func c17R4(c *Ctx, r *Report) {
	const rule = "C17-R4"
	r.SetFloor(rule, 3)
	fn := c.Func("updater.(*ResourceRegistry).fetchFile")
	if fn == nil {
		r.Undecided(rule, "updater.(*ResourceRegistry).fetchFile", "anchor function missing")
		return
	}
	var car []ssa.Instruction
	eachInstr(fn, func(in ssa.Instruction) {
		if isCallInstrTo(fnCAR)(in) {
			car = append(car, in)
		}
	})
	if len(car) == 0 {
		r.Bad(rule, fnKey(fn)+" / publish", "the download is never published")
		return
	}
	copyOK := Guard{Name: "io.Copy error == nil", Truthy: false, Match: func(b ssa.Value) bool {
		ex, ok := b.(*ssa.Extract)
		if !ok || ex.Index != 1 {
			return false
		}
		_, isCp := isCallTo(ex, "io.Copy")
		return isCp
	}}
	lenOK := Guard{Name: "bytes written == Content-Length", Truthy: false, Match: func(b ssa.Value) bool {
		bo, ok := b.(*ssa.BinOp)
		if !ok || bo.Op != token.NEQ {
			return false
		}
		isCL := func(v ssa.Value) bool { return fieldLoadOf(v, "net/http.Response", "ContentLength") }
		isN := func(v ssa.Value) bool {
			ex, ok := v.(*ssa.Extract)
			if !ok || ex.Index != 0 {
				return false
			}
			_, isCp := isCallTo(ex, "io.Copy")
			return isCp
		}
		return (isCL(bo.X) && isN(bo.Y)) || (isCL(bo.Y) && isN(bo.X))
	}}
	for i, p := range car {
		cons := fmt.Sprintf("%s / publish #%d", fnKey(fn), i+1)
		c.RequireGuards(r, rule, cons, fn, p, copyOK, lenOK)
		// checksum mismatch under Require must not reach the publish
		mismatch := Guard{Name: "checksum matches", Truthy: true, Match: func(b ssa.Value) bool {
			call, ok := b.(*ssa.Call)
			return ok && strings.HasSuffix(calleeName(&call.Call), "LabeledHash.EqualRaw")
		}}
		noHash := Guard{Name: "no checksum available", Truthy: false, Match: func(b ssa.Value) bool {
			_, isPhi := b.(*ssa.Phi)
			return isPhi && strings.Contains(b.Type().String(), "hash.Hash")
		}}
		notRequire := Guard{Name: "download policy is not 'require'", Truthy: false, Match: func(b ssa.Value) bool {
			bo, ok := b.(*ssa.BinOp)
			if !ok || bo.Op != token.EQL {
				return false
			}
			v, isC := constInt(bo.Y)
			req, _ := c.constVal("updater", "SignaturePolicyRequire")
			return isC && v == req && fieldLoadOf(bo.X, "updater.VerificationOptions", "DownloadPolicy")
		}}
		path := ReachTargetAvoiding(fn, p, []Guard{mismatch, noHash, notRequire}, nil)
		r.Check(path == nil, rule, cons+" / checksum policy", "with a signed checksum and policy 'require', a mismatching download is not published",
			"a download whose checksum does not match can be published although the policy requires verification", c.pathString(path)...)
	}
}

// isPathPlusConstSuffix: v is <something> + "<non-empty constant>" (e.g. the signature file next to the destination).
func isPathPlusConstSuffix(v ssa.Value) bool {
	bo, ok := v.(*ssa.BinOp)
	if !ok || bo.Op != token.ADD {
		return false
	}
	cst, ok := bo.Y.(*ssa.Const)
	return ok && cst.Value != nil && len(constString(cst.Value)) > 0
}

// c17ContentStep: calls that produce or publish file content.
func c17ContentStep(n string) (string, bool) {
	targets := map[string]bool{"os.Rename": true, "os.File.Sync": true, "os.File.Write": true, "os.File.WriteString": true, "io.Copy": true, "io.CopyN": true,
		"os.File.Chmod": true, "os.Chmod": true, "os.Symlink": true, "os.WriteFile": true, "os.MkdirAll": true, "os.Mkdir": true}
	if targets[n] {
		return n, true
	}
	if strings.HasPrefix(n, "utils/renameio.") || n == "database/storage/fstree.writeFile" ||
		n == "utils.CreateAtomic" || n == "utils.CopyFileAtomic" || n == "utils.ReplaceFileAtomic" {
		if strings.HasSuffix(n, ".Cleanup") {
			return "", false // removing the temp file is best effort by design (R1/R3 cover its placement)
		}
		return n, true
	}
	return "", false
}

func c17R5(c *Ctx, r *Report) {
	const rule = "C17-R5"
	r.SetFloor(rule, 15)
	var fns []*ssa.Function
	for _, fn := range c.AllFuncs() {
		if inScope(short(fn.Pkg.Pkg.Path())) {
			fns = append(fns, fn)
		}
	}
	errUseRule(c, r, rule, fns, func(fn *ssa.Function, cc *ssa.CallCommon) (string, bool) {
		return c17ContentStep(calleeName(cc))
	}, map[string]string{})
}
