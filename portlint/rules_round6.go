package main

import (
	"fmt"
	"go/constant"
	"go/types"
	"strings"

	"golang.org/x/tools/go/ssa"
)

// stdConst looks up an integer constant of an imported (non-repo) package, as seen by the loaded build configuration.
func (c *Ctx) stdConst(pkg, name string) (int64, bool) {
	p := c.Prog.ImportedPackage(pkg)
	if p == nil {
		return 0, false
	}
	k, ok := p.Pkg.Scope().Lookup(name).(*types.Const)
	if !ok {
		return 0, false
	}
	v, ok := constant.Int64Val(k.Val())
	return v, ok
}

// c03R12: the database layer never replaces a record's metadata object on the
// write path (CreateMeta / SetMeta): the secret and crown-jewel flags live in it.
func c03R12(c *Ctx, r *Report) {
	const rule = "C03-R12"
	r.SetFloor(rule, 1)
	n := 0
	var bad []string
	for _, fn := range c.allFuncs {
		if fn.Pkg == nil || fn.Blocks == nil || short(fn.Pkg.Pkg.Path()) != "database" {
			continue
		}
		n++
		eachInstr(fn, func(in ssa.Instruction) {
			ci, ok := in.(ssa.CallInstruction)
			if !ok {
				return
			}
			switch calleeName(ci.Common()) {
			case "database/record.Record.CreateMeta", "database/record.Record.SetMeta", "database/record.Base.CreateMeta", "database/record.Base.SetMeta":
				bad = append(bad, fnKey(fn)+" @"+c.Pos(in.Pos()))
			}
		})
	}
	r.Check(len(bad) == 0 && n > 0, rule, "database / metadata object never replaced", fmt.Sprintf("%d functions of package database: no CreateMeta/SetMeta call (Meta.Reset keeps the flags)", n),
		"the database layer replaces a record's metadata object: "+strings.Join(bad, ", ")+" - the secret / crown-jewel flags of the record are lost on this write path and the record becomes visible to non-privileged interfaces")
}

// c09R12: loading never reads through a size-capped reader: a cap cuts the payload silently and the parse fails or - worse - succeeds on a prefix.
func c09R12(c *Ctx, r *Report) {
	const rule = "C09-R12"
	r.SetFloor(rule, 1)
	n := 0
	var bad []string
	for _, fn := range c.allFuncs {
		if fn.Pkg == nil || fn.Blocks == nil || short(fn.Pkg.Pkg.Path()) != "formats/dsd" {
			continue
		}
		n++
		for _, ci := range callsIn(fn, "io.LimitReader", "io.CopyN") {
			bad = append(bad, fnKey(fn)+" / "+calleeName(ci.Common())+" @"+c.Pos(ci.Pos()))
		}
		eachInstr(fn, func(in ssa.Instruction) {
			if al, ok := in.(*ssa.Alloc); ok && strings.HasSuffix(al.Type().String(), "io.LimitedReader") {
				bad = append(bad, fnKey(fn)+" / io.LimitedReader @"+c.Pos(in.Pos()))
			}
		})
	}
	r.Check(len(bad) == 0 && n > 0, rule, "formats/dsd / no size-capped reads", fmt.Sprintf("%d functions of package dsd read their input without a silent cap", n),
		"a load path reads through a size cap ("+strings.Join(bad, ", ")+"): data beyond the cap is dropped without an error, so a dumped value no longer loads back (or loads back shortened)")
}

// c11R12: the tokenizer's separators are characters the printer quotes, and the
// tokenizer classifies characters only by comparing them with those constants.
func c11R12(c *Ctx, r *Report) {
	const rule = "C11-R12"
	r.SetFloor(rule, 2)
	es := c.Func("database/query.extractSnippets")
	esc := c.Func("database/query.escapeString")
	if es == nil || esc == nil {
		r.Undecided(rule, "database/query.extractSnippets / escapeString", "anchor function missing")
		return
	}
	// quoting set of the printer
	set := ""
	for _, ci := range callsIn(esc, "strings.ContainsAny") {
		if s, ok := constStrVal(ci.Common().Args[1]); ok {
			set = s
		}
	}
	// the ranged character
	var chars []ssa.Value
	eachInstr(es, func(in ssa.Instruction) {
		if ex, ok := in.(*ssa.Extract); ok && ex.Index == 2 {
			if _, isNext := ex.Tuple.(*ssa.Next); isNext {
				chars = append(chars, ex)
			}
		}
	})
	isChar := func(v ssa.Value) bool {
		v = unwrapConv(v)
		for _, ch := range chars {
			if v == ch {
				return true
			}
		}
		return false
	}
	var missing []string
	var preds []string
	eachInstr(es, func(in ssa.Instruction) {
		switch x := in.(type) {
		case *ssa.BinOp:
			var k int64
			var isC bool
			if isChar(x.X) {
				k, isC = constInt(x.Y)
			} else if isChar(x.Y) {
				k, isC = constInt(x.X)
			} else {
				return
			}
			if isC && !strings.ContainsRune(set, rune(k)) {
				missing = append(missing, fmt.Sprintf("%q", rune(k)))
			}
		case ssa.CallInstruction:
			for _, a := range x.Common().Args {
				if isChar(a) {
					preds = append(preds, calleeName(x.Common()))
				}
			}
		}
	})
	r.Check(len(chars) > 0 && set != "" && len(missing) == 0, rule, "database/query.extractSnippets / separators are quoted by the printer",
		"every character the tokenizer compares the input with is in escapeString's quoting set", fmt.Sprintf("the tokenizer treats %v specially but escapeString does not quote tokens containing it (set %q): such a token prints bare and is split on re-parsing", missing, set))
	r.Check(len(preds) == 0, rule, "database/query.extractSnippets / characters classified by comparison only", "no character-class predicate is applied to the input",
		fmt.Sprintf("the tokenizer classifies characters with %v: the printer's fixed quoting set cannot follow a predicate (e.g. all Unicode white space), so tokens holding such characters print bare and are split on re-parsing", preds))
}

// c11R13: list operands are taken verbatim: the constructor neither rewrites the elements of the split text nor normalises them.
func c11R13(c *Ctx, r *Report) {
	const rule = "C11-R13"
	r.SetFloor(rule, 1)
	fn := c.Func("database/query.newStringSliceCondition")
	if fn == nil {
		r.Undecided(rule, "database/query.newStringSliceCondition", "anchor function missing")
		return
	}
	var bad []string
	eachInstr(fn, func(in ssa.Instruction) {
		switch x := in.(type) {
		case ssa.CallInstruction:
			n := calleeName(x.Common())
			if strings.HasPrefix(n, "strings.Trim") || strings.HasPrefix(n, "strings.To") || n == "strings.Fields" || n == "strings.Replace" || n == "strings.ReplaceAll" || n == "strings.Map" {
				bad = append(bad, n+" @"+c.Pos(in.Pos()))
			}
		case *ssa.Store:
			if ia, ok := x.Addr.(*ssa.IndexAddr); ok {
				if _, isSplit := isCallTo(ia.X, "strings.Split"); isSplit {
					bad = append(bad, "element store into the split result @"+c.Pos(in.Pos()))
				}
			}
		}
	})
	r.Check(len(bad) == 0, rule, "database/query.newStringSliceCondition / elements verbatim", "the elements of a list operand are stored as split, like the elements of a list handed in through the API",
		"the list constructor rewrites elements of a textual list ("+strings.Join(bad, ", ")+") while lists handed in through the API and the printer keep them verbatim: a printed query parses back to different elements")
}

// c17R10: a file that is created for writing is truncated (or must not exist): without O_TRUNC/O_EXCL a shorter new content keeps the tail of an older file of the same name.
func c17R10(c *Ctx, r *Report) {
	const rule = "C17-R10"
	r.SetFloor(rule, 1)
	oCreate, ok1 := c.stdConst("os", "O_CREATE")
	oTrunc, ok2 := c.stdConst("os", "O_TRUNC")
	oExcl, ok3 := c.stdConst("os", "O_EXCL")
	oAppend, ok4 := c.stdConst("os", "O_APPEND")
	if !(ok1 && ok2 && ok3 && ok4) {
		r.Undecided(rule, "os.O_* constants", "constants not found in the loaded program")
		return
	}
	n := 0
	for _, fn := range c.allFuncs {
		if fn.Pkg == nil || fn.Blocks == nil || !inScope(short(fn.Pkg.Pkg.Path())) {
			continue
		}
		ord := map[string]int{}
		for _, ci := range callsIn(fn, "os.OpenFile") {
			flags, isC := constInt(ci.Common().Args[1])
			cons := ordinal(ord, fnKey(fn)+" / os.OpenFile flags")
			if !isC {
				r.Undecided(rule, cons, "flags are not a constant")
				continue
			}
			if flags&oCreate == 0 {
				continue
			}
			n++
			r.Check(flags&(oTrunc|oExcl|oAppend) != 0, rule, cons, "a file created for writing is truncated (O_TRUNC), exclusive (O_EXCL) or appended to",
				"the file is opened with O_CREATE but without O_TRUNC/O_EXCL: if a file of that name is already there (left over from an interrupted run, or an earlier entry of the same archive) and the new content is shorter, the result is the new content followed by the old tail", c.Pos(ci.Pos()))
		}
	}
	if n == 0 {
		r.Bad(rule, "os.OpenFile with O_CREATE", "no creating OpenFile found in the covered packages (copyFromZipArchive expected): anchor lost")
	}
}

// c20R8: a panic of the output adapter reaches writerManager: the writer's recovery handler stores the error to the writer's named result on every panic path.
func c20R8(c *Ctx, r *Report) {
	const rule = "C20-R8"
	r.SetFloor(rule, 1)
	fn := c.Func("log.writer")
	if fn == nil {
		r.Undecided(rule, "log.writer", "anchor function missing")
		return
	}
	recs := c.findRecoverDefers(fn)
	if len(recs) == 0 {
		r.Bad(rule, "log.writer / recovery handler", "the writer no longer recovers from adapter panics")
		return
	}
	for _, ri := range recs {
		ri := ri
		isResultStore := func(in ssa.Instruction) bool {
			st, ok := in.(*ssa.Store)
			if !ok {
				return false
			}
			fv, ok := st.Addr.(*ssa.FreeVar)
			return ok && isNamedResult(fn, fv.Name()) && !isNilConst(st.Val)
		}
		noPanic := Guard{Name: "recover()==nil", Truthy: false, Match: func(b ssa.Value) bool { return b == ssa.Value(ri.Recover) }}
		p := ReachFromAvoiding(ri.Closure, ri.Recover, isExit, []Guard{noPanic}, isResultStore)
		r.Check(p == nil, rule, fnKey(ri.Closure)+" / panic becomes the writer's error", "on every panic path the handler stores a non-nil error to the writer's named result",
			"after a recovered panic the writer can return nil (the error is assigned to a new local, not to the named result): writerManager takes that for a clean exit and never restarts the writer, so no further line reaches the adapter", c.pathString(p)...)
	}
}

// c07R12: the schedule handler starts or promotes the task at the front of the
// schedule only across a test that this task is due (the timer it slept on may
// belong to a task that has left the schedule meanwhile).
func c07R12(c *Ctx, r *Report) {
	const rule = "C07-R12"
	r.SetFloor(rule, 2)
	fn := c.Func("modules.taskScheduleHandler")
	if fn == nil {
		r.Undecided(rule, "modules.taskScheduleHandler", "anchor function missing")
		return
	}
	isNow := func(v ssa.Value) bool { _, ok := isCallTo(v, "time.Now"); return ok }
	isDue := func(v ssa.Value) bool { return fieldLoadOf(v, "modules.Task", "executeAt") }
	// accepted spellings of "not yet due": now.Before(executeAt), executeAt.After(now)  (passed when false)
	notYet := Guard{Name: "front task is due (now is not before its executeAt)", Truthy: false, Match: func(b ssa.Value) bool {
		call, ok := b.(*ssa.Call)
		if !ok {
			return false
		}
		a := call.Call.Args
		switch calleeName(&call.Call) {
		case "time.Time.Before":
			return len(a) == 2 && isNow(a[0]) && isDue(a[1])
		case "time.Time.After":
			return len(a) == 2 && isDue(a[0]) && isNow(a[1])
		}
		return false
	}}
	// ... or "due": executeAt.Before(now) / now.After(executeAt) (passed when true) - not the repo's idiom, accepted for robustness
	due := Guard{Name: "front task is due", Truthy: true, Match: func(b ssa.Value) bool {
		call, ok := b.(*ssa.Call)
		if !ok {
			return false
		}
		a := call.Call.Args
		switch calleeName(&call.Call) {
		case "time.Time.After":
			return len(a) == 2 && isNow(a[0]) && isDue(a[1])
		case "time.Time.Before":
			return len(a) == 2 && isDue(a[0]) && isNow(a[1])
		}
		return false
	}}
	n := 0
	for _, callee := range []string{"modules.Task.StartASAP", "modules.Task.runWithLocking"} {
		for _, ci := range callsIn(fn, callee) {
			n++
			c.RequireAny(r, rule, fmt.Sprintf("modules.taskScheduleHandler / %s #%d", strings.TrimPrefix(callee, "modules."), n), fn, ci, "the front task is due", []Guard{notYet, due})
		}
	}
	if n == 0 {
		r.Bad(rule, "modules.taskScheduleHandler / processing calls", "the schedule handler no longer starts or promotes tasks")
	}
}

// c07R13: the queue slot is released by the end of the execution that was
// started: the watcher waits on a context taken while the task lock was held,
// not on Task.ctx, which the finished execution replaces.
func c07R13(c *Ctx, r *Report) {
	const rule = "C07-R13"
	r.SetFloor(rule, 1)
	fn := c.Func("modules.(*Task).runWithLocking")
	if fn == nil {
		r.Undecided(rule, "modules.(*Task).runWithLocking", "anchor function missing")
		return
	}
	n := 0
	for _, a := range fn.AnonFuncs {
		if !funcHas(a, 0, isCallInstrTo("sync.WaitGroup.Done")) {
			continue
		}
		n++
		var bad ssa.Instruction
		eachInstr(a, func(in ssa.Instruction) {
			if u, ok := in.(*ssa.UnOp); ok && fieldLoadOf(u, "modules.Task", "ctx") && bad == nil {
				bad = in
			}
		})
		r.Check(bad == nil, rule, fnKey(a)+" / watcher does not read Task.ctx", "the watcher waits on a context captured by runWithLocking",
			"the watcher goroutine reads Task.ctx itself: a quick execution has already replaced it by a fresh context nobody cancels, and the queue stays blocked until the execution-wait limit", posOf(c, bad))
	}
	// the captured context is read with the task lock held
	held := LocksHeldAt(fn)
	okCapture := false
	eachInstr(fn, func(in ssa.Instruction) {
		if u, ok := in.(*ssa.UnOp); ok && fieldLoadOf(u, "modules.Task", "ctx") && taskLockHeld(held[in]) {
			// used by a closure?
			for _, ref := range *u.Referrers() {
				switch x := ref.(type) {
				case *ssa.MakeClosure:
					okCapture = true
				case *ssa.Store:
					// captured variable: the value is stored to a cell that a closure binds
					if al, ok := x.Addr.(*ssa.Alloc); ok {
						for _, r2 := range *al.Referrers() {
							if _, isMC := r2.(*ssa.MakeClosure); isMC {
								okCapture = true
							}
						}
					}
				}
			}
		}
	})
	r.Check(n > 0 && okCapture, rule, "modules.(*Task).runWithLocking / execution context captured under the task lock", "Task.ctx is read with t.lock held and handed to the watcher",
		"runWithLocking does not hand the watcher a context read under the task lock")
}

// c11R14: in parseAndOr an iteration leaves "operand outstanding" cleared
// exactly when it added an operand - a plain condition or a parenthesised group
// - and set when it consumed a connective (and / or / not).
func c11R14(c *Ctx, r *Report) {
	const rule = "C11-R14"
	r.SetFloor(rule, 4)
	fn := c.Func("database/query.parseAndOr")
	if fn == nil {
		r.Undecided(rule, "database/query.parseAndOr", "anchor function missing")
		return
	}
	var exp, conds *ssa.Phi
	reach := blockReach(fn)
	for _, b := range fn.Blocks {
		if !reach[b][b] {
			continue
		}
		for _, in := range b.Instrs {
			ph, ok := in.(*ssa.Phi)
			if !ok {
				break
			}
			switch ph.Comment {
			case "expectingMore":
				if exp == nil {
					exp = ph
				}
			case "conditions":
				if conds == nil {
					conds = ph
				}
			}
		}
	}
	if exp == nil {
		r.Undecided(rule, "database/query.parseAndOr / loop state", "the loop variable expectingMore was not found in a loop header")
		return
	}
	hb := exp.Block()
	if conds != nil && conds.Block() != hb {
		conds = nil
	}
	// without a loop-carried conditions value (the list is captured by a helper closure): an operand was added on a
	// back edge iff every path of the iteration to it passes an append, or a call of a local closure that appends
	appends := func(f *ssa.Function) bool { return funcHas(f, 0, func(in ssa.Instruction) bool { return isCallInstrTo("builtin.append")(in) }) }
	isAdd := func(in ssa.Instruction) bool {
		ci, ok := in.(ssa.CallInstruction)
		if !ok {
			return false
		}
		if calleeName(ci.Common()) == "builtin.append" {
			return true
		}
		if cal := staticCallee(ci.Common()); cal != nil && cal.Parent() == fn && appends(cal) {
			return true
		}
		// call through a local variable holding such a closure
		for _, l := range c.Leaves(ci.Common().Value) {
			if mc, ok := l.(*ssa.MakeClosure); ok {
				if f, ok := mc.Fn.(*ssa.Function); ok && f.Parent() == fn && appends(f) {
					return true
				}
			}
		}
		return false
	}
	var marker ssa.Instruction
	for _, x := range hb.Instrs {
		if _, isPhi := x.(*ssa.Phi); !isPhi {
			marker = x
			break
		}
	}
	addedOn := func(pred *ssa.BasicBlock) bool {
		last := pred.Instrs[len(pred.Instrs)-1]
		return ReachInstr(fn, marker, func(in ssa.Instruction) bool { return in == last }, func(in ssa.Instruction) bool { return isAdd(in) || in == marker }) == nil
	}
	n := 0
	for i := range exp.Edges {
		pred := hb.Preds[i]
		if !reach[hb][pred] {
			continue // entry edge
		}
		n++
		added := false
		if conds != nil {
			added = conds.Edges[i] != ssa.Value(conds)
		} else {
			added = addedOn(pred)
		}
		v, isC := constBool(exp.Edges[i])
		cons := fmt.Sprintf("database/query.parseAndOr / loop back-edge #%d (%s)", n, map[bool]string{true: "operand added", false: "connective consumed"}[added])
		if !isC {
			if exp.Edges[i] == ssa.Value(exp) && !added {
				r.OK(rule, cons, "nothing added, flag unchanged")
				continue
			}
			r.Undecided(rule, cons, "the flag is not a constant on this edge")
			continue
		}
		r.Check(v == !added, rule, cons, "an operand is outstanding exactly when the iteration did not add one",
			map[bool]string{true: "after adding an operand (a parenthesised group counts) the parser still expects another one: a condition list cannot end in a group, and no clause keyword can follow one", false: "after a connective the parser no longer expects an operand: a dangling and/or/not is accepted"}[added], c.Pos(pred.Instrs[len(pred.Instrs)-1].Pos()))
	}
	if n == 0 {
		r.Bad(rule, "database/query.parseAndOr / loop back-edges", "no loop iteration found (anchor lost)")
	}
}
