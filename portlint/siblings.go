package main

import (
	"fmt"
	"go/token"
	"sort"
	"strings"

	"golang.org/x/tools/go/ssa"
)

// A14: sibling agreement.
//
// Two functions that implement the same step for two instances of one concept
// (user layer / default layer, medium / low priority, ...) must consist of the
// same operations once the instance-specific names are mapped onto each other.
// The comparison is on the multiset of "atoms" of each function (calls with
// callee and constant arguments, comparisons in a negation-invariant canonical
// form, field reads and writes, constants, channel operations, defers, the
// shape of the returns), which is insensitive to statement order, local names
// and helper extraction (A11), and sensitive to a changed operator, constant,
// callee, field or a dropped / added operation in one of the two.

type siblingPair struct {
	A, B   string            // function keys
	Rename map[string]string // instance-specific names: A's spelling -> B's spelling (substring replacement on atoms)
	Why    string
	Allow  []string // atoms allowed to differ (prefix match), with the reason in Why
}

func operandKind(v ssa.Value) string {
	switch x := v.(type) {
	case *ssa.Const:
		if x.Value == nil {
			return "nil"
		}
		return "const:" + x.Value.ExactString()
	case *ssa.Parameter:
		return "param"
	case *ssa.Call:
		if n := calleeName(&x.Call); n != "" {
			return "call:" + n
		}
		return "dyncall"
	case *ssa.UnOp:
		if x.Op == token.MUL {
			if fa, ok := x.X.(*ssa.FieldAddr); ok {
				fr, _ := fieldOfAddr(fa)
				return "field:" + fr.Owner + "." + fr.Name
			}
			if g, ok := x.X.(*ssa.Global); ok {
				return "global:" + g.Name()
			}
		}
		if x.Op == token.ARROW {
			return "recv"
		}
	case *ssa.Extract:
		return operandKind(x.Tuple) + fmt.Sprintf("#%d", x.Index)
	case *ssa.Convert:
		return operandKind(x.X)
	case *ssa.ChangeType:
		return operandKind(x.X)
	case *ssa.MakeInterface:
		return operandKind(x.X)
	case *ssa.Global:
		return "global:" + x.Name()
	case *ssa.FreeVar:
		return "var"
	case *ssa.Phi:
		return "var"
	case *ssa.BinOp:
		return "expr"
	}
	return "v"
}

func cmpAtom(op token.Token, x, y string) string {
	// what a computed value was computed by is already recorded by its own atom; here only its role counts
	gen := func(k string) string {
		if strings.HasPrefix(k, "call:") || k == "dyncall" || k == "var" || k == "expr" || k == "recv" || k == "v" {
			return "v"
		}
		return k
	}
	x, y = gen(x), gen(y)
	// canonical under operand swap and negation
	forms := []string{}
	add := func(o token.Token, a, b string) { forms = append(forms, fmt.Sprintf("%s(%s,%s)", o, a, b)) }
	switch op {
	case token.EQL, token.NEQ:
		add(token.EQL, x, y)
		add(token.EQL, y, x)
	case token.LSS: // x<y  ==  !(y<=x)
		add(token.LSS, x, y)
		add(token.LEQ, y, x)
	case token.GTR: // x>y == y<x
		add(token.LSS, y, x)
		add(token.LEQ, x, y)
	case token.LEQ: // x<=y == !(y<x)
		add(token.LEQ, x, y)
		add(token.LSS, y, x)
	case token.GEQ: // x>=y == y<=x
		add(token.LEQ, y, x)
		add(token.LSS, x, y)
	}
	sort.Strings(forms)
	return "cmp " + forms[0]
}

// condTag: the condition that holds on the given edge of an If, in a form that is canonical under operand order and negation.
func condTag(cond ssa.Value, edgeTrue bool) string {
	holds := edgeTrue
	for {
		if u, ok := cond.(*ssa.UnOp); ok && u.Op == token.NOT {
			cond, holds = u.X, !holds
			continue
		}
		break
	}
	gen := func(v ssa.Value) string {
		k := operandKind(v)
		if strings.HasPrefix(k, "call:") || k == "dyncall" || k == "var" || k == "expr" || k == "recv" || k == "v" {
			return "v"
		}
		return k
	}
	bo, ok := cond.(*ssa.BinOp)
	if !ok {
		return fmt.Sprintf("%s=%v", operandKind(cond), holds)
	}
	x, y := gen(bo.X), gen(bo.Y)
	type form struct {
		s   string
		pos bool
	}
	var fs []form
	add := func(o token.Token, a, b string, pos bool) { fs = append(fs, form{fmt.Sprintf("%s(%s,%s)", o, a, b), pos}) }
	switch bo.Op {
	case token.EQL:
		add(token.EQL, x, y, true)
		add(token.EQL, y, x, true)
	case token.NEQ:
		add(token.EQL, x, y, false)
		add(token.EQL, y, x, false)
	case token.LSS:
		add(token.LSS, x, y, true)
		add(token.LEQ, y, x, false)
	case token.GTR:
		add(token.LSS, y, x, true)
		add(token.LEQ, x, y, false)
	case token.LEQ:
		add(token.LEQ, x, y, true)
		add(token.LSS, y, x, false)
	case token.GEQ:
		add(token.LEQ, y, x, true)
		add(token.LSS, x, y, false)
	default:
		return fmt.Sprintf("expr=%v", holds)
	}
	sort.Slice(fs, func(i, j int) bool { return fs[i].s < fs[j].s })
	f := fs[0]
	return fmt.Sprintf("%s=%v", f.s, holds == f.pos)
}

type atomSink struct {
	m      map[string]int
	suffix string
}

func (a atomSink) add(k string) { a.m[k+a.suffix]++ }

var sibBaseline map[string]bool

func funcAtoms(fn *ssa.Function) map[string]int {
	if sibBaseline == nil {
		sibBaseline = loadBaseline(BaselineFile)
		if sibBaseline == nil {
			sibBaseline = map[string]bool{}
		}
	}
	out := map[string]int{}
	var visitAt func(f *ssa.Function, base, level int)
	visit := func(f *ssa.Function) { visitAt(f, 0, 0) }
	visitAt = func(f *ssa.Function, base, level int) {
		depthOf := map[*ssa.BasicBlock]int{}
		condsOf := map[*ssa.BasicBlock][]string{}
		for _, b := range f.Blocks {
			d := 0
			for x := b.Idom(); x != nil; x = x.Idom() {
				if len(x.Succs) != 2 {
					continue
				}
				if _, isIf := x.Instrs[len(x.Instrs)-1].(*ssa.If); !isIf {
					continue
				}
				// reachability within one pass through x (a later loop iteration does not make both arms "reach" b)
				ra0, ra1 := reachWithout(x.Succs[0], x), reachWithout(x.Succs[1], x)
				r0 := x.Succs[0] == b || ra0[b]
				r1 := x.Succs[1] == b || ra1[b]
				if r0 && r1 {
					continue
				}
				if ifi, isIf := x.Instrs[len(x.Instrs)-1].(*ssa.If); isIf && (r0 || r1) {
					condsOf[b] = append(condsOf[b], condTag(ifi.Cond, r0))
				}
				reach := map[*ssa.BasicBlock]map[*ssa.BasicBlock]bool{x.Succs[0]: ra0, x.Succs[1]: ra1, b: reachWithout(b, x)}
				// only an arm of a branch that rejoins counts; code after an early exit ("if err != nil { return }") is not "under" that test
				other := x.Succs[0]
				if r0 {
					other = x.Succs[1]
				}
				rejoin := false
				// a join that is nothing but the function's exit does not count as rejoining:
				// "if c { A } else { B }; return" and "if c { A; return }; B; return" are the same shape
				bareExit := func(j *ssa.BasicBlock) bool {
					for _, in := range j.Instrs {
						switch in.(type) {
						case *ssa.Return, *ssa.RunDefers, *ssa.DebugRef:
						default:
							return false
						}
					}
					return true
				}
				for j := range reach[other] {
					if j != b && reach[b][j] && !bareExit(j) {
						rejoin = true
						break
					}
				}
				if other != b && reach[b][other] && !bareExit(other) {
					rejoin = true
				}
				if !rejoin {
					// no rejoin: one side leaves the function early. The exiting arm (the smaller side) is conditional, the continuation is not.
					mine := x.Succs[0]
					if !r0 {
						mine = x.Succs[1]
					}
					if len(reach[mine]) < len(reach[other]) {
						rejoin = true
					}
				}
				if rejoin {
					d++
				}
			}
			depthOf[b] = d
		}
		real := out
		eachInstr(f, func(in ssa.Instruction) {
			// atoms carry the number of conditions they depend on: an operation moved under (or out of) a condition in one sibling is a difference
			out := atomSink{real, fmt.Sprintf(" @%d", base+depthOf[in.Block()])}
			switch x := in.(type) {
			case *ssa.Phi:
				// constants assigned to a variable on some path
				for _, e := range x.Edges {
					if k := operandKind(e); strings.HasPrefix(k, "const:") {
						real["assign "+k]++
					}
				}
			case *ssa.DebugRef, *ssa.Jump, *ssa.If, *ssa.Alloc, *ssa.MakeInterface, *ssa.Extract, *ssa.ChangeType, *ssa.Convert, *ssa.RunDefers, *ssa.IndexAddr, *ssa.Slice:
			case *ssa.BinOp:
				switch x.Op {
				case token.EQL, token.NEQ, token.LSS, token.LEQ, token.GTR, token.GEQ:
					out.add(cmpAtom(x.Op, operandKind(x.X), operandKind(x.Y)))
				default:
					out.add("arith "+x.Op.String()+"("+operandKind(x.X)+","+operandKind(x.Y)+")")
				}
			case *ssa.UnOp:
				switch x.Op {
				case token.MUL:
					if k := operandKind(x); strings.HasPrefix(k, "field:") || strings.HasPrefix(k, "global:") {
						out.add("read "+k)
					}
				case token.ARROW:
					out.add("recv")
				case token.NOT:
				default:
					out.add("unop "+x.Op.String())
				}
			case *ssa.Store:
				if fr, ok := fieldOfAddr(x.Addr); ok {
					out.add("write field:"+fr.Owner+"."+fr.Name+" = "+operandKind(x.Val))
				} else if g, ok := x.Addr.(*ssa.Global); ok {
					out.add("write global:"+g.Name()+" = "+operandKind(x.Val))
				} else if _, ok := x.Addr.(*ssa.FreeVar); ok {
					out.add("write captured = "+operandKind(x.Val))
				}
			case *ssa.FieldAddr:
			case ssa.CallInstruction:
				cc := x.Common()
				n := calleeName(cc)
				// a helper that did not exist on the confirmed tree is looked through (its operations count as the caller's)
				if _, isCall := in.(*ssa.Call); isCall && len(sibBaseline) > 0 && level < 3 {
					if callee := staticCallee(cc); callee != nil && callee.Blocks != nil && callee.Pkg == f.Pkg && callee.Parent() == nil && !sibBaseline[n] {
						visitAt(callee, base+depthOf[in.Block()], level+1)
						return
					}
				}
				if n == "" {
					n = "dyn:" + operandKind(cc.Value)
				}
				var cargs []string
				for _, a := range cc.Args {
					if k := operandKind(a); strings.HasPrefix(k, "const:") || k == "nil" || strings.HasPrefix(k, "global:") {
						cargs = append(cargs, k)
					}
				}
				kind := "call "
				switch in.(type) {
				case *ssa.Defer:
					kind = "defer "
				case *ssa.Go:
					kind = "go "
				}
				if strings.HasPrefix(n, "closure:") {
					n = "closure"
				}
				if strings.HasPrefix(n, "log.") && (f.Pkg == nil || short(f.Pkg.Pkg.Path()) != "log") {
					return // logging is not part of the compared behaviour
				}
				out.add(kind+n+"("+strings.Join(cargs, ",")+")")
			case *ssa.Send:
				out.add("send "+operandKind(x.Chan))
			case *ssa.Select:
				s := "select"
				if !x.Blocking {
					s += " nonblocking"
				}
				for _, st := range x.States {
					if st.Dir == 1 {
						s += " send:" + operandKind(st.Chan)
					} else {
						s += " recv:" + operandKind(st.Chan)
					}
				}
				out.add(s)
			case *ssa.Return:
				if level > 0 {
					break // a looked-through helper's returns are not the caller's
				}
				if len(x.Results) == 0 {
					break // where a function without results returns is not an operation of its own
				}
				conds := append([]string{}, condsOf[in.Block()]...)
				sort.Strings(conds)
				var rs []string
				for i := range x.Results {
					k := operandKind(retVal(x, i))
					if !(strings.HasPrefix(k, "const:") || k == "nil") {
						k = "v"
					}
					rs = append(rs, k)
				}
				// a return says under which conditions it is taken (which result goes with which outcome)
				real["return("+strings.Join(rs, ",")+") when ["+strings.Join(conds, " & ")+"]"]++
			case *ssa.MakeClosure:
				visitAt(x.Fn.(*ssa.Function), base, level)
			case *ssa.Panic:
				out.add("panic")
			case *ssa.Range, *ssa.Next:
				out.add("range")
			case *ssa.MapUpdate:
				out.add("mapupdate")
			case *ssa.Lookup:
				out.add("lookup")
			case *ssa.TypeAssert:
				out.add("typeassert "+x.AssertedType.String())
			}
		})
	}
	visit(fn)
	return out
}

func renameAtoms(m map[string]int, ren map[string]string) map[string]int {
	keys := make([]string, 0, len(ren))
	for k := range ren {
		keys = append(keys, k)
	}
	sort.Slice(keys, func(i, j int) bool { return len(keys[i]) > len(keys[j]) })
	out := map[string]int{}
	for a, n := range m {
		for _, k := range keys {
			a = strings.ReplaceAll(a, k, ren[k])
		}
		out[a] += n
	}
	return out
}

func siblingDiff(c *Ctx, p siblingPair) (onlyA, onlyB []string, ok bool) {
	fa, fb := c.Func(p.A), c.Func(p.B)
	if fa == nil || fb == nil {
		return nil, nil, false
	}
	a := renameAtoms(funcAtoms(fa), p.Rename)
	b := funcAtoms(fb)
	allowed := func(atom string) bool {
		for _, al := range p.Allow {
			if strings.HasPrefix(atom, al) {
				return true
			}
		}
		return false
	}
	for k, n := range a {
		if d := n - b[k]; d > 0 && !allowed(k) {
			onlyA = append(onlyA, fmt.Sprintf("%dx %s", d, k))
		}
	}
	for k, n := range b {
		if d := n - a[k]; d > 0 && !allowed(k) {
			onlyB = append(onlyB, fmt.Sprintf("%dx %s", d, k))
		}
	}
	// delegation to one common function: both siblings call the same callee and differ only in its constant arguments
	// (the body was merged into a shared helper, so agreement holds by construction)
	calleeOf := func(d string) string {
		i := strings.Index(d, "x call ")
		if i < 0 {
			return ""
		}
		rest := d[i+len("x call "):]
		if j := strings.Index(rest, "("); j >= 0 {
			return rest[:j]
		}
		return ""
	}
	if len(onlyA) == len(onlyB) && len(onlyA) > 0 {
		same := true
		ca, cb := map[string]int{}, map[string]int{}
		for _, d := range onlyA {
			if calleeOf(d) == "" {
				same = false
			}
			ca[calleeOf(d)]++
		}
		for _, d := range onlyB {
			if calleeOf(d) == "" {
				same = false
			}
			cb[calleeOf(d)]++
		}
		for k, n := range ca {
			if cb[k] != n || !strings.HasPrefix(k, short(fa.Pkg.Pkg.Path())+".") || sibBaseline[k] || len(sibBaseline) == 0 {
				same = false // only a helper that did not exist on the confirmed tree counts as "merged body"
			}
		}
		if same {
			return nil, nil, true
		}
	}
	sort.Strings(onlyA)
	sort.Strings(onlyB)
	return onlyA, onlyB, true
}

func siblingRule(c *Ctx, r *Report, rule string, pairs []siblingPair) {
	r.SetFloor(rule, len(pairs))
	for _, p := range pairs {
		cons := p.A + " ~ " + p.B
		oa, ob, ok := siblingDiff(c, p)
		if !ok {
			r.Undecided(rule, cons, "sibling function missing")
			continue
		}
		r.Check(len(oa) == 0 && len(ob) == 0, rule, cons, "the two siblings consist of the same operations ("+p.Why+")",
			fmt.Sprintf("the siblings no longer agree (%s): only in %s: %v; only in %s: %v - one of them was changed without the other", p.Why, p.A, oa, p.B, ob))
	}
}

var (
	sibConfig = []siblingPair{
		{A: "config.ReplaceConfig", B: "config.ReplaceDefaultConfig", Rename: map[string]string{"activeValue": "activeDefaultValue"}, Why: "user layer / default layer"},
		{A: "config.setConfigOption", B: "config.setDefaultConfigOption", Rename: map[string]string{"activeValue": "activeDefaultValue"}, Why: "user layer / default layer; only the user layer is saved to the config file",
			Allow: []string{"call config.SaveConfig(", "return("}},
	}
	sibMicro = []siblingPair{
		{A: "modules.(*Module).RunMicroTask", B: "modules.(*Module).RunLowPriorityMicroTask", Rename: map[string]string{"getMediumPriorityClearance": "getLowPriorityClearance", "const:1000000000": "const:3000000000"}, Why: "medium / low priority"},
		{A: "modules.(*Module).StartMicroTask", B: "modules.(*Module).StartLowPriorityMicroTask", Rename: map[string]string{"RunMicroTask": "RunLowPriorityMicroTask"}, Why: "medium / low priority"},
		{A: "modules.(*Module).SignalMicroTask", B: "modules.(*Module).SignalLowPriorityMicroTask", Rename: map[string]string{"getMediumPriorityClearance": "getLowPriorityClearance"}, Why: "medium / low priority"},
		{A: "modules.getMediumPriorityClearance", B: "modules.getLowPriorityClearance", Rename: map[string]string{"mediumPriorityClearance": "lowPriorityClearance"}, Why: "medium / low priority"},
	}
	sibDatabase = []siblingPair{
		{A: "database.(*Interface).Put", B: "database.(*Interface).PutNew", Rename: map[string]string{}, Why: "PutNew is Put plus a metadata reset",
			Allow: []string{"call database/record.Meta.Reset(", "cmp ==(nil,v)", "call database/record.Record.Meta("}},
		{A: "database.(*Controller).Maintain", B: "database.(*Controller).MaintainThorough", Rename: map[string]string{"Maintainer.Maintain": "Maintainer.MaintainThorough"}, Why: "maintenance entry points"},
	}
	sibAccessor = []siblingPair{}
	sibSetters  = []siblingPair{
		{A: "database.(*Interface).MakeSecret", B: "database.(*Interface).MakeCrownJewel", Rename: map[string]string{"Meta.MakeSecret": "Meta.MakeCrownJewel"}, Why: "flag setters"},
		{A: "database.(*Interface).SetAbsoluteExpiry", B: "database.(*Interface).SetRelativateExpiry", Rename: map[string]string{"Meta.SetAbsoluteExpiry": "Meta.SetRelativateExpiry"}, Why: "expiry setters; the relative one updates the metadata afterwards, which is what turns the TTL into the expiry time (fix ac0d0d8, C02-R28)",
			Allow: []string{"call database/record.Meta.Update(", "call database/record.Record.Meta("}},
		{A: "database.(*Interface).MakeSecret", B: "database.(*Interface).SetAbsoluteExpiry", Rename: map[string]string{"Meta.MakeSecret": "Meta.SetAbsoluteExpiry"}, Why: "attribute setters"},
	}
	sibDSD   = []siblingPair{{A: "formats/dsd.LoadFromHTTPRequest", B: "formats/dsd.LoadFromHTTPResponse", Rename: map[string]string{"http.Request": "http.Response"}, Why: "request / response"}}
	sibAuth  = []siblingPair{{A: "api.authBearer", B: "api.authBasic", Rename: map[string]string{"Bearer realm": "Basic realm"}, Why: "auth endpoints"},
		{A: "api.(*endpointHandler).ReadPermission", B: "api.(*endpointHandler).WritePermission", Rename: map[string]string{"Read": "Write"}, Why: "the endpoint handler answers each method class with the endpoint's own declaration"}}
	sibQuery = []siblingPair{{A: "database/query.(*andCond).check", B: "database/query.(*orCond).check", Rename: map[string]string{"andCond": "orCond"}, Why: "and / or"}}
	sibRecord = []siblingPair{{A: "database/record.(*Base).MarshalRecord", B: "database/record.(*Wrapper).MarshalRecord", Rename: map[string]string{"Base.Marshal": "Wrapper.Marshal"}, Why: "typed / wrapped record; a typed record is serialised as JSON, a wrapper in its own format",
		Allow: []string{"call database/record.Wrapper.Marshal("}}}
)

func init() {
	for _, m := range []string{"Get", "GetString", "GetStringArray", "GetInt", "GetFloat", "GetBool", "Exists"} {
		sibAccessor = append(sibAccessor, siblingPair{A: "database/accessor.(*JSONAccessor)." + m, B: "database/accessor.(*JSONBytesAccessor)." + m,
			Rename: map[string]string{"gjson.Get(": "gjson.GetBytes(", "JSONAccessor": "JSONBytesAccessor"}, Why: "JSON held as string / as bytes"})
	}
}

var (
	sibGetters []siblingPair
	sibLog     []siblingPair
)

func init() {
	types := []struct{ name, opt, field string }{{"String", "OptTypeString", "stringVal"}, {"StringArray", "OptTypeStringArray", "stringArrayVal"}, {"Int", "OptTypeInt", "intVal"}, {"Bool", "OptTypeBool", "boolVal"}}
	for i := 1; i < len(types); i++ {
		a, b := types[0], types[i]
		for _, recv := range []string{"config.", "config.(*safe)."} {
			sibGetters = append(sibGetters, siblingPair{A: recv + "GetAs" + a.name, B: recv + "GetAs" + b.name,
				Rename: map[string]string{a.field: b.field, "const:1)": fmt.Sprintf("const:%d)", i+1)}, Why: "getters of the option types (they differ in the option-type constant and the value field)"})
		}
	}
	levels := []string{"Trace", "Debug", "Info", "Warning", "Error", "Critical"}
	for i := 1; i < len(levels); i++ {
		for _, f := range []string{"", "f"} {
			ren := map[string]string{"(const:1": fmt.Sprintf("(const:%d", i+1)}
			sibLog = append(sibLog, siblingPair{A: "log." + levels[0] + f, B: "log." + levels[i] + f, Rename: ren, Why: "log wrappers of the severities (they differ in the level constant; warning and above also count the line)",
				Allow: []string{"call sync/atomic.AddUint64(global:", "read global:"}})
			sibLog = append(sibLog, siblingPair{A: "log.(*ContextTracer)." + levels[0] + f, B: "log.(*ContextTracer)." + levels[i] + f, Rename: ren, Why: "tracer wrappers of the severities"})
		}
	}
}

var sibHooks = []siblingPair{
	{A: "database.(*Controller).runPostGetHooks", B: "database.(*Controller).runPrePutHooks", Rename: map[string]string{"UsesPostGet": "UsesPrePut", "Hook.PostGet": "Hook.PrePut"}, Why: "hook phases"},
}

func init() {
	sibDatabase = append(sibDatabase, siblingPair{A: "database.Maintain", B: "database.MaintainThorough", Rename: map[string]string{"Controller.Maintain": "Controller.MaintainThorough"}, Why: "maintenance entry points"})
}

var allSiblingPairs []siblingPair

func probeSiblings(c *Ctx) {
	for _, ps := range [][]siblingPair{sibConfig, sibMicro, sibDatabase, sibAccessor, sibSetters, sibDSD, sibAuth, sibQuery, sibRecord, sibGetters, sibLog, sibHooks} {
		allSiblingPairs = append(allSiblingPairs, ps...)
	}
	for _, p := range allSiblingPairs {
		oa, ob, ok := siblingDiff(c, p)
		fmt.Println("PAIR", p.A, "~", p.B, ok)
		for _, x := range oa {
			fmt.Println("   onlyA", x)
		}
		for _, x := range ob {
			fmt.Println("   onlyB", x)
		}
	}
}

// probeSiblingCandidates: statistical discovery (candidates only; confirmed pairs are frozen in the tables).
func probeSiblingCandidates(c *Ctx) {
	type fa struct {
		fn    *ssa.Function
		atoms map[string]int
		n     int
	}
	byPkg := map[string][]fa{}
	for _, fn := range c.allFuncs {
		if fn.Parent() != nil || fn.Blocks == nil || fn.Pkg == nil {
			continue
		}
		a := funcAtoms(fn)
		n := 0
		for _, k := range a {
			n += k
		}
		if n < 8 {
			continue
		}
		p := short(fn.Pkg.Pkg.Path())
		byPkg[p] = append(byPkg[p], fa{fn, a, n})
	}
	for p, fs := range byPkg {
		for i := 0; i < len(fs); i++ {
			for j := i + 1; j < len(fs); j++ {
				inter, union := 0, 0
				for k, n := range fs[i].atoms {
					m := fs[j].atoms[k]
					if m < n {
						inter += m
						union += n
					} else {
						inter += n
						union += m
					}
				}
				for k, m := range fs[j].atoms {
					if _, ok := fs[i].atoms[k]; !ok {
						union += m
					}
				}
				if union > 0 && float64(inter)/float64(union) >= 0.7 {
					fmt.Printf("CAND %.2f %s | %s ~ %s (%d/%d atoms)\n", float64(inter)/float64(union), p, fnKey(fs[i].fn), fnKey(fs[j].fn), fs[i].n, fs[j].n)
				}
			}
		}
	}
}

func probeAtoms(c *Ctx, key string) {
	fn := c.Func(key)
	if fn == nil {
		fmt.Println("no such function", key)
		return
	}
	a := funcAtoms(fn)
	var ks []string
	for k, n := range a {
		ks = append(ks, fmt.Sprintf("%dx %s", n, k))
	}
	sort.Strings(ks)
	for _, k := range ks {
		fmt.Println("ATOM", k)
	}
}

// reachWithout: blocks reachable from start (over one or more edges, start itself only through a cycle) without entering block avoid.
func reachWithout(start, avoid *ssa.BasicBlock) map[*ssa.BasicBlock]bool {
	m := map[*ssa.BasicBlock]bool{}
	if start == avoid {
		return m
	}
	st := []*ssa.BasicBlock{}
	for _, s := range start.Succs {
		st = append(st, s)
	}
	for len(st) > 0 {
		x := st[len(st)-1]
		st = st[:len(st)-1]
		if x == avoid || m[x] {
			continue
		}
		m[x] = true
		st = append(st, x.Succs...)
	}
	return m
}
