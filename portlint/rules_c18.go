package main

import (
	"fmt"
	"go/constant"
	"go/token"
	"go/types"
	"strings"

	"golang.org/x/tools/go/ssa"
)

func init() {
	register(&propDef{
		ID: "C18",
		Explanation: "Decides structural necessary conditions of path containment: " +
			"(R1) every containment guard strings.HasPrefix(p, R) with R derived from a component root is well-formed: R is separator-terminated at the point of use (constant ending in the separator, R+sep, or the HasSuffix idiom; filepath.Clean/Join results are NOT terminated) or equality with the root is tested separately, and p is canonical (result of filepath.Join/Clean/Abs, path.Join/Clean or a Walk callback path, traced through callers) or the function additionally rejects a '..'-prefixed filepath.Rel result; " +
			"(R2) every file-system sink of the file-tree backend takes a path derived from buildFilePath's success result (or a Walk path below it), archive entries are created only behind the unpack-directory guard, EnsureAbsPath creates directories only behind its scope checks. " +
			"(R3) the directory walk of the file-tree backend reads a visited file only behind the backend's scope predicate (or a well-formed root+separator prefix test) on that path; the internal DirStructure.ensure, which creates directories without any check, is called only by itself (towards the children) and by EnsureAbsPath (behind its checks). " +
			"(R4) nothing case-folding (EqualFold, ToLower, ...) is statically reachable from the functions that decide scope (fstree isInScope/buildFilePath, EnsureAbsPath, unpackZipArchive, ScanStorage): paths are compared exactly. " +
			"(R5) who may create links (os.Symlink / os.Link): only the atomic symlink helper and CreateSymlinks - archive extraction never creates a link. " +
			"NOT decided: symlink traversal, platform path semantics, the run-time value of roots.",
		Rules: []ruleFn{c18R1, c18R2, c18R3, c18R4, c18R5},
	})
}

var sepStrings = map[string]bool{"/": true, "\\": true}

// sepTerminated: is the string value guaranteed to end in a path separator?
func sepTerminated(v ssa.Value, depth int) bool {
	if depth > 6 {
		return false
	}
	switch x := v.(type) {
	case *ssa.Const:
		if x.Value != nil && x.Value.Kind() == constant.String {
			s := constant.StringVal(x.Value)
			return len(s) > 0 && sepStrings[s[len(s)-1:]]
		}
	case *ssa.BinOp:
		if x.Op == token.ADD {
			return sepTerminated(x.Y, depth+1)
		}
	case *ssa.Convert:
		// string(filepath.Separator)
		if k, ok := constInt(x.X); ok && (k == '/' || k == '\\') {
			return true
		}
	case *ssa.Phi:
		for i, e := range x.Edges {
			if sepTerminated(e, depth+1) {
				continue
			}
			// HasSuffix idiom: the edge comes from the block whose terminator tested HasSuffix(e, sep)==true
			pred := x.Block().Preds[i]
			ok := false
			if ifi, isIf := pred.Instrs[len(pred.Instrs)-1].(*ssa.If); isIf {
				base, pos := peel(ifi.Cond)
				if call, isCall := isCallTo(base, "strings.HasSuffix"); isCall && call.Call.Args[0] == e && sepTerminated(call.Call.Args[1], depth+1) {
					// which successor is x.Block()?
					succIdx := 1
					if pred.Succs[0] == x.Block() {
						succIdx = 0
					}
					takenWhenTrue := (succIdx == 0) == pos
					ok = takenWhenTrue
				}
			}
			if !ok {
				return false
			}
		}
		return len(x.Edges) > 0
	case *ssa.UnOp:
		if x.Op == token.MUL {
			if g, ok := x.X.(*ssa.Global); ok {
				// package-level string initialised from a constant
				return globalConstSepTerminated(g)
			}
		}
	}
	return false
}

func globalConstSepTerminated(g *ssa.Global) bool {
	initFn := g.Pkg.Func("init")
	if initFn == nil {
		return false
	}
	ok := false
	n := 0
	for _, fn := range []*ssa.Function{initFn} {
		eachInstr(fn, func(in ssa.Instruction) {
			if st, isSt := in.(*ssa.Store); isSt && st.Addr == ssa.Value(g) {
				n++
				ok = sepTerminated(st.Val, 0)
			}
		})
	}
	return ok && n == 1
}

var canonicalCalls = []string{"path/filepath.Join", "path/filepath.Clean", "path/filepath.Abs", "path.Join", "path.Clean"}

// canonicalPath: every origin of p is a cleaned path.
func (c *Ctx) canonicalPath(p ssa.Value, depth int) (bool, string) {
	if depth > 4 {
		return false, "call chain too deep"
	}
	leaves := c.Leaves(p)
	if len(leaves) == 0 {
		return false, "no origin"
	}
	for _, l := range leaves {
		if _, ok := isCallTo(l, canonicalCalls...); ok {
			continue
		}
		if par, ok := l.(*ssa.Parameter); ok {
			fn := par.Parent()
			// Walk callback: first parameter of a closure passed to filepath.Walk
			if _, isWalk := closurePassedTo(fn, "path/filepath.Walk"); isWalk && len(fn.Params) > 0 && fn.Params[0] == par {
				continue
			}
			// trace through callers
			idx := -1
			for i, q := range fn.Params {
				if q == par {
					idx = i
				}
			}
			var sites []Site
			for _, f := range c.allFuncs {
				eachInstr(f, func(in ssa.Instruction) {
					if ci, ok := in.(ssa.CallInstruction); ok && staticCallee(ci.Common()) == fn {
						sites = append(sites, Site{f, in})
					}
				})
			}
			if len(sites) == 0 || idx < 0 {
				return false, fmt.Sprintf("raw parameter %s of %s", par.Name(), fnKey(fn))
			}
			for _, s := range sites {
				args := s.Instr.(ssa.CallInstruction).Common().Args
				if ok, why := c.canonicalPath(args[idx], depth+1); !ok {
					return false, fmt.Sprintf("caller %s passes a non-canonical path (%s)", fnKey(s.Fn), why)
				}
			}
			continue
		}
		return false, "origin " + leafDesc(l)
	}
	return true, ""
}

// rootDerived: does v (through + and phi) derive from a component root?
func (c *Ctx) rootDerived(v ssa.Value, depth int) (string, bool) {
	if depth > 6 {
		return "", false
	}
	switch x := v.(type) {
	case *ssa.BinOp:
		if x.Op == token.ADD {
			return c.rootDerived(x.X, depth+1)
		}
	case *ssa.Phi:
		for _, e := range x.Edges {
			if n, ok := c.rootDerived(e, depth+1); ok {
				return n, true
			}
		}
	case *ssa.Call:
		if _, ok := isCallTo(x, "path/filepath.Clean", "strings.TrimSuffix", "strings.TrimRight"); ok {
			return c.rootDerived(x.Call.Args[0], depth+1)
		}
	}
	if cst, ok := v.(*ssa.Const); ok && cst.Value != nil && cst.Value.Kind() == constant.String {
		if tp := c.TypesPkg("api"); tp != nil {
			if k, ok := tp.Scope().Lookup("apiV1Path").(*types.Const); ok && constant.StringVal(k.Val()) == constant.StringVal(cst.Value) && c.curPkg == "api" {
				return "api.apiV1Path", true
			}
		}
	}
	p := vpath(v)
	for _, suf := range []string{".basePath", "storageDir.Path", "tmpDir.Path", "ds.Path", "global:api.apiV1Path"} {
		if strings.HasSuffix(p, suf) {
			return p, true
		}
	}
	// local variable holding a Join below a root (unpack tmpDir)
	for _, l := range c.Leaves(v) {
		if call, ok := isCallTo(l, "path/filepath.Join"); ok {
			for _, l2 := range c.Leaves(call.Call.Args[0]) {
				if sl, ok := l2.(*ssa.Slice); ok {
					_ = sl
				}
			}
			// variadic: look at the stores into the argument array
			if strings.Contains(leafDescDeep(c, call), "tmpDir.Path") {
				return "filepath.Join(<root>.tmpDir.Path, ...)", true
			}
			// a Join whose first element is itself root-derived (Join cleans: the result is never separator-terminated)
			if first := variadicElem(call, 0); first != nil {
				if n, ok := c.rootDerived(first, depth+1); ok {
					return "filepath.Join(" + n + ", ...)", true
				}
			}
		}
	}
	return "", false
}

// variadicElem returns the value stored as the i-th element of the variadic
// argument array of call (nil if not found).
func variadicElem(call *ssa.Call, i int) ssa.Value {
	for _, a := range call.Call.Args {
		sl, ok := a.(*ssa.Slice)
		if !ok {
			continue
		}
		al, ok := sl.X.(*ssa.Alloc)
		if !ok {
			continue
		}
		for _, ref := range *al.Referrers() {
			ia, ok := ref.(*ssa.IndexAddr)
			if !ok {
				continue
			}
			if k, isC := constInt(ia.Index); !isC || int(k) != i {
				continue
			}
			for _, rr := range *ia.Referrers() {
				if st, ok := rr.(*ssa.Store); ok {
					return st.Val
				}
			}
		}
	}
	return nil
}

// leafDescDeep renders the origins of all variadic elements of a call.
func leafDescDeep(c *Ctx, call *ssa.Call) string {
	var parts []string
	for _, a := range call.Call.Args {
		for _, l := range c.Leaves(a) {
			if sl, ok := l.(*ssa.Slice); ok {
				if al, ok := sl.X.(*ssa.Alloc); ok {
					for _, ref := range *al.Referrers() {
						if ia, ok := ref.(*ssa.IndexAddr); ok {
							for _, rr := range *ia.Referrers() {
								if st, ok := rr.(*ssa.Store); ok {
									parts = append(parts, c.Origins(st.Val)...)
								}
							}
						}
					}
				}
			} else {
				parts = append(parts, leafDesc(l))
			}
		}
	}
	return strings.Join(parts, ",")
}

func c18R1(c *Ctx, r *Report) {
	const rule = "C18-R1"
	r.SetFloor(rule, 5)
	pkgs := map[string]bool{"database/storage/fstree": true, "updater": true, "utils": true, "api": true}
	ord := map[string]int{}
	n := 0
	for _, fn := range c.allFuncs {
		if !pkgs[short(fn.Pkg.Pkg.Path())] {
			continue
		}
		c.curPkg = short(fn.Pkg.Pkg.Path())
		for _, ci := range callsIn(fn, "strings.HasPrefix") {
			call, ok := ci.(*ssa.Call)
			if !ok {
				continue
			}
			p, R := call.Call.Args[0], call.Call.Args[1]
			root, isRoot := c.rootDerived(R, 0)
			if !isRoot {
				continue
			}
			cons := ordinal(ord, fmt.Sprintf("%s / HasPrefix(path, %s)", fnKey(fn), root))
			// exclusion guards (true edge skips): the tmp-dir skip in the storage scan
			if fnKey(topFunc(fn)) == "updater.(*ResourceRegistry).ScanStorage" && strings.HasSuffix(root, "tmpDir.Path") {
				r.Trivial(rule, cons, "exclusion test (matching paths are skipped), not a containment guard")
				continue
			}
			n++
			// (i) separator termination, or a separate equality test with the root
			term := sepTerminated(R, 0)
			r.Check(term, rule, cons+" / prefix is separator-terminated", "the prefix compared with ends in a path separator at the point of use",
				"the containment prefix is not separator-terminated (a bare root, or a root passed through filepath.Clean/Join, which strip the separator): sibling directories that merely extend the root's name pass the check", c.Pos(call.Pos()))
			// (ii) canonical subject
			canon, why := c.canonicalPath(p, 0)
			if !canon {
				// accepted alternative: the function rejects '..' in filepath.Rel(root, p)
				if c.rejectsDotDotRel(fn, p) {
					canon, why = true, ""
				}
			}
			r.Check(canon, rule, cons+" / checked path is canonical", "the path tested is a cleaned path (Join/Clean/Abs result or Walk path), or a '..'-prefixed Rel result is rejected as well",
				"the containment test is applied to an uncleaned path ("+why+"): '<root>/../x' passes the prefix test and resolves outside the root", c.Pos(call.Pos()))
		}
	}
	if n < 4 {
		r.Undecided(rule, "instance-floor", fmt.Sprintf("found %d containment guards (expected >= 4: fstree, ScanStorage, unpack, EnsureAbsPath, API bridge)", n))
	}
}

// rejectsDotDotRel: fn computes filepath.Rel(_, p) and tests the result for a ".." prefix.
func (c *Ctx) rejectsDotDotRel(fn *ssa.Function, p ssa.Value) bool {
	found := false
	for _, ci := range callsIn(fn, "path/filepath.Rel") {
		call := ci.(*ssa.Call)
		if call.Call.Args[1] != p && !sameOrigins(c, call.Call.Args[1], p) {
			continue
		}
		var rel ssa.Value
		for _, ref := range *call.Referrers() {
			if ex, ok := ref.(*ssa.Extract); ok && ex.Index == 0 {
				rel = ex
			}
		}
		if rel == nil {
			continue
		}
		for _, hp := range callsIn(fn, "strings.HasPrefix") {
			h := hp.(*ssa.Call)
			if h.Call.Args[0] != rel {
				continue
			}
			// prefix starts with ".."
			okPrefix := false
			var walk func(v ssa.Value, d int)
			walk = func(v ssa.Value, d int) {
				if d > 4 {
					return
				}
				switch x := v.(type) {
				case *ssa.Const:
					if x.Value != nil && x.Value.Kind() == constant.String && strings.HasPrefix(constant.StringVal(x.Value), "..") {
						okPrefix = true
					}
				case *ssa.BinOp:
					walk(x.X, d+1)
				}
			}
			walk(h.Call.Args[1], 0)
			if okPrefix {
				// "../" alone misses the parent directory itself: then rel == ".." must be tested too
				bare := false
				if cst, isC := h.Call.Args[1].(*ssa.Const); isC && cst.Value != nil && constant.StringVal(cst.Value) == ".." {
					bare = true
				}
				if bare || testsEqualDotDot(fn, rel) {
					found = true
				}
			}
		}
	}
	return found
}

func c18R2(c *Ctx, r *Report) {
	const rule = "C18-R2"
	r.SetFloor(rule, 8)
	// ---- fstree sinks
	sinks := []string{"os.ReadFile", "os.Remove", "os.RemoveAll", "os.MkdirAll", "os.Mkdir", "os.Stat", "os.Open", "os.OpenFile", "os.WriteFile", "os.Create",
		"database/storage/fstree.writeFile", "path/filepath.Walk"}
	ord := map[string]int{}
	for _, fn := range c.FuncsIn("database/storage/fstree") {
		if fn.Name() == "NewFSTree" || fn.Name() == "writeFile" {
			continue // operate on the configured base location / on an already validated destination
		}
		for _, ci := range callsIn(fn, sinks...) {
			cons := ordinal(ord, fmt.Sprintf("%s / %s", fnKey(fn), descInstr(ci)))
			ok, why := c.fstreeSafePath(fn, ci.Common().Args[0], 0)
			r.Check(ok, rule, cons, "the path comes from buildFilePath's success result (or a Walk path below it)", "a file-system operation of the file-tree backend uses a path that did not pass buildFilePath: "+why, c.Pos(ci.Pos()))
		}
	}
	// buildFilePath: returns the joined path only across the scope guard
	if bf := c.Func("database/storage/fstree.(*FSTree).buildFilePath"); bf == nil {
		r.Undecided(rule, "database/storage/fstree.(*FSTree).buildFilePath", "anchor function missing")
	} else {
		g := Guard{Name: "in scope", Truthy: true, Match: func(b ssa.Value) bool {
			_, ok := isCallTo(b, "database/storage/fstree.FSTree.isInScope", "strings.HasPrefix")
			return ok
		}}
		eachInstr(bf, func(in ssa.Instruction) {
			if ret, ok := in.(*ssa.Return); ok && isNilConst(retVal(ret, 1)) {
				c.RequireGuards(r, rule, fnKey(bf)+" / success", bf, ret, g)
				o := c.Origins(retVal(ret, 0))
				r.Check(onlyOrigins(o, "call:path/filepath.Join#0"), rule, fnKey(bf)+" / returns the checked path", "returns the joined (cleaned) path that was checked", fmt.Sprintf("returns %v", o))
			}
		})
		// the scope guard is applied to that joined path
		for _, ci := range callsIn(bf, "database/storage/fstree.FSTree.isInScope", "strings.HasPrefix") {
			a := ci.Common().Args
			subj := a[len(a)-1]
			if calleeName(ci.Common()) == "strings.HasPrefix" {
				subj = a[0]
			}
			o := c.Origins(subj)
			r.Check(onlyOrigins(o, "call:path/filepath.Join#0"), rule, fnKey(bf)+" / guard subject", "the scope test is applied to the joined path", fmt.Sprintf("the scope test is applied to %v", o))
		}
	}
	// ---- archive unpacking: entry paths reach the file system only behind the guard
	if un := c.Func("updater.(*Resource).unpackZipArchive"); un == nil {
		r.Undecided(rule, "updater.(*Resource).unpackZipArchive", "anchor function missing")
	} else {
		for i, ci := range callsIn(un, "updater.copyFromZipArchive") {
			dst := ci.Common().Args[1]
			g := Guard{Name: "entry path below the unpack dir (prefix = unpack dir + separator)", Truthy: true, Match: func(b ssa.Value) bool {
				call, ok := isCallTo(b, "strings.HasPrefix")
				if !ok || !(call.Call.Args[0] == dst || sameOrigins(c, call.Call.Args[0], dst)) {
					return false
				}
				// only a well-formed guard counts: prefix derived from the unpack root and separator-terminated
				_, isRoot := c.rootDerived(call.Call.Args[1], 0)
				return isRoot && sepTerminated(call.Call.Args[1], 0)
			}}
			c.RequireGuards(r, rule, fmt.Sprintf("%s / extract entry #%d", fnKey(un), i+1), un, ci, g)
		}
	}
	if cp := c.Func("updater.copyFromZipArchive"); cp != nil {
		for _, ci := range callsIn(cp, "os.Mkdir", "os.MkdirAll", "os.OpenFile", "os.Create", "os.WriteFile") {
			o := c.Origins(ci.Common().Args[0])
			r.Check(onlyOrigins(o, "param:dstPath"), rule, fnKey(cp)+" / "+descInstr(ci), "creates exactly the (guarded) destination path it was given", fmt.Sprintf("creates %v", o))
		}
	}
	// ---- EnsureAbsPath: ensure(pathDirs) only behind the scope checks
	if ea := c.Func("utils.(*DirStructure).EnsureAbsPath"); ea == nil {
		r.Undecided(rule, "utils.(*DirStructure).EnsureAbsPath", "anchor function missing")
	} else {
		for i, ci := range callsIn(ea, "utils.DirStructure.ensure") {
			args := ci.Common().Args
			if isNilConst(args[1]) {
				// root itself: behind dirPath == ds.Path
				continue
			}
			prefix := Guard{Name: "HasPrefix(dirPath, root+sep)", Truthy: true, Match: func(b ssa.Value) bool {
				call, ok := isCallTo(b, "strings.HasPrefix")
				if !ok {
					return false
				}
				_, isRoot := c.rootDerived(call.Call.Args[1], 0)
				return isRoot
			}}
			c.RequireGuards(r, rule, fmt.Sprintf("%s / ensure(relative dirs) #%d", fnKey(ea), i+1), ea, ci, prefix)
			// and not across a '..' relative path
			notDotDot := Guard{Name: "relative path does not start with ..", Truthy: false, Match: func(b ssa.Value) bool {
				call, ok := isCallTo(b, "strings.HasPrefix")
				if !ok {
					return false
				}
				ex, isEx := call.Call.Args[0].(*ssa.Extract)
				if !isEx {
					return false
				}
				_, isRel := isCallTo(ex, "path/filepath.Rel")
				return isRel
			}}
			notParent := Guard{Name: `relative path is not ".."`, Truthy: false, Match: func(b ssa.Value) bool {
				bo, ok := b.(*ssa.BinOp)
				if !ok || bo.Op != token.EQL {
					return false
				}
				for _, pair := range [][2]ssa.Value{{bo.X, bo.Y}, {bo.Y, bo.X}} {
					ex, isEx := pair[0].(*ssa.Extract)
					cst, isC := pair[1].(*ssa.Const)
					if isEx && isC && cst.Value != nil && cst.Value.Kind() == constant.String && constant.StringVal(cst.Value) == ".." {
						if _, isRel := isCallTo(ex, "path/filepath.Rel"); isRel {
							return true
						}
					}
				}
				return false
			}}
			cleaned, _ := c.canonicalPath(ea.Params[1], 0)
			if !cleaned {
				gs := []Guard{notDotDot}
				if !dotDotPrefixCoversParent(ea) {
					gs = append(gs, notParent)
				}
				c.RequireGuards(r, rule, fmt.Sprintf("%s / ensure(relative dirs) #%d", fnKey(ea), i+1), ea, ci, gs...)
			}
		}
	}
}

// fstreeSafePath: the value derives only from buildFilePath#0 (success), a Walk
// callback path, filepath.Dir/Join of such values, or parameters whose callers pass such values.
func (c *Ctx) fstreeSafePath(fn *ssa.Function, v ssa.Value, depth int) (bool, string) {
	if depth > 4 {
		return false, "call chain too deep"
	}
	for _, l := range c.Leaves(v) {
		switch x := l.(type) {
		case *ssa.Const:
			// the empty path (the zero value a helper returns next to its error) names nothing: every sink fails on it
			if s, ok := constStrVal(x); ok && s == "" {
				continue
			}
			return false, leafDesc(l)
		case *ssa.Extract:
			if _, ok := isCallTo(x, "database/storage/fstree.FSTree.buildFilePath"); ok && x.Index == 0 {
				continue
			}
			return false, leafDesc(l)
		case *ssa.Call:
			if _, ok := isCallTo(x, "path/filepath.Dir"); ok {
				if ok2, why := c.fstreeSafePath(fn, x.Call.Args[0], depth+1); !ok2 {
					return false, why
				}
				continue
			}
			return false, leafDesc(l)
		case *ssa.Parameter:
			pf := x.Parent()
			if _, isWalk := closurePassedTo(pf, "path/filepath.Walk"); isWalk && len(pf.Params) > 0 && pf.Params[0] == x {
				continue
			}
			idx := -1
			for i, q := range pf.Params {
				if q == x {
					idx = i
				}
			}
			var sites []Site
			for _, f := range c.FuncsIn("database/storage/fstree") {
				eachInstr(f, func(in ssa.Instruction) {
					if ci, ok := in.(ssa.CallInstruction); ok && staticCallee(ci.Common()) == pf {
						sites = append(sites, Site{f, in})
					}
				})
			}
			if len(sites) == 0 {
				return false, "raw parameter " + x.Name()
			}
			for _, s := range sites {
				if ok, why := c.fstreeSafePath(s.Fn, s.Instr.(ssa.CallInstruction).Common().Args[idx], depth+1); !ok {
					return false, why
				}
			}
			continue
		default:
			return false, leafDesc(l)
		}
	}
	return true, ""
}

// dotDotPrefixCoversParent: fn tests HasPrefix(rel, "..") with the bare ".."
// (which also covers rel == ".."); with "../" the parent itself needs its own test.
func dotDotPrefixCoversParent(fn *ssa.Function) bool {
	covers := false
	for _, hp := range callsIn(fn, "strings.HasPrefix") {
		h, ok := hp.(*ssa.Call)
		if !ok {
			continue
		}
		if ex, isEx := h.Call.Args[0].(*ssa.Extract); isEx {
			if _, isRel := isCallTo(ex, "path/filepath.Rel"); isRel {
				if cst, isC := h.Call.Args[1].(*ssa.Const); isC && cst.Value != nil && cst.Value.Kind() == constant.String && constant.StringVal(cst.Value) == ".." {
					covers = true
				}
			}
		}
	}
	return covers
}

func testsEqualDotDot(fn *ssa.Function, rel ssa.Value) bool {
	found := false
	eachInstr(fn, func(in ssa.Instruction) {
		bo, ok := in.(*ssa.BinOp)
		if !ok || (bo.Op != token.EQL && bo.Op != token.NEQ) {
			return
		}
		for _, pair := range [][2]ssa.Value{{bo.X, bo.Y}, {bo.Y, bo.X}} {
			if cst, isC := pair[1].(*ssa.Const); isC && pair[0] == rel && cst.Value != nil && cst.Value.Kind() == constant.String && constant.StringVal(cst.Value) == ".." {
				found = true
			}
		}
	})
	return found
}

func c18R3(c *Ctx, r *Report) {
	const rule = "C18-R3"
	r.SetFloor(rule, 3)
	// (a) Walk callbacks of fstree: ReadFile(path) only behind isInScope(path)
	n := 0
	for _, fn := range c.FuncsIn("database/storage/fstree") {
		if _, isWalk := closurePassedTo(fn, "path/filepath.Walk"); !isWalk || len(fn.Params) == 0 {
			continue
		}
		c.curPkg = "database/storage/fstree"
		pathParam := fn.Params[0]
		inScope := Guard{Name: "isInScope(path) / well-formed root prefix", Truthy: true, Match: func(b ssa.Value) bool {
			if call, ok := isCallTo(b, "database/storage/fstree.FSTree.isInScope"); ok {
				a := call.Call.Args
				return a[len(a)-1] == ssa.Value(pathParam)
			}
			if call, ok := isCallTo(b, "strings.HasPrefix"); ok && call.Call.Args[0] == ssa.Value(pathParam) {
				_, isRoot := c.rootDerived(call.Call.Args[1], 0)
				return isRoot && sepTerminated(call.Call.Args[1], 0)
			}
			return false
		}}
		for _, ci := range callsIn(fn, "os.ReadFile", "os.Open", "os.OpenFile", "os.Remove", "os.WriteFile") {
			n++
			c.RequireGuards(r, rule, fmt.Sprintf("%s / %s of a visited path", fnKey(fn), calleeName(ci.Common())), fn, ci, inScope)
		}
	}
	if n == 0 {
		r.Undecided(rule, "fstree walk callbacks", "no file access in a Walk callback found")
	}
	// (b) who may call DirStructure.ensure
	for _, s := range c.CallSites("utils.DirStructure.ensure") {
		caller := fnKey(s.Fn)
		cons := fmt.Sprintf("%s / call DirStructure.ensure", caller)
		switch caller {
		case "utils.(*DirStructure).ensure":
			r.Trivial(rule, cons, "recursion towards the parent structure")
		case "utils.(*DirStructure).EnsureAbsPath":
			r.OK(rule, cons, "behind EnsureAbsPath's scope checks (C18-R2)")
		default:
			r.Bad(rule, cons, "the unchecked directory creator ensure() is called from "+caller+", bypassing EnsureAbsPath's scope checks: '..' elements create and chmod directories outside the root", c.Pos(s.Instr.Pos()))
		}
	}
}
