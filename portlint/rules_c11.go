package main

import (
	"fmt"
	"go/constant"
	"go/token"
	"go/types"
	"sort"
	"strings"

	"golang.org/x/tools/go/ssa"
)

func init() {
	register(&propDef{
		ID: "C11",
		Explanation: "Decides structural necessary conditions of the query text <-> object conversion: " +
			"(R1) operator tables are total and consistent: each of the 18 operator constants has an arm in Where, at least one name in operatorNames, and an arm in the complies method of the condition type Where routes it to (routing by finite-valuation propagation); " +
			"(R2) parser progress and guards: no loop iteration in ParseQuery/parseAndOr/extractSnippets without consuming input, snippet and condition indexing is guarded, every clause keyword of ParseQuery (other than where) terminates a root where-clause, escape handling is applied before quote handling in every tokenizer iteration; " +
			"(R3) byte-offset slicing of the ranged string with bound i+1 happens only for ASCII characters. " +
			"(R4) every constant-bound index/slice in the functions statically reachable from ParseQuery is dominated by a length test implying the bound; " +
			"(R5) in parseAndOr a condition list is closed successfully only when no operand is outstanding (expectingMore false) or at a closing parenthesis - a clause keyword or the end of input after and/or/not is not a terminator; " +
			"(R6) the printers never re-tokenise or normalise already printed condition text (Split/Fields/Trim/Replace/case mapping on the result of a nested string()): separators inside quoted tokens are data. " +
			"(R7) list operands: the parser splits an `in` operand with exactly the inverse of the printer's join (strings.Split on the same separator - not Fields/FieldsFunc/SplitN, which drop or merge elements); " +
			"(R8) numeric and boolean operands are printed with a representation that parses back to the same value (float64: %g/%v or FormatFloat(.., -1, 64); int64: %d/%v; bool: %t/%v). " +
			"(R9) narrowing integer conversions in package query are justified (limit/offset are parsed with a bit size that fits int on every build). " +
			"(R10) backslash escaping is symmetric: escapeString prints a token bare only if it holds no separator, quote or backslash, and otherwise doubles backslashes, then escapes quotes, between two quotes with %s (no other verb or replacement); in each of the three scanners (extractSnippets, prepToken, endOfFirstToken) the backslash case changes what the next iteration sees - a flag consulted before any quote test, or an advance of the loop's own index. " +
			"(R11) sibling agreement (A14): the paired functions consist of the same operations - calls with their constant arguments, comparisons (canonical under negation and operand order), field reads/writes, channel operations, returns, each with the number of conditions it depends on - once the instance-specific names are mapped onto each other; logging is ignored, named differences are listed in the table: andCond.check ~ orCond.check. " +
			"(R12) every character the tokenizer compares its input with is in escapeString's quoting set, and the tokenizer applies no character-class predicate (unicode.IsSpace ...) to the input; (R13) the list constructor stores the elements of a textual list as split (no trimming, case mapping or element rewrite). " +
			"(R14) in parseAndOr every loop iteration leaves the operand-outstanding flag cleared exactly when it added an operand (plain condition or parenthesised group) and set when it consumed and/or/not - so a condition list may end in a group. " +
			"(R15) textual int / float operands are parsed with bit size 64, the width the condition stores and prints. " +
			"(R16) the database/prefix part of a query is split off at the first colon only (= C08-R9, record.ParseKey). " +
			"NOT decided (named in the statement, out of reach for a sound static rule): print->parse->print identity, same-records equivalence.",
		Rules: []ruleFn{c11R1, c11R2, c11R3, c11R4, c11R5, c11R6, c11R7, c11R8, c11R10, func(c *Ctx, r *Report) { siblingRule(c, r, "C11-R11", sibQuery) }, c11R12, c11R13, c11R14, c11R15, borrowRule(c08R9, "C08-R9", "C11-R16", 1, nil),
			func(c *Ctx, r *Report) { narrowingRule(c, r, "C11-R9", []string{"database/query"}, map[string]string{"database/query.newIntCondition / uint -> int64": "operand handed in through the Go API, not from query text; values above MaxInt64 are outside what the text form can express"}) }},
	})
}

var queryOps = []string{"Equals", "GreaterThan", "GreaterThanOrEqual", "LessThan", "LessThanOrEqual", "FloatEquals", "FloatGreaterThan", "FloatGreaterThanOrEqual",
	"FloatLessThan", "FloatLessThanOrEqual", "SameAs", "Contains", "StartsWith", "EndsWith", "In", "Matches", "Is", "Exists"}

func c11R1(c *Ctx, r *Report) {
	const rule = "C11-R1"
	r.SetFloor(rule, 18)
	where := c.Func("database/query.Where")
	if where == nil {
		r.Undecided(rule, "database/query.Where", "anchor function missing")
		return
	}
	names := c.mapLiteral("database/query", "operatorNames")
	named := map[int64][]string{}
	for n, v := range names {
		named[atoi64(v)] = append(named[atoi64(v)], n)
	}
	for _, op := range queryOps {
		v, ok := c.constVal("database/query", op)
		if !ok {
			r.Undecided(rule, "database/query."+op, "operator constant missing")
			continue
		}
		cons := "database/query operator " + op
		// routing
		it := &Interp{Fn: where}
		it.Input = func(x ssa.Value) (AV, bool) {
			if p, ok := x.(*ssa.Parameter); ok && p.Name() == "operator" {
				return avInt(v), true
			}
			return AV{}, false
		}
		it.Outcome = func(in ssa.Instruction, _ func(ssa.Value) AV) string {
			if ci, ok := in.(*ssa.Call); ok {
				n := calleeName(&ci.Call)
				if strings.HasPrefix(n, "database/query.new") && strings.HasSuffix(n, "Condition") {
					return strings.TrimPrefix(n, "database/query.new")
				}
			}
			return ""
		}
		it.Run()
		ls := outcomeLabels(it.Outcomes)
		if len(ls) != 1 || ls[0] == "ErrorCondition" {
			r.Bad(rule, cons+" / Where arm", fmt.Sprintf("Where(%s) builds %v: the operator has no constructor arm", op, ls))
			continue
		}
		typ := strings.ToLower(ls[0][:1]) + ls[0][1:]
		r.OK(rule, cons+" / Where arm", "Where routes it to "+typ)
		sort.Strings(named[v])
		r.Check(len(named[v]) > 0, rule, cons+" / has a name", fmt.Sprintf("names: %v", named[v]), "no entry in operatorNames: the operator cannot be written in query text and prints as [unknown]")
		comp := c.Func("database/query.(*" + typ + ").complies")
		if comp == nil {
			r.Undecided(rule, cons+" / complies arm", "complies method of "+typ+" missing")
			continue
		}
		arms := eqConstsOn(comp, func(x ssa.Value) bool { return fieldLoadOf(x, "database/query."+typ, "operator") })
		r.Check(len(arms) == 0 || arms[v], rule, cons+" / complies arm", typ+".complies handles it", fmt.Sprintf("%s.complies has arms %s but none for %s: conditions with this operator never match", typ, setStr(arms), op))
	}
	// no name maps to a non-operator
	valid := map[int64]bool{}
	for _, op := range queryOps {
		if v, ok := c.constVal("database/query", op); ok {
			valid[v] = true
		}
	}
	var bad []string
	for n, v := range names {
		if !valid[atoi64(v)] {
			bad = append(bad, n)
		}
	}
	r.Check(len(bad) == 0 && len(names) >= 18, rule, "database/query.operatorNames / only operators", fmt.Sprintf("%d names, all naming operators", len(names)), fmt.Sprintf("names %v do not name an operator", bad))
}

// cycleWithout reports a block cycle that contains no instruction satisfying progress.
func cycleWithout(fn *ssa.Function, progress func(ssa.Instruction) bool) *ssa.BasicBlock {
	blocked := map[*ssa.BasicBlock]bool{}
	for _, b := range fn.Blocks {
		for _, in := range b.Instrs {
			if progress(in) {
				blocked[b] = true
			}
		}
	}
	for _, b := range fn.Blocks {
		if blocked[b] {
			continue
		}
		// DFS from b's successors back to b through non-progress blocks
		seen := map[*ssa.BasicBlock]bool{}
		stack := append([]*ssa.BasicBlock{}, b.Succs...)
		for len(stack) > 0 {
			x := stack[len(stack)-1]
			stack = stack[:len(stack)-1]
			if x == b {
				return b
			}
			if seen[x] || blocked[x] {
				continue
			}
			seen[x] = true
			stack = append(stack, x.Succs...)
		}
	}
	return nil
}

func strConstsComparedWith(fn *ssa.Function, isSubject func(ssa.Value) bool) map[string]bool {
	out := map[string]bool{}
	eachInstr(fn, func(in ssa.Instruction) {
		bo, ok := in.(*ssa.BinOp)
		if !ok || bo.Op != token.EQL {
			return
		}
		for _, pair := range [][2]ssa.Value{{bo.X, bo.Y}, {bo.Y, bo.X}} {
			if isSubject(pair[0]) {
				if cst, ok := pair[1].(*ssa.Const); ok && cst.Value != nil && cst.Value.Kind() == constant.String {
					out[constant.StringVal(cst.Value)] = true
				}
			}
		}
	})
	return out
}

func c11R2(c *Ctx, r *Report) {
	const rule = "C11-R2"
	r.SetFloor(rule, 7)
	isSnippetText := func(x ssa.Value) bool { return fieldLoadOf(x, "database/query.snippet", "text") }
	// progress in the recursive-descent loops
	for _, name := range []string{"database/query.ParseQuery", "database/query.parseAndOr"} {
		fn := c.Func(name)
		if fn == nil {
			r.Undecided(rule, name, "anchor function missing")
			continue
		}
		progress := func(in ssa.Instruction) bool {
			ci, ok := in.(*ssa.Call)
			if !ok {
				return false
			}
			if n := calleeName(&ci.Call); n == "database/query.parseAndOr" || n == "database/query.parseCondition" {
				return true
			}
			// call of the getSnippet closure (parameter or local closure value)
			if !ci.Call.IsInvoke() {
				if p, ok := ci.Call.Value.(*ssa.Parameter); ok && p.Name() == "getSnippet" {
					return true
				}
				if mc, ok := ci.Call.Value.(*ssa.MakeClosure); ok && strings.HasSuffix(fnKey(mc.Fn.(*ssa.Function)), "ParseQuery$1") {
					return true
				}
			}
			return false
		}
		b := cycleWithout(fn, progress)
		r.Check(b == nil, rule, name+" / every loop iteration consumes a snippet", "no cycle without getSnippet()/sub-parser call", "the parser has a loop path that consumes no input: some query strings make it spin forever", c.pathString([]*ssa.BasicBlock{b})...)
	}
	// getSnippet closure: index guarded
	if pq := c.Func("database/query.ParseQuery"); pq != nil {
		for _, a := range pq.AnonFuncs {
			eachInstr(a, func(in ssa.Instruction) {
				ia, ok := in.(*ssa.IndexAddr)
				if !ok {
					return
				}
				if _, isSlice := ia.X.Type().Underlying().(*types.Slice); !isSlice {
					return
				}
				g := Guard{Name: "position <= len(snippets)", Truthy: false, Match: func(b ssa.Value) bool {
					bo, ok := b.(*ssa.BinOp)
					if !ok || bo.Op != token.GTR {
						return false
					}
					call, ok := bo.Y.(*ssa.Call)
					return ok && calleeName(&call.Call) == "builtin.len"
				}}
				c.RequireGuards(r, rule, fnKey(a)+" / snippets[pos-1]", a, ia, g)
			})
		}
		// clause keywords vs terminators
		clauses := strConstsComparedWith(pq, isSnippetText)
		pa := c.Func("database/query.parseAndOr")
		if pa != nil {
			terms := strConstsComparedWith(pa, isSnippetText)
			var missing []string
			for k := range clauses {
				if k != "where" && !terms[k] {
					missing = append(missing, k)
				}
			}
			sort.Strings(missing)
			r.Check(len(missing) == 0 && len(clauses) >= 4, rule, "database/query.parseAndOr / clause keywords terminate the where clause",
				fmt.Sprintf("clauses %v are all recognised as terminators", keysOf(clauses)), fmt.Sprintf("clause keyword(s) %v of ParseQuery do not terminate a root where-clause in parseAndOr: 'where ... %s ...' is parsed as a condition", missing, strings.Join(missing, "/")))
			// structural tokens
			for _, t := range []string{"(", ")", "and", "or", "not"} {
				r.Check(terms[t], rule, "database/query.parseAndOr / token "+t, "handled", "token "+t+" is not handled by parseAndOr")
			}
		}
	}
	// conditions[0] guarded by len(conditions) == 1
	if pa := c.Func("database/query.parseAndOr"); pa != nil {
		k := 0
		eachInstr(pa, func(in ssa.Instruction) {
			ia, ok := in.(*ssa.IndexAddr)
			if !ok {
				return
			}
			if idx, isC := constInt(ia.Index); !isC || idx != 0 {
				return
			}
			if _, isSlice := ia.X.Type().Underlying().(*types.Slice); !isSlice {
				return // element of a fresh array (variadic argument), not conditions[0]
			}
			k++
			g := Guard{Name: "len(conditions) == 1", Truthy: true, Match: func(b ssa.Value) bool {
				bo, ok := b.(*ssa.BinOp)
				if !ok || bo.Op != token.EQL {
					return false
				}
				call, ok := bo.X.(*ssa.Call)
				v, isC := constInt(bo.Y)
				return ok && calleeName(&call.Call) == "builtin.len" && isC && v == 1
			}}
			c.RequireGuards(r, rule, fmt.Sprintf("database/query.parseAndOr / conditions[0] #%d", k), pa, ia, g)
		})
	}
	// tokenizer: escape test before quote tests within every iteration; and progress is inherent (range loop)
	if es := c.Func("database/query.extractSnippets"); es == nil {
		r.Undecided(rule, "database/query.extractSnippets", "anchor function missing")
	} else {
		var next ssa.Instruction
		eachInstr(es, func(in ssa.Instruction) {
			if _, ok := in.(*ssa.Next); ok {
				next = in
			}
		})
		isCharCmp := func(ch int64) func(ssa.Instruction) bool {
			return func(in ssa.Instruction) bool {
				bo, ok := in.(*ssa.BinOp)
				if !ok || bo.Op != token.EQL {
					return false
				}
				v, isC := constInt(bo.Y)
				if !isC || v != ch {
					return false
				}
				bt, ok := bo.X.Type().Underlying().(*types.Basic)
				return ok && bt.Kind() == types.Int32
			}
		}
		if next == nil {
			r.Undecided(rule, fnKey(es), "no range-over-string loop found")
		} else {
			// skip-path: the iteration that is skipped because the previous rune was a backslash legitimately tests nothing
			bad := ReachInstr(es, next, isCharCmp('"'), isCharCmp('\\'))
			r.Check(bad == nil, rule, fnKey(es)+" / escape handling before quote handling", "in every iteration the backslash test precedes every quote test",
				"a quote character is examined before the backslash test in the same iteration: an escaped quote inside a quoted token ends the token", posOf(c, bad))
		}
	}
}

func keysOf(m map[string]bool) []string {
	var out []string
	for k := range m {
		out = append(out, k)
	}
	sort.Strings(out)
	return out
}

func c11R3(c *Ctx, r *Report) {
	const rule = "C11-R3"
	r.SetFloor(rule, 1)
	fn := c.Func("database/query.extractSnippets")
	if fn == nil {
		r.Undecided(rule, "database/query.extractSnippets", "anchor function missing")
		return
	}
	text := fn.Params[0]
	// range index values: Extract #1 of Next (key) possibly through phi/alloc
	isRangeIndex := func(v ssa.Value) bool {
		for _, l := range c.Leaves(v) {
			if ex, ok := l.(*ssa.Extract); ok && ex.Index == 1 {
				if _, isNext := ex.Tuple.(*ssa.Next); isNext {
					return true
				}
			}
			if _, isNext := l.(*ssa.Next); isNext {
				if bt, ok := v.Type().Underlying().(*types.Basic); ok && bt.Kind() == types.Int {
					return true
				}
			}
		}
		return false
	}
	asciiCmp := Guard{Name: "rune == ASCII constant", Truthy: true, Match: func(b ssa.Value) bool {
		bo, ok := b.(*ssa.BinOp)
		if !ok || bo.Op != token.EQL {
			return false
		}
		v, isC := constInt(bo.Y)
		bt, okT := bo.X.Type().Underlying().(*types.Basic)
		return isC && v >= 0 && v < 128 && okT && bt.Kind() == types.Int32
	}}
	n := 0
	eachInstr(fn, func(in ssa.Instruction) {
		sl, ok := in.(*ssa.Slice)
		if !ok || sl.X != ssa.Value(text) || sl.High == nil {
			return
		}
		bo, ok := sl.High.(*ssa.BinOp)
		if !ok || bo.Op != token.ADD || !isRangeIndex(bo.X) {
			return
		}
		if one, isC := constInt(bo.Y); !isC || one != 1 {
			return
		}
		n++
		p := ReachTargetAvoiding(fn, sl, []Guard{asciiCmp}, nil)
		r.Check(p == nil, rule, fmt.Sprintf("%s / text[..:pos+1] #%d", fnKey(fn), n), "the one-byte slice is taken only for an ASCII character",
			"the string is cut at byte offset pos+1 although the rune at pos may be multi-byte: a trailing multi-byte character is truncated", c.pathString(p)...)
	})
	if n == 0 {
		r.Trivial(rule, fnKey(fn)+" / text[..:pos+1]", "no pos+1 slicing of the ranged string")
	}
}

func c11R4(c *Ctx, r *Report) {
	const rule = "C11-R4"
	r.SetFloor(rule, 1)
	boundsRule(c, r, rule, "parsing an arbitrary query string",
		"database/query.ParseQuery")
}

// c11R5: terminators of a condition list.
func c11R5(c *Ctx, r *Report) {
	const rule = "C11-R5"
	r.SetFloor(rule, 3)
	fn := c.Func("database/query.parseAndOr")
	if fn == nil {
		r.Undecided(rule, "database/query.parseAndOr", "anchor function missing")
		return
	}
	notExpecting := Guard{Name: "expectingMore == false", Truthy: false, Match: func(b ssa.Value) bool {
		ph, ok := b.(*ssa.Phi)
		return ok && ph.Comment == "expectingMore"
	}}
	closing := Guard{Name: `snippet == ")"`, Truthy: true, Match: func(b ssa.Value) bool {
		bo, ok := b.(*ssa.BinOp)
		if !ok || bo.Op != token.EQL {
			return false
		}
		for _, o := range []ssa.Value{bo.X, bo.Y} {
			if cst, ok := o.(*ssa.Const); ok && cst.Value != nil && cst.Value.Kind() == constant.String && constant.StringVal(cst.Value) == ")" {
				return true
			}
		}
		return false
	}}
	hasPhi := false
	eachInstr(fn, func(in ssa.Instruction) {
		if ph, ok := in.(*ssa.Phi); ok && ph.Comment == "expectingMore" {
			hasPhi = true
		}
	})
	if !hasPhi {
		r.Undecided(rule, fnKey(fn)+" / expectingMore", "the operand-outstanding flag was not found")
		return
	}
	k := 0
	eachInstr(fn, func(in ssa.Instruction) {
		ret, ok := in.(*ssa.Return)
		if !ok || !isNilConst(retVal(ret, 1)) {
			return
		}
		k++
		p := ReachTargetAvoiding(fn, ret, []Guard{notExpecting, closing}, nil)
		r.Check(p == nil, rule, fmt.Sprintf("%s / success return #%d", fnKey(fn), k),
			`reached only with no operand outstanding or at ")"`,
			"the condition list can be closed successfully while an operand is still expected (after and/or/not): a keyword-named key is taken for a clause, or a dangling operator is accepted", append([]string{c.Pos(ret.Pos())}, c.pathString(p)...)...)
	})
}

// c11R6: printers concatenate; they do not re-tokenise printed text.
func c11R6(c *Ctx, r *Report) {
	const rule = "C11-R6"
	lossy := map[string]bool{}
	for _, n := range []string{"Split", "SplitN", "SplitAfter", "SplitAfterN", "Fields", "FieldsFunc", "TrimSpace", "Trim", "TrimLeft", "TrimRight", "TrimFunc",
		"ToLower", "ToUpper", "ToTitle", "Title", "Map", "Replace", "ReplaceAll"} {
		lossy["strings."+n] = true
	}
	n := 0
	for _, fn := range c.FuncsIn("database/query") {
		name := fn.Name()
		if !(name == "string" && fn.Signature.Recv() != nil) && fnKey(fn) != "database/query.(*Query).Print" {
			continue
		}
		// texts printed by nested conditions
		var roots []ssa.Value
		eachInstr(fn, func(in ssa.Instruction) {
			if call, ok := in.(*ssa.Call); ok && call.Call.IsInvoke() && call.Call.Method.Name() == "string" {
				roots = append(roots, call)
			}
		})
		if len(roots) == 0 {
			continue
		}
		n++
		var findings []string
		var walk func(f *ssa.Function, roots []ssa.Value, depth int)
		walk = func(f *ssa.Function, roots []ssa.Value, depth int) {
			tainted := map[ssa.Value]bool{}
			for _, v := range roots {
				tainted[v] = true
			}
			for changed := true; changed; {
				changed = false
				eachInstr(f, func(in ssa.Instruction) {
					v, ok := in.(ssa.Value)
					if !ok || tainted[v] {
						return
					}
					hit := false
					switch x := in.(type) {
					case *ssa.Phi:
						for _, e := range x.Edges {
							hit = hit || tainted[e]
						}
					case *ssa.Slice:
						hit = tainted[x.X]
					case *ssa.Convert:
						hit = tainted[x.X]
					case *ssa.ChangeType:
						hit = tainted[x.X]
					}
					if hit {
						tainted[v] = true
						changed = true
					}
				})
			}
			eachInstr(f, func(in ssa.Instruction) {
				ci, ok := in.(ssa.CallInstruction)
				if !ok {
					return
				}
				cc := ci.Common()
				cn := calleeName(cc)
				for i, a := range cc.Args {
					if !tainted[a] {
						continue
					}
					if lossy[cn] && i == 0 {
						findings = append(findings, fmt.Sprintf("%s applies %s to the printed text of a nested condition at %s", fnKey(f), cn, c.Pos(in.Pos())))
					}
					if callee := staticCallee(cc); callee != nil && depth > 0 && callee.Blocks != nil && c.isRepoFunc(callee) && i < len(callee.Params) {
						walk(callee, []ssa.Value{callee.Params[i]}, depth-1)
					}
				}
			})
		}
		walk(fn, roots, 2)
		cons := fnKey(fn) + " / nested condition text is only concatenated"
		if len(findings) > 0 {
			r.Bad(rule, cons, findings[0]+": separators inside quoted tokens are data, the printed query no longer parses back to the same query", findings[1:]...)
		} else {
			r.OK(rule, cons, "no splitting/trimming/replacing/case mapping of nested printed text")
		}
	}
	r.SetFloor(rule, 4)
	_ = n
}

// c11R7: Join and Split are inverse on the same separator.
func c11R7(c *Ctx, r *Report) {
	const rule = "C11-R7"
	r.SetFloor(rule, 1)
	pr := c.Func("database/query.(*stringSliceCondition).string")
	ps := c.Func("database/query.newStringSliceCondition")
	if pr == nil || ps == nil {
		r.Undecided(rule, "database/query.stringSliceCondition", "anchor function missing")
		return
	}
	strConst := func(v ssa.Value) (string, bool) {
		cst, ok := v.(*ssa.Const)
		if !ok || cst.Value == nil || cst.Value.Kind() != constant.String {
			return "", false
		}
		return constant.StringVal(cst.Value), true
	}
	sep, found := "", false
	for _, ci := range callsIn(pr, "strings.Join") {
		if s, ok := strConst(ci.Common().Args[1]); ok && fieldLoadOf(ci.Common().Args[0], "database/query.stringSliceCondition", "value") {
			sep, found = s, true
		}
	}
	if !found {
		r.Undecided(rule, fnKey(pr), "the printer does not join the list with a constant separator")
		return
	}
	n := 0
	eachInstr(ps, func(in ssa.Instruction) {
		st, ok := in.(*ssa.Store)
		if !ok {
			return
		}
		fr, ok := fieldOfAddr(st.Addr)
		if !ok || fr.Owner != "database/query.stringSliceCondition" || fr.Name != "value" {
			return
		}
		for _, l := range c.Leaves(st.Val) {
			call, isCall := l.(*ssa.Call)
			if !isCall {
				continue // the []string handed in through the API
			}
			n++
			cn := calleeName(&call.Call)
			okSplit := cn == "strings.Split"
			if okSplit {
				s2, isC := strConst(call.Call.Args[1])
				okSplit = isC && s2 == sep
			}
			r.Check(okSplit, rule, fnKey(ps)+" / textual list operand is split with the inverse of the printer's join",
				fmt.Sprintf("strings.Split(v, %q) inverts strings.Join(value, %q)", sep, sep),
				fmt.Sprintf("the list operand is taken apart with %s, which is not the inverse of strings.Join(value, %q): empty elements are dropped or elements merged, the printed query parses to a different list", cn, sep), c.Pos(call.Pos()))
		}
	})
	if n == 0 {
		r.Undecided(rule, fnKey(ps), "no parsed list value found")
	}
}

// sprintfVerbFor returns the verb fmt.Sprintf applies to the variadic argument that derives from pred.
func sprintfVerbFor(c *Ctx, fn *ssa.Function, pred func(ssa.Value) bool) (string, ssa.Instruction, bool) {
	for _, ci := range callsIn(fn, "fmt.Sprintf") {
		call, ok := ci.(*ssa.Call)
		if !ok {
			continue
		}
		cst, ok := call.Call.Args[0].(*ssa.Const)
		if !ok || cst.Value == nil || cst.Value.Kind() != constant.String {
			continue
		}
		format := constant.StringVal(cst.Value)
		var verbs []string
		for i := 0; i < len(format); i++ {
			if format[i] != '%' {
				continue
			}
			j := i + 1
			for j < len(format) && strings.ContainsRune("+-# 0123456789.", rune(format[j])) {
				j++
			}
			if j < len(format) {
				if format[j] != '%' {
					verbs = append(verbs, format[i:j+1])
				}
				i = j
			}
		}
		for k := range verbs {
			el := variadicElem(call, k)
			if el == nil {
				continue
			}
			if mi, ok := el.(*ssa.MakeInterface); ok {
				el = mi.X
			}
			if pred(unwrapConv(el)) {
				return verbs[k], call, true
			}
		}
	}
	return "", nil, false
}

// c11R8: printed numbers parse back to the same number.
func c11R8(c *Ctx, r *Report) {
	const rule = "C11-R8"
	r.SetFloor(rule, 3)
	for _, t := range []struct {
		typ   string
		verbs []string
		conv  string
	}{{"floatCondition", []string{"%g", "%v"}, "strconv.FormatFloat"}, {"intCondition", []string{"%d", "%v"}, "strconv.FormatInt"}, {"boolCondition", []string{"%t", "%v"}, "strconv.FormatBool"}} {
		fn := c.Func("database/query.(*" + t.typ + ").string")
		if fn == nil {
			r.Undecided(rule, "database/query.(*"+t.typ+").string", "anchor function missing")
			continue
		}
		isVal := func(v ssa.Value) bool { return fieldLoadOf(v, "database/query."+t.typ, "value") }
		cons := fnKey(fn) + " / operand is printed losslessly"
		if verb, _, ok := sprintfVerbFor(c, fn, isVal); ok {
			good := false
			for _, v := range t.verbs {
				good = good || verb == v
			}
			r.Check(good, rule, cons, "printed with "+verb, "the operand is printed with "+verb+": precision or representation is lost and the printed query parses to a different value")
			continue
		}
		decided := false
		for _, ci := range callsIn(fn, t.conv) {
			a := ci.Common().Args
			if !isVal(unwrapConv(a[0])) {
				continue
			}
			decided = true
			good := true
			if t.conv == "strconv.FormatFloat" {
				prec, ok1 := constInt(a[2])
				bits, ok2 := constInt(a[3])
				good = ok1 && ok2 && prec == -1 && bits == 64
			}
			if t.conv == "strconv.FormatInt" {
				base, ok1 := constInt(a[1])
				good = ok1 && base == 10
			}
			r.Check(good, rule, cons, "formatted with "+t.conv+" at full precision", "the operand is formatted with reduced precision (or another base): the printed query parses to a different value", c.Pos(ci.Pos()))
		}
		if !decided {
			r.Undecided(rule, cons, "how the operand is printed was not recognised")
		}
	}
}
