package main

import (
	"fmt"
	"go/token"
	"go/types"
	"sort"
	"strings"

	"golang.org/x/tools/go/ssa"
)

var _ = fmt.Sprintf
var _ = token.ADD
var _ = types.Typ
var _ = sort.Strings
var _ = strings.Contains

// anyErrRuleFor: in the selected functions the error result of EVERY call is
// examined on every path - static callees of any package, interface methods and
// calls through function values (parameters, captured variables, fields).
func anyErrRuleFor(rule string, floor int, sel func(c *Ctx, fn *ssa.Function) bool, exempt map[string]string) ruleFn {
	return func(c *Ctx, r *Report) {
		r.SetFloor(rule, floor)
		var fns []*ssa.Function
		for _, fn := range c.AllFuncs() {
			if sel(c, fn) {
				fns = append(fns, fn)
			}
		}
		if len(fns) == 0 {
			r.Undecided(rule, "functions", "no function selected")
			return
		}
		errUseRule(c, r, rule, fns, func(fn *ssa.Function, cc *ssa.CallCommon) (string, bool) {
			if cc.IsInvoke() {
				if p := cc.Method.Pkg(); p != nil {
					return short(p.Path()) + "." + cc.Method.Name(), true
				}
				return cc.Method.Name(), true
			}
			if callee := staticCallee(cc); callee != nil {
				n := calleeName(cc)
				if strings.HasPrefix(n, "strings.Builder.") || strings.HasPrefix(n, "bytes.Buffer.Write") {
					return "", false // documented to always return a nil error
				}
				return n, true
			}
			if _, isBuiltin := cc.Value.(*ssa.Builtin); isBuiltin {
				return "", false
			}
			name := cc.Value.Name()
			if p := vpath(cc.Value); p != "" {
				name = p
			}
			return "func value " + name, true
		}, exempt)
	}
}

// extend adds rules (and their explanation) to an already registered property.
func extend(id, expl string, rules ...ruleFn) {
	p := props[id]
	if p == nil {
		panic("extend: unknown property " + id)
	}
	if i := strings.Index(p.Explanation, "NOT decided"); i >= 0 {
		p.Explanation = p.Explanation[:i] + expl + " " + p.Explanation[i:]
	} else {
		p.Explanation += " " + expl
	}
	p.Rules = append(p.Rules, rules...)
}

// ---- A16 accessor distinctness -------------------------------------------------
// A method whose whole body returns one field of its receiver is a getter of
// that field. Two different getters of one type returning the same field
// contradict each other (one of them answers with the wrong field) unless the
// pair is a named alias.

type trivialGetter struct {
	Fn    *ssa.Function
	Recv  string
	Field string
}

func trivialGetterOf(fn *ssa.Function) (trivialGetter, bool) {
	if fn.Signature.Recv() == nil || len(fn.Blocks) != 1 || fn.Signature.Results().Len() != 1 {
		return trivialGetter{}, false
	}
	var ret *ssa.Return
	n := 0
	for _, in := range fn.Blocks[0].Instrs {
		switch x := in.(type) {
		case *ssa.Return:
			ret = x
		case *ssa.FieldAddr, *ssa.UnOp, *ssa.Field, *ssa.DebugRef:
		default:
			n++
		}
	}
	if ret == nil || n > 0 || len(ret.Results) != 1 || len(fn.Params) == 0 {
		return trivialGetter{}, false
	}
	v := ret.Results[0]
	var base ssa.Value
	var field string
	switch x := v.(type) {
	case *ssa.UnOp:
		fa, ok := x.X.(*ssa.FieldAddr)
		if !ok || x.Op != token.MUL {
			return trivialGetter{}, false
		}
		base, field = fa.X, fieldName(fa.X.Type(), fa.Field)
	case *ssa.Field:
		base, field = x.X, fieldName(x.X.Type(), x.Field)
	default:
		return trivialGetter{}, false
	}
	if u, ok := base.(*ssa.UnOp); ok && u.Op == token.MUL { // value receiver spilled
		base = u.X
	}
	if base != ssa.Value(fn.Params[0]) {
		if a, ok := base.(*ssa.Alloc); !ok || a.Comment != fn.Params[0].Name() {
			return trivialGetter{}, false
		}
	}
	recv := types.TypeString(fn.Signature.Recv().Type(), func(p *types.Package) string { return short(p.Path()) })
	return trivialGetter{fn, strings.TrimPrefix(recv, "*"), field}, true
}

// accessorDistinctRule: among the trivial getters of the types of pkgs no two return the same field.
func accessorDistinctRule(c *Ctx, r *Report, rule string, floor int, pkgs []string, alias map[string]string) {
	r.SetFloor(rule, floor)
	by := map[string][]trivialGetter{}
	for _, fn := range c.AllFuncs() {
		if fn.Pkg == nil || !inList(short(fn.Pkg.Pkg.Path()), pkgs) {
			continue
		}
		if g, ok := trivialGetterOf(fn); ok {
			by[g.Recv+"."+g.Field] = append(by[g.Recv+"."+g.Field], g)
		}
	}
	keys := make([]string, 0, len(by))
	for k := range by {
		keys = append(keys, k)
	}
	sort.Strings(keys)
	for _, k := range keys {
		gs := by[k]
		sort.Slice(gs, func(i, j int) bool { return fnKey(gs[i].Fn) < fnKey(gs[j].Fn) })
		for _, g := range gs {
			var clash []string
			for _, o := range gs {
				if o.Fn != g.Fn && alias[fnKey(g.Fn)+" ~ "+fnKey(o.Fn)] == "" && alias[fnKey(o.Fn)+" ~ "+fnKey(g.Fn)] == "" {
					clash = append(clash, fnKey(o.Fn))
				}
			}
			r.Check(len(clash) == 0, rule, fnKey(g.Fn)+" / the only getter of the field it returns", "no other method of "+g.Recv+" returns field "+g.Field,
				fnKey(g.Fn)+" returns field "+g.Field+", which "+strings.Join(clash, ", ")+" also returns: one of the accessors answers with the wrong field", c.Pos(g.Fn.Pos()))
		}
	}
}

func inList(s string, l []string) bool {
	for _, x := range l {
		if x == s {
			return true
		}
	}
	return false
}

func probeGetters(c *Ctx) {
	for _, fn := range c.AllFuncs() {
		if g, ok := trivialGetterOf(fn); ok {
			fmt.Printf("%s\t%s.%s\n", fnKey(fn), g.Recv, g.Field)
		}
	}
}

// ---- guarded subtraction ----------------------------------------------------------
// In length arithmetic a difference a-b of two run-time quantities is only
// meaningful when a >= b was established; otherwise it goes negative and the
// next slice expression or comparison misbehaves.
func guardedSubRule(c *Ctx, r *Report, rule string, floor int, fns []*ssa.Function, exempt map[string]string) {
	r.SetFloor(rule, floor)
	for _, fn := range fns {
		ord := map[string]int{}
		eachInstr(fn, func(in ssa.Instruction) {
			bo, ok := in.(*ssa.BinOp)
			if !ok || bo.Op != token.SUB {
				return
			}
			if b, isBasic := bo.Type().Underlying().(*types.Basic); !isBasic || b.Info()&types.IsInteger == 0 {
				return
			}
			if _, isC := constInt(bo.Y); isC {
				return
			}
			if _, isC := constInt(bo.X); isC {
				return
			}
			cons := ordinal(ord, fmt.Sprintf("%s / %s - %s", fnKey(fn), exprStr(bo.X), exprStr(bo.Y)))
			if why, ok := exempt[fnKey(fn)+" / "+exprStr(bo.X)+" - "+exprStr(bo.Y)]; ok {
				r.Trivial(rule, cons, "named exception: "+why)
				return
			}
			same := func(want ssa.Value) func(ssa.Value) bool {
				return func(v ssa.Value) bool {
					return sameExpr(v, want, 0)
				}
			}
			gs := relGuards("minuend >= subtrahend", same(bo.X), same(bo.Y), func(a, b int64) bool { return a >= b })
			p := ReachTargetAvoiding(fn, in, gs, nil)
			r.Check(p == nil, rule, cons, "dominated by a test implying minuend >= subtrahend",
				"the difference "+exprStr(bo.X)+" - "+exprStr(bo.Y)+" is computed without an established minuend >= subtrahend: it can go negative and the slice expression / remaining-count test that uses it misbehaves", append([]string{c.Pos(in.Pos())}, c.pathString(p)...)...)
		})
	}
}

// sameExpr: a and b denote the same quantity - the same SSA value, or the same
// expression evaluated again (go/ssa has no CSE): len/cap of the same operand, a
// load of the same field / element.
func sameExpr(a, b ssa.Value, d int) bool {
	if a == b {
		return true
	}
	if d > 8 || a == nil || b == nil {
		return false
	}
	a, b = unwrapConv(a), unwrapConv(b)
	if a == b {
		return true
	}
	switch x := a.(type) {
	case *ssa.Const:
		y, ok := b.(*ssa.Const)
		return ok && x.Value != nil && y.Value != nil && x.Value.ExactString() == y.Value.ExactString()
	case *ssa.Call:
		y, ok := b.(*ssa.Call)
		if !ok {
			return false
		}
		n := calleeName(&x.Call)
		if (n != "builtin.len" && n != "builtin.cap") || n != calleeName(&y.Call) {
			return false
		}
		return sameExpr(x.Call.Args[0], y.Call.Args[0], d+1)
	case *ssa.UnOp:
		y, ok := b.(*ssa.UnOp)
		return ok && x.Op == y.Op && sameExpr(x.X, y.X, d+1)
	case *ssa.FieldAddr:
		y, ok := b.(*ssa.FieldAddr)
		return ok && x.Field == y.Field && sameExpr(x.X, y.X, d+1)
	case *ssa.Field:
		y, ok := b.(*ssa.Field)
		return ok && x.Field == y.Field && sameExpr(x.X, y.X, d+1)
	case *ssa.IndexAddr:
		y, ok := b.(*ssa.IndexAddr)
		return ok && sameExpr(x.X, y.X, d+1) && sameExpr(x.Index, y.Index, d+1)
	case *ssa.Index:
		y, ok := b.(*ssa.Index)
		return ok && sameExpr(x.X, y.X, d+1) && sameExpr(x.Index, y.Index, d+1)
	}
	return false
}

// exprStr renders a value by the source-level quantity it denotes (stable under unrelated edits).
func exprStr(v ssa.Value) string {
	return exprStrD(v, 0)
}

func exprStrD(v ssa.Value, d int) string {
	if v == nil || d > 8 {
		return "_"
	}
	if k, ok := constInt(v); ok {
		return fmt.Sprint(k)
	}
	v = unwrapConv(v)
	switch x := v.(type) {
	case *ssa.Parameter:
		return x.Name()
	case *ssa.FreeVar:
		return x.Name()
	case *ssa.Phi:
		if x.Comment != "" {
			return x.Comment
		}
		return "phi"
	case *ssa.Global:
		return x.Name()
	case *ssa.Alloc:
		if x.Comment != "" {
			return x.Comment
		}
	case *ssa.Call:
		n := calleeName(&x.Call)
		if (n == "builtin.len" || n == "builtin.cap") && len(x.Call.Args) == 1 {
			return strings.TrimPrefix(n, "builtin.") + "(" + exprStrD(x.Call.Args[0], d+1) + ")"
		}
		if n != "" {
			return n + "()"
		}
		return "call"
	case *ssa.UnOp:
		if x.Op == token.MUL {
			return exprStrD(x.X, d+1)
		}
		return x.Op.String() + exprStrD(x.X, d+1)
	case *ssa.FieldAddr:
		return exprStrD(x.X, d+1) + "." + fieldName(x.X.Type(), x.Field)
	case *ssa.Field:
		return exprStrD(x.X, d+1) + "." + fieldName(x.X.Type(), x.Field)
	case *ssa.IndexAddr:
		return exprStrD(x.X, d+1) + "[" + exprStrD(x.Index, d+1) + "]"
	case *ssa.Index:
		return exprStrD(x.X, d+1) + "[" + exprStrD(x.Index, d+1) + "]"
	case *ssa.BinOp:
		return "(" + exprStrD(x.X, d+1) + x.Op.String() + exprStrD(x.Y, d+1) + ")"
	case *ssa.Extract:
		return exprStrD(x.Tuple, d+1) + "#" + fmt.Sprint(x.Index)
	case *ssa.Slice:
		return exprStrD(x.X, d+1) + "[:]"
	}
	return "expr"
}

var c16SubExempt = map[string]string{
	"container.(*Container).GetNextBlock / container.Container.Length() - formats/varint.Unpack64()#1":            "the subtrahend is the number of bytes Unpack64 consumed from Peek(10)'s result, which is never more than the container holds (C10-R1/R2: the reported length lies within the input)",
	"container.(*Container).GetNextBlockAsContainer / container.Container.Length() - formats/varint.Unpack64()#1": "as above",
	"container.(*Container).renewCompartments / len(c.compartments) - c.offset": "container invariant offset <= len(compartments), maintained by every store to offset (C16-R1, R2, R6)",
}

func init() {
	extend("C16", "(R15) length arithmetic: every difference of two run-time quantities in package container is computed under an established minuend >= subtrahend (a remaining-count that goes negative turns the next slice expression into a panic or a wrong result).",
		func(c *Ctx, r *Report) {
			var fns []*ssa.Function
			for _, fn := range c.AllFuncs() {
				if fn.Pkg != nil && short(fn.Pkg.Pkg.Path()) == "container" {
					fns = append(fns, fn)
				}
			}
			guardedSubRule(c, r, "C16-R15", 2, fns, c16SubExempt)
		})
	extend("C10", "(R8) = C16-R15 (length arithmetic in package container: a remaining-count never goes negative before it is used as a slice bound, so block extraction from a chunked container fails with nil/an error instead of panicking).",
		borrowRule(func(c *Ctx, r *Report) {
			var fns []*ssa.Function
			for _, fn := range c.AllFuncs() {
				if fn.Pkg != nil && short(fn.Pkg.Pkg.Path()) == "container" {
					fns = append(fns, fn)
				}
			}
			guardedSubRule(c, r, "C16-R15", 2, fns, c16SubExempt)
		}, "C16-R15", "C10-R8", 2, nil))
}

func funcsOfPkgs(c *Ctx, pkgs ...string) []*ssa.Function {
	var fns []*ssa.Function
	for _, fn := range c.AllFuncs() {
		if fn.Pkg != nil && inList(short(fn.Pkg.Pkg.Path()), pkgs) {
			fns = append(fns, fn)
		}
	}
	return fns
}

// c16R16: an offset indexes the compartments of the container it belongs to.
func c16R16(c *Ctx, r *Report) {
	const rule = "C16-R16"
	r.SetFloor(rule, 4)
	for _, fn := range funcsOfPkgs(c, "container") {
		n := 0
		var bad []string
		eachInstr(fn, func(in ssa.Instruction) {
			var x ssa.Value
			var bounds []ssa.Value
			switch a := in.(type) {
			case *ssa.Slice:
				x, bounds = a.X, []ssa.Value{a.Low, a.High, a.Max}
			case *ssa.IndexAddr:
				x, bounds = a.X, []ssa.Value{a.Index}
			default:
				return
			}
			b1, f1, ok := fieldLoad(x)
			if !ok || f1.Name != "compartments" {
				return
			}
			for _, b := range bounds {
				if b == nil {
					continue
				}
				for _, leaf := range c.Leaves(b) {
					b2, f2, ok := fieldLoad(leaf)
					if !ok || f2.Name != "offset" {
						continue
					}
					n++
					if !sameExpr(b1, b2, 0) {
						bad = append(bad, "the compartments of "+exprStr(b1)+" are indexed with the offset of "+exprStr(b2)+" at "+c.Pos(in.Pos()))
					}
				}
			}
		})
		if n == 0 {
			continue
		}
		r.Check(len(bad) == 0, rule, fnKey(fn)+" / offsets index their own container's compartments", fmt.Sprintf("%d offset-derived accesses, each on the compartments of the same container", n),
			strings.Join(bad, "; ")+": the consumed prefix of one container is applied to another, dropping or re-delivering bytes")
	}
}

// everyIterationRule: the innermost loop around the (first) instruction satisfying
// pred executes such an instruction on every iteration.
func everyIteration(fn *ssa.Function, pred func(ssa.Instruction) bool) (found bool, path []*ssa.BasicBlock) {
	var at ssa.Instruction
	eachInstr(fn, func(in ssa.Instruction) {
		if at == nil && pred(in) {
			at = in
		}
	})
	if at == nil {
		return false, nil
	}
	reach := blockReach(fn)
	blk := at.Block()
	var header *ssa.BasicBlock
	for _, h := range fn.Blocks {
		if !h.Dominates(blk) || h == blk && len(h.Preds) < 2 {
			continue
		}
		isHeader := false
		for _, p := range h.Preds {
			if h.Dominates(p) && (p == blk || reach[blk][p]) {
				isHeader = true
			}
		}
		if isHeader && (header == nil || header.Dominates(h)) {
			header = h
		}
	}
	if header == nil {
		return true, []*ssa.BasicBlock{blk} // not in a loop
	}
	first := header.Instrs[0]
	for _, s := range header.Succs {
		if !header.Dominates(s) || !(s == header || reach[s][header]) {
			continue
		}
		if p := reachFromBlockStart(fn, s, func(in ssa.Instruction) bool { return in == first }, nil, pred); p != nil {
			return true, p
		}
	}
	return true, nil
}

// c01R13: buildEnabledTree clears every module's dependency mark before marking.
func c01R13(c *Ctx, r *Report) {
	const rule = "C01-R13"
	r.SetFloor(rule, 1)
	fn := c.Func("modules.buildEnabledTree")
	if fn == nil {
		r.Undecided(rule, "modules.buildEnabledTree", "anchor function missing")
		return
	}
	found, p := everyIteration(fn, func(in ssa.Instruction) bool {
		_, m, ok := aboolOp(in)
		if !ok || !(m == "UnSet" || m == "SetTo" || m == "Set") {
			return false
		}
		_, f, isF := fieldLoad(in.(ssa.CallInstruction).Common().Args[0])
		return isF && f.Name == "enabledAsDependency"
	})
	if !found {
		r.Bad(rule, "modules.buildEnabledTree / clears every dependency mark", "buildEnabledTree no longer resets enabledAsDependency")
		return
	}
	r.Check(p == nil, rule, "modules.buildEnabledTree / clears every dependency mark", "every iteration of the reset loop clears the module's mark",
		"the reset loop skips some modules: a dependency mark from an earlier management pass survives, and a module nobody wants is started or kept online", c.pathString(p)...)
}

// c01R14: readyToPrep/Start/Stop answer "ready" only after the loop over the (reverse) dependencies ran to its end.
func c01R14(c *Ctx, r *Report) {
	const rule = "C01-R14"
	r.SetFloor(rule, 3)
	for _, name := range []string{"modules.(*Module).readyToPrep", "modules.(*Module).readyToStart", "modules.(*Module).readyToStop"} {
		fn := c.Func(name)
		if fn == nil {
			r.Undecided(rule, name, "anchor function missing")
			continue
		}
		readyVal, okc := c.constVal("modules", "statusReady")
		if !okc {
			r.Undecided(rule, "modules.statusReady", "constant missing")
			return
		}
		ready := func(in ssa.Instruction) bool {
			ret, ok := in.(*ssa.Return)
			if !ok || len(ret.Results) != 1 {
				return false
			}
			for _, l := range c.Leaves(ret.Results[0]) {
				if k, isC := constInt(l); isC && k == readyVal {
					return true
				}
			}
			return false
		}
		// loop headers: blocks with a back edge
		var bad []*ssa.BasicBlock
		loops := 0
		reach := blockReach(fn)
		for _, h := range fn.Blocks {
			back := false
			for _, p := range h.Preds {
				if h.Dominates(p) {
					back = true
				}
			}
			if !back {
				continue
			}
			loops++
			first := h.Instrs[0]
			for _, s := range h.Succs {
				if !(s == h || reach[s][h]) {
					continue
				}
				if p := reachFromBlockStart(fn, s, ready, nil, func(in ssa.Instruction) bool { return in == first }); p != nil {
					bad = p
				}
			}
		}
		degenerate := false
		if loops == 0 {
			for _, b := range fn.Blocks {
				if strings.HasSuffix(b.Comment, ".loop") || b.Comment == "for.body" || (strings.HasPrefix(b.Comment, "range") && strings.HasSuffix(b.Comment, ".body")) {
					degenerate = true // a loop statement whose body never repeats: it is left in its first iteration
				}
			}
		}
		if degenerate {
			r.Bad(rule, name+" / ready only after every dependency was looked at", "the loop over the dependencies never gets past its first iteration (every path through the body leaves the loop): dependencies later in the list are never looked at")
			continue
		}
		if loops == 0 {
			// the loop lives in a helper now: which dependency states allow `ready` is C01-R1's table
			r.Trivial(rule, name+" / ready only after every dependency was looked at", "no loop in the function itself (delegated); the dependency-state table C01-R1 decides the answer")
			continue
		}
		r.Check(bad == nil, rule, name+" / ready only after every dependency was looked at", "the only way from the loop body to the ready answer is through the loop's end",
			"the loop over the dependencies is left early towards the `ready` answer: dependencies later in the list are never looked at, and a module starts (stops) while one of them is still starting (running)", c.pathString(bad)...)
	}
}

func init() {
	extend("C16", "(R16) an offset only ever indexes the compartments of the container it belongs to.", c16R16)
	extend("C01", "(R13) buildEnabledTree clears the dependency mark of every module before it marks anew (no condition skips a module); (R14) readyToPrep/readyToStart/readyToStop reach their `ready` answer from inside the dependency loop only through the loop's end, so every (reverse) dependency is looked at.", c01R13, c01R14)
}

// mustPassOnSuccess: every path from the entry of fn to a return with a nil error executes an instruction satisfying pred.
func mustPassOnSuccess(c *Ctx, r *Report, rule, fname, what, why string, pred func(ssa.Instruction) bool, guards []Guard) {
	fn := c.Func(fname)
	if fn == nil {
		r.Undecided(rule, fname, "anchor function missing")
		return
	}
	p := ReachFromAvoiding(fn, nil, isNilErrReturn, guards, pred)
	r.Check(p == nil, rule, fname+" / "+what, "every successful return is preceded by it", why, c.pathString(p)...)
}

func isInvokeOrCallNamed(suffix string) func(ssa.Instruction) bool {
	return func(in ssa.Instruction) bool {
		ci, ok := in.(*ssa.Call)
		if !ok {
			return false
		}
		n := calleeName(ci.Common())
		return n == suffix || strings.HasSuffix(n, "."+suffix)
	}
}

// c04R15: loadConfig replaces the configuration with the file's content whenever it reports success for a configured file.
func c04R15(c *Ctx, r *Report) {
	const rule = "C04-R15"
	r.SetFloor(rule, 1)
	pathEmpty := Guard{Name: "configFilePath == \"\"", Truthy: true, Match: func(b ssa.Value) bool {
		bo, ok := b.(*ssa.BinOp)
		if !ok || bo.Op != token.EQL {
			return false
		}
		isPath := func(v ssa.Value) bool { return strings.HasSuffix(vpath(v), "config.configFilePath") }
		isEmpty := func(v ssa.Value) bool { s, ok := constStrVal(v); return ok && s == "" }
		return (isPath(bo.X) && isEmpty(bo.Y)) || (isPath(bo.Y) && isEmpty(bo.X))
	}}
	mustPassOnSuccess(c, r, rule, "config.loadConfig", "a successful load replaces the configuration", "loadConfig reports success for a configured file without calling ReplaceConfig on some path: settings that are not in the file (any more) stay active, so a save/load round trip does not restore the saved state",
		isInvokeOrCallNamed("config.ReplaceConfig"), []Guard{pathEmpty})
}

// c07R16: Cancel marks the task as canceled on every path.
func c07R16(c *Ctx, r *Report) {
	const rule = "C07-R16"
	r.SetFloor(rule, 1)
	fn := c.Func("modules.(*Task).Cancel")
	if fn == nil {
		r.Undecided(rule, "modules.(*Task).Cancel", "anchor function missing")
		return
	}
	store := func(in ssa.Instruction) bool {
		if !isFieldStore("modules.Task", "canceled")(in) {
			return false
		}
		v, ok := in.(*ssa.Store).Val.(*ssa.Const)
		return ok && v.Value != nil && v.Value.ExactString() == "true"
	}
	p := ReachFromAvoiding(fn, nil, isExit, nil, store)
	r.Check(p == nil, rule, "modules.(*Task).Cancel / sets canceled on every path", "every path stores canceled = true",
		"Cancel can return without marking the task as canceled (e.g. while it is executing): a pending schedule or queue entry of the same task runs it again", c.pathString(p)...)
}

// chanOpOnGlobal: in sends on (dir>0) / receives from (dir<0) the package-level channel pkg.name (plain or as a select case).
func chanSendOnGlobal(global string) func(ssa.Instruction) bool {
	is := func(v ssa.Value) bool { return vpath(v) == "global:"+global }
	return func(in ssa.Instruction) bool {
		switch x := in.(type) {
		case *ssa.Send:
			return is(x.Chan)
		case *ssa.Select:
			for _, st := range x.States {
				if st.Dir == types.SendOnly && is(st.Chan) {
					return true
				}
			}
		}
		return false
	}
}

// c07R15: the functions that change what the scheduler / queue handler has to look at wake the right one.
func c07R15(c *Ctx, r *Report) {
	const rule = "C07-R15"
	r.SetFloor(rule, 5)
	table := []struct{ fn, ch, why string }{
		{"modules.SetSleepMode", "modules.notifyTaskScheduler", "the schedule handler sleeps through the end of sleep mode: a scheduled task that became due meanwhile is not started until something else wakes the scheduler"},
		{"modules.(*Task).addToSchedule", "modules.notifyTaskScheduler", "a newly scheduled task is not seen by the schedule handler until its current timer fires"},
		{"modules.(*Task).Queue", "modules.queueIsFilled", "the queue handler is not woken for the queued task"},
		{"modules.(*Task).QueuePrioritized", "modules.queueIsFilled", "the queue handler is not woken for the queued task"},
		{"modules.(*Task).StartASAP", "modules.queueIsFilled", "the queue handler is not woken for the queued task"},
	}
	reachCache := map[string]map[*ssa.Function]bool{}
	for _, t := range table {
		fn := c.Func(t.fn)
		if fn == nil {
			r.Undecided(rule, t.fn, "anchor function missing")
			continue
		}
		if reachCache[t.ch] == nil {
			reachCache[t.ch] = c.mayReach(chanSendOnGlobal(t.ch))
		}
		r.Check(reachCache[t.ch][fn], rule, t.fn+" / wakes "+t.ch, "a send on the channel is reachable from the function",
			t.fn+" no longer signals "+t.ch+": "+t.why, c.Pos(fn.Pos()))
	}
}

// c08R12: Unwrap transfers the metadata on every successful path.
func c08R12(c *Ctx, r *Report) {
	const rule = "C08-R12"
	r.SetFloor(rule, 1)
	mustPassOnSuccess(c, r, rule, "database/record.Unwrap", "sets the metadata", "Unwrap can succeed without transferring the metadata to the typed record: the unwrapped record does not equal the original (no or stale metadata)", isInvokeOrCallNamed("SetMeta"), nil)
}

// c11R18: Check hands out a query as valid only with the checked flag set.
func c11R18(c *Ctx, r *Report) {
	const rule = "C11-R18"
	r.SetFloor(rule, 1)
	store := func(in ssa.Instruction) bool {
		if !isFieldStore("database/query.Query", "checked")(in) {
			return false
		}
		v, ok := in.(*ssa.Store).Val.(*ssa.Const)
		return ok && v.Value != nil && v.Value.ExactString() == "true"
	}
	mustPassOnSuccess(c, r, rule, "database/query.(*Query).Check", "a successfully checked query carries the checked flag",
		"Check returns the query without error and without the checked flag on some path (e.g. no where clause): parsing then yields an unchecked query",
		store, []Guard{fieldLoadGuard("q.checked is set", "database/query.Query", "checked", true)})
}

// c11R19: operator spellings live in the operatorNames table only.
func c11R19(c *Ctx, r *Report) {
	const rule = "C11-R19"
	r.SetFloor(rule, 20)
	keys := map[string]bool{}
	for _, fn := range funcsOfPkgs(c, "database/query") {
		if fn.Name() != "init" {
			continue
		}
		eachInstr(fn, func(in ssa.Instruction) {
			mu, ok := in.(*ssa.MapUpdate)
			if !ok {
				return
			}
			if !strings.HasSuffix(vpath(mu.Map), "database/query.operatorNames") {
				if mk, isMk := mu.Map.(*ssa.MakeMap); !isMk || !referrersStoreTo(mk, "operatorNames") {
					return
				}
			}
			if s, ok := constStrVal(mu.Key); ok {
				keys[s] = true
			}
		})
	}
	if len(keys) == 0 {
		r.Undecided(rule, "database/query.operatorNames", "operator name table not found")
		return
	}
	keyword := map[string]bool{"not": true, "and": true, "or": true} // grammar keywords that are not operator spellings
	var bad []string
	n := 0
	for _, fn := range funcsOfPkgs(c, "database/query") {
		if fn.Name() == "init" {
			continue
		}
		eachInstr(fn, func(in ssa.Instruction) {
			bo, ok := in.(*ssa.BinOp)
			if !ok || (bo.Op != token.EQL && bo.Op != token.NEQ) {
				return
			}
			for _, v := range []ssa.Value{bo.X, bo.Y} {
				if s, ok := constStrVal(v); ok {
					n++
					if keys[s] && !keyword[s] {
						bad = append(bad, fmt.Sprintf("%s compares text with the operator spelling %q at %s", fnKey(fn), s, c.Pos(in.Pos())))
					}
				}
			}
		})
	}
	for k := range keys {
		_ = k
		n++
	}
	r.SetFloor(rule, 1)
	r.Check(len(bad) == 0, rule, "database/query / operator spellings only in operatorNames", fmt.Sprintf("%d operator spellings in the table, none compared with anywhere else in the package", len(keys)),
		strings.Join(bad, "; ")+": a decision taken on one spelling of an operator misses its documented aliases (the table maps several spellings to one operator)")
}

func referrersStoreTo(v ssa.Value, global string) bool {
	if v.Referrers() == nil {
		return false
	}
	for _, ref := range *v.Referrers() {
		if st, ok := ref.(*ssa.Store); ok && strings.HasSuffix(vpath(st.Addr), "."+global) {
			return true
		}
	}
	return false
}

// ---- C05-R13: foreign work runs only while it is counted --------------------------
// Every call through a function value that takes a context (worker / task /
// microtask / hook function) in package modules happens after one of the
// module's activity counters was incremented - in the same function, or in
// every function that leads to it (callers, or the function a closure is handed to).
func c05R13(c *Ctx, r *Report) {
	const rule = "C05-R13"
	r.SetFloor(rule, 4)
	isInc := func(in ssa.Instruction) bool {
		ci, ok := in.(*ssa.Call)
		if !ok || calleeName(ci.Common()) != "sync/atomic.AddInt32" || len(ci.Call.Args) != 2 {
			return false
		}
		k, isC := constInt(ci.Call.Args[1])
		if !isC || k != 1 {
			return false
		}
		_, isCounter := counterOf(counterPath(ci.Call.Args[0]))
		return isCounter
	}
	mods := funcsOfPkgs(c, "modules")
	// static call sites of every function (whole repo)
	sites := map[*ssa.Function][]ssa.Instruction{}
	for _, fn := range c.AllFuncs() {
		eachInstr(fn, func(in ssa.Instruction) {
			if ci, ok := in.(ssa.CallInstruction); ok {
				if callee := staticCallee(ci.Common()); callee != nil {
					sites[callee] = append(sites[callee], in)
				}
			}
		})
	}
	var counted func(fn *ssa.Function, site ssa.Instruction, depth int, trail []string) (bool, []string)
	counted = func(fn *ssa.Function, site ssa.Instruction, depth int, trail []string) (bool, []string) {
		trail = append(trail, fnKey(fn)+" ("+c.Pos(site.Pos())+")")
		if MustPrecede(fn, isInc, site) {
			return true, nil
		}
		if depth > 4 {
			return false, trail
		}
		if fn.Parent() != nil { // closure: where does it go?
			ok := false
			var worst []string
			eachInstr(fn.Parent(), func(in ssa.Instruction) {
				mc, isMC := in.(*ssa.MakeClosure)
				if !isMC || mc.Fn != ssa.Value(fn) || mc.Referrers() == nil {
					return
				}
				for _, ref := range *mc.Referrers() {
					ci, isCall := ref.(ssa.CallInstruction)
					if !isCall {
						worst = append(trail, "closure escapes at "+c.Pos(ref.Pos()))
						ok = false
						return
					}
					if ci.Common().Value == ssa.Value(mc) { // called / go'd / deferred directly
						good, t := counted(fn.Parent(), ref, depth+1, trail)
						ok = good
						worst = t
						continue
					}
					// handed to a function: that function must use the parameter in a counted place
					callee := staticCallee(ci.Common())
					if callee == nil {
						ok, worst = false, append(trail, "closure handed to an unresolved callee at "+c.Pos(ref.Pos()))
						continue
					}
					idx := -1
					for i, a := range callArgs(ci.Common()) {
						if a == ssa.Value(mc) {
							idx = i
						}
					}
					if idx < 0 || idx >= len(callee.Params) {
						ok, worst = false, append(trail, "closure argument not found")
						continue
					}
					param := callee.Params[idx]
					good := param.Referrers() != nil && len(*param.Referrers()) > 0
					for _, u := range *param.Referrers() {
						ui, isInstr := u.(ssa.Instruction)
						if _, isDbg := u.(*ssa.DebugRef); isDbg || !isInstr {
							continue
						}
						if !MustPrecede(callee, isInc, ui) {
							good = false
							worst = append(trail, fnKey(callee)+" uses the handed-in function before counting ("+c.Pos(ui.Pos())+")")
						}
					}
					ok = good
				}
			})
			return ok, worst
		}
		cs := sites[fn]
		if len(cs) == 0 {
			return false, append(trail, "entry point without counting")
		}
		for _, s := range cs {
			if good, t := counted(s.Parent(), s, depth+1, trail); !good {
				return false, t
			}
		}
		return true, nil
	}
	ctxType := func(t types.Type) bool { return types.TypeString(t, nil) == "context.Context" }
	for _, fn := range mods {
		ord := map[string]int{}
		eachInstr(fn, func(in ssa.Instruction) {
			ci, ok := in.(ssa.CallInstruction)
			if !ok {
				return
			}
			cc := ci.Common()
			if cc.IsInvoke() || staticCallee(cc) != nil {
				return
			}
			if _, isB := cc.Value.(*ssa.Builtin); isB {
				return
			}
			sig := callSignature(cc)
			if sig == nil || sig.Params().Len() == 0 || !ctxType(sig.Params().At(0).Type()) {
				return
			}
			if _, isMC := cc.Value.(*ssa.MakeClosure); isMC {
				return
			}
			cons := ordinal(ord, fnKey(fn)+" / runs "+exprStr(cc.Value)+" while counted")
			good, trail := counted(fn, in, 0, nil)
			r.Check(good, rule, cons, "an activity counter is incremented before the function value is called, on every way to it",
				"a work function is started without the module's activity counter being raised on this way: "+strings.Join(trail, " <- ")+": the stop sequence does not wait for it, the module is reported offline and Shutdown returns while it still runs", c.Pos(in.Pos()))
		})
	}
}

// c13R14: what the bbolt query executor hands to the iterator is built from a copy of the transaction's memory.
func c13R14(c *Ctx, r *Report) {
	const rule = "C13-R14"
	r.SetFloor(rule, 2)
	txMem := func(v ssa.Value) (string, bool) {
		for _, l := range c.Leaves(v) {
			var call *ssa.Call
			switch x := l.(type) {
			case *ssa.Call:
				call = x
			case *ssa.Extract:
				call, _ = x.Tuple.(*ssa.Call)
			}
			if call == nil {
				continue
			}
			n := calleeName(&call.Call)
			if strings.Contains(n, "bbolt.Cursor.") || strings.HasSuffix(n, "bbolt.Bucket.Get") {
				return n, true
			}
		}
		return "", false
	}
	for _, fn := range funcsOfPkgs(c, "database/storage/bbolt") {
		ord := map[string]int{}
		check := func(in ssa.Instruction, sent ssa.Value, how string) {
			for _, l := range c.Leaves(sent) {
				var call *ssa.Call
				switch x := l.(type) {
				case *ssa.Call:
					call = x
				case *ssa.Extract:
					call, _ = x.Tuple.(*ssa.Call)
				}
				if call == nil || !strings.HasSuffix(calleeName(&call.Call), "record.NewRawWrapper") || len(call.Call.Args) < 3 {
					continue
				}
				cons := ordinal(ord, fnKey(fn)+" / record "+how+" is built from copied data")
				src, bad := txMem(call.Call.Args[2])
				r.Check(!bad, rule, cons, "the wrapper's data does not alias the transaction's memory",
					"a record wrapping the memory returned by "+src+" leaves the read transaction ("+how+"): bbolt's pages are only valid inside the transaction, so the reply content changes or faults once the file is remapped", c.Pos(in.Pos()))
			}
		}
		eachInstr(fn, func(in ssa.Instruction) {
			switch x := in.(type) {
			case *ssa.Send:
				check(in, x.X, "sent to the iterator")
			case *ssa.Select:
				for _, st := range x.States {
					if st.Dir == types.SendOnly {
						check(in, st.Send, "sent to the iterator")
					}
				}
			case *ssa.Store:
				if _, isFree := x.Addr.(*ssa.FreeVar); isFree {
					check(in, x.Val, "stored for the caller")
				}
			}
		})
	}
}

// c02R19: storage backends address records by their database key, never by the full key.
func c02R19(c *Ctx, r *Report) {
	const rule = "C02-R19"
	r.SetFloor(rule, 5)
	pkgs := []string{"database/storage/bbolt", "database/storage/badger", "database/storage/hashmap", "database/storage/fstree", "database/storage/sinkhole"}
	for _, fn := range funcsOfPkgs(c, pkgs...) {
		nDB := 0
		var bad []string
		eachInstr(fn, func(in ssa.Instruction) {
			ci, ok := in.(*ssa.Call)
			if !ok {
				return
			}
			n := calleeName(ci.Common())
			if strings.HasSuffix(n, "record.Record.DatabaseKey") || strings.HasSuffix(n, "record.Base.DatabaseKey") {
				nDB++
			}
			if (strings.HasSuffix(n, "record.Record.Key") || strings.HasSuffix(n, "record.Base.Key")) && ci.Referrers() != nil {
				for _, ref := range *ci.Referrers() {
					// the full key may be formatted into messages, nothing else
					if mi, isMI := ref.(*ssa.MakeInterface); isMI && onlyFormatted(mi) {
						continue
					}
					if _, isDbg := ref.(*ssa.DebugRef); isDbg {
						continue
					}
					bad = append(bad, c.Pos(in.Pos()))
				}
			}
		})
		if nDB == 0 && len(bad) == 0 {
			continue
		}
		r.Check(len(bad) == 0, rule, fnKey(fn)+" / addresses records by database key", fmt.Sprintf("%d uses of DatabaseKey(), the full key is not used as a storage key", nDB),
			"the full record key (database name included) is used inside a storage backend at "+strings.Join(bad, ", ")+": the backend's key space is the database key, so the operation addresses a record that does not exist (a delete removes nothing, a read misses)")
	}
}

var c11ErrExempt = map[string]string{
	"database/query.parseAndOr / func value getSnippet": "at the end of the root condition list the parser advances the snippet position by one on purpose (ParseQuery steps back by one); the snippet and its error are not wanted (`_, _ =`)",
}

func onlyFormatted(mi *ssa.MakeInterface) bool {
	if mi.Referrers() == nil {
		return false
	}
	for _, ref := range *mi.Referrers() {
		st, ok := ref.(*ssa.Store)
		if !ok {
			return false
		}
		_ = st // stored into the variadic slice of a formatting call
	}
	return true
}

func init() {
	extend("C04", "(R15) loadConfig reports success for a configured file only after ReplaceConfig was applied to the file's content (an empty file clears the user layer too).", c04R15)
	extend("C05", "(R13) every call through a context-taking function value in package modules (worker, task, microtask, hook function) happens after an activity counter of the module was incremented - in the same function, in every caller, or in the function a closure is handed to.", c05R13)
	extend("C07", "(R15) wake-up table: SetSleepMode and addToSchedule signal the schedule handler, Queue/QueuePrioritized/StartASAP signal the queue handler (a send on the respective channel is reachable); (R16) Task.Cancel stores canceled = true on every path.", c07R15, c07R16)
	extend("C08", "(R12) record.Unwrap transfers the metadata to the typed record on every successful path (the key is not required: SetKey ignores a key that is already set); (R13) no two trivial getters of one type in database/record return the same field.", c08R12,
		func(c *Ctx, r *Report) { accessorDistinctRule(c, r, "C08-R13", 3, []string{"database/record"}, nil) })
	extend("C11", "(R17) in package database/query the error result of every call - including calls through the parser's function values - is examined on every path; (R18) Query.Check returns a query without error only with the checked flag set (stored, or tested as already set); (R19) the operator spellings of the operatorNames table are compared with nowhere else in the package (decisions are taken on the resolved operator, so every documented alias behaves the same); (R20) no two trivial getters of one type in database/query return the same field.",
		anyErrRuleFor("C11-R17", 10, func(c *Ctx, fn *ssa.Function) bool { return fn.Pkg != nil && short(fn.Pkg.Pkg.Path()) == "database/query" }, c11ErrExempt), c11R18, c11R19,
		func(c *Ctx, r *Report) { accessorDistinctRule(c, r, "C11-R20", 3, []string{"database/query"}, nil) })
	extend("C12", "(R15) no two trivial getters of one type in package api return the same field (ReadPermission / WritePermission of the wrapped handler answer with their own field).",
		func(c *Ctx, r *Report) { accessorDistinctRule(c, r, "C12-R15", 4, []string{"api"}, nil) })
	extend("C13", "(R13) = C11-R17 (a truncated query in a request is answered with an error, the parser never goes on with a nil snippet); (R14) the bbolt backend hands records to the query iterator / the caller only when they are built from a copy of the transaction's memory.",
		borrowRule(anyErrRuleFor("C11-R17", 10, func(c *Ctx, fn *ssa.Function) bool { return fn.Pkg != nil && short(fn.Pkg.Pkg.Path()) == "database/query" }, c11ErrExempt), "C11-R17", "C13-R13", 10, nil), c13R14)
	extend("C02", "(R19) storage backends use a record's DatabaseKey() as storage key; the full key (Key()) appears there only inside messages.", c02R19)
	extend("C19", "(R14) no two trivial getters of one type in package updater return the same field.", func(c *Ctx, r *Report) { accessorDistinctRule(c, r, "C19-R14", 5, []string{"updater"}, nil) })
	extend("C20", "(R10) no two trivial getters of one type in package log return the same field.", func(c *Ctx, r *Report) { accessorDistinctRule(c, r, "C20-R10", 5, []string{"log"}, nil) })
}

// innermostHeader: the header of the innermost loop containing blk (nil if none).
func innermostHeader(fn *ssa.Function, blk *ssa.BasicBlock) *ssa.BasicBlock {
	reach := blockReach(fn)
	var header *ssa.BasicBlock
	for _, h := range fn.Blocks {
		if !h.Dominates(blk) {
			continue
		}
		isHeader := false
		for _, p := range h.Preds {
			if h.Dominates(p) && (p == blk || reach[blk][p]) {
				isHeader = true
			}
		}
		if isHeader && (header == nil || header.Dominates(h)) {
			header = h
		}
	}
	return header
}

// precededInIteration: on every path to target - from the start of the current
// iteration of the innermost loop around it, or from the function entry - an
// instruction satisfying pred executes first. Returns an offending path.
func precededInIteration(fn *ssa.Function, target ssa.Instruction, pred func(ssa.Instruction) bool) []*ssa.BasicBlock {
	isT := func(in ssa.Instruction) bool { return in == target }
	h := innermostHeader(fn, target.Block())
	if h == nil {
		return ReachFromAvoiding(fn, nil, isT, nil, pred)
	}
	reach := blockReach(fn)
	for _, s := range h.Succs {
		if !(s == h || reach[s][h]) {
			continue
		}
		if p := reachFromBlockStart(fn, s, isT, nil, pred); p != nil {
			return p
		}
	}
	return nil
}

// configPushRule: in package config every store to an option's active value is
// followed, on every path to the end of the function, by handleOptionUpdate.
func configPushRule(c *Ctx, r *Report, rule string) {
	r.SetFloor(rule, 3)
	for _, fn := range funcsOfPkgs(c, "config") {
		ord := map[string]int{}
		eachInstr(fn, func(in ssa.Instruction) {
			st, ok := in.(*ssa.Store)
			if !ok {
				return
			}
			fr, isF := fieldOfAddr(st.Addr)
			if !isF || fr.Owner != "config.Option" || (fr.Name != "activeValue" && fr.Name != "activeDefaultValue") {
				return
			}
			if fa := st.Addr.(*ssa.FieldAddr); isFreshAlloc(fa.X) {
				return
			}
			cons := ordinal(ord, fnKey(fn)+" / change of Option."+fr.Name+" is announced")
			bad := ReachInstr(fn, in, isExit, isCallInstrTo("config.handleOptionUpdate"))
			r.Check(bad == nil, rule, cons, "handleOptionUpdate follows on every path to the function's end",
				"Option."+fr.Name+" is changed and the function can end without handleOptionUpdate: subscribers of the config database never learn of the change (and the expertise / release level caches go stale)", c.Pos(in.Pos()), posOf(c, bad))
		})
	}
}

func isFreshAlloc(v ssa.Value) bool {
	switch x := v.(type) {
	case *ssa.Alloc:
		return true
	case *ssa.UnOp:
		return x.Op == token.MUL && isFreshAlloc(x.X) && false
	}
	return false
}

// c17R12: a directory-structure helper is only asked to ensure paths below its own root.
func c17R12(c *Ctx, r *Report) {
	const rule = "C17-R12"
	r.SetFloor(rule, 3)
	for _, fn := range c.AllFuncs() {
		if fn.Pkg == nil {
			continue
		}
		ord := map[string]int{}
		eachInstr(fn, func(in ssa.Instruction) {
			ci, ok := in.(*ssa.Call)
			if !ok || !strings.HasSuffix(calleeName(ci.Common()), "utils.DirStructure.EnsureAbsPath") {
				return
			}
			args := callArgs(ci.Common())
			if len(args) < 2 {
				return
			}
			recv := exprStr(args[0])
			for _, l := range pathLeaves(c, args[1], 0) {
				b, fr, isF := fieldLoad(l)
				if !isF || fr.Owner != "utils.DirStructure" || fr.Name != "Path" {
					continue
				}
				cons := ordinal(ord, fnKey(fn)+" / "+recv+".EnsureAbsPath of a path below "+exprStr(b))
				r.Check(exprStr(b) == recv, rule, cons, "the path is built from the Path of the directory structure that is asked",
					recv+" is asked to ensure a path built from "+exprStr(b)+".Path: the work directory is created (and later wiped, renamed) below a different root than intended - temporary files land in the storage directory", c.Pos(in.Pos()))
			}
		})
	}
}

// c18R6: CreateSymlinks creates a link only after the link's directory passed the root's scope check in the same iteration.
func c18R6(c *Ctx, r *Report) {
	const rule = "C18-R6"
	r.SetFloor(rule, 1)
	fn := c.Func("updater.(*ResourceRegistry).CreateSymlinks")
	if fn == nil {
		r.Undecided(rule, "updater.(*ResourceRegistry).CreateSymlinks", "anchor function missing")
		return
	}
	for i, ci := range callsIn(fn, "os.Symlink") {
		p := precededInIteration(fn, ci, func(in ssa.Instruction) bool {
			call, ok := in.(*ssa.Call)
			return ok && strings.HasSuffix(calleeName(call.Common()), "utils.DirStructure.EnsureAbsPath")
		})
		r.Check(p == nil, rule, fmt.Sprintf("updater.(*ResourceRegistry).CreateSymlinks / link #%d after the scope check of its directory", i+1), "EnsureAbsPath runs before the link is created, in every iteration",
			"a symlink can be created without the link directory having passed the root's EnsureAbsPath in this iteration (e.g. because the directory already exists): a resource identifier with parent references places a link outside the symlink root", c.pathString(p)...)
	}
}

// c18R7: the file-tree backend pins its root to the absolute, cleaned path.
func c18R7(c *Ctx, r *Report) {
	const rule = "C18-R7"
	r.SetFloor(rule, 1)
	n := 0
	for _, fn := range funcsOfPkgs(c, "database/storage/fstree") {
		eachInstr(fn, func(in ssa.Instruction) {
			if !isFieldStore("database/storage/fstree.FSTree", "basePath")(in) {
				return
			}
			n++
			org := c.Origins(in.(*ssa.Store).Val)
			ok := false
			for _, o := range org {
				if strings.Contains(o, "path/filepath.Abs") {
					ok = true
				}
			}
			r.Check(ok && len(org) == 1, rule, fnKey(fn)+" / root is the absolute path", "FSTree.basePath is the result of filepath.Abs",
				"FSTree.basePath is set from "+strings.Join(org, ", ")+" instead of the absolute cleaned path that was validated: with a relative location the prefix check in isInScope accepts parent references and the root moves with the working directory", c.Pos(in.Pos()))
		})
	}
	if n == 0 {
		r.Undecided(rule, "database/storage/fstree.FSTree.basePath", "no store to the root path found")
	}
}

// c19R15: markActiveWithLocking leaves the resource's active version equal to the file's version on every path.
func c19R15(c *Ctx, r *Report) {
	const rule = "C19-R15"
	r.SetFloor(rule, 1)
	fn := c.Func("updater.(*File).markActiveWithLocking")
	if fn == nil {
		r.Undecided(rule, "updater.(*File).markActiveWithLocking", "anchor function missing")
		return
	}
	isField := func(v ssa.Value, owner, name string) bool { return fieldLoadOf(v, owner, name) }
	same := Guard{Name: "ActiveVersion == file.version", Truthy: true, Match: func(b ssa.Value) bool {
		bo, ok := b.(*ssa.BinOp)
		if !ok || bo.Op != token.EQL {
			return false
		}
		return (isField(bo.X, "updater.Resource", "ActiveVersion") && isField(bo.Y, "updater.File", "version")) ||
			(isField(bo.Y, "updater.Resource", "ActiveVersion") && isField(bo.X, "updater.File", "version"))
	}}
	store := func(in ssa.Instruction) bool {
		if !isFieldStore("updater.Resource", "ActiveVersion")(in) {
			return false
		}
		return isField(in.(*ssa.Store).Val, "updater.File", "version")
	}
	p := ReachFromAvoiding(fn, nil, isExit, []Guard{same}, store)
	r.Check(p == nil, rule, "updater.(*File).markActiveWithLocking / active version is the file's version afterwards", "every path stores file.version or found it already there",
		"markActiveWithLocking can return with Resource.ActiveVersion different from the version of the file that was handed out: Purge then deletes the file of a version that is in use", c.pathString(p)...)
}

// c19R16: File.Blacklist blacklists the version of the file it is called on.
func c19R16(c *Ctx, r *Report) {
	const rule = "C19-R16"
	r.SetFloor(rule, 1)
	fn := c.Func("updater.(*File).Blacklist")
	if fn == nil {
		r.Undecided(rule, "updater.(*File).Blacklist", "anchor function missing")
		return
	}
	cs := callsIn(fn, "updater.Resource.Blacklist")
	if len(cs) == 0 {
		r.Bad(rule, "updater.(*File).Blacklist / blacklists its own version", "File.Blacklist no longer calls Resource.Blacklist")
		return
	}
	for _, ci := range cs {
		args := callArgs(ci.Common())
		org := c.Origins(args[len(args)-1])
		ok := len(org) == 1 && strings.HasSuffix(org[0], "file.version.VersionNumber")
		r.Check(ok, rule, "updater.(*File).Blacklist / blacklists its own version", "the version number passed on is file.version.VersionNumber",
			"File.Blacklist passes "+strings.Join(org, ", ")+" instead of the version of the file it was called on: a held file of an older version blacklists the currently selected (healthy) version", c.Pos(ci.Pos()))
	}
}

// guardedAccessRule: frozen table - in the named function every access to the field happens with the named lock held.
type guardedAccess struct{ Fn, Owner, Field, Lock, Why string }

func guardedAccessRule(c *Ctx, r *Report, rule string, table []guardedAccess) {
	r.SetFloor(rule, len(table))
	for _, t := range table {
		fn := c.Func(t.Fn)
		if fn == nil {
			r.Undecided(rule, t.Fn, "anchor function missing")
			continue
		}
		held := LocksHeldAt(fn)
		var bad []string
		n := 0
		eachInstr(fn, func(in ssa.Instruction) {
			var addr ssa.Value
			write := false
			switch x := in.(type) {
			case *ssa.Store:
				addr, write = x.Addr, true
			case *ssa.UnOp:
				if x.Op == token.MUL {
					addr = x.X
				}
			}
			if addr == nil {
				return
			}
			fr, ok := fieldOfAddr(addr)
			if !ok || fr.Owner != t.Owner || fr.Name != t.Field {
				return
			}
			n++
			h := held[in]
			if h[t.Lock] || (!write && h["R:"+t.Lock]) {
				return
			}
			kind := "read"
			if write {
				kind = "written"
			}
			bad = append(bad, fmt.Sprintf("%s at %s (held: %s)", kind, c.Pos(in.Pos()), setString(h)))
		})
		if n == 0 {
			r.Bad(rule, t.Fn+" / "+t.Owner+"."+t.Field+" under "+t.Lock, "the function no longer accesses the field: the table entry is stale")
			continue
		}
		r.Check(len(bad) == 0, rule, t.Fn+" / "+t.Owner+"."+t.Field+" under "+t.Lock, fmt.Sprintf("%d accesses, all with the lock held", n),
			t.Owner+"."+t.Field+" is "+strings.Join(bad, "; ")+" without "+t.Lock+": "+t.Why)
	}
}

func init() {
	extend("C06", "(R15) = C01-R4 for the start routine: a module whose start routine failed or panicked is put back into a non-blocking state before the failure is reported, so it (and its dependencies) can still be stopped.",
		borrowRule(c01R4, "C01-R4", "C06-R15", 1, nil))
	extend("C14", "(R13) in package config every store to an option's active (default) value is followed by handleOptionUpdate on every path to the end of the function, so each change of an injected config record is pushed.",
		func(c *Ctx, r *Report) { configPushRule(c, r, "C14-R13") })
	extend("C04", "(R16) = C14-R13 (every change of an option's active value reaches handleOptionUpdate, which refreshes the expertise / release level caches).",
		func(c *Ctx, r *Report) { configPushRule(c, r, "C04-R16") })
	extend("C17", "(R12) a directory-structure helper is only asked (EnsureAbsPath) for paths built from its own Path: the unpack work directory lives below the registry's tmp dir.", c17R12)
	extend("C18", "(R6) CreateSymlinks creates a link only after its directory passed the symlink root's EnsureAbsPath in the same loop iteration; (R7) the file-tree backend stores the filepath.Abs result as its root.", c18R6, c18R7)
	extend("C19", "(R15) markActiveWithLocking ends with Resource.ActiveVersion == file.version on every path; (R16) File.Blacklist passes file.version.VersionNumber to Resource.Blacklist.", c19R15, c19R16)
	extend("C20", "(R11) ContextTracer.log reads and writes the tracer's line list only with the tracer's lock held.",
		func(c *Ctx, r *Report) {
			guardedAccessRule(c, r, "C20-R11", []guardedAccess{{"log.(*ContextTracer).log", "log.ContextTracer", "logs", "tracer.Mutex", "two goroutines logging to one tracer append to the same old slice and overwrite each other's lines"}})
		})
}

// pathLeaves is Leaves looking through the path-building functions (Join, Dir, Clean, FromSlash).
func pathLeaves(c *Ctx, v ssa.Value, d int) []ssa.Value {
	var out []ssa.Value
	for _, l := range c.Leaves(v) {
		if call, ok := l.(*ssa.Call); ok && d < 6 {
			switch calleeName(&call.Call) {
			case "path/filepath.Join", "path/filepath.Dir", "path/filepath.Clean", "path/filepath.FromSlash", "path.Join", "path.Dir", "path.Clean":
				for _, a := range call.Call.Args {
					if sl, isSlice := a.(*ssa.Slice); isSlice { // variadic argument array
						out = append(out, variadicElems(c, sl, d+1)...)
						continue
					}
					out = append(out, pathLeaves(c, a, d+1)...)
				}
				continue
			}
		}
		out = append(out, l)
	}
	return out
}

func variadicElems(c *Ctx, sl *ssa.Slice, d int) []ssa.Value {
	var out []ssa.Value
	alloc, ok := sl.X.(*ssa.Alloc)
	if !ok || alloc.Referrers() == nil {
		return nil
	}
	for _, ref := range *alloc.Referrers() {
		ia, ok := ref.(*ssa.IndexAddr)
		if !ok || ia.Referrers() == nil {
			continue
		}
		for _, r2 := range *ia.Referrers() {
			if st, ok := r2.(*ssa.Store); ok {
				out = append(out, pathLeaves(c, st.Val, d)...)
			}
		}
	}
	return out
}

// ---- round 9 ------------------------------------------------------------------

var ubcExempt = map[string]string{
	"database.Interface.getMeta / method call database.Controller.ReadOnly": "getMeta returns the controller together with ErrNotFound (a nil controller never comes with ErrNotFound: C13-R10); the callers tolerate exactly that error",
	"database.Interface.getMeta / method call database.Controller.Put":      "as above",
	"config.PutValueIntoHierarchicalConfig / type assertion to map[string]interface{} / map write":         "the map written in the !ok arm is the previous level's map (loop-carried), not the result of this assertion",
}

func ubcRuleFor(rule string, floor int, pkgs ...string) ruleFn {
	return func(c *Ctx, r *Report) {
		useBeforeCheckRule(c, r, rule, floor, func(fn *ssa.Function) bool { return inList(short(fn.Pkg.Pkg.Path()), pkgs) }, ubcExempt)
	}
}

func init() {
	const txt = "results of fallible operations - (v, err) calls, comma-ok assertions and lookups - are used (field access, method call, call, map write, handed on) only where err == nil / ok / v != nil was established (A17 use before check)"
	extend("C13", "(R15) in api, database and database/query "+txt+": a request that fails a step is answered with the error instead of dereferencing a nil result.", ubcRuleFor("C13-R15", 20, "api", "database", "database/query"))
	extend("C11", "(R21) in database/query "+txt+".", ubcRuleFor("C11-R21", 3, "database/query"))
	extend("C08", "(R14) in database/record, formats/dsd, formats/varint and container "+txt+": parsing an arbitrary byte string fails with an error instead of a nil dereference.", ubcRuleFor("C08-R14", 5, "database/record", "formats/dsd", "formats/varint", "container"))
	extend("C09", "(R13) in formats/dsd "+txt+".", ubcRuleFor("C09-R13", 3, "formats/dsd"))
	extend("C02", "(R20) in database and the storage backends "+txt+".", ubcRuleFor("C02-R20", 15, "database", "database/storage/bbolt", "database/storage/badger", "database/storage/hashmap", "database/storage/fstree", "database/storage/sinkhole", "database/record"))
	extend("C04", "(R17) in config "+txt+".", ubcRuleFor("C04-R17", 5, "config"))
	extend("C19", "(R17) in updater "+txt+".", ubcRuleFor("C19-R17", 10, "updater"))
	extend("C12", "(R16) in api "+txt+".", ubcRuleFor("C12-R16", 10, "api"))
	extend("C06", "(R16) in modules "+txt+".", ubcRuleFor("C06-R16", 1, "modules"))
}

func init() {
	const txt = "no function with an interface-typed result returns a pointer that may be nil (a typed nil inside the interface defeats the caller's nil test; A18)"
	extend("C13", "(R16) in the database packages and api "+txt+".", func(c *Ctx, r *Report) {
		typedNilRule(c, r, "C13-R16", 5, "api", "database", "database/record", "database/accessor", "database/query", "database/iterator", "database/storage", "database/storage/bbolt", "database/storage/hashmap", "database/storage/badger", "database/storage/fstree", "database/storage/sinkhole")
	})
	extend("C04", "(R18) in config "+txt+".", func(c *Ctx, r *Report) { typedNilRule(c, r, "C04-R18", 1, "config") })
}

// ---- ordering table ---------------------------------------------------------------
// neverAfter: once an instruction satisfying `first` ran, no instruction satisfying `late` is reachable in fn.
func neverAfter(c *Ctx, r *Report, rule, fname, what, why string, first, late func(ssa.Instruction) bool) {
	fn := c.Func(fname)
	if fn == nil {
		r.Undecided(rule, fname, "anchor function missing")
		return
	}
	var firsts []ssa.Instruction
	eachInstr(fn, func(in ssa.Instruction) {
		if first(in) {
			firsts = append(firsts, in)
		}
	})
	if len(firsts) == 0 {
		r.Bad(rule, fname+" / "+what, "the anchoring operation is gone from "+fname)
		return
	}
	var bad ssa.Instruction
	for _, f := range firsts {
		if x := ReachInstr(fn, f, late, nil); x != nil {
			bad = x
		}
	}
	r.Check(bad == nil, rule, fname+" / "+what, "nothing of the kind is reachable after it", why, posOf(c, bad))
}

func isCallToGlobalFuncVar(global string) func(ssa.Instruction) bool {
	return func(in ssa.Instruction) bool {
		ci, ok := in.(ssa.CallInstruction)
		return ok && vpath(ci.Common().Value) == "global:"+global
	}
}

func isStoreToGlobal(global string) func(ssa.Instruction) bool {
	return func(in ssa.Instruction) bool {
		st, ok := in.(*ssa.Store)
		return ok && vpath(st.Addr) == "global:"+global
	}
}

func isCallSuffix(suffixes ...string) func(ssa.Instruction) bool {
	return func(in ssa.Instruction) bool {
		ci, ok := in.(ssa.CallInstruction)
		if !ok {
			return false
		}
		n := calleeName(ci.Common())
		for _, s := range suffixes {
			if n == s || strings.HasSuffix(n, s) {
				return true
			}
		}
		return false
	}
}

func isAboolCallOnGlobal(global, method string) func(ssa.Instruction) bool {
	return func(in ssa.Instruction) bool {
		if _, isDefer := in.(*ssa.Defer); isDefer {
			return false
		}
		p, m, ok := aboolOp(in)
		return ok && m == method && p == "global:"+global
	}
}

func recvOnGlobal(global string) func(ssa.Instruction) bool {
	is := func(v ssa.Value) bool { return vpath(v) == "global:"+global }
	return func(in ssa.Instruction) bool {
		switch x := in.(type) {
		case *ssa.UnOp:
			return x.Op == token.ARROW && is(x.X)
		case *ssa.Select:
			for _, st := range x.States {
				if st.Dir == types.RecvOnly && is(st.Chan) {
					return true
				}
			}
		}
		return false
	}
}

func c03R13(c *Ctx, r *Report) {
	r.SetFloor("C03-R13", 1)
	neverAfter(c, r, "C03-R13", "runtime.pushModuleEvent", "flags complete before the record is pushed",
		"the event record is marked secret / crown jewel after it was handed to the subscription pusher: the subscribers' permission check sees it without the flags and unprivileged feeds receive internal events",
		isCallToGlobalFuncVar("runtime.modulesIntegrationUpdatePusher"), isCallSuffix("record.Meta.MakeSecret", "record.Meta.MakeCrownJewel"))
}

func c20R12(c *Ctx, r *Report) {
	r.SetFloor("C20-R12", 1)
	neverAfter(c, r, "C20-R12", "log.SetPkgLevels", "package levels stored before they are switched on",
		"pkgLevelsActive is set before the new level map is stored: a line logged in between is filtered by the stale map and an enabled line is dropped",
		isAboolCallOnGlobal("log.pkgLevelsActive", "Set"), isStoreToGlobal("log.pkgLevels"))
}

func c02R21(c *Ctx, r *Report) {
	r.SetFloor("C02-R21", 1)
	neverAfter(c, r, "C02-R21", "database.NewInterface", "cache built after its evict handler was registered",
		"the read cache is built before the evict handler is registered on the builder (the builder copies its settings at Build): write-cached records evicted from the cache are never written through and a later get misses them",
		isCallSuffix("gcache.CacheBuilder.Build"), isCallSuffix("gcache.CacheBuilder.EvictedFunc"))
}

func c12R17(c *Ctx, r *Report) {
	const rule = "C12-R17"
	r.SetFloor(rule, 1)
	fn := c.Func("api.SetAuthenticator")
	if fn == nil {
		r.Undecided(rule, "api.SetAuthenticator", "anchor function missing")
		return
	}
	n := 0
	eachInstr(fn, func(in ssa.Instruction) {
		if !isStoreToGlobal("api.authFn")(in) {
			return
		}
		n++
		p := ReachTargetAvoiding(fn, in, []Guard{aboolGuard("authFnSet claimed", "global:api.authFnSet", "SetToIf", true)}, nil)
		r.Check(p == nil, rule, "api.SetAuthenticator / authenticator stored only by the call that claimed the slot", "the store is behind the true edge of authFnSet.SetToIf(false, true)",
			"the authenticator function is replaced before (or without) the already-set check succeeding: a refused SetAuthenticator call still takes over authentication", c.pathString(p)...)
	})
	if n == 0 {
		r.Bad(rule, "api.SetAuthenticator / authenticator stored only by the call that claimed the slot", "SetAuthenticator no longer stores the function")
	}
}

func c07R17(c *Ctx, r *Report) {
	r.SetFloor("C07-R17", 3)
	for _, f := range []string{"modules.(*Task).Queue", "modules.(*Task).QueuePrioritized", "modules.(*Task).StartASAP"} {
		neverAfter(c, r, "C07-R17", f, "handler woken after the task is in the list",
			"the queue handler is signalled before the task is inserted: it can scan the still empty queue, consume the signal and go back to waiting, and the task is not started until something else wakes it",
			func(in ssa.Instruction) bool {
				if isCallSuffix("modules.notifyQueue")(in) {
					return true
				}
				return chanSendOnGlobal("modules.queueIsFilled")(in)
			}, isCallSuffix("container/list.List.PushBack", "container/list.List.PushFront", "container/list.List.MoveToFront"))
	}
}

func c05R14(c *Ctx, r *Report) {
	r.SetFloor("C05-R14", 1)
	neverAfter(c, r, "C05-R14", "modules.(*Task).runWithLocking", "no waiting between the module-state check and the execution",
		"the task waits for a timeslot after it checked that its module is online: the module can be stopped during the wait and the task function then runs on a stopped module, uncounted by the stop that already completed",
		isCallSuffix("modules.Module.Online", "modules.Module.OnlineSoon"), recvOnGlobal("modules.taskTimeslot"))
}

func c05R15(c *Ctx, r *Report) {
	const rule = "C05-R15"
	r.SetFloor(rule, 1)
	fn := c.Func("modules.Shutdown")
	if fn == nil {
		r.Undecided(rule, "modules.Shutdown", "anchor function missing")
		return
	}
	held := LocksHeldAt(fn)
	n := 0
	eachInstr(fn, func(in ssa.Instruction) {
		if !isAboolCallOnGlobal("modules.shutdownFlag", "SetToIf")(in) {
			return
		}
		n++
		r.Check(held[in]["global:modules.mgmtLock"], rule, "modules.Shutdown / shutdown flag tested under the management lock", "mgmtLock is held at the test",
			"Shutdown tests the shutdown flag before taking the management lock: a second caller gets its 'already initiated' answer while the first shutdown is still stopping modules - Shutdown returns before the work has returned (held: "+setString(held[in])+")", c.Pos(in.Pos()))
	})
	if n == 0 {
		r.Bad(rule, "modules.Shutdown / shutdown flag tested under the management lock", "Shutdown no longer tests the shutdown flag")
	}
}

// c07R18: Repeat substitutes the minimum interval only for a non-zero interval (zero means: stop repeating).
func c07R18(c *Ctx, r *Report) {
	const rule = "C07-R18"
	r.SetFloor(rule, 1)
	fn := c.Func("modules.(*Task).Repeat")
	if fn == nil || len(fn.Params) < 2 {
		r.Undecided(rule, "modules.(*Task).Repeat", "anchor function missing")
		return
	}
	interval := fn.Params[1]
	isInterval := func(v ssa.Value) bool { return unwrapConv(v) == ssa.Value(interval) }
	nonZero := Guard{Name: "interval != 0", Truthy: true, Match: func(b ssa.Value) bool {
		bo, ok := b.(*ssa.BinOp)
		if !ok || bo.Op != token.NEQ {
			return false
		}
		k1, c1 := constInt(bo.Y)
		k2, c2 := constInt(bo.X)
		return (isInterval(bo.X) && c1 && k1 == 0) || (isInterval(bo.Y) && c2 && k2 == 0)
	}}
	n := 0
	for _, b := range fn.Blocks {
		if len(b.Instrs) == 0 {
			continue
		}
		ifi, ok := b.Instrs[len(b.Instrs)-1].(*ssa.If)
		if !ok {
			continue
		}
		base, pos := peel(ifi.Cond)
		bo, ok := base.(*ssa.BinOp)
		if !ok || !(bo.Op == token.LSS || bo.Op == token.LEQ || bo.Op == token.GTR || bo.Op == token.GEQ) || !(isInterval(bo.X) || isInterval(bo.Y)) {
			continue
		}
		// the edge on which interval is below the minimum
		below := (bo.Op == token.LSS || bo.Op == token.LEQ) == isInterval(bo.X)
		succ := b.Succs[0]
		if below != pos {
			succ = b.Succs[1]
		}
		n++
		p := ReachTargetAvoiding(fn, succ.Instrs[0], []Guard{nonZero}, nil)
		r.Check(p == nil, rule, "modules.(*Task).Repeat / minimum interval only for a non-zero interval", "the substitution is behind interval != 0",
			"Repeat raises an interval of zero to the minimum repeat duration: Repeat(0), documented to disable repeating and keep the schedule, turns repeating on and reschedules the task to run a minute from now", c.pathString(p)...)
	}
	if n == 0 {
		r.Bad(rule, "modules.(*Task).Repeat / minimum interval only for a non-zero interval", "Repeat no longer compares the interval with the minimum")
	}
}

// c18R8: the updater's fetch functions download / write only after the destination directory passed the storage root's scope check.
func c18R8(c *Ctx, r *Report) {
	const rule = "C18-R8"
	r.SetFloor(rule, 4)
	for _, fname := range []string{"updater.(*ResourceRegistry).fetchFile", "updater.(*ResourceRegistry).fetchMissingSig"} {
		fn := c.Func(fname)
		if fn == nil {
			r.Undecided(rule, fname, "anchor function missing")
			continue
		}
		scopeOK := Guard{Name: "EnsureAbsPath succeeded", Truthy: false, Match: func(b ssa.Value) bool {
			for _, l := range c.Leaves(b) {
				if call, ok := l.(*ssa.Call); ok && strings.HasSuffix(calleeName(&call.Call), "utils.DirStructure.EnsureAbsPath") {
					return true
				}
			}
			return false
		}}
		ord := map[string]int{}
		for _, ci := range callsIn(fn, "updater.ResourceRegistry.makeRequest", "updater.ResourceRegistry.fetchAndVerifySigFile", "os.WriteFile", "utils/renameio.TempFile", "os.ReadFile") {
			cons := ordinal(ord, fname+" / "+calleeName(ci.Common())+" after the scope check")
			p := ReachTargetAvoiding(fn, ci, []Guard{scopeOK}, nil)
			r.Check(p == nil, rule, cons, "reachable only across the success edge of storageDir.EnsureAbsPath",
				"a download / file access for a resource happens without the destination directory having passed the storage root's scope check (check moved behind it, or its failure only logged): a hostile identifier reads or places files outside the storage directory", c.pathString(p)...)
		}
	}
}

// c19R18: DownloadUpdates marks a version available only after its fetch succeeded.
func c19R18(c *Ctx, r *Report) {
	const rule = "C19-R18"
	r.SetFloor(rule, 3)
	fn := c.Func("updater.(*ResourceRegistry).DownloadUpdates")
	if fn == nil {
		r.Undecided(rule, "updater.(*ResourceRegistry).DownloadUpdates", "anchor function missing")
		return
	}
	fetched := Guard{Name: "fetchFile / fetchMissingSig succeeded", Truthy: false, Match: func(b ssa.Value) bool {
		for _, l := range c.Leaves(b) {
			if call, ok := l.(*ssa.Call); ok && (strings.HasSuffix(calleeName(&call.Call), "updater.ResourceRegistry.fetchFile") || strings.HasSuffix(calleeName(&call.Call), "updater.ResourceRegistry.fetchMissingSig")) {
				return true
			}
		}
		return false
	}}
	n := 0
	eachInstr(fn, func(in ssa.Instruction) {
		if !isFieldStore("updater.ResourceVersion", "Available")(in) && !isFieldStore("updater.ResourceVersion", "SigAvailable")(in) {
			return
		}
		n++
		p := precededInIterationGuard(fn, in, []Guard{fetched})
		r.Check(p == nil, rule, fmt.Sprintf("updater.(*ResourceRegistry).DownloadUpdates / availability mark #%d only after a successful fetch", n), "the store is behind fetchFile's err == nil in the same iteration",
			"a version is marked available although its download did not succeed: it is listed as available without a file on disk and selected over versions that exist", c.pathString(p)...)
	})
	if n == 0 {
		r.Bad(rule, "updater.(*ResourceRegistry).DownloadUpdates / availability marks", "DownloadUpdates no longer marks downloaded versions available")
	}
}

// precededInIterationGuard: target is reachable from the start of the current iteration of the outermost loop around it only across a guard edge.
func precededInIterationGuard(fn *ssa.Function, target ssa.Instruction, guards []Guard) []*ssa.BasicBlock {
	isT := func(in ssa.Instruction) bool { return in == target }
	// outermost loop header around the target
	reach := blockReach(fn)
	var header *ssa.BasicBlock
	for _, h := range fn.Blocks {
		if !h.Dominates(target.Block()) {
			continue
		}
		isHeader := false
		for _, p := range h.Preds {
			if h.Dominates(p) && (p == target.Block() || reach[target.Block()][p]) {
				isHeader = true
			}
		}
		if isHeader && (header == nil || h.Dominates(header)) {
			header = h
		}
	}
	if header == nil {
		return ReachFromAvoiding(fn, nil, isT, guards, nil)
	}
	for _, s := range header.Succs {
		if !(s == header || reach[s][header]) {
			continue
		}
		if p := reachFromBlockStart(fn, s, isT, guards, nil); p != nil {
			return p
		}
	}
	return nil
}

// c19R19: AddResources goes on with the remaining entries after a failing one.
func c19R19(c *Ctx, r *Report) {
	const rule = "C19-R19"
	r.SetFloor(rule, 1)
	fn := c.Func("updater.(*ResourceRegistry).AddResources")
	if fn == nil {
		r.Undecided(rule, "updater.(*ResourceRegistry).AddResources", "anchor function missing")
		return
	}
	var bad ssa.Instruction
	loops := 0
	for _, ci := range callsIn(fn, "updater.ResourceRegistry.addResource") {
		h := innermostHeader(fn, ci.Block())
		if h == nil {
			continue
		}
		loops++
		first := h.Instrs[0]
		// from the call, a return must not be reachable without passing the loop header again
		if x := ReachInstr(fn, ci, isExit, func(in ssa.Instruction) bool { return in == first }); x != nil {
			bad = x
		}
	}
	if loops == 0 {
		r.Bad(rule, "updater.(*ResourceRegistry).AddResources / every entry is processed", "the loop over the index entries is gone")
		return
	}
	r.Check(bad == nil, rule, "updater.(*ResourceRegistry).AddResources / every entry is processed", "no return inside the loop over the entries",
		"AddResources returns from inside the loop (at the first failing entry): the entries after it are not registered, lose their current-release flag and the documented selection order is applied to an incomplete version list", posOf(c, bad))
}

// c20R13: once Start claimed the initialisation it starts the writer before it returns, whatever the flags contained.
func c20R13(c *Ctx, r *Report) {
	const rule = "C20-R13"
	r.SetFloor(rule, 1)
	fn := c.Func("log.Start")
	if fn == nil {
		r.Undecided(rule, "log.Start", "anchor function missing")
		return
	}
	notClaimed := aboolGuard("initialisation not claimed", "global:log.initializing", "SetToIf", false)
	for _, w := range []struct{ what string; pred func(ssa.Instruction) bool }{
		{"starts the writer", isCallSuffix("log.startWriter")},
		{"marks the logger started", isAboolCallOnGlobal("log.started", "Set")},
	} {
		p := ReachFromAvoiding(fn, nil, isExit, []Guard{notClaimed}, w.pred)
		r.Check(p == nil, rule, "log.Start / "+w.what+" on every path after claiming the initialisation", "every return of the claiming call is preceded by it",
			"Start can return (e.g. on a malformed package-level flag) without it: the logger stays initialised but never started, every line logged afterwards is parked forever and Shutdown returns with nothing written", c.pathString(p)...)
	}
}

func init() {
	extend("C03", "(R13) pushModuleEvent completes the record's secret / crown-jewel flags before it hands the record to the subscription pusher.", c03R13)
	extend("C20", "(R12) SetPkgLevels stores the level map before it switches package levels on; (R13) once Start claimed the initialisation, every return is preceded by startWriter and started.Set.", c20R12, c20R13)
	extend("C02", "(R21) NewInterface registers the evict handler on the cache builder before it builds the cache.", c02R21)
	extend("C12", "(R17) SetAuthenticator stores the authenticator only behind the successful authFnSet.SetToIf(false, true); (R11 extended) endpointHandler.ReadPermission ~ WritePermission agree up to Read/Write.", c12R17)
	extend("C07", "(R17) Queue / QueuePrioritized / StartASAP signal the queue handler only after the task is in the list; (R18) Repeat substitutes the minimum interval only behind interval != 0.", c07R17, c07R18)
	extend("C05", "(R14) in runWithLocking nothing waits for a timeslot after the module-state check; (R15) Shutdown tests the shutdown flag with the management lock held.", c05R14, c05R15)
	extend("C06", "(R17) = C05-R2 (every counter decrement is followed by checkIfStopComplete - a stop-completion check that runs before the finishing item is uncounted never completes the stop).", borrowRule(c05R2, "C05-R2", "C06-R17", 5, nil))
	extend("C18", "(R8) the updater's fetch functions request, read and write only across the success edge of storageDir.EnsureAbsPath on the destination directory.", c18R8)
	extend("C19", "(R18) DownloadUpdates marks a version (and its signature) available only behind fetchFile's success in the same iteration; (R19) AddResources has no return inside the loop over the index entries.", c19R18, c19R19)
}

// c06R18: the recovered panic value is only ever formatted by fmt (which contains panics of Error/String methods), never called directly.
func c06R18(c *Ctx, r *Report) {
	const rule = "C06-R18"
	r.SetFloor(rule, 1)
	n := 0
	var bad []string
	for _, fn := range funcsOfPkgs(c, "modules") {
		eachInstr(fn, func(in ssa.Instruction) {
			ci, ok := in.(ssa.CallInstruction)
			if !ok || !ci.Common().IsInvoke() {
				// count the reads of the panic value as instances
				if u, isLoad := in.(*ssa.UnOp); isLoad && u.Op == token.MUL {
					if fr, ok := fieldOfAddr(u.X); ok && fr.Owner == "modules.ModuleError" && fr.Name == "PanicValue" {
						n++
					}
				}
				return
			}
			for _, l := range c.Leaves(ci.Common().Value) {
				isPV := false
				if _, fr, ok := fieldLoad(l); ok && fr.Owner == "modules.ModuleError" && fr.Name == "PanicValue" {
					isPV = true
				}
				if call, ok := l.(*ssa.Call); ok && calleeName(&call.Call) == "builtin.recover" {
					isPV = true
				}
				if isPV {
					bad = append(bad, fmt.Sprintf("%s calls %s on the panic value at %s", fnKey(fn), ci.Common().Method.Name(), c.Pos(in.Pos())))
				}
			}
		})
	}
	if n == 0 {
		r.Undecided(rule, "modules.ModuleError.PanicValue", "no read of the panic value found")
		return
	}
	r.Check(len(bad) == 0, rule, "modules / no method is called on a recovered panic value", fmt.Sprintf("%d reads of ModuleError.PanicValue, none is the receiver of a method call", n),
		strings.Join(bad, "; ")+": a panic value whose method panics itself (e.g. an error interface holding a nil pointer) raises a second panic inside the recover handler, which escapes containment")
}

func init() {
	extend("C06", "(R18) no method is called directly on a recovered panic value or on ModuleError.PanicValue (fmt formats it and contains panics of its Error/String methods).", c06R18)
	extend("C10", "(R9) = C16-R5 (a failed container split consumes nothing: skip is reached only after the peeked container was found non-nil).", borrowRule(c16R5, "C16-R5", "C10-R9", 1, nil))
}

// c01R15: startModules returns only when every start it launched has reported.
// (A start still under way when Start / a management pass returns leaves its
// module in the starting state: a following Shutdown cannot stop it - it is not
// online yet - and it comes online afterwards with nobody left to stop it.)
func c01R15(c *Ctx, r *Report) {
	const rule = "C01-R15"
	r.SetFloor(rule, 2)
	fn := c.Func("modules.startModules")
	if fn == nil {
		r.Undecided(rule, "modules.startModules", "anchor function missing")
		return
	}
	// blocks that launch a start / that follow a receive of a report
	launchBlk := map[*ssa.BasicBlock]bool{}
	var recvBlks []*ssa.BasicBlock
	isStartCall := func(in ssa.Instruction) bool {
		ci, ok := in.(*ssa.Call)
		return ok && calleeName(ci.Common()) == "modules.Module.start"
	}
	launches := c.mayReach(isStartCall) // helpers that launch starts on behalf of startModules
	eachInstr(fn, func(in ssa.Instruction) {
		if isStartCall(in) {
			launchBlk[in.Block()] = true
		}
		if ci, ok := in.(*ssa.Call); ok {
			if callee := staticCallee(ci.Common()); callee != nil && callee != fn && launches[callee] {
				launchBlk[in.Block()] = true
			}
		}
		if u, ok := in.(*ssa.UnOp); ok && u.Op == token.ARROW {
			recvBlks = append(recvBlks, in.Block())
		}
	})
	if len(launchBlk) == 0 || len(recvBlks) == 0 {
		r.Undecided(rule, "modules.startModules", "launch of Module.start or receive of a report not found")
		return
	}
	afterRecv := func(b *ssa.BasicBlock) bool {
		for _, rb := range recvBlks {
			if rb == b || rb.Dominates(b) {
				return true
			}
		}
		return false
	}
	var counterOfKindD func(v ssa.Value, launch bool, d int) bool
	counterOfKindD = func(v ssa.Value, launch bool, d int) bool {
		if d > 3 {
			return false
		}
		ok := false
		for _, l := range c.Leaves(v) {
			bo, isB := l.(*ssa.BinOp)
			if !isB || bo.Op != token.ADD {
				continue
			}
			if launch && launchBlk[bo.Block()] {
				ok = true
			}
			k, isC := constInt(bo.Y)
			if !isC {
				// a sum of counters (e.g. the count a helper returned, added up by the caller)
				if bo.Block() != nil && (counterOfKindD(bo.Y, launch, d+1) || (ssa.Value(bo) != v && counterOfKindD(bo.X, launch, d+1))) {
					ok = true
				}
				continue
			}
			if k != 1 {
				continue
			}
			if !launch && afterRecv(bo.Block()) && !launchBlk[bo.Block()] {
				ok = true
			}
		}
		return ok
	}
	counterOfKind := func(v ssa.Value, launch bool) bool { return counterOfKindD(v, launch, 0) }
	isLaunched := func(v ssa.Value) bool { return counterOfKind(v, true) && !counterOfKind(v, false) }
	isReported := func(v ssa.Value) bool { return counterOfKind(v, false) && !counterOfKind(v, true) }
	gs := relGuards("reported >= launched", isReported, isLaunched, func(a, b int64) bool { return a >= b })
	n := 0
	eachInstr(fn, func(in ssa.Instruction) {
		if !isExit(in) {
			return
		}
		n++
		p := ReachTargetAvoiding(fn, in, gs, nil)
		r.Check(p == nil, rule, fmt.Sprintf("modules.startModules / return #%d only after every launched start has reported", n), "reachable only across reported >= launched",
			"startModules returns while starts it launched are still under way (e.g. at the first failing module): their modules are left in the starting state, a following Shutdown does not stop them, and they come online after Shutdown returned", append([]string{c.Pos(in.Pos())}, c.pathString(p)...)...)
	})
}

func init() {
	extend("C01", "(R15) startModules returns only when every start it launched has reported (reported >= launched on every way to a return), so that no module is left in the starting state for a following Shutdown.", c01R15)
}

// c07R19: the global queue handler never waits for a module's start without a way out.
// (runWithLocking runs synchronously in the task queue handler: an unbounded
// receive there stops the tasks of every module.)
func c07R19(c *Ctx, r *Report) {
	const rule = "C07-R19"
	r.SetFloor(rule, 1)
	fn := c.Func("modules.(*Task).runWithLocking")
	if fn == nil {
		r.Undecided(rule, "modules.(*Task).runWithLocking", "anchor function missing")
		return
	}
	fromCall := func(v ssa.Value, suffix string) bool {
		for _, l := range c.Leaves(v) {
			if call, ok := l.(*ssa.Call); ok && strings.HasSuffix(calleeName(&call.Call), suffix) {
				return true
			}
		}
		return false
	}
	n := 0
	eachInstr(fn, func(in ssa.Instruction) {
		switch x := in.(type) {
		case *ssa.UnOp:
			if x.Op == token.ARROW && fromCall(x.X, "modules.Module.StartCompleted") {
				n++
				r.Bad(rule, "modules.(*Task).runWithLocking / wait for the module start has a way out", "the queue handler receives from StartCompleted() alone: when the start fails nothing ever signals it, and the queued tasks of all other modules are not executed any more", c.Pos(in.Pos()))
			}
		case *ssa.Select:
			waits, out := false, false
			for _, st := range x.States {
				if st.Dir != types.RecvOnly {
					continue
				}
				if fromCall(st.Chan, "modules.Module.StartCompleted") {
					waits = true
				}
				if fromCall(st.Chan, "modules.Module.Stopping") || fromCall(st.Chan, "context.Context.Done") {
					out = true
				}
			}
			if waits {
				n++
				r.Check(out || !x.Blocking, rule, "modules.(*Task).runWithLocking / wait for the module start has a way out", "the select also waits for the module context to be cancelled",
					"the queue handler waits for StartCompleted() without the module's Stopping() / context as an alternative: a failed start blocks the task queue of all modules", c.Pos(in.Pos()))
			}
		}
	})
	if n == 0 {
		r.Trivial(rule, "modules.(*Task).runWithLocking / wait for the module start has a way out", "the function no longer waits for the module start")
	}
}

// c06R19: a failed (or panicked) start cancels the module context it created.
func c06R19(c *Ctx, r *Report) {
	const rule = "C06-R19"
	r.SetFloor(rule, 1)
	n := 0
	for _, fn := range funcsOfPkgs(c, "modules") {
		if fn.Parent() == nil || fnKey(fn.Parent()) != "modules.(*Module).start" {
			continue
		}
		eachInstr(fn, func(in ssa.Instruction) {
			st, ok := in.(*ssa.Store)
			if !ok || !isFieldStore("modules.Module", "status")(in) {
				return
			}
			k, isC := constInt(st.Val)
			off, okc := c.constVal("modules", "StatusOffline")
			if !isC || !okc || k != off {
				return
			}
			n++
			bad := ReachInstr(fn, in, isExit, isFieldFuncCall("modules.Module", "cancelCtx"))
			r.Check(bad == nil, rule, fnKey(fn)+" / a failed start cancels the module context", "cancelCtx is called on every path after the status was reset to offline",
				"the start routine failed, the module is offline again, but the context created for this start stays live: workers the start routine launched keep running with nobody to stop them, and tasks waiting for the module are never released", c.Pos(in.Pos()), posOf(c, bad))
		})
	}
	if n == 0 {
		r.Undecided(rule, "modules.(*Module).start", "the failure arm (status reset to offline) was not found")
	}
}

func init() {
	extend("C07", "(R19) runWithLocking - which runs synchronously in the global queue handler - waits for a module's StartCompleted() only in a select that also ends when the module context is cancelled.", c07R19)
	extend("C06", "(R19) the failure arm of Module.start (status reset to offline) cancels the module context on every path, so a failed or panicked start releases what waits for the module and stops what the start routine launched.", c06R19)
}

// c16R17: the block getters consume nothing before they know that the announced block is held.
func c16R17(c *Ctx, r *Report) {
	const rule = "C16-R17"
	r.SetFloor(rule, 2)
	for _, fname := range []string{"container.(*Container).GetNextBlock", "container.(*Container).GetNextBlockAsContainer"} {
		fn := c.Func(fname)
		if fn == nil {
			r.Undecided(rule, fname, "anchor function missing")
			continue
		}
		isSize := func(v ssa.Value) bool {
			for _, l := range c.Leaves(v) {
				if ex, ok := l.(*ssa.Extract); ok && ex.Index == 0 {
					if _, isN := isCallTo(ex, "container.Container.GetNextN64", "formats/varint.Unpack64"); isN {
						return true
					}
				}
			}
			return false
		}
		isHeld := func(v ssa.Value) bool {
			for _, l := range c.Leaves(v) {
				if call, ok := l.(*ssa.Call); ok && strings.HasSuffix(calleeName(&call.Call), "container.Container.Length") {
					return true
				}
				if bo, ok := l.(*ssa.BinOp); ok && bo.Op == token.SUB {
					if call, ok := bo.X.(*ssa.Call); ok && strings.HasSuffix(calleeName(&call.Call), "container.Container.Length") {
						return true
					}
				}
			}
			return false
		}
		fits := relGuards("block size <= held", isSize, isHeld, func(a, b int64) bool { return a <= b })
		consuming := callsIn(fn, "container.Container.skip", "container.Container.GetNextN8", "container.Container.GetNextN16", "container.Container.GetNextN32", "container.Container.GetNextN64",
			"container.Container.Get", "container.Container.GetAsContainer", "container.Container.GetMax", "container.Container.GetAll")
		if len(consuming) == 0 {
			r.Bad(rule, fname+" / consumes only after the size check", "the getter no longer consumes anything")
			continue
		}
		for i, ci := range consuming {
			p := ReachTargetAvoiding(fn, ci, fits, nil)
			r.Check(p == nil, rule, fmt.Sprintf("%s / consuming call #%d (%s) only after the size check", fname, i+1, calleeName(ci.Common())), "reachable only across block size <= held data",
				"the getter consumes data (the length prefix) before it knows that the announced block is held: a request that fails for lack of data leaves the remaining data shifted", c.pathString(p)...)
		}
	}
}

func init() {
	extend("C16", "(R17) GetNextBlock / GetNextBlockAsContainer consume (skip, Get, GetAsContainer, GetNextN*) only across the edge on which the announced block size was found to be within the held data - the length prefix is peeked, not consumed, until then.", c16R17)
	extend("C10", "(R10) = C16-R17 (block extraction from a container consumes the length prefix only together with a block that is fully held).", borrowRule(c16R17, "C16-R17", "C10-R10", 2, nil))
}

// c19R20: Purge establishes the newest-first order itself before it searches the purge boundary.
func c19R20(c *Ctx, r *Report) {
	const rule = "C19-R20"
	r.SetFloor(rule, 1)
	fn := c.Func("updater.(*Resource).Purge")
	if fn == nil {
		r.Undecided(rule, "updater.(*Resource).Purge", "anchor function missing")
		return
	}
	isSort := func(in ssa.Instruction) bool {
		ci, ok := in.(*ssa.Call)
		if !ok {
			return false
		}
		n := calleeName(ci.Common())
		return n == "sort.Sort" || n == "sort.Stable" || strings.HasPrefix(n, "sort.Slice") || strings.HasPrefix(n, "slices.Sort")
	}
	// every position-dependent use of the version list: re-slicing it (Versions[boundary:], Versions[:boundary])
	n := 0
	eachInstr(fn, func(in ssa.Instruction) {
		sl, ok := in.(*ssa.Slice)
		if !ok {
			return
		}
		if _, fr, isF := fieldLoad(sl.X); !isF || fr.Name != "Versions" {
			return
		}
		n++
		r.Check(MustPrecede(fn, isSort, in), rule, fmt.Sprintf("updater.(*Resource).Purge / version list sorted before it is cut #%d", n), "a sort of the resource's versions precedes the cut on every path",
			"Purge cuts the version list at a boundary without having sorted it: a version added since the last selection sits at the end of the list and is purged as if it were the oldest - the file of the newest stable version is deleted", c.Pos(in.Pos()))
	})
	if n == 0 {
		r.Undecided(rule, "updater.(*Resource).Purge", "no cut of the version list found")
	}
}

func init() {
	extend("C19", "(R20) Purge sorts the resource's versions (newest first) before it cuts the list at the purge boundary - the order is not left to whoever called the version selection last.", c19R20)
}

// recheckAfterLockRule: a map entry that is created under a write lock taken
// after an unlocked / read-locked look-up is looked up again under that lock
// (double-checked creation). table: function -> global map.
func recheckAfterLockRule(c *Ctx, r *Report, rule string, table map[string]string) {
	r.SetFloor(rule, len(table))
	for fname, global := range table {
		fn := c.Func(fname)
		if fn == nil {
			r.Undecided(rule, fname, "anchor function missing")
			continue
		}
		isMap := func(v ssa.Value) bool { return vpath(v) == "global:"+global }
		isLookup := func(in ssa.Instruction) bool {
			lk, ok := in.(*ssa.Lookup)
			return ok && isMap(lk.X)
		}
		held := LocksHeldAt(fn)
		n := 0
		eachInstr(fn, func(in ssa.Instruction) {
			mu, ok := in.(*ssa.MapUpdate)
			if !ok || !isMap(mu.Map) {
				return
			}
			n++
			// the write lock held at the store
			var lock string
			for l := range held[in] {
				if !strings.HasPrefix(l, "R:") {
					lock = l
				}
			}
			if lock == "" {
				r.Bad(rule, fname+" / entry created under the write lock after a re-check", "the entry is stored without a write lock held", c.Pos(in.Pos()))
				return
			}
			// from the acquisition of that lock to the store, a look-up of the map must happen
			var bad ssa.Instruction
			eachInstr(fn, func(li ssa.Instruction) {
				ci, isCall := li.(ssa.CallInstruction)
				if !isCall {
					return
				}
				if _, isDefer := li.(*ssa.Defer); isDefer {
					return
				}
				name, op, write := lockOp(ci)
				if op <= 0 || !write || name != lock {
					return
				}
				if x := ReachInstr(fn, li, func(t ssa.Instruction) bool { return t == in }, isLookup); x != nil {
					bad = x
				}
			})
			r.Check(bad == nil, rule, fname+" / entry created under the write lock after a re-check", "between taking the write lock and storing the new entry the map is looked up again",
				"the entry is created under the write lock without looking the map up again: two callers that both missed under the read lock create it one after the other, and the second replaces the first - whatever was registered on the first (subscriptions, hooks, hashmap records) is lost", c.Pos(in.Pos()))
		})
		if n == 0 {
			r.Bad(rule, fname+" / entry created under the write lock after a re-check", "the function no longer stores into "+global)
		}
	}
}

func init() {
	tbl := map[string]string{"database.getController": "database.controllers"}
	const txt = "getController looks the controller map up again after taking the write lock, before it starts the database and stores the new controller (double-checked creation: one controller per database)"
	extend("C14", "(R14) "+txt+".", func(c *Ctx, r *Report) { recheckAfterLockRule(c, r, "C14-R14", tbl) })
	extend("C02", "(R22) = C14-R14: "+txt+".", func(c *Ctx, r *Report) { recheckAfterLockRule(c, r, "C02-R22", tbl) })
	extend("C13", "(R17) = C14-R14: "+txt+".", func(c *Ctx, r *Report) { recheckAfterLockRule(c, r, "C13-R17", tbl) })
}

// ---- round 10 ------------------------------------------------------------------

func init() {
	extend("C02", "(R23) = C13-R14 (the bbolt backend hands out records built from a copy of the transaction's memory).", borrowRule(c13R14, "C13-R14", "C02-R23", 2, nil))
	extend("C08", "(R15) = C13-R14 (records handed out by the bbolt backend do not alias transaction memory: their data stays what was stored); (R16) = C16-R3 (negative / oversized block sizes are errors in the container's block readers).",
		borrowRule(c13R14, "C13-R14", "C08-R15", 2, nil), borrowRule(c16R3, "C16-R3", "C08-R16", 2, nil))
	extend("C05", "(R16) = C01-R5 (ManageModules holds the management lock for its whole pass, like Start and Shutdown).", borrowRule(c01R5, "C01-R5", "C05-R16", 1, nil))
	extend("C07", "(R20) = C05-R5 (Task.isActive: a cancelled task is never active).", borrowRule(c05R5, "C05-R5", "C07-R20", 1, func(s string) bool { return strings.Contains(s, "isActive") }))
	extend("C10", "(R11) = C16-R6 + C16-R2 (skip releases consumed compartments in the container itself; Peek indexes compartments only below their number).",
		borrowRule(c16R6, "C16-R6", "C10-R11", 1, nil), borrowRule(c16R2, "C16-R2", "C10-R11", 1, nil))
}

func init() {
	const txt = "no unintended sharing (A20-A22): the address of a variable declared outside a loop is not stored per iteration; a deferred closure does not release (Unlock/Close/Done...) a captured variable that is assigned again after the defer statement; the result of append onto a field goes back into that field, not into another object or the return value"
	extend("C15", "(R12) in modules "+txt+" - per-module status records are separate objects.", func(c *Ctx, r *Report) { aliasRule(c, r, "C15-R12", 3, []string{"modules"}, nil) })
	extend("C13", "(R18) in database and api "+txt+" - the record that was locked is the one that is unlocked.", func(c *Ctx, r *Report) { aliasRule(c, r, "C13-R18", 3, []string{"database", "api"}, nil) })
	extend("C11", "(R22) in database/query "+txt+" - a query built from another query's group does not share its condition array.", func(c *Ctx, r *Report) { aliasRule(c, r, "C11-R22", 1, []string{"database/query"}, nil) })
	extend("C16", "(R18) in container "+txt+".", func(c *Ctx, r *Report) { aliasRule(c, r, "C16-R18", 3, []string{"container"}, nil) })
	extend("C19", "(R21) in updater "+txt+".", func(c *Ctx, r *Report) { aliasRule(c, r, "C19-R21", 2, []string{"updater"}, nil) })
}

// c03R14: the hashmap query executor reads a record's flags with the record lock held.
func c03R14(c *Ctx, r *Report) {
	const rule = "C03-R14"
	r.SetFloor(rule, 1)
	fn := c.Func("database/storage/hashmap.(*HashMap).queryExecutor")
	if fn == nil {
		r.Undecided(rule, "database/storage/hashmap.(*HashMap).queryExecutor", "anchor function missing")
		return
	}
	n := 0
	var bad []string
	isRecordLock := func(in ssa.Instruction) bool {
		ci, ok := in.(*ssa.Call)
		if !ok {
			return false
		}
		n := calleeName(ci.Common())
		return strings.HasSuffix(n, "record.Record.Lock") || strings.HasSuffix(n, "record.Base.Lock")
	}
	isRecordUnlock := func(in ssa.Instruction) bool {
		ci, ok := in.(*ssa.Call)
		if !ok {
			return false
		}
		n := calleeName(ci.Common())
		return strings.HasSuffix(n, "record.Record.Unlock") || strings.HasSuffix(n, "record.Base.Unlock")
	}
	_ = isRecordUnlock
	eachInstr(fn, func(in ssa.Instruction) {
		ci, ok := in.(*ssa.Call)
		if !ok {
			return
		}
		name := calleeName(ci.Common())
		if !strings.HasSuffix(name, "record.Meta.CheckPermission") && !strings.HasSuffix(name, "record.Meta.CheckValidity") {
			return
		}
		n++
		if p := precededInIteration(fn, in, isRecordLock); p != nil {
			bad = append(bad, fmt.Sprintf("%s at %s", name, c.Pos(in.Pos())))
		}
	})
	if n == 0 {
		r.Undecided(rule, fnKey(fn), "no permission / validity check found")
		return
	}
	r.Check(len(bad) == 0, rule, fnKey(fn)+" / flags read under the record lock", fmt.Sprintf("%d permission / validity checks, each with the record lock held", n),
		"the record's metadata is checked without the record lock ("+strings.Join(bad, "; ")+"): a writer that marks the record secret in the same critical section in which it writes the sensitive content is overtaken - the query lists the record with its new content")
}

// c04R19: allowed values are compared after conversion to the type the value arrived in (ConvertibleTo, not the stricter AssignableTo).
func c04R19(c *Ctx, r *Report) {
	const rule = "C04-R19"
	r.SetFloor(rule, 1)
	fn := c.Func("config.isAllowedPossibleValue")
	if fn == nil {
		r.Undecided(rule, "config.isAllowedPossibleValue", "anchor function missing")
		return
	}
	conv := callsIn(fn, "reflect.Value.Convert")
	if len(conv) == 0 {
		r.Bad(rule, "config.isAllowedPossibleValue / conversion guarded by ConvertibleTo", "allowed values are no longer converted to the type of the given value: an int option loaded from JSON (float64) never matches its allowed values")
		return
	}
	g := Guard{Name: "ConvertibleTo", Truthy: true, Match: func(b ssa.Value) bool {
		_, ok := isCallTo(b, "reflect.Type.ConvertibleTo", "reflect.rtype.ConvertibleTo")
		if ok {
			return true
		}
		call, isCall := b.(*ssa.Call)
		return isCall && call.Call.IsInvoke() && call.Call.Method.Name() == "ConvertibleTo"
	}}
	for i, ci := range conv {
		p := ReachTargetAvoiding(fn, ci, []Guard{g}, nil)
		r.Check(p == nil, rule, fmt.Sprintf("config.isAllowedPossibleValue / conversion #%d guarded by ConvertibleTo", i+1), "the conversion happens exactly when the types are convertible",
			"the allowed value is converted under a different test than ConvertibleTo (e.g. AssignableTo): a valid value that arrives as float64 / int64 (config file, API) is rejected as not allowed", c.pathString(p)...)
	}
}

// c09R15: each decoder of LoadAsFormat is reached only for its own format constant.
func c09R15(c *Ctx, r *Report) {
	const rule = "C09-R15"
	r.SetFloor(rule, 3)
	fn := c.Func("formats/dsd.LoadAsFormat")
	if fn == nil || len(fn.Params) < 2 {
		r.Undecided(rule, "formats/dsd.LoadAsFormat", "anchor function missing")
		return
	}
	format := fn.Params[1]
	table := []struct{ konst, callee string }{
		{"JSON", "encoding/json.Unmarshal"}, {"YAML", "github.com/ghodss/yaml.Unmarshal"}, {"CBOR", "github.com/fxamacker/cbor/v2.Unmarshal"}, {"MsgPack", "github.com/vmihailenco/msgpack/v5.Unmarshal"},
	}
	n := 0
	for _, t := range table {
		k, ok := c.constVal("formats/dsd", t.konst)
		if !ok {
			r.Undecided(rule, "formats/dsd."+t.konst, "constant missing")
			continue
		}
		g := Guard{Name: "format == " + t.konst, Truthy: true, Match: func(b ssa.Value) bool {
			bo, ok := b.(*ssa.BinOp)
			if !ok || bo.Op != token.EQL {
				return false
			}
			kx, cx := constInt(bo.X)
			ky, cy := constInt(bo.Y)
			return (unwrapConv(bo.X) == ssa.Value(format) && cy && ky == k) || (unwrapConv(bo.Y) == ssa.Value(format) && cx && kx == k)
		}}
		for _, ci := range callsIn(fn, t.callee) {
			n++
			p := ReachTargetAvoiding(fn, ci, []Guard{g}, nil)
			r.Check(p == nil, rule, "formats/dsd.LoadAsFormat / "+t.konst+" data is decoded by "+t.callee, "the decoder is reachable only across format == "+t.konst,
				t.callee+" is reached for another format constant than "+t.konst+" (cases merged): data of that format is decoded by a parser for a different syntax - values change silently or valid data is rejected", c.pathString(p)...)
		}
	}
	if n == 0 {
		r.Undecided(rule, "formats/dsd.LoadAsFormat", "no decoder call found")
	}
}

// c09R16: a dump never hands out the bytes of a buffer that goes back into a pool.
func c09R16(c *Ctx, r *Report) {
	const rule = "C09-R16"
	r.SetFloor(rule, 1)
	n := 0
	var bad []string
	for _, fn := range funcsOfPkgs(c, "formats/dsd") {
		// buffers put (back) into a pool by this function (directly or deferred)
		pooled := map[ssa.Value]bool{}
		eachInstr(fn, func(in ssa.Instruction) {
			ci, ok := in.(ssa.CallInstruction)
			if !ok || !strings.HasSuffix(calleeName(ci.Common()), "sync.Pool.Put") {
				return
			}
			for _, a := range callArgs(ci.Common()) {
				for _, l := range c.Leaves(a) {
					pooled[l] = true
				}
			}
		})
		eachInstr(fn, func(in ssa.Instruction) {
			ret, ok := in.(*ssa.Return)
			if !ok {
				return
			}
			for _, v := range ret.Results {
				if _, isSlice := v.Type().Underlying().(*types.Slice); !isSlice {
					continue
				}
				n++
				for _, l := range bytesLeaves(c, v, 0) {
					call, ok := l.(*ssa.Call)
					if !ok || !strings.HasSuffix(calleeName(&call.Call), "bytes.Buffer.Bytes") {
						continue
					}
					for _, bl := range c.Leaves(callArgs(&call.Call)[0]) {
						if pooled[bl] {
							bad = append(bad, fmt.Sprintf("%s returns the bytes of a buffer it puts back into a pool (%s)", fnKey(fn), c.Pos(ret.Pos())))
						}
					}
				}
			}
		})
	}
	if n == 0 {
		r.Undecided(rule, "formats/dsd", "no function returning bytes found")
		return
	}
	r.Check(len(bad) == 0, rule, "formats/dsd / dumped bytes are not shared with a pooled buffer", fmt.Sprintf("%d byte-slice results, none the backing array of a buffer that is put back into a pool", n),
		strings.Join(bad, "; ")+": the next dump reuses the buffer and overwrites the bytes the first caller still holds")
}

// c11R23: Print strips the outer parentheses of the where clause only when it starts with one.
func c11R23(c *Ctx, r *Report) {
	const rule = "C11-R23"
	r.SetFloor(rule, 1)
	fn := c.Func("database/query.(*Query).Print")
	if fn == nil {
		r.Undecided(rule, "database/query.(*Query).Print", "anchor function missing")
		return
	}
	g := callGuard("HasPrefix(where, \"(\")", true, "strings.HasPrefix")
	n := 0
	eachInstr(fn, func(in ssa.Instruction) {
		sl, ok := in.(*ssa.Slice)
		if !ok || sl.Low == nil || sl.High == nil {
			return
		}
		if _, isTail := tailOffset(sl.High, sl.X); !isTail {
			return
		}
		n++
		p := ReachTargetAvoiding(fn, in, []Guard{g}, nil)
		r.Check(p == nil, rule, "database/query.(*Query).Print / outer characters stripped only from a parenthesised clause", "the cut [1:len-1] is reachable only across HasPrefix(where, \"(\")",
			"the first and last character of the where clause are cut off on a path that did not establish a leading parenthesis (e.g. for a clause that merely ends in one): `not (a and b)` prints as `ot (a and b` and does not parse back", c.pathString(p)...)
	})
	if n == 0 {
		r.Trivial(rule, "database/query.(*Query).Print / outer characters stripped only from a parenthesised clause", "Print no longer strips anything")
	}
}

// c12R18: the session map is only ever changed in place (under its lock): nobody replaces the map object.
func c12R18(c *Ctx, r *Report) {
	const rule = "C12-R18"
	r.SetFloor(rule, 1)
	var bad []string
	n := 0
	for _, fn := range funcsOfPkgs(c, "api") {
		eachInstr(fn, func(in ssa.Instruction) {
			if mu, ok := in.(*ssa.MapUpdate); ok && vpath(mu.Map) == "global:api.sessions" {
				n++
			}
			if !isStoreToGlobal("api.sessions")(in) || fn.Name() == "init" {
				return
			}
			bad = append(bad, fmt.Sprintf("%s replaces the session map at %s", fnKey(fn), c.Pos(in.Pos())))
		})
	}
	if n == 0 {
		r.Undecided(rule, "api.sessions", "no in-place update of the session map found")
		return
	}
	r.Check(len(bad) == 0, rule, "api / the session map is changed in place only", fmt.Sprintf("%d in-place updates, no assignment of a new map", n),
		strings.Join(bad, "; ")+": a copy that was filtered outside the lock overwrites what happened meanwhile - a session that was reset is put back and grants access again")
}

// c13R19: in parseAndOr the choice between Or(...) and And(...) is taken on one and the same variable everywhere.
func c13R19(c *Ctx, r *Report, rule string) {
	r.SetFloor(rule, 1)
	fn := c.Func("database/query.parseAndOr")
	if fn == nil {
		r.Undecided(rule, "database/query.parseAndOr", "anchor function missing")
		return
	}
	guards := map[string]int{}
	n := 0
	for _, ci := range callsIn(fn, "database/query.Or") {
		n++
		// the innermost If that dominates the call and decides between this arm and the And arm
		b := ci.Block()
		name := "?"
		for d := b.Idom(); d != nil; d = d.Idom() {
			if len(d.Instrs) == 0 {
				continue
			}
			ifi, ok := d.Instrs[len(d.Instrs)-1].(*ssa.If)
			if !ok {
				continue
			}
			base, _ := peel(ifi.Cond)
			name = exprStr(base)
			break
		}
		guards[name]++
	}
	if n == 0 {
		r.Undecided(rule, "database/query.parseAndOr", "no call of Or found")
		return
	}
	var names []string
	for k := range guards {
		names = append(names, k)
	}
	sort.Strings(names)
	r.Check(len(guards) == 1, rule, "database/query.parseAndOr / every list is closed on the same and/or decision", fmt.Sprintf("%d places build Or(...), all decided by %s", n, strings.Join(names, ", ")),
		"the places that close a condition list decide between Or and And on different variables ("+strings.Join(names, ", ")+"): a multi-term `and` clause followed by orderby/limit/offset is compiled as OR and matches records that satisfy only one condition")
}

// c16R19: the read-only container operations do not change the container.
func c16R19(c *Ctx, r *Report) {
	const rule = "C16-R19"
	ro := []string{"container.(*Container).WriteAllTo", "container.(*Container).Peek", "container.(*Container).PeekContainer", "container.(*Container).Length", "container.(*Container).HoldsData"}
	r.SetFloor(rule, len(ro))
	for _, name := range ro {
		fn := c.Func(name)
		if fn == nil {
			r.Undecided(rule, name, "anchor function missing")
			continue
		}
		recv := fn.Params[0]
		var bad []string
		eachInstr(fn, func(in ssa.Instruction) {
			st, ok := in.(*ssa.Store)
			if !ok {
				return
			}
			// a store through the receiver: c.field = ..., c.compartments[i] = ...
			addr := st.Addr
			for d := 0; d < 4; d++ {
				switch a := addr.(type) {
				case *ssa.FieldAddr:
					if a.X == ssa.Value(recv) {
						bad = append(bad, c.Pos(in.Pos()))
					}
					addr = a.X
					continue
				case *ssa.IndexAddr:
					if b, fr, ok := fieldLoad(a.X); ok && b == ssa.Value(recv) {
						bad = append(bad, fmt.Sprintf("%s (element of %s)", c.Pos(in.Pos()), fr.Name))
					}
				}
				break
			}
		})
		r.Check(len(bad) == 0, rule, name+" / leaves the container unchanged", "no store through the receiver",
			"a non-consuming operation writes to the container ("+strings.Join(bad, ", ")+"): the data it was only supposed to look at is consumed or altered")
	}
	// HoldsData: decided on the lengths, like Length
	if fn := c.Func("container.(*Container).HoldsData"); fn != nil {
		lenTest, nilTest := false, false
		eachInstr(fn, func(in ssa.Instruction) {
			bo, ok := in.(*ssa.BinOp)
			if !ok {
				return
			}
			for _, v := range []ssa.Value{bo.X, bo.Y} {
				if call, ok := v.(*ssa.Call); ok && calleeName(&call.Call) == "builtin.len" {
					if _, isIdx := call.Call.Args[0].(*ssa.UnOp); isIdx {
						lenTest = true
					}
				}
				if isNilConst(v) {
					nilTest = true
				}
			}
		})
		r.Check(lenTest && !nilTest, rule, "container.(*Container).HoldsData / decided on compartment lengths", "compares len(compartment), never a compartment with nil",
			"HoldsData is not decided on the compartments' lengths: an empty but non-nil compartment makes it report data while Length() is 0")
	}
}

// c17R13: CopyFileAtomic / ReplaceFileAtomic hand the caller's options (or a complete copy) on to CreateAtomic.
func c17R13(c *Ctx, r *Report) {
	const rule = "C17-R13"
	r.SetFloor(rule, 2)
	for _, name := range []string{"utils.CopyFileAtomic", "utils.ReplaceFileAtomic"} {
		fn := c.Func(name)
		if fn == nil {
			r.Undecided(rule, name, "anchor function missing")
			continue
		}
		var opts *ssa.Parameter
		for _, p := range fn.Params {
			if p.Name() == "opts" || strings.HasSuffix(p.Type().String(), "AtomicFileOptions") {
				opts = p
			}
		}
		if opts == nil {
			r.Undecided(rule, name, "options parameter not found")
			continue
		}
		n := 0
		for _, ci := range callsIn(fn, "utils.CreateAtomic", "utils.CopyFileAtomic") {
			args := callArgs(ci.Common())
			last := args[len(args)-1]
			n++
			ok := true
			var why []string
			for _, l := range c.Leaves(last) {
				if l == ssa.Value(opts) {
					continue
				}
				al, isAlloc := l.(*ssa.Alloc)
				if !isAlloc {
					ok = false
					why = append(why, leafDesc(l))
					continue
				}
				// a fresh options struct: allowed only as the replacement of a nil parameter, or when TempDir is carried over
				carries := false
				if al.Referrers() != nil {
					for _, ref := range *al.Referrers() {
						if fa, isFA := ref.(*ssa.FieldAddr); isFA && fieldName(fa.X.Type(), fa.Field) == "TempDir" {
							carries = true
						}
					}
				}
				nilGuard := Guard{Name: "opts == nil", Truthy: false, Match: func(b ssa.Value) bool { return b == ssa.Value(opts) }}
				if !carries && al.Block() != nil && len(al.Block().Instrs) > 0 && ReachTargetAvoiding(fn, al.Block().Instrs[0], []Guard{nilGuard}, nil) != nil {
					ok = false
					why = append(why, "a fresh options struct without the caller's TempDir")
				}
			}
			r.Check(ok, rule, fmt.Sprintf("%s / options handed on #%d", name, n), "the callee receives the caller's options, or a fresh struct only in place of nil",
				"the options passed on are not the caller's ("+strings.Join(why, ", ")+"): the requested temporary directory is lost and the half-written copy is staged next to the destination or in the system temp dir")
		}
		if n == 0 {
			r.Undecided(rule, name, "no call that hands the options on")
		}
	}
}

// c18R9: the API bridge checks the joined URL against the root WITH its trailing separator.
func c18R9(c *Ctx, r *Report) {
	const rule = "C18-R9"
	r.SetFloor(rule, 1)
	fn := c.Func("api.callAPI")
	if fn == nil {
		r.Undecided(rule, "api.callAPI", "anchor function missing")
		return
	}
	n := 0
	for _, ci := range callsIn(fn, "strings.HasPrefix") {
		args := ci.Common().Args
		n++
		s, isC := constStrVal(args[1])
		r.Check(isC && strings.HasSuffix(s, "/"), rule, fmt.Sprintf("api.callAPI / scope prefix #%d ends with the separator", n), "the prefix is a constant ending in \"/\"",
			"the bridged URL is checked against a prefix that does not end with the path separator ("+exprStr(args[1])+"): a sibling path that merely shares the root's name as a prefix (/api/v1-internal/...) passes the scope check", c.Pos(ci.Pos()))
	}
	if n == 0 {
		r.Bad(rule, "api.callAPI / scope prefix ends with the separator", "callAPI no longer checks the joined URL against the API root")
	}
}

// c19R22: Export hands out a copy of the version list.
func c19R22(c *Ctx, r *Report) {
	const rule = "C19-R22"
	r.SetFloor(rule, 1)
	fn := c.Func("updater.(*Resource).Export")
	if fn == nil {
		r.Undecided(rule, "updater.(*Resource).Export", "anchor function missing")
		return
	}
	n := 0
	eachInstr(fn, func(in ssa.Instruction) {
		if !isFieldStore("updater.Resource", "Versions")(in) {
			return
		}
		n++
		fresh := true
		var from []string
		for _, l := range c.Leaves(in.(*ssa.Store).Val) {
			if _, ok := l.(*ssa.MakeSlice); !ok {
				fresh = false
				from = append(from, leafDesc(l))
			}
		}
		r.Check(fresh, rule, "updater.(*Resource).Export / exported version list is a fresh slice", "the exported Versions are allocated by Export",
			"the exported resource shares the backing array of the resource's own version list ("+strings.Join(from, ", ")+"): a holder that sorts or filters its export in place reorders the registry's list, and the next selection / purge works on the wrong order", c.Pos(in.Pos()))
	})
	if n == 0 {
		r.Undecided(rule, "updater.(*Resource).Export", "no store of the exported version list found")
	}
}

func init() {
	extend("C03", "(R14) the hashmap query executor checks a record's permission and validity only with the record lock held.", c03R14)
	extend("C04", "(R19) isAllowedPossibleValue converts the allowed value exactly when the types are ConvertibleTo.", c04R19)
	extend("C09", "(R15) in LoadAsFormat each decoder (json, yaml, cbor, msgpack) is reachable only across the comparison with its own format constant; (R16) no dump returns the bytes of a buffer that it puts back into a sync.Pool.", c09R15, c09R16)
	extend("C11", "(R23) Query.Print cuts the outer characters of the where clause only behind HasPrefix(where, \"(\"); (R24) parseAndOr decides between Or and And on the same variable at every place that closes a condition list.", c11R23, func(c *Ctx, r *Report) { c13R19(c, r, "C11-R24") })
	extend("C12", "(R18) the session map is only changed in place; no function assigns a new map to it.", c12R18)
	extend("C13", "(R19) = C11-R24 (a where clause with `and` followed by another clause matches by AND for query, sub and qsub).", func(c *Ctx, r *Report) { c13R19(c, r, "C13-R19") })
	extend("C16", "(R19) the read-only operations (WriteAllTo, Peek, PeekContainer, Length, HoldsData) do not store through the receiver, and HoldsData is decided on compartment lengths.", c16R19)
	extend("C17", "(R13) CopyFileAtomic / ReplaceFileAtomic hand the caller's options on (a fresh struct only in place of nil).", c17R13)
	extend("C18", "(R9) the API bridge compares the joined URL with a root prefix that ends in the separator.", c18R9)
	extend("C19", "(R22) Resource.Export allocates the exported version list.", c19R22)
}

// bytesLeaves is Leaves looking through the re-slicing helpers of package bytes (they return a sub-slice of their argument).
func bytesLeaves(c *Ctx, v ssa.Value, d int) []ssa.Value {
	var out []ssa.Value
	for _, l := range c.Leaves(v) {
		if call, ok := l.(*ssa.Call); ok && d < 5 {
			n := calleeName(&call.Call)
			if strings.HasPrefix(n, "bytes.Trim") || n == "bytes.TrimSuffix" || n == "bytes.TrimPrefix" {
				out = append(out, bytesLeaves(c, call.Call.Args[0], d+1)...)
				continue
			}
		}
		if sl, ok := l.(*ssa.Slice); ok && d < 5 {
			out = append(out, bytesLeaves(c, sl.X, d+1)...)
			continue
		}
		out = append(out, l)
	}
	return out
}

// putUnderRecordLockRule: Controller.Put requires the record to be locked (it
// changes the record's metadata and hands it to hooks, storage and
// subscribers). Every call of it from package database is preceded, on every
// path, by Lock() on that record.
func putUnderRecordLockRule(c *Ctx, r *Report, rule string) {
	r.SetFloor(rule, 6)
	for _, fn := range funcsOfPkgs(c, "database") {
		ord := map[string]int{}
		for _, ci := range callsIn(fn, "database.Controller.Put") {
			args := callArgs(ci.Common())
			if len(args) < 2 {
				continue
			}
			rec := args[1]
			isLock := func(in ssa.Instruction) bool {
				call, ok := in.(*ssa.Call)
				if !ok {
					return false
				}
				n := calleeName(call.Common())
				if !(strings.HasSuffix(n, "record.Record.Lock") || strings.HasSuffix(n, "sync.Mutex.Lock") || strings.HasSuffix(n, "record.Base.Lock")) {
					return false
				}
				a := callArgs(call.Common())
				return len(a) > 0 && (a[0] == rec || sameExpr(a[0], rec, 0) || sameLeaves(c, a[0], rec))
			}
			cons := ordinal(ord, fnKey(fn)+" / Controller.Put with the record locked")
			if why, ok := putLockExempt[fnKey(fn)]; ok {
				r.Trivial(rule, cons, "named exception: "+why)
				continue
			}
			r.Check(MustPrecede(fn, isLock, ci), rule, cons, "Lock() on the record precedes the call on every path",
				"the record is handed to Controller.Put without being locked: its metadata is changed and read while another goroutine that holds the lock works on the same object (with the hashmap storage the stored object is shared)", c.Pos(ci.Pos()))
		}
	}
}

var putLockExempt = map[string]string{}

func sameLeaves(c *Ctx, a, b ssa.Value) bool {
	la, lb := c.Leaves(a), c.Leaves(b)
	if len(la) == 0 || len(la) != len(lb) {
		return false
	}
	for i := range la {
		if la[i] != lb[i] {
			return false
		}
	}
	return true
}

func init() {
	extend("C02", "(R24) every call of Controller.Put from package database is preceded by Lock() on the record it hands over.", func(c *Ctx, r *Report) { putUnderRecordLockRule(c, r, "C02-R24") })
	extend("C14", "(R15) = C02-R24 (the record handed to the hooks, the storage and the subscribers is locked by the caller of Controller.Put).", func(c *Ctx, r *Report) { putUnderRecordLockRule(c, r, "C14-R15") })
}

// c14R16: an operation that a PrePut hook (or the storage) refuses leaves the
// stored record as it was. The interface methods that fetch a record, change
// its metadata and hand it to Controller.Put change - with a storage that hands
// out its own objects (hashmap) - the stored record itself before the hooks
// run; a refused Put must therefore put the metadata back.
func c14R16(c *Ctx, r *Report) {
	const rule = "C14-R16"
	r.SetFloor(rule, 4)
	mutators := []string{"record.Meta.Delete", "record.Meta.MakeSecret", "record.Meta.MakeCrownJewel", "record.Meta.SetAbsoluteExpiry", "record.Meta.SetRelativateExpiry"}
	for _, fn := range funcsOfPkgs(c, "database") {
		if len(callsIn(fn, "database.Interface.getRecord")) == 0 {
			continue
		}
		// the function itself plus the unexported helpers of the package it calls directly
		scope := []*ssa.Function{fn}
		eachInstr(fn, func(in ssa.Instruction) {
			if ci, ok := in.(ssa.CallInstruction); ok {
				if callee := staticCallee(ci.Common()); callee != nil && callee.Pkg == fn.Pkg && callee.Signature.Recv() == nil && !token.IsExported(callee.Name()) && callee.Blocks != nil {
					scope = append(scope, callee)
				}
			}
		})
		puts := 0
		for _, f := range scope {
			puts += len(callsIn(f, "database.Controller.Put"))
		}
		if puts == 0 {
			continue
		}
		var muts []string
		eachInstr(fn, func(in ssa.Instruction) {
			ci, ok := in.(*ssa.Call)
			if !ok {
				return
			}
			n := calleeName(ci.Common())
			for _, m := range mutators {
				if strings.HasSuffix(n, m) {
					muts = append(muts, strings.TrimPrefix(m, "record."))
				}
			}
		})
		if len(muts) == 0 {
			continue
		}
		// is there anything that restores the metadata when Put returned an error?
		restores := false
		for _, f := range scope {
			eachInstr(f, func(in ssa.Instruction) {
				if st, ok := in.(*ssa.Store); ok {
					if _, isMetaPtr := st.Addr.(*ssa.Call); isMetaPtr && strings.HasSuffix(st.Addr.Type().String(), "record.Meta") {
						restores = true
					}
				}
				if ci, ok := in.(*ssa.Call); ok && strings.HasSuffix(calleeName(ci.Common()), ".SetMeta") {
					restores = true
				}
			})
		}
		r.Check(restores, rule, fnKey(fn)+" / a refused write leaves the stored metadata unchanged", "the metadata changed before Controller.Put is put back when Put fails",
			fnKey(fn)+" applies "+strings.Join(muts, ", ")+" to the fetched record and then calls Controller.Put; when a PrePut hook vetoes (or the storage fails) nothing undoes the change: with the hashmap storage the fetched object is the stored one, so the refused operation has happened all the same", c.Pos(fn.Pos()))
	}
}

func init() {
	extend("C14", "(R16) the interface methods that change the metadata of a fetched record before Controller.Put undo the change when Put fails (hook veto, storage error) - with a storage that hands out its own objects the stored record would otherwise be changed by a refused operation. Violated on the pinned tree at five methods: known findings.", c14R16)
}
