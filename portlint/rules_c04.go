package main

import (
	"fmt"
	"go/token"
	"strings"

	"golang.org/x/tools/go/ssa"
)

func init() {
	register(&propDef{
		ID: "C04",
		Explanation: "Decides structural necessary conditions of 'config getters return the layered, validated, current value': " +
			"(R1) exhaustive layer-precedence tables of getValueCache (user layer only if set and its release level <= current, else default layer, else registered default; wrong type -> nil) and of its sibling updateReleaseLevel, and the perspective gate, by finite-valuation propagation with symbolic layer identities; " +
			"(R2) in all 8 getter closures and constructors the validity flag is fetched (and stored to the captured flag) before the value, and the refresh happens exactly when the cached flag is invalid; " +
			"(R3) the 4 Concurrent getters touch their captured state only with their mutex held; " +
			"(R4) the option layers are written only by the four setter sites, under the option lock, a non-nil value only as validateValue's result on its success edge, every successful return is preceded by signalChanges after the store, and signalChanges invalidates the old flag and installs the new one under one write-lock section; " +
			"(R5) getter <-> OptType constant <-> valueCache field tables agree (12 getters); " +
			"(R6) SaveConfig writes, for every registered option, its user-set value exactly when one is set (no other condition decides membership in the saved map), keyed by the option key, and hands that map to the encoder whose output is written to the config file. " +
			"(R7) lock pairing over the functions of package(s) config: " + lockRuleText + ". " +
			"(R8) error discipline over package config: " + repoErrText + ". " +
			"(R9) validateValue consults the allowed-values list for every value it accepts: scalar values before any value cache is built, and every entry of a string list that is matched against the regex is also checked against the allowed values before the next entry. " +
			"(R10) the per-option step of ReplaceConfig/ReplaceDefaultConfig writes the layer field on every path (nil or the validated value): an option whose entry is missing or invalid must not keep the previous layer's value. " +
			"(R11) errors turned into success (A13) over package config: only a missing file (fs.ErrNotExist) is tolerated when loading at start; " +
			"(R12) sibling agreement (A14): the paired functions consist of the same operations - calls with their constant arguments, comparisons (canonical under negation and operand order), field reads/writes, channel operations, returns, each with the number of conditions it depends on - once the instance-specific names are mapped onto each other; logging is ignored, named differences are listed in the table: ReplaceConfig ~ ReplaceDefaultConfig, setConfigOption ~ setDefaultConfigOption (only the user layer is saved to file). " +
			"(R13) sibling agreement (A14) over the getter families: GetAsString ~ GetAsStringArray ~ GetAsInt ~ GetAsBool, plain and concurrency-safe - they differ only in the option-type constant and the value field. " +
			"(R14) Register writes Option.ValidationRegex (derived from the possible values) only before it compiles it. " +
			"NOT decided: JSON encode->decode equality of values, semantics of validation functions/regexes, real setter/getter interleavings (R2-R4 are the protocol's necessary order/lock facts).",
		Rules: []ruleFn{c04R1, c04R2, c04R3, c04R4, c04R5, c04R6, c04R9, c04R10, c04R11, func(c *Ctx, r *Report) { siblingRule(c, r, "C04-R12", sibConfig) }, func(c *Ctx, r *Report) { siblingRule(c, r, "C04-R13", sibGetters) }, c04R14,
			lockRuleFor("C04-R7", 20, []string{"config"}, []string{}, map[string]string{}),
			repoErrRuleFor("C04-R8", 25, func(c *Ctx, fn *ssa.Function) bool { return short(fn.Pkg.Pkg.Path()) == "config" }, map[string]string{"config.AddToDebugInfo / config.ForEachOption": "the callback never returns an error", "config.GetActiveConfigValues / config.ForEachOption": "the callback never returns an error"})},
	})
}

func c04R1(c *Ctx, r *Report) {
	const rule = "C04-R1"
	r.SetFloor(rule, 3)
	// ---- getValueCache
	if fn := c.Func("config.getValueCache"); fn == nil {
		r.Undecided(rule, "config.getValueCache", "anchor function missing")
	} else {
		var bad []string
		table := map[string]string{}
		n := 0
		for _, typeOK := range []bool{true, false} {
			for rl := int64(0); rl < 3; rl++ {
				for cur := int64(0); cur < 3; cur++ {
					for bits := 0; bits < 4; bits++ {
						user, def := bits&1 != 0, bits&2 != 0
						it := &Interp{Fn: fn}
						it.Input = func(v ssa.Value) (AV, bool) {
							switch x := v.(type) {
							case *ssa.Parameter:
								if x.Name() == "option" {
									return avSym("option"), true
								}
								if x.Name() == "requestedType" {
									return avInt(1), true
								}
							case *ssa.Call:
								if calleeName(&x.Call) == "config.getReleaseLevel" {
									return avInt(cur), true
								}
							}
							if fieldLoadOf(v, "config.Option", "OptType") {
								if typeOK {
									return avInt(1), true
								}
								return avInt(2), true
							}
							if fieldLoadOf(v, "config.Option", "ReleaseLevel") {
								return avInt(rl), true
							}
							if fieldLoadOf(v, "config.Option", "activeValue") {
								if user {
									return avSym("user"), true
								}
								return AV{K: KNil}, true
							}
							if fieldLoadOf(v, "config.Option", "activeDefaultValue") {
								if def {
									return avSym("default"), true
								}
								return AV{K: KNil}, true
							}
							if fieldLoadOf(v, "config.Option", "activeFallbackValue") {
								return avSym("fallback"), true
							}
							return AV{}, false
						}
						it.Outcome = func(in ssa.Instruction, ev func(ssa.Value) AV) string {
							if ret, ok := in.(*ssa.Return); ok && len(ret.Results) == 2 {
								return ev(ret.Results[1]).String()
							}
							return ""
						}
						if !it.Run() {
							r.Undecided(rule, "config.getValueCache", "state budget exceeded")
							return
						}
						n++
						ls := strings.Join(outcomeLabels(it.Outcomes), "|")
						key := fmt.Sprintf("typeMatches=%v optionLevel=%d currentLevel=%d userSet=%v defaultSet=%v", typeOK, rl, cur, user, def)
						table[key] = ls
						want := "sym:fallback"
						switch {
						case !typeOK:
							want = "nil"
						case user && rl <= cur:
							want = "sym:user"
						case def:
							want = "sym:default"
						}
						if ls != want {
							bad = append(bad, fmt.Sprintf("%s -> %s (expected %s)", key, ls, want))
						}
					}
				}
			}
		}
		r.Tables[rule+" getValueCache"] = compressTable(table)
		r.Check(len(bad) == 0, rule, "config.getValueCache / layer table", fmt.Sprintf("%d valuations: user (if set and released) > default > registered default; wrong type -> nil", n), strings.Join(firstN(bad, 4), "; "))
		held := LocksHeldAt(fn)
		eachInstr(fn, func(in ssa.Instruction) {
			if v, ok := in.(ssa.Value); ok && (fieldLoadOf(v, "config.Option", "activeValue") || fieldLoadOf(v, "config.Option", "activeDefaultValue")) {
				r.Check(heldLock(held[in], ".Mutex", false), rule, "config.getValueCache / layers read under option lock", "read with the option lock held", "option layers are read without the option lock", c.Pos(in.Pos()))
			}
		})
	}
	// ---- updateReleaseLevel: same precedence for the release-level option itself
	if fn := c.Func("config.updateReleaseLevel"); fn == nil {
		r.Undecided(rule, "config.updateReleaseLevel", "anchor function missing")
	} else {
		var bad []string
		for bits := 0; bits < 4; bits++ {
			user, def := bits&1 != 0, bits&2 != 0
			it := &Interp{Fn: fn}
			it.Input = func(v ssa.Value) (AV, bool) {
				if fieldLoadOf(v, "config.Option", "activeValue") {
					if user {
						return avSym("user"), true
					}
					return AV{K: KNil}, true
				}
				if fieldLoadOf(v, "config.Option", "activeDefaultValue") {
					if def {
						return avSym("default"), true
					}
					return AV{K: KNil}, true
				}
				if fieldLoadOf(v, "config.Option", "activeFallbackValue") {
					return avSym("fallback"), true
				}
				return AV{}, false
			}
			it.Outcome = func(in ssa.Instruction, ev func(ssa.Value) AV) string {
				if fa, ok := in.(*ssa.FieldAddr); ok && fieldName(fa.X.Type(), fa.Field) == "stringVal" {
					return ev(fa.X).String()
				}
				return ""
			}
			it.Run()
			ls := strings.Join(outcomeLabels(it.Outcomes), "|")
			want := "sym:fallback"
			if user {
				want = "sym:user"
			} else if def {
				want = "sym:default"
			}
			if ls != want {
				bad = append(bad, fmt.Sprintf("userSet=%v defaultSet=%v -> level taken from %s (expected %s)", user, def, ls, want))
			}
		}
		r.Check(len(bad) == 0, rule, "config.updateReleaseLevel / layer table", "the effective release level follows user > default > registered default, like every getter",
			"the release-level gate is computed with a different layer precedence than the getters use: "+strings.Join(bad, "; "))
	}
	// ---- perspective gate
	if fn := c.Func("config.(*Perspective).getPerspectiveValueCache"); fn != nil {
		var bad []string
		for rl := int64(0); rl < 3; rl++ {
			for cur := int64(0); cur < 3; cur++ {
				it := &Interp{Fn: fn}
				it.Input = func(v ssa.Value) (AV, bool) {
					if call, ok := v.(*ssa.Call); ok && calleeName(&call.Call) == "config.getReleaseLevel" {
						return avInt(cur), true
					}
					if fieldLoadOf(v, "config.Option", "ReleaseLevel") {
						return avInt(rl), true
					}
					if fieldLoadOf(v, "config.Option", "OptType") {
						return avInt(1), true
					}
					if p, ok := v.(*ssa.Parameter); ok && p.Name() == "requestedType" {
						return avInt(1), true
					}
					if fieldLoadOf(v, "config.perspectiveOption", "valueCache") {
						return avSym("value"), true
					}
					if ex, ok := v.(*ssa.Extract); ok && ex.Index == 1 {
						if _, isLookup := ex.Tuple.(*ssa.Lookup); isLookup {
							return avBool(true), true
						}
					}
					return AV{}, false
				}
				it.Outcome = func(in ssa.Instruction, ev func(ssa.Value) AV) string {
					if ret, ok := in.(*ssa.Return); ok {
						return ev(ret.Results[0]).String()
					}
					return ""
				}
				it.Run()
				ls := strings.Join(outcomeLabels(it.Outcomes), "|")
				want := "sym:value"
				if rl > cur {
					want = "nil"
				}
				if ls != want {
					bad = append(bad, fmt.Sprintf("optionLevel=%d currentLevel=%d -> %s (expected %s)", rl, cur, ls, want))
				}
			}
		}
		r.Check(len(bad) == 0, rule, "config.(*Perspective).getPerspectiveValueCache / release gate", "value visible iff option level <= current level", strings.Join(bad, "; "))
	}
}

func firstN(s []string, n int) []string {
	if len(s) > n {
		return append(s[:n:n], fmt.Sprintf("... %d more", len(s)-n))
	}
	return s
}

// getterFuncs returns the 8 getter constructors (plain and Concurrent).
func (c *Ctx) configGetters() []*ssa.Function {
	var out []*ssa.Function
	for _, n := range []string{"GetAsString", "GetAsStringArray", "GetAsInt", "GetAsBool"} {
		if f := c.Func("config." + n); f != nil {
			out = append(out, f)
		}
		if f := c.Func("config.(*safe)." + n); f != nil {
			out = append(out, f)
		}
	}
	return out
}

func c04R2(c *Ctx, r *Report) {
	const rule = "C04-R2"
	r.SetFloor(rule, 30)
	gs := c.configGetters()
	if len(gs) != 8 {
		r.Undecided(rule, "config getters", fmt.Sprintf("expected 8 getter constructors, found %d", len(gs)))
	}
	isFlagFetch := isCallInstrTo("config.getValidityFlag")
	for _, g := range gs {
		// constructor
		for _, vc := range callsIn(g, "config.getValueCache") {
			r.Check(MustPrecede(g, isFlagFetch, vc), rule, fnKey(g)+" / flag before value", "the validity flag is fetched before the value", "the value is fetched before the validity flag: a change between the two fetches is never noticed", c.Pos(vc.Pos()))
		}
		if len(g.AnonFuncs) != 1 {
			r.Undecided(rule, fnKey(g), "expected exactly one getter closure")
			continue
		}
		cl := g.AnonFuncs[0]
		name := fnKey(cl)
		vcs := callsIn(cl, "config.getValueCache")
		if len(vcs) == 0 {
			r.Bad(rule, name+" / refresh", "the getter closure never refreshes its value")
			continue
		}
		invalid := Guard{Name: "!valid.IsSet()", Truthy: false, Match: func(b ssa.Value) bool {
			call, ok := b.(*ssa.Call)
			if !ok {
				return false
			}
			_, m, ok := aboolOp(call)
			if !ok || m != "IsSet" {
				return false
			}
			// receiver is the captured flag
			u, ok := call.Call.Args[0].(*ssa.UnOp)
			if !ok {
				return false
			}
			fv, ok := u.X.(*ssa.FreeVar)
			return ok && fv.Name() == "valid"
		}}
		for _, vc := range vcs {
			r.Check(MustPrecede(cl, isFlagFetch, vc), rule, name+" / flag before value", "the validity flag is re-fetched before the value", "the value is re-fetched before the validity flag: a change between the two fetches is lost until the next unrelated change", c.Pos(vc.Pos()))
			c.RequireGuards(r, rule, name+" / refresh only when invalid", cl, vc, invalid)
			// the fetched flag is stored to the captured flag before the value fetch
			stored := MustPrecede(cl, func(in ssa.Instruction) bool {
				st, ok := in.(*ssa.Store)
				if !ok {
					return false
				}
				fv, ok := st.Addr.(*ssa.FreeVar)
				if !ok || fv.Name() != "valid" {
					return false
				}
				_, isFetch := isCallTo(st.Val, "config.getValidityFlag")
				return isFetch
			}, vc)
			r.Check(stored, rule, name+" / fetched flag is kept", "the freshly fetched flag replaces the captured one before the value is read", "the freshly fetched flag is not stored: the getter keeps polling a stale flag")
		}
		// refresh happens on every path where the flag is invalid: the return on the invalid branch passes getValueCache
		eachInstr(cl, func(in ssa.Instruction) {
			ret, ok := in.(*ssa.Return)
			if !ok {
				return
			}
			// path to return that takes the "invalid" edge but skips getValueCache
			validG := invalid
			validG.Truthy = true // forbid the 'valid' edge: only paths through the invalid edge remain
			p := ReachTargetAvoiding(cl, ret, []Guard{validG}, isCallInstrTo("config.getValueCache"))
			r.Check(p == nil, rule, name+" / invalid flag forces refresh", "when the cached flag is invalid the value is re-fetched on every path", "the getter can return its cached value although the flag is invalid", c.pathString(p)...)
		})
		// the value returned is the captured value cell
		okArg := true
		for _, vc := range vcs {
			// option passed on is the captured option; requested name is the captured name
			a := vc.Common().Args
			if !hasOrigin(c.Origins(a[0]), "param:name") {
				okArg = false
			}
		}
		r.Check(okArg, rule, name+" / refreshes the same option", "the refresh asks for the getter's own option name", "the refresh asks for a different option")
	}
}

func c04R3(c *Ctx, r *Report) {
	const rule = "C04-R3"
	r.SetFloor(rule, 4)
	for _, n := range []string{"GetAsString", "GetAsStringArray", "GetAsInt", "GetAsBool"} {
		g := c.Func("config.(*safe)." + n)
		if g == nil || len(g.AnonFuncs) != 1 {
			r.Undecided(rule, "config.(*safe)."+n, "anchor function missing")
			continue
		}
		cl := g.AnonFuncs[0]
		held := LocksHeldAt(cl)
		var bad ssa.Instruction
		cnt := 0
		eachInstr(cl, func(in ssa.Instruction) {
			touches := false
			switch x := in.(type) {
			case *ssa.UnOp:
				if fv, ok := x.X.(*ssa.FreeVar); ok && fv.Name() != "lock" {
					touches = true
				}
			case *ssa.Store:
				if fv, ok := x.Addr.(*ssa.FreeVar); ok && fv.Name() != "lock" {
					touches = true
				}
			}
			if touches {
				cnt++
				if !heldLock(held[in], "lock", false) && bad == nil {
					bad = in
				}
			}
		})
		r.Check(bad == nil && cnt > 0, rule, fnKey(cl)+" / captured state under the getter's mutex", fmt.Sprintf("%d accesses to captured state, all with the mutex held", cnt),
			"captured getter state is accessed without the mutex: concurrent callers race on the flag/value hand-over", posOf(c, bad))
	}
}

func c04R4(c *Ctx, r *Report) {
	const rule = "C04-R4"
	r.SetFloor(rule, 20)
	allowed := map[string]string{
		"config.setConfigOption":        "activeValue",
		"config.ReplaceConfig$1":        "activeValue",
		"config.setDefaultConfigOption": "activeDefaultValue",
		"config.ReplaceDefaultConfig$1": "activeDefaultValue",
	}
	ord := map[string]int{}
	for _, field := range []string{"activeValue", "activeDefaultValue"} {
		for _, s := range c.StoresTo("config.Option", field) {
			st := s.Instr.(*ssa.Store)
			cons := ordinal(ord, fmt.Sprintf("%s / store Option.%s", fnKey(s.Fn), field))
			if allowed[fnKey(s.Fn)] != field {
				r.Bad(rule, cons, "the "+field+" layer is written outside its setter", c.Pos(st.Pos()))
				continue
			}
			held := LocksHeldAt(s.Fn)[st]
			r.Check(heldLock(held, ".Mutex", false), rule, cons+" / under option lock", "written with the option lock held", "layer written without the option lock (held: "+setString(held)+")", c.Pos(st.Pos()))
			if isNilConst(st.Val) {
				continue
			}
			o := c.Origins(st.Val)
			okVal := onlyOrigins(o, "call:config.validateValue#0")
			r.Check(okVal, rule, cons+" / validated value", "the stored value is validateValue's result", fmt.Sprintf("a value from %v is installed without validation", o), c.Pos(st.Pos()))
			c.RequireGuards(r, rule, cons, s.Fn, st, Guard{Name: "validateValue error == nil", Truthy: false, Match: func(b ssa.Value) bool {
				ex, ok := b.(*ssa.Extract)
				if !ok || ex.Index != 1 {
					return false
				}
				_, isV := isCallTo(ex, "config.validateValue")
				return isV
			}})
			// validated against the same option
			if ex, ok := st.Val.(*ssa.Extract); ok {
				if call, ok := ex.Tuple.(*ssa.Call); ok {
					fa := st.Addr.(*ssa.FieldAddr)
					r.Check(call.Call.Args[0] == fa.X || (vpath(call.Call.Args[0]) != "" && vpath(call.Call.Args[0]) == vpath(fa.X)), rule, cons+" / validated for this option", "validateValue is called with the option being written", "the value was validated against a different option")
				}
			}
		}
	}
	// every successful return of the four setters is preceded by signalChanges after the store
	isSignal := isCallInstrTo("config.signalChanges")
	for _, t := range []struct{ fn, field string }{
		{"config.setConfigOption", "activeValue"}, {"config.setDefaultConfigOption", "activeDefaultValue"},
		{"config.ReplaceConfig", "activeValue"}, {"config.ReplaceDefaultConfig", "activeDefaultValue"},
	} {
		fn := c.Func(t.fn)
		if fn == nil {
			r.Undecided(rule, t.fn, "anchor function missing")
			continue
		}
		isErrSetter := fn.Signature.Results().Len() == 1
		k := 0
		eachInstr(fn, func(in ssa.Instruction) {
			ret, ok := in.(*ssa.Return)
			if !ok {
				return
			}
			if isErrSetter {
				// error-only returns are not successes: the returned error is a non-nil-checked err
				v := retVal(ret, 0)
				errOnly := true
				for _, l := range c.Leaves(v) {
					if isNilConst(l) {
						errOnly = false
					}
					if _, ok := isCallTo(l, "config.SaveConfig"); ok {
						errOnly = false
					}
				}
				if errOnly && ReachTargetAvoiding(fn, ret, nil, func(x ssa.Instruction) bool {
					st, ok := x.(*ssa.Store)
					if !ok {
						return false
					}
					fr, ok := fieldOfAddr(st.Addr)
					return ok && fr.Name == t.field
				}) != nil {
					return // returned before any layer write
				}
				if errOnly {
					// written and then returned an error: rejected value (layer unchanged on that path) - allowed without signal
					return
				}
			}
			k++
			p := ReachTargetAvoiding(fn, ret, nil, isSignal)
			r.Check(p == nil, rule, fmt.Sprintf("%s / successful return #%d signals the change", t.fn, k), "signalChanges() runs before the setter returns success",
				"the setter can return success without invalidating the getters' validity flag: existing getters keep returning the old value", c.pathString(p)...)
		})
		// signalChanges after the (last) store: the layer write happens before signalChanges
		for _, sc := range callsIn(fn, "config.signalChanges") {
			written := func(x ssa.Instruction) bool {
				switch y := x.(type) {
				case *ssa.Store:
					fr, ok := fieldOfAddr(y.Addr)
					return ok && fr.Name == t.field
				case *ssa.Call:
					// the Replace variants write inside a closure called per option
					if cl := staticCallee(&y.Call); cl != nil && cl.Parent() == fn {
						return true
					}
				}
				return false
			}
			after := ReachInstr(fn, sc, written, nil)
			r.Check(after == nil, rule, t.fn+" / signal after the write", "no layer write follows signalChanges", "a layer is written after signalChanges: getters refreshed in between keep the old value", posOf(c, after))
		}
	}
	// signalChanges itself
	if fn := c.Func("config.signalChanges"); fn == nil {
		r.Undecided(rule, "config.signalChanges", "anchor function missing")
	} else {
		held := LocksHeldAt(fn)
		var inval, install ssa.Instruction
		eachInstr(fn, func(in ssa.Instruction) {
			if p, m, ok := aboolOp(in); ok && p == "global:config.validityFlag" && (m == "SetTo" || m == "UnSet") {
				inval = in
			}
			if st, ok := in.(*ssa.Store); ok && vpath(st.Addr) == "global:config.validityFlag" {
				install = in
			}
		})
		if inval == nil || install == nil {
			r.Bad(rule, "config.signalChanges / invalidate and replace", "signalChanges does not both invalidate the old flag and install a fresh one")
		} else {
			r.Check(held[inval]["global:config.validityFlagLock"], rule, "config.signalChanges / invalidate under write lock", "the old flag is invalidated with validityFlagLock write-held",
				"the old flag is invalidated outside the write lock: two concurrent setters can both invalidate the same old flag and a getter can pick up an intermediate flag that is never invalidated", c.Pos(inval.Pos()))
			r.Check(held[install]["global:config.validityFlagLock"], rule, "config.signalChanges / install under write lock", "the new flag is installed with validityFlagLock write-held", "the new flag is installed outside the write lock", c.Pos(install.Pos()))
			r.Check(MustPrecede(fn, func(x ssa.Instruction) bool { return x == inval }, install), rule, "config.signalChanges / invalidate before install", "the old flag is invalidated before the new one is installed", "the new flag is installed before the old one is invalidated")
			// same critical section: no Unlock between them
			unl := ReachInstr(fn, inval, func(x ssa.Instruction) bool { return x == install }, func(x ssa.Instruction) bool {
				ci, ok := x.(ssa.CallInstruction)
				return ok && strings.HasSuffix(calleeName(ci.Common()), "RWMutex.Unlock")
			})
			r.Check(unl != nil, rule, "config.signalChanges / one critical section", "invalidate and install happen in one write-lock section", "the lock is released between invalidating the old flag and installing the new one")
		}
	}
	// getValidityFlag reads under the read lock
	if fn := c.Func("config.getValidityFlag"); fn != nil {
		held := LocksHeldAt(fn)
		eachInstr(fn, func(in ssa.Instruction) {
			if u, ok := in.(*ssa.UnOp); ok && vpath(u.X) == "global:config.validityFlag" {
				if _, isG := u.X.(*ssa.Global); isG {
					r.Check(heldLock(held[in], "validityFlagLock", true), rule, "config.getValidityFlag / read under lock", "the flag pointer is read under validityFlagLock", "the flag pointer is read without the lock")
				}
			}
		})
	}
}

func c04R5(c *Ctx, r *Report) {
	const rule = "C04-R5"
	r.SetFloor(rule, 12)
	want := map[string]string{"OptTypeString": "stringVal", "OptTypeStringArray": "stringArrayVal", "OptTypeInt": "intVal", "OptTypeBool": "boolVal"}
	byVal := map[int64]string{}
	for n := range want {
		v, ok := c.constVal("config", n)
		if !ok {
			r.Undecided(rule, "config."+n, "constant missing")
			return
		}
		byVal[v] = n
	}
	wantFn := map[string]string{"GetAsString": "OptTypeString", "GetAsStringArray": "OptTypeStringArray", "GetAsInt": "OptTypeInt", "GetAsBool": "OptTypeBool"}
	var fns []*ssa.Function
	fns = append(fns, c.configGetters()...)
	for n := range wantFn {
		if f := c.Func("config.(*Perspective)." + n); f != nil {
			fns = append(fns, f)
		}
	}
	for _, g := range fns {
		for _, fn := range withAnons(g) {
			var types []string
			for _, ci := range callsIn(fn, "config.getValueCache", "config.Perspective.getPerspectiveValueCache") {
				a := ci.Common().Args
				if v, ok := constInt(a[len(a)-1]); ok {
					types = append(types, byVal[v])
				} else {
					types = append(types, "?")
				}
			}
			if len(types) == 0 {
				continue
			}
			fields := map[string]bool{}
			eachInstr(fn, func(in ssa.Instruction) {
				if fa, ok := in.(*ssa.FieldAddr); ok && ownerType(fa.X.Type()) == "config.valueCache" {
					fields[fieldName(fa.X.Type(), fa.Field)] = true
				}
			})
			wt := wantFn[g.Name()]
			ok := len(fields) == 1 && fields[want[wt]]
			for _, t := range types {
				if t != wt {
					ok = false
				}
			}
			var fl []string
			for f := range fields {
				fl = append(fl, f)
			}
			r.Check(ok, rule, fnKey(fn)+" / type table", fmt.Sprintf("requests %s and reads valueCache.%s", wt, want[wt]),
				fmt.Sprintf("getter %s requests %v and reads valueCache fields %v (expected %s / %s)", g.Name(), types, fl, wt, want[wt]))
		}
	}
}

// c04R6: the saved file holds exactly the user-set values.
func c04R6(c *Ctx, r *Report) {
	const rule = "C04-R6"
	r.SetFloor(rule, 3)
	fn := c.Func("config.SaveConfig")
	if fn == nil {
		r.Undecided(rule, "config.SaveConfig", "anchor function missing")
		return
	}
	// the range loop over the option registry
	var next *ssa.Next
	eachInstr(fn, func(in ssa.Instruction) {
		if n, ok := in.(*ssa.Next); ok {
			if rg, ok := n.Iter.(*ssa.Range); ok && strings.HasSuffix(vpath(rg.X), "config.options") {
				next = n
			}
		}
	})
	if next == nil {
		r.Undecided(rule, "config.SaveConfig / range over options", "no range loop over the option registry found")
		return
	}
	var updates []*ssa.MapUpdate
	eachInstr(fn, func(in ssa.Instruction) {
		if mu, ok := in.(*ssa.MapUpdate); ok {
			updates = append(updates, mu)
		}
	})
	if len(updates) == 0 {
		r.Bad(rule, "config.SaveConfig / saved map", "no value is ever put into the saved map")
		return
	}
	savedMap := updates[0].Map
	isSave := func(in ssa.Instruction) bool {
		mu, ok := in.(*ssa.MapUpdate)
		return ok && mu.Map == savedMap
	}
	unset := Guard{Name: "option.activeValue == nil", Truthy: false, Match: func(b ssa.Value) bool {
		return fieldLoadOf(b, "config.Option", "activeValue")
	}}
	// the loop body starts on the ok edge of the Next
	endOfIteration := func(in ssa.Instruction) bool {
		if in == ssa.Instruction(next) {
			return true
		}
		_, isRet := in.(*ssa.Return)
		return isRet
	}
	var bodyStart ssa.Instruction
	for _, ref := range *next.Referrers() {
		if ex, ok := ref.(*ssa.Extract); ok && ex.Index == 0 {
			for _, u := range *ex.Referrers() {
				if ifi, ok := u.(*ssa.If); ok {
					body := ifi.Block().Succs[0]
					if len(body.Instrs) > 0 {
						bodyStart = body.Instrs[0]
					}
				}
			}
		}
	}
	if bodyStart == nil {
		r.Undecided(rule, "config.SaveConfig / loop body", "loop body not identified")
		return
	}
	// search from the first body instruction itself: start "after" a virtual predecessor
	path := reachFromBlockStart(fn, bodyStart.Block(), endOfIteration, []Guard{unset}, isSave)
	r.Check(path == nil, rule, "config.SaveConfig / every option with a user-set value is saved",
		"each loop iteration either stores the option's value in the saved map or has found option.activeValue == nil",
		"an iteration can end without saving although the option has a user-set value (another condition decides what is saved)", c.pathString(path)...)
	// the saved entry is key -> activeValue.getData(option) of the ranged option
	for i, mu := range updates {
		if mu.Map != savedMap {
			continue
		}
		cons := fmt.Sprintf("config.SaveConfig / saved entry #%d", i+1)
		kex, kok := mu.Key.(*ssa.Extract)
		keyOK := (kok && kex.Tuple == ssa.Value(next) && kex.Index == 1) || fieldLoadOf(mu.Key, "config.Option", "Key")
		val := unwrapConv(mu.Value)
		if mi, ok := val.(*ssa.MakeInterface); ok {
			val = mi.X
		}
		call, isCall := val.(*ssa.Call)
		valOK := isCall && calleeName(&call.Call) == "config.valueCache.getData" && fieldLoadOf(call.Call.Args[0], "config.Option", "activeValue")
		r.Check(keyOK && valOK, rule, cons, "saved under the range key with the data of option.activeValue",
			fmt.Sprintf("saved entry is not (range key -> option.activeValue.getData()): key=%s value=%s", vpath(mu.Key), vpath(mu.Value)), c.Pos(mu.Pos()))
		c.RequireGuards(r, rule, cons+" / only set values", fn, mu, Guard{Name: "option.activeValue != nil", Truthy: true, Match: unset.Match})
	}
	// map -> MapToJSON -> os.WriteFile(configFilePath)
	enc := callsIn(fn, "config.MapToJSON")
	wr := callsIn(fn, "os.WriteFile")
	ok := len(enc) == 1 && len(wr) == 1 && enc[0].Common().Args[0] == savedMap
	if ok {
		data := wr[0].Common().Args[1]
		ec, idx := callOf(data)
		ok = ec != nil && idx == 0 && ssa.Instruction(ec) == enc[0].(ssa.Instruction) && strings.HasSuffix(vpath(wr[0].Common().Args[0]), "config.configFilePath")
	}
	r.Check(ok, rule, "config.SaveConfig / saved map is encoded and written to the config file",
		"MapToJSON(saved map) is what os.WriteFile(configFilePath, ...) writes", "the bytes written to the config file are not the encoding of the collected user-set values")
}

// c04R9: allowed values are enforced for every accepted value.
func c04R9(c *Ctx, r *Report) {
	const rule = "C04-R9"
	r.SetFloor(rule, 4)
	fn := c.Func("config.validateValue")
	if fn == nil {
		r.Undecided(rule, "config.validateValue", "anchor function missing")
		return
	}
	isAllowedCall := isCallInstrTo("config.isAllowedPossibleValue")
	arrT, okT := c.constVal("config", "OptTypeStringArray")
	if !okT {
		r.Undecided(rule, "config.OptTypeStringArray", "constant missing")
		return
	}
	arrayOptGuard := func(op token.Token, truthy bool) Guard {
		return Guard{Name: "option.OptType == OptTypeStringArray", Truthy: truthy, Match: func(b ssa.Value) bool {
			bo, ok := b.(*ssa.BinOp)
			if !ok || bo.Op != op {
				return false
			}
			v, isC := constInt(bo.Y)
			return isC && v == arrT && fieldLoadOf(bo.X, "config.Option", "OptType")
		}}
	}
	isArrayOpt := []Guard{arrayOptGuard(token.EQL, true), arrayOptGuard(token.NEQ, false)}
	// scalar value caches
	eachInstr(fn, func(in ssa.Instruction) {
		al, ok := in.(*ssa.Alloc)
		if !ok || ownerType(al.Type()) != "config.valueCache" {
			return
		}
		field := ""
		for _, ref := range *al.Referrers() {
			if fa, ok := ref.(*ssa.FieldAddr); ok {
				field = fieldName(al.Type(), fa.Field)
			}
		}
		if field == "" || field == "stringArrayVal" {
			return
		}
		p := ReachFromAvoiding(fn, nil, func(x ssa.Instruction) bool { return x == in }, isArrayOpt, isAllowedCall)
		r.Check(p == nil, rule, fmt.Sprintf("config.validateValue / %s accepted only after the allowed-values check", field),
			"every path to this value cache passes isAllowedPossibleValue (options of list type are checked per entry)",
			"a scalar value can be accepted without the allowed-values check", append([]string{c.Pos(in.Pos())}, c.pathString(p)...)...)
	})
	// list entries: regex match and allowed-values check come in pairs
	n := 0
	eachInstr(fn, func(in ssa.Instruction) {
		call, ok := in.(*ssa.Call)
		if !ok || calleeName(&call.Call) != "regexp.Regexp.MatchString" {
			return
		}
		// only the match inside the entry loop (its argument is an element of the list)
		inLoop := false
		for _, l := range c.Leaves(call.Call.Args[1]) {
			if u, ok := l.(*ssa.UnOp); ok {
				if _, isIdx := u.X.(*ssa.IndexAddr); isIdx {
					inLoop = true
				}
			}
		}
		if !inLoop {
			return
		}
		n++
		nextIter := func(x ssa.Instruction) bool { return x.Block().Comment == "rangeindex.loop" }
		rejected := func(x ssa.Instruction) bool {
			if isAllowedCall(x) {
				return true
			}
			_, isRet := x.(*ssa.Return)
			return isRet
		}
		bad := ReachInstr(fn, call, nextIter, rejected)
		r.Check(bad == nil, rule, "config.validateValue / every list entry is checked against the allowed values",
			"between the regex match of an entry and the next entry the allowed-values check runs (or the value is rejected)",
			"a list entry that matches the regex is accepted without the allowed-values check: with an explicit validation regex the possible values are not enforced for lists", c.Pos(call.Pos()))
	})
	if n == 0 {
		r.Undecided(rule, "config.validateValue / list entries", "no per-entry regex match found")
	}
}
