package main

import (
	"fmt"
	"go/token"
	"go/types"
	"strings"

	"golang.org/x/tools/go/ssa"
)

// Rules of round 11: six repairs derived from the round-11 agents' remarks on
// the unmodified tree, and the strengthening after the round-11 first pass.

// c19R23: AddVersion looks an existing version up by the normalized version string.
func c19R23(c *Ctx, r *Report) {
	const rule = "C19-R23"
	r.SetFloor(rule, 1)
	const fname = "updater.(*Resource).AddVersion"
	fn := c.Func(fname)
	if fn == nil {
		r.Undecided(rule, fname, "anchor function missing")
		return
	}
	n := 0
	eachInstr(fn, func(in ssa.Instruction) {
		bo, ok := in.(*ssa.BinOp)
		if !ok || (bo.Op != token.EQL && bo.Op != token.NEQ) {
			return
		}
		isVN := func(v ssa.Value) bool {
			u, ok := v.(*ssa.UnOp)
			if !ok || u.Op != token.MUL {
				return false
			}
			fr, ok := fieldOfAddr(u.X)
			return ok && fr.Name == "VersionNumber"
		}
		var other ssa.Value
		switch {
		case isVN(bo.X):
			other = bo.Y
		case isVN(bo.Y):
			other = bo.X
		default:
			return
		}
		n++
		var raw []string
		for _, o := range c.Origins(other) {
			if strings.HasPrefix(o, "param:") {
				raw = append(raw, o)
			}
		}
		r.Check(len(raw) == 0, rule, fname+" / existing version looked up by the normalized string", "the stored VersionNumber is compared with a normalized string ("+strings.Join(c.Origins(other), ", ")+")",
			"the stored (normalized) VersionNumber is compared with the caller's raw string ("+strings.Join(raw, ", ")+"): a version added twice in another spelling (\"1.0\") becomes two entries, and blacklisting it leaves its twin selectable", c.Pos(bo.Pos()))
	})
	if n == 0 {
		r.Undecided(rule, fname, "no comparison with VersionNumber found")
	}
}

// c19R24: addResource registers a new resource only after AddVersion accepted the version.
func c19R24(c *Ctx, r *Report) {
	const rule = "C19-R24"
	r.SetFloor(rule, 1)
	isRegister := func(in ssa.Instruction) bool {
		mu, ok := in.(*ssa.MapUpdate)
		return ok && strings.HasSuffix(vpath(mu.Map), ".resources")
	}
	addVersion := isInvokeOrCallNamed("updater.Resource.AddVersion")
	if fn := c.Func("updater.(*ResourceRegistry).addResource"); fn != nil {
		n := 0
		eachInstr(fn, func(in ssa.Instruction) {
			if addVersion(in) {
				n++
			}
		})
		if n == 0 {
			r.Undecided(rule, "updater.(*ResourceRegistry).addResource", "no call of AddVersion found")
			return
		}
	}
	neverAfter(c, r, rule, "updater.(*ResourceRegistry).addResource", "a resource is registered only once it has a version",
		"the new resource is put into the registry before AddVersion can refuse the version: a refused version leaves a resource without versions, for which nothing can be selected and whose nil selection GetSelectedVersions dereferences with the locks held",
		isRegister, addVersion)
}

// doneCaseBlocks returns the blocks that are entered when a select receives from <ctx>.Done().
func doneCaseBlocks(fn *ssa.Function) []*ssa.BasicBlock {
	var out []*ssa.BasicBlock
	eachInstr(fn, func(in ssa.Instruction) {
		sel, ok := in.(*ssa.Select)
		if !ok {
			return
		}
		for i, st := range sel.States {
			if st.Dir != types.RecvOnly {
				continue
			}
			call, ok := st.Chan.(*ssa.Call)
			if !ok || !strings.HasSuffix(calleeName(call.Common()), "Context.Done") {
				continue
			}
			// find `if extract(sel,0) == i`
			for _, ref := range *sel.Referrers() {
				ex, ok := ref.(*ssa.Extract)
				if !ok || ex.Index != 0 {
					continue
				}
				for _, r2 := range *ex.Referrers() {
					bo, ok := r2.(*ssa.BinOp)
					if !ok || bo.Op != token.EQL {
						continue
					}
					k, ok := constIntVal(bo.Y)
					if !ok || int(k) != i {
						continue
					}
					for _, r3 := range *bo.Referrers() {
						if iff, ok := r3.(*ssa.If); ok {
							out = append(out, iff.Block().Succs[0])
						}
					}
				}
			}
		}
	})
	return out
}

func constIntVal(v ssa.Value) (int64, bool) {
	k, ok := v.(*ssa.Const)
	if !ok || k.Value == nil {
		return 0, false
	}
	if !isIntegerType(k.Type()) {
		return 0, false
	}
	return k.Int64(), true
}

// c19R25: a download step that is given up because the context is done reports an error.
func c19R25(c *Ctx, r *Report) {
	const rule = "C19-R25"
	r.SetFloor(rule, 3)
	for _, fn := range funcsOfPkgs(c, "updater") {
		if fn.Blocks == nil || fn.Signature.Results().Len() == 0 {
			continue
		}
		last := fn.Signature.Results().At(fn.Signature.Results().Len() - 1).Type()
		if last.String() != "error" {
			continue
		}
		if !strings.Contains(fn.Name(), "fetch") && !strings.Contains(fn.Name(), "Fetch") && !strings.Contains(fn.Name(), "download") && !strings.Contains(fn.Name(), "Download") {
			continue
		}
		for i, b := range doneCaseBlocks(fn) {
			var bad []string
			for _, d := range fn.Blocks {
				if d != b && !b.Dominates(d) {
					continue
				}
				for _, in := range d.Instrs {
					if isNilErrReturn(in) {
						bad = append(bad, c.Pos(in.Pos()))
					}
				}
			}
			r.Check(len(bad) == 0, rule, fmt.Sprintf("%s / giving up on a done context #%d reports an error", fnKey(fn), i+1), "no successful return in the <-ctx.Done() branch",
				"the step returns nil when the context is done during the retry backoff: the caller takes nil for a completed download and marks the version as available although no file was written", bad...)
		}
	}
}

// c13R20: the hashmap query executor does not lock records while it holds the map lock.
func c13R20(c *Ctx, r *Report) {
	const rule = "C13-R20"
	r.SetFloor(rule, 1)
	const fname = "database/storage/hashmap.(*HashMap).queryExecutor"
	fn := c.Func(fname)
	if fn == nil {
		r.Undecided(rule, fname, "anchor function missing")
		return
	}
	held := LocksHeldAt(fn)
	n := 0
	var bad []string
	eachInstr(fn, func(in ssa.Instruction) {
		ci, ok := in.(*ssa.Call)
		if !ok {
			return
		}
		name := calleeName(ci.Common())
		if !strings.HasSuffix(name, "record.Record.Lock") && !strings.HasSuffix(name, "record.Base.Lock") {
			return
		}
		n++
		for l := range held[in] {
			if strings.HasSuffix(l, "dbLock") {
				bad = append(bad, fmt.Sprintf("%s with %s held", c.Pos(in.Pos()), l))
			}
		}
	})
	if n == 0 {
		r.Undecided(rule, fname, "no record lock found")
		return
	}
	r.Check(len(bad) == 0, rule, fname+" / records are not locked under the map lock", fmt.Sprintf("%d record lock(s), none with the map lock held", n),
		"the query locks a record while holding the map lock; writers lock the record first and the map second (Interface.Put -> HashMap.Put), so a query and a put of the same record sent to the API at the same time wedge both, and with them every later access to the database: "+strings.Join(bad, "; "))
}

// c12R19: the panic recovery that answers 500 is installed before the request is authenticated.
func c12R19(c *Ctx, r *Report) {
	const rule = "C12-R19"
	r.SetFloor(rule, 1)
	const fname = "api.(*mainHandler).handle"
	fn := c.Func(fname)
	if fn == nil {
		r.Undecided(rule, fname, "anchor function missing")
		return
	}
	recovers := func(in ssa.Instruction) bool {
		d, ok := in.(*ssa.Defer)
		if !ok {
			return false
		}
		var cl *ssa.Function
		switch v := d.Call.Value.(type) {
		case *ssa.MakeClosure:
			cl, _ = v.Fn.(*ssa.Function)
		case *ssa.Function:
			cl = v
		}
		if cl == nil {
			return false
		}
		found := false
		eachInstr(cl, func(x ssa.Instruction) {
			if call, ok := x.(*ssa.Call); ok {
				if b, ok := call.Call.Value.(*ssa.Builtin); ok && b.Name() == "recover" {
					found = true
				}
			}
		})
		return found
	}
	n := 0
	eachInstr(fn, func(in ssa.Instruction) {
		if !isInvokeOrCallNamed("api.authenticateRequest")(in) {
			return
		}
		n++
		r.Check(MustPrecede(fn, recovers, in), rule, fname+" / panic recovery covers authentication", "the recovering defer is installed on every way to authenticateRequest",
			"authenticateRequest runs before the deferred recovery is installed: a panic in the authenticator or in a handler's permission method is swallowed by the worker, and the request that was not let through is answered with an empty 200 instead of 500", c.Pos(in.Pos()))
	})
	if n == 0 {
		r.Undecided(rule, fname, "no call of authenticateRequest found")
	}
}

func init() {
	extend("C16", "(R20) A23: every allocation in package container whose size is a caller-supplied or decoded number is clamped to what is held or stands behind an upper-bounding comparison.", allocRule("C16-R20", 1, "container"))
	extend("C10", "(R12) = C16-R20 over container, formats/varint and formats/dsd.", allocRule("C10-R12", 1, "container", "formats/varint", "formats/dsd"))
	extend("C19", "(R23) AddVersion looks an existing version up by the normalized string; (R24) addResource registers a resource only after AddVersion accepted its version; (R25) no fetch/download step returns nil from its <-ctx.Done() branch.", c19R23, c19R24, c19R25)
	extend("C13", "(R20) the hashmap query executor locks no record while it holds the map lock (writers lock in the opposite order).", c13R20)
	extend("C12", "(R19) in mainHandler.handle the recovering defer is installed on every way to authenticateRequest.", c12R19)
}

// ---------------------------------------------------------------------------
// strengthening after the round-11 first pass

func outerFn(fn *ssa.Function) *ssa.Function {
	for fn.Parent() != nil {
		fn = fn.Parent()
	}
	return fn
}

// A24: an implementation names the same-typed parameters of an interface method in the interface's order.
// The callers go through the interface and pass the arguments in its order; an implementation that declares
// (internal, local bool) for the interface's (local, internal bool) receives each value under the other's name.
func paramOrderSites(c *Ctx) (n int, bad []string) {
	type im struct {
		iface *types.Named
		m     *types.Func
	}
	var methods []im
	for _, p := range c.Pkgs {
		sc := p.Types.Scope()
		for _, name := range sc.Names() {
			tn, ok := sc.Lookup(name).(*types.TypeName)
			if !ok {
				continue
			}
			named, ok := tn.Type().(*types.Named)
			if !ok {
				continue
			}
			it, ok := named.Underlying().(*types.Interface)
			if !ok {
				continue
			}
			for i := 0; i < it.NumMethods(); i++ {
				methods = append(methods, im{named, it.Method(i)})
			}
		}
	}
	for _, p := range c.Pkgs {
		sc := p.Types.Scope()
		for _, name := range sc.Names() {
			tn, ok := sc.Lookup(name).(*types.TypeName)
			if !ok {
				continue
			}
			named, ok := tn.Type().(*types.Named)
			if !ok {
				continue
			}
			if _, isIface := named.Underlying().(*types.Interface); isIface {
				continue
			}
			ptr := types.NewPointer(named)
			for _, x := range methods {
				it := x.iface.Underlying().(*types.Interface)
				if !types.Implements(ptr, it) && !types.Implements(named, it) {
					continue
				}
				obj, _, _ := types.LookupFieldOrMethod(ptr, true, x.m.Pkg(), x.m.Name())
				impl, ok := obj.(*types.Func)
				if !ok || impl.Pkg() == nil || impl.Pkg() != p.Types {
					continue
				}
				// only methods declared on this very type (not promoted ones)
				if sig := impl.Type().(*types.Signature); sig.Recv() == nil {
					continue
				} else {
					rt := sig.Recv().Type()
					if pp, ok := rt.(*types.Pointer); ok {
						rt = pp.Elem()
					}
					if rt != types.Type(named) {
						continue
					}
				}
				ip := x.m.Type().(*types.Signature).Params()
				mp := impl.Type().(*types.Signature).Params()
				if ip.Len() != mp.Len() {
					continue
				}
				// groups of same-typed, named parameters
				for i := 0; i < ip.Len(); i++ {
					for j := i + 1; j < ip.Len(); j++ {
						if !types.Identical(ip.At(i).Type(), ip.At(j).Type()) {
							continue
						}
						a, b := ip.At(i).Name(), ip.At(j).Name()
						if a == "" || b == "" || a == "_" || b == "_" || a == b {
							continue
						}
						n++
						if mp.At(i).Name() == b && mp.At(j).Name() == a {
							bad = append(bad, fmt.Sprintf("%s: %s.%s names parameters %d and %d (%s, %s), the interface %s.%s names them (%s, %s)",
								c.Pos(impl.Pos()), named.Obj().Name(), impl.Name(), i+1, j+1, mp.At(i).Name(), mp.At(j).Name(), x.iface.Obj().Name(), x.m.Name(), a, b))
						}
					}
				}
			}
		}
	}
	return
}

func paramOrderRule(rule string, floor int, why string) ruleFn {
	return func(c *Ctx, r *Report) {
		r.SetFloor(rule, 1)
		n, bad := paramOrderSites(c)
		if n < floor {
			r.Undecided(rule, "parameter order of interface implementations", fmt.Sprintf("only %d same-typed parameter pairs compared, expected at least %d", n, floor))
			return
		}
		r.Check(len(bad) == 0, rule, "interface implementations name same-typed parameters in the interface's order", fmt.Sprintf("%d same-typed parameter pairs of interface implementations compared with the interface's names", n),
			why+": "+strings.Join(bad, "; "), firstPos(bad))
	}
}

// selectCaseBlocks returns the blocks entered when a select receives from a channel accepted by isChan.
func selectCaseBlocks(fn *ssa.Function, isChan func(ssa.Value) bool) []*ssa.BasicBlock {
	var out []*ssa.BasicBlock
	eachInstr(fn, func(in ssa.Instruction) {
		sel, ok := in.(*ssa.Select)
		if !ok {
			return
		}
		for i, st := range sel.States {
			if st.Dir != types.RecvOnly || !isChan(st.Chan) {
				continue
			}
			for _, ref := range *sel.Referrers() {
				ex, ok := ref.(*ssa.Extract)
				if !ok || ex.Index != 0 {
					continue
				}
				for _, r2 := range *ex.Referrers() {
					bo, ok := r2.(*ssa.BinOp)
					if !ok || bo.Op != token.EQL {
						continue
					}
					k, ok := constIntVal(bo.Y)
					if !ok || int(k) != i {
						continue
					}
					for _, r3 := range *bo.Referrers() {
						if iff, ok := r3.(*ssa.If); ok {
							out = append(out, iff.Block().Succs[0])
						}
					}
				}
			}
		}
	})
	return out
}

// nilErrorFromBranch lists the returns that hand out a nil error for control that came through block b:
// returns dominated by b with a nil error, and returns of a Phi that has a nil edge from a block dominated by b.
func nilErrorFromBranch(c *Ctx, fn *ssa.Function, b *ssa.BasicBlock) []string {
	var bad []string
	dom := func(d *ssa.BasicBlock) bool { return d == b || b.Dominates(d) }
	for _, d := range fn.Blocks {
		for _, in := range d.Instrs {
			ret, ok := in.(*ssa.Return)
			if !ok || len(ret.Results) == 0 {
				continue
			}
			v := retVal(ret, len(ret.Results)-1)
			if dom(d) {
				if isNilConst(v) {
					bad = append(bad, c.Pos(ret.Pos()))
				}
				continue
			}
			if phi, ok := v.(*ssa.Phi); ok {
				for i, e := range phi.Edges {
					if isNilConst(e) && dom(phi.Block().Preds[i]) {
						bad = append(bad, c.Pos(ret.Pos()))
					}
				}
			}
		}
	}
	return bad
}

// c01R16: a control function that runs into its timeout reports an error.
func c01R16(c *Ctx, r *Report) {
	const rule = "C01-R16"
	r.SetFloor(rule, 1)
	isAfter := func(v ssa.Value) bool {
		call, ok := v.(*ssa.Call)
		return ok && calleeName(call.Common()) == "time.After"
	}
	for _, fn := range funcsOfPkgs(c, "modules") {
		if fn.Blocks == nil || !strings.Contains(fn.Name(), "Timeout") || fn.Signature.Results().Len() == 0 {
			continue
		}
		if fn.Signature.Results().At(fn.Signature.Results().Len()-1).Type().String() != "error" {
			continue
		}
		for i, b := range selectCaseBlocks(fn, isAfter) {
			bad := nilErrorFromBranch(c, fn, b)
			r.Check(len(bad) == 0, rule, fmt.Sprintf("%s / the timeout branch #%d reports an error", fnKey(fn), i+1), "no nil error leaves the <-time.After branch",
				"the function returns nil when the timeout fires: a start or stop function that hangs counts as done, the module is marked online (or offline) while its function is still running", bad...)
		}
	}
}

// A25: a goroutine that closes a channel closes it on every way out.
func closeOnEveryExitSites(c *Ctx, fn *ssa.Function) (n int, bad []string) {
	// channels closed by fn (not deferred), keyed by vpath
	type cl struct {
		in   ssa.Instruction
		path string
	}
	var closes []cl
	deferred := map[string]bool{}
	eachInstr(fn, func(in ssa.Instruction) {
		ci, ok := in.(ssa.CallInstruction)
		if !ok {
			return
		}
		b, ok := ci.Common().Value.(*ssa.Builtin)
		if !ok || b.Name() != "close" || len(ci.Common().Args) != 1 {
			return
		}
		p := vpath(ci.Common().Args[0])
		if p == "" {
			return
		}
		if _, isDefer := in.(*ssa.Defer); isDefer {
			deferred[p] = true
			return
		}
		closes = append(closes, cl{in, p})
	})
	n += len(deferred)
	seen := map[string]bool{}
	for _, k := range closes {
		if seen[k.path] || deferred[k.path] {
			continue
		}
		seen[k.path] = true
		n++
		isClose := func(in ssa.Instruction) bool {
			ci, ok := in.(ssa.CallInstruction)
			if !ok {
				return false
			}
			b, ok := ci.Common().Value.(*ssa.Builtin)
			return ok && b.Name() == "close" && len(ci.Common().Args) == 1 && vpath(ci.Common().Args[0]) == k.path
		}
		if x := ReachInstr(fn, nil, isExit, isClose); x != nil {
			bad = append(bad, fmt.Sprintf("%s: return without close(%s) (closed at %s)", c.Pos(x.Pos()), k.path, c.Pos(k.in.Pos())))
		}
	}
	return
}

func goroutineBodies(c *Ctx, fns []*ssa.Function) []*ssa.Function {
	var out []*ssa.Function
	seen := map[*ssa.Function]bool{}
	for _, fn := range fns {
		eachInstr(fn, func(in ssa.Instruction) {
			g, ok := in.(*ssa.Go)
			if !ok {
				return
			}
			var body *ssa.Function
			switch v := g.Call.Value.(type) {
			case *ssa.MakeClosure:
				body, _ = v.Fn.(*ssa.Function)
			case *ssa.Function:
				body = v
			}
			if body != nil && body.Blocks != nil && !seen[body] {
				seen[body] = true
				out = append(out, body)
			}
		})
	}
	return out
}

func closeOnEveryExitRule(rule string, floor int, why string, pkgs ...string) ruleFn {
	return func(c *Ctx, r *Report) {
		r.SetFloor(rule, floor)
		for _, body := range goroutineBodies(c, funcsOfPkgs(c, pkgs...)) {
			n, bad := closeOnEveryExitSites(c, body)
			if n == 0 {
				continue
			}
			r.Check(len(bad) == 0, rule, fnKey(body)+" / a channel the goroutine closes is closed on every way out", fmt.Sprintf("%d channel(s) closed on every return", n),
				why+": "+strings.Join(bad, "; "), firstPos(bad))
		}
	}
}

func probeRound11(c *Ctx) {
	n, bad := paramOrderSites(c)
	fmt.Println("A24 same-typed parameter pairs:", n)
	for _, b := range bad {
		fmt.Println("  BAD", b)
	}
	t := 0
	for _, body := range goroutineBodies(c, c.AllFuncs()) {
		n, bad := closeOnEveryExitSites(c, body)
		t += n
		if n > 0 {
			fmt.Printf("A25 %s closes=%d\n", fnKey(body), n)
		}
		for _, b := range bad {
			fmt.Println("  BAD", b)
		}
	}
	fmt.Println("A25 goroutine channel closes:", t)
}

// metaSnapshotRule: the metadata snapshot that putChanged restores on a refused write is taken
// with the record locked and before the operation changes anything.
func metaSnapshotRule(rule string) ruleFn {
	return func(c *Ctx, r *Report) {
		r.SetFloor(rule, 5)
		isRecordLock := func(in ssa.Instruction) bool {
			ci, ok := in.(*ssa.Call)
			if !ok {
				return false
			}
			n := calleeName(ci.Common())
			return strings.HasSuffix(n, "record.Record.Lock") || strings.HasSuffix(n, "record.Base.Lock")
		}
		changes := func(in ssa.Instruction) bool {
			ci, ok := in.(*ssa.Call)
			if !ok {
				return false
			}
			n := calleeName(ci.Common())
			if strings.HasSuffix(n, "database.Options.Apply") {
				return true
			}
			if strings.HasPrefix(n, "database/record.Meta.") {
				switch n[len("database/record.Meta."):] {
				case "Delete", "MakeSecret", "MakeCrownJewel", "SetAbsoluteExpiry", "SetRelativateExpiry", "Update", "Reset":
					return true
				}
			}
			return false
		}
		type snap struct {
			Fn   *ssa.Function
			load *ssa.UnOp
		}
		var snaps []snap
		for _, fn := range funcsOfPkgs(c, "database") {
			if fn.Blocks == nil {
				continue
			}
			eachInstr(fn, func(in ssa.Instruction) {
				u, ok := in.(*ssa.UnOp)
				if !ok || u.Op != token.MUL {
					return
				}
				mc, ok := u.X.(*ssa.Call)
				if !ok || !strings.HasSuffix(calleeName(mc.Common()), ".Meta") {
					return
				}
				if _, isStruct := u.Type().Underlying().(*types.Struct); !isStruct {
					return
				}
				snaps = append(snaps, snap{fn, u})
			})
		}
		for _, s := range snaps {
			load := s.load
			construct := fnKey(s.Fn) + " / metadata snapshot taken under the record lock, before any change"
			if load == nil {
				r.Undecided(rule, construct, "the snapshot handed to putChanged is not a copy of *r.Meta()")
				continue
			}
			var bad []string
			if !MustPrecede(s.Fn, isRecordLock, load) {
				bad = append(bad, "the snapshot is taken without the record lock: a concurrent writer's change of the metadata is overwritten by the stale copy when the write is refused (and the copy itself races with that writer)")
			}
			var first ssa.Instruction
			eachInstr(s.Fn, func(in ssa.Instruction) {
				if first == nil && changes(in) {
					if ReachInstr(s.Fn, in, func(x ssa.Instruction) bool { return x == ssa.Instruction(load) }, nil) != nil {
						first = in
					}
				}
			})
			if first != nil {
				bad = append(bad, "the snapshot is taken after "+calleeName(first.(*ssa.Call).Common())+" at "+c.Pos(first.Pos())+" already changed the metadata: a refused write puts the changed values back, the fetched record keeps what the interface options applied")
			}
			r.Check(len(bad) == 0, rule, construct, "copy of *r.Meta() after r.Lock() and before Options.Apply / any Meta mutator", strings.Join(bad, "; "), c.Pos(load.Pos()))
		}
	}
}

// c06R20: SetErrorReportingChannel installs whatever channel it is given (nil switches reporting off).
func c06R20(c *Ctx, r *Report) {
	const rule = "C06-R20"
	r.SetFloor(rule, 1)
	const fname = "modules.SetErrorReportingChannel"
	fn := c.Func(fname)
	if fn == nil {
		r.Undecided(rule, fname, "anchor function missing")
		return
	}
	x := ReachInstr(fn, nil, isExit, isStoreToGlobal("modules.errorReportingChannel"))
	r.Check(x == nil, rule, fname+" / the given channel is installed on every path", "every return is preceded by the store to errorReportingChannel",
		"a return is reachable without storing the given channel: handing in nil no longer switches reporting off, reports keep going to a channel its owner stopped reading", posOf(c, x))
}

// c07R21: the channel the scheduler waits on is a timer made for this wait (or the never-firing one).
func c07R21(c *Ctx, r *Report) {
	const rule = "C07-R21"
	r.SetFloor(rule, 1)
	const fname = "modules.waitUntilNextScheduledTask"
	fn := c.Func(fname)
	if fn == nil {
		r.Undecided(rule, fname, "anchor function missing")
		return
	}
	n := 0
	eachInstr(fn, func(in ssa.Instruction) {
		ret, ok := in.(*ssa.Return)
		if !ok || len(ret.Results) != 1 {
			return
		}
		n++
		var other []string
		for _, o := range c.Origins(retVal(ret, 0)) {
			if o != "call:time.After#0" && o != "field:global:modules.waitForever" && o != "global:modules.waitForever" {
				other = append(other, o)
			}
		}
		r.Check(len(other) == 0, rule, fmt.Sprintf("%s / the returned channel is a fresh timer or waitForever #%d", fname, n), "returns time.After(...) or waitForever",
			"the returned channel comes from "+strings.Join(other, ", ")+": a timer channel delivers once; when it is handed out again after it fired (the next task is due at the same time, or was re-scheduled to it) the scheduler waits forever and due tasks are not started", c.Pos(ret.Pos()))
	})
	if n == 0 {
		r.Undecided(rule, fname, "no return found")
	}
}

// c09R17: the mime type of a response/request is looked up for the requested format only.
func c09R17(c *Ctx, r *Report) {
	const rule = "C09-R17"
	r.SetFloor(rule, 2)
	for _, fn := range funcsOfPkgs(c, "formats/dsd") {
		if fn.Blocks == nil {
			continue
		}
		i := 0
		eachInstr(fn, func(in ssa.Instruction) {
			lk, ok := in.(*ssa.Lookup)
			if !ok || !strings.HasSuffix(vpath(lk.X), "dsd.FormatToMimeType") {
				return
			}
			i++
			var other []string
			for _, o := range c.Origins(lk.Index) {
				if !strings.HasPrefix(o, "param:") && !strings.HasPrefix(o, "call:") {
					other = append(other, o)
				}
			}
			r.Check(len(other) == 0, rule, fmt.Sprintf("%s / mime type looked up for the caller's format #%d", fnKey(fn), i), "the key is the format the caller asked for",
				"the mime type is looked up for "+strings.Join(other, ", ")+" instead of the requested format: a format without a mime type (AUTO, an unknown number) is no longer refused, the request goes out asking for another format than the caller will parse the answer as", c.Pos(lk.Pos()))
		})
	}
}

// c12R20: the api module keeps its keys current whatever authenticator is configured.
func c12R20(c *Ctx, r *Report) {
	const rule = "C12-R20"
	r.SetFloor(rule, 1)
	isHook := func(in ssa.Instruction) bool {
		ci, ok := in.(*ssa.Call)
		if !ok || !strings.HasSuffix(calleeName(ci.Common()), "modules.Module.RegisterEventHook") {
			return false
		}
		for _, a := range ci.Common().Args {
			for _, o := range curCtx.Origins(a) {
				if strings.Contains(o, "updateAPIKeys") {
					return true
				}
			}
		}
		return false
	}
	fn := c.Func("api.start")
	if fn == nil {
		r.Undecided(rule, "api.start", "anchor function missing")
		return
	}
	x := ReachInstr(fn, nil, isExit, isHook)
	r.Check(x == nil, rule, "api.start / the config-change hook that refreshes the API keys is registered on every way through start", "every return is preceded by the registration",
		"start returns without having registered updateAPIKeys for config changes on some path: keys that are removed or expire in the configuration keep granting their permission until restart", posOf(c, x))
}

// whoMayCallRule: the callee is called only from the listed functions.
func whoMayCallRule(c *Ctx, r *Report, rule string, floor int, callee string, allowed []string, why string) {
	r.SetFloor(rule, floor)
	n := 0
	for _, s := range c.CallSites(callee) {
		n++
		caller := fnKey(outerFn(s.Fn))
		r.Check(inList(caller, allowed), rule, callee+" called from "+caller, "caller is in the table", why, c.Pos(s.Instr.Pos()))
	}
	if n < floor {
		r.Undecided(rule, callee, fmt.Sprintf("%d call sites found, expected at least %d", n, floor))
	}
}

func c15R13(c *Ctx, r *Report) {
	whoMayCallRule(c, r, "C15-R13", 3, "modules.Module.runMicroTask",
		[]string{"modules.(*Module).RunHighPriorityMicroTask", "modules.(*Module).RunMicroTask", "modules.(*Module).RunMediumPriorityMicroTask", "modules.(*Module).RunLowPriorityMicroTask"},
		"runMicroTask is entered without the counting and clearance of a Run*MicroTask function: the task is not counted as a running microtask, lower priorities get clearance while it runs and the concurrency bound does not hold")
}

// c16R21: the offset of a container is moved only by the functions that also release or re-base the compartments.
func c16R21(c *Ctx, r *Report) {
	const rule = "C16-R21"
	r.SetFloor(rule, 7)
	allowed := []string{"container.(*Container).Replace", "container.(*Container).CompileData", "container.(*Container).WriteToSlice", "container.(*Container).renewCompartments",
		"container.(*Container).carbonCopy", "container.(*Container).checkOffset", "container.(*Container).skip", "container.(*Container).Prepend", "container.(*Container).UnmarshalJSON", "container.New", "container.NewContainer"}
	for i, s := range c.StoresTo("container.Container", "offset") {
		caller := fnKey(outerFn(s.Fn))
		r.Check(inList(caller, allowed), rule, fmt.Sprintf("offset written in %s #%d", caller, i), "writer is in the table",
			"the offset is set outside the functions that keep it in step with the compartments: data that was handed out stays in the skipped compartments (or held data is jumped over), so later operations return bytes twice or lose them", c.Pos(s.Instr.Pos()))
	}
}

// c17R14: EnsureDirectory decides on what the path leads to (os.Stat), not on the link itself.
func c17R14(c *Ctx, r *Report) {
	const rule = "C17-R14"
	r.SetFloor(rule, 1)
	const fname = "utils.EnsureDirectory"
	fn := c.Func(fname)
	if fn == nil {
		r.Undecided(rule, fname, "anchor function missing")
		return
	}
	n := 0
	eachInstr(fn, func(in ssa.Instruction) {
		ci, ok := in.(*ssa.Call)
		if !ok || !strings.HasSuffix(calleeName(ci.Common()), "FileInfo.IsDir") {
			return
		}
		n++
		var other []string
		for _, o := range c.Origins(callArgs(ci.Common())[0]) {
			if o != "call:os.Stat#0" {
				other = append(other, o)
			}
		}
		r.Check(len(other) == 0, rule, fname+" / the directory test looks through symbolic links", "IsDir is asked of os.Stat's result",
			"IsDir is asked of "+strings.Join(other, ", ")+": a symbolic link to a directory is not a directory for Lstat, so the link is removed and replaced by an empty directory - the files below the linked directory are gone for every user of the path", c.Pos(ci.Pos()))
	})
	if n == 0 {
		r.Undecided(rule, fname, "no IsDir call found")
	}
}

// c18R10: directories are created one level at a time, except where a table entry says otherwise.
func c18R10(c *Ctx, r *Report) {
	whoMayCallRule(c, r, "C18-R10", 2, "os.MkdirAll",
		[]string{"database/storage/fstree.NewFSTree", "database/storage/fstree.(*FSTree).Put", "database/storage/fstree.writeFile"},
		"os.MkdirAll creates every missing parent with the permission of the leaf: the directory structure's per-level permissions and its refusal to create anything outside an existing parent are bypassed")
}

// c19R26: nothing removes a resource from the registry's map (Reset replaces the map).
func c19R26(c *Ctx, r *Report) {
	const rule = "C19-R26"
	n := 0
	for _, fn := range funcsOfPkgs(c, "updater") {
		eachInstr(fn, func(in ssa.Instruction) {
			ci, ok := in.(ssa.CallInstruction)
			if !ok {
				return
			}
			b, ok := ci.Common().Value.(*ssa.Builtin)
			if !ok || b.Name() != "delete" || len(ci.Common().Args) != 2 {
				return
			}
			if !strings.HasSuffix(vpath(ci.Common().Args[0]), ".resources") {
				return
			}
			n++
			r.Bad(rule, fnKey(outerFn(fn))+" / deletes from the registry's resource map", "a resource is deleted from the registry at "+c.Pos(in.Pos())+": versions that were registered before (and their files on disk) are no longer known, nothing is selected for the identifier any more and a purge does not see its files")
		})
	}
	if n == 0 {
		r.Trivial(rule, "updater / no function deletes from the registry's resource map", "no delete(reg.resources, ...) in package updater")
	}
}

func init() {
	extend("C03", "(R15) A24: implementations of repo interfaces name same-typed parameters in the interface's order (local/internal of storage.Interface.Query); (R16) = C14-R17.", paramOrderRule("C03-R15", 6, "the implementation receives each flag under the other's name: a query from a non-local or non-internal caller is answered with the permissions of the other flag"), metaSnapshotRule("C03-R16"))
	extend("C14", "(R17) the metadata snapshot handed to putChanged is a copy of *r.Meta() taken after r.Lock() and before Options.Apply / any Meta mutator.", metaSnapshotRule("C14-R17"))
	extend("C01", "(R16) in the modules package a ...Timeout function returns no nil error for control that came through its <-time.After branch.", c01R16)
	extend("C02", "(R25) A25: a goroutine of package database that closes a channel closes it on every way out.", closeOnEveryExitRule("C02-R25", 1, "a way out of the goroutine leaves the channel open: the batch writer behind it waits for more records forever, the batch is never finished and its errors never reported", "database"))
	extend("C06", "(R20) SetErrorReportingChannel stores the given channel on every path.", c06R20)
	extend("C07", "(R21) waitUntilNextScheduledTask returns time.After(...) or waitForever only.", c07R21)
	extend("C09", "(R17) FormatToMimeType is indexed with the caller's format only.", c09R17)
	extend("C12", "(R20) api.start registers the config-change hook for updateAPIKeys on every successful path.", c12R20)
	extend("C15", "(R13) runMicroTask is called by the Run*MicroTask functions only.", c15R13)
	extend("C16", "(R21) who-may-write table for Container.offset.", c16R21)
	extend("C17", "(R14) EnsureDirectory asks IsDir of os.Stat's result.", c17R14)
	extend("C18", "(R10) who-may-call table for os.MkdirAll.", c18R10)
	extend("C19", "(R26) no function of package updater deletes from the registry's resource map.", c19R26)
}

// c01R17: in startModules every received report is counted exactly once before the next one is awaited.
// (R15 shows that the function returns only when reported >= launched; that argument needs the report
// counter to be the number of reports received.)
func c01R17(c *Ctx, r *Report) {
	const rule = "C01-R17"
	r.SetFloor(rule, 2)
	const fname = "modules.startModules"
	fn := c.Func(fname)
	if fn == nil {
		r.Undecided(rule, fname, "anchor function missing")
		return
	}
	isStartCall := func(in ssa.Instruction) bool {
		ci, ok := in.(*ssa.Call)
		return ok && calleeName(ci.Common()) == "modules.Module.start"
	}
	launchBlk := map[*ssa.BasicBlock]bool{}
	var recvs []*ssa.UnOp
	eachInstr(fn, func(in ssa.Instruction) {
		if isStartCall(in) {
			launchBlk[in.Block()] = true
		}
		if u, ok := in.(*ssa.UnOp); ok && u.Op == token.ARROW {
			recvs = append(recvs, u)
		}
	})
	// the report counter: the operand of a comparison guarding the first receive whose web of Phis and
	// +1 operations has an increment behind a receive (the launch counter is incremented where starts are launched)
	isPlusOne := func(v ssa.Value) (*ssa.BinOp, bool) {
		bo, ok := v.(*ssa.BinOp)
		if !ok || bo.Op != token.ADD {
			return nil, false
		}
		k, isC := constInt(bo.Y)
		return bo, isC && k == 1
	}
	webOf := func(seed ssa.Value) map[ssa.Value]bool {
		web := map[ssa.Value]bool{seed: true}
		for changed := true; changed; {
			changed = false
			add := func(v ssa.Value) {
				if !web[v] {
					web[v] = true
					changed = true
				}
			}
			for v := range web {
				if phi, ok := v.(*ssa.Phi); ok {
					for _, e := range phi.Edges {
						if _, isConst := e.(*ssa.Const); !isConst {
							add(e)
						}
					}
				}
				if bo, ok := isPlusOne(v); ok {
					add(bo.X)
				}
				if refs := v.Referrers(); refs != nil {
					for _, ref := range *refs {
						if phi, ok := ref.(*ssa.Phi); ok {
							add(phi)
						}
						if bo, ok := ref.(*ssa.BinOp); ok {
							if _, is := isPlusOne(bo); is && bo.X == v {
								add(bo)
							}
						}
					}
				}
			}
		}
		return web
	}
	afterRecv := func(b *ssa.BasicBlock) bool {
		for _, rv := range recvs {
			if rv.Block() == b || rv.Block().Dominates(b) {
				return true
			}
		}
		return false
	}
	var web map[ssa.Value]bool
	if len(recvs) > 0 {
		for _, b := range fn.Blocks {
			if len(b.Instrs) == 0 || !b.Dominates(recvs[0].Block()) || web != nil {
				continue
			}
			iff, ok := b.Instrs[len(b.Instrs)-1].(*ssa.If)
			if !ok {
				continue
			}
			cond, ok := iff.Cond.(*ssa.BinOp)
			if !ok || !isIntegerType(cond.X.Type()) {
				continue
			}
			switch cond.Op {
			case token.LSS, token.LEQ, token.GTR, token.GEQ:
			default:
				continue
			}
			for _, side := range []ssa.Value{cond.X, cond.Y} {
				w := webOf(side)
				for v := range w {
					if bo, is := isPlusOne(v); is && afterRecv(bo.Block()) && !launchBlk[bo.Block()] {
						web = w
					}
				}
			}
		}
	}
	if web == nil {
		r.Undecided(rule, fname, "comparison of the report counter that guards the receive not found")
		return
	}
	isInc := func(in ssa.Instruction) bool {
		bo, ok := in.(*ssa.BinOp)
		if !ok || !web[bo] {
			return false
		}
		_, is := isPlusOne(bo)
		return is
	}
	type state struct {
		b *ssa.BasicBlock
		n int
	}
	for i, rv := range recvs {
		seen := map[state]bool{}
		var bad []string
		var walk func(b *ssa.BasicBlock, from int, n int)
		walk = func(b *ssa.BasicBlock, from int, n int) {
			for _, in := range b.Instrs[from:] {
				if isInc(in) {
					n++
				}
				if u, ok := in.(*ssa.UnOp); ok && u.Op == token.ARROW {
					if n != 1 {
						bad = append(bad, fmt.Sprintf("%d increments between the receive at %s and the receive at %s", n, c.Pos(rv.Pos()), c.Pos(u.Pos())))
					}
					return
				}
			}
			if n > 3 {
				return
			}
			for _, s := range b.Succs {
				st := state{s, n}
				if seen[st] {
					continue
				}
				seen[st] = true
				walk(s, 0, n)
			}
		}
		idx := 0
		for k, in := range rv.Block().Instrs {
			if in == ssa.Instruction(rv) {
				idx = k + 1
			}
		}
		walk(rv.Block(), idx, 0)
		r.Check(len(bad) == 0, rule, fmt.Sprintf("%s / report received at receive #%d is counted exactly once before the next receive", fname, i+1), "exactly one increment on every way to the next receive",
			"the report counter does not count the reports received ("+strings.Join(bad, "; ")+"): the wait for the starts under way ends too early (a start is left running when startModules returns, its module comes online after a shutdown) or never", c.Pos(rv.Pos()))
	}
}

func init() {
	extend("C01", "(R17) in startModules exactly one increment lies on every way from one receive of a report to the next.", c01R17)
}

// c11R25: the list operand is printed as one token: joined first, escaped as a whole.
// (The parser un-escapes the token and splits it afterwards; escaping the elements one by one and joining
// the escaped texts yields a token that un-escapes to something else as soon as an element needs quoting.)
func c11R25(c *Ctx, r *Report) {
	const rule = "C11-R25"
	r.SetFloor(rule, 1)
	const fname = "database/query.(*stringSliceCondition).string"
	fn := c.Func(fname)
	if fn == nil {
		r.Undecided(rule, fname, "anchor function missing")
		return
	}
	n := 0
	for _, ci := range callsIn(fn, "strings.Join") {
		call, ok := ci.(*ssa.Call)
		if !ok {
			continue
		}
		n++
		escaped := false
		for _, ref := range *call.Referrers() {
			if rc, ok := ref.(*ssa.Call); ok && strings.HasSuffix(calleeName(rc.Common()), "query.escapeString") {
				escaped = true
			}
		}
		r.Check(escaped, rule, fname+" / the joined list is escaped as one token", "escapeString(strings.Join(...))",
			"the joined list is printed without being escaped as a whole (the elements are escaped one by one, or not at all): an element with a space, quote or parenthesis makes the printed condition parse to a different list, or not at all", c.Pos(call.Pos()))
	}
	if n == 0 {
		r.Undecided(rule, fname, "the printer does not join the list")
	}
}

func init() {
	extend("C11", "(R25) stringSliceCondition.string escapes the joined list as one token.", c11R25)
}

// c05R17: no synchronous worker is run while the lock of its module is held.
// (RunWorker returns through the worker's completion path, which takes the module lock to see whether the
// module's stop is complete; called with that lock held it never returns.)
func c05R17(c *Ctx, r *Report) {
	const rule = "C05-R17"
	n := 0
	for _, fn := range funcsOfPkgs(c, "modules") {
		if fn.Blocks == nil {
			continue
		}
		var held map[ssa.Instruction]map[string]bool
		eachInstr(fn, func(in ssa.Instruction) {
			ci, ok := in.(*ssa.Call)
			if !ok {
				return
			}
			name := calleeName(ci.Common())
			if name != "modules.Module.RunWorker" && name != "modules.Module.runWorker" && name != "modules.Module.RunMicroTask" && name != "modules.Module.RunHighPriorityMicroTask" {
				return
			}
			args := callArgs(ci.Common())
			if len(args) == 0 {
				return
			}
			recv := vpath(args[0])
			if recv == "" {
				return
			}
			n++
			if held == nil {
				held = LocksHeldAt(fn)
			}
			var bad []string
			for l := range held[in] {
				l2 := strings.TrimPrefix(l, "R:")
				if l2 == recv || strings.HasPrefix(l2, recv+".") {
					bad = append(bad, l)
				}
			}
			r.Check(len(bad) == 0, rule, fmt.Sprintf("%s / %s on %s is not called with that module's lock held", fnKey(fn), name, recv), "the module's lock is not held at the call",
				"the synchronous "+name+" is called with "+strings.Join(bad, ", ")+" held: the worker's completion path takes the module lock (to see whether the stop is complete), so the call never returns and the module can neither be stopped nor report", c.Pos(in.Pos()))
		})
	}
	r.SetFloor(rule, 2)
	_ = n
}

// c19R27: ScanStorage names what it finds relative to the storage directory.
func c19R27(c *Ctx, r *Report) {
	const rule = "C19-R27"
	r.SetFloor(rule, 1)
	const fname = "updater.(*ResourceRegistry).ScanStorage"
	n := 0
	root := c.Func(fname)
	if root == nil {
		r.Undecided(rule, fname, "anchor function missing")
		return
	}
	for _, fn := range withAnons(root) {
		for _, ci := range callsIn(fn, "path/filepath.Rel") {
			n++
			var other []string
			for _, o := range c.Origins(ci.Common().Args[0]) {
				if !strings.HasSuffix(o, "storageDir.Path") {
					other = append(other, o)
				}
			}
			r.Check(len(other) == 0, rule, fname+" / found files are named relative to the storage directory", "filepath.Rel(reg.storageDir.Path, path)",
				"the identifier of a found file is taken relative to "+strings.Join(other, ", ")+" instead of the storage directory: for a scan root below the storage directory the identifier loses its leading directories, so the (identifier, version) pair no longer converts back to the file's path - the resource is listed as available under a name whose file does not exist", c.Pos(ci.Pos()))
		}
	}
	if n == 0 {
		r.Undecided(rule, fname, "no filepath.Rel found")
	}
}

func init() {
	extend("C05", "(R17) in package modules no RunWorker / RunMicroTask is called on a module whose lock is held at the call.", c05R17)
	extend("C09", "(R18) = C10-R2 (the varint tables dsd prefixes its dumps with are exact).", func(c *Ctx, r *Report) { unpackWidthRule(c, r, "C09-R18") })
	extend("C13", "(R21) = C08-R9 (ParseKey hands out everything behind the first colon as the key).", borrowRule(c08R9, "C08-R9", "C13-R21", 1, nil))
	extend("C19", "(R27) ScanStorage takes identifiers relative to the storage directory.", c19R27)
}

// cacheUpdateUnlockedRule: Interface.updateCache is never called with a record lock held.
// (The source states the contract: "The record may not be locked when updating the cache." Removing or
// replacing a cache entry runs the cache's evict handler, which locks a record that still waits in the
// write cache in order to store it - the caller's own record, when it was put just before.)
func cacheUpdateUnlockedRule(rule string) ruleFn {
	return func(c *Ctx, r *Report) {
		r.SetFloor(rule, 3)
		isNamed := func(in ssa.Instruction, suffixes ...string) bool {
			ci, ok := in.(*ssa.Call)
			if !ok {
				return false
			}
			n := calleeName(ci.Common())
			for _, s := range suffixes {
				if strings.HasSuffix(n, s) {
					return true
				}
			}
			return false
		}
		isLock := func(in ssa.Instruction) bool { return isNamed(in, "record.Record.Lock", "record.Base.Lock") }
		isUnlock := func(in ssa.Instruction) bool { return isNamed(in, "record.Record.Unlock", "record.Base.Unlock") }
		for _, s := range c.CallSites("database.Interface.updateCache") {
			var from ssa.Instruction
			eachInstr(s.Fn, func(in ssa.Instruction) {
				if from == nil && isLock(in) {
					if ReachInstr(s.Fn, in, func(x ssa.Instruction) bool { return x == s.Instr }, isUnlock) != nil {
						from = in
					}
				}
			})
			r.Check(from == nil, rule, fnKey(s.Fn)+" / updateCache is called without a record lock held", "no record lock reaches the call",
				"updateCache is called with the record locked (since "+posOf(c, from)+"): when the record still waits in the write cache, removing or replacing its cache entry makes the evict handler lock it again to store it - the operation deadlocks on its own record", c.Pos(s.Instr.Pos()))
		}
	}
}

func init() {
	extend("C02", "(R26) Interface.updateCache is never reached with a record lock held.", cacheUpdateUnlockedRule("C02-R26"))
	extend("C14", "(R18) = C02-R26.", cacheUpdateUnlockedRule("C14-R18"))
}

// A28: comparison of two values of type interface{}.
// `a == b` on interface values panics at run time ("comparing uncomparable type") when both hold the same
// uncomparable dynamic type (a slice, a map, a struct with such a field). Where the values come from outside
// (configuration values, decoded data) the comparison has to go through reflect.DeepEqual or a type switch.
func anyComparisonSites(c *Ctx, fn *ssa.Function) (n int, bad []string) {
	isAny := func(t types.Type) bool {
		it, ok := t.Underlying().(*types.Interface)
		return ok && it.NumMethods() == 0
	}
	eachInstr(fn, func(in ssa.Instruction) {
		bo, ok := in.(*ssa.BinOp)
		if !ok || (bo.Op != token.EQL && bo.Op != token.NEQ) {
			return
		}
		if !isAny(bo.X.Type()) || !isAny(bo.Y.Type()) {
			return
		}
		if isNilConst(bo.X) || isNilConst(bo.Y) {
			return
		}
		// a MakeInterface of a comparable static type on one side makes the comparison safe:
		// differing dynamic types compare unequal without looking at the values
		safe := false
		for _, v := range []ssa.Value{bo.X, bo.Y} {
			if mi, ok := v.(*ssa.MakeInterface); ok && types.Comparable(mi.X.Type()) {
				safe = true
			}
		}
		n++
		if !safe {
			bad = append(bad, fmt.Sprintf("%s: %s on two interface{} values", c.Pos(bo.Pos()), bo.Op))
		}
	})
	return
}

func anyComparisonRule(rule string, floor int, why string, pkgs ...string) ruleFn {
	return func(c *Ctx, r *Report) {
		n := 0
		for _, fn := range funcsOfPkgs(c, pkgs...) {
			if fn.Blocks == nil {
				continue
			}
			k, bad := anyComparisonSites(c, fn)
			n += k
			if len(bad) > 0 {
				r.Bad(rule, fnKey(fn)+" / interface{} values are not compared with == / !=", why+": "+strings.Join(bad, "; "), firstPos(bad))
			}
		}
		r.Trivial(rule, strings.Join(pkgs, ", ")+" / comparisons of interface{} values", fmt.Sprintf("%d comparisons of two interface{} values with a comparable static side", n))
	}
}

func probeAnyCompare(c *Ctx) {
	t := 0
	for _, fn := range c.AllFuncs() {
		if fn.Pkg == nil || fn.Blocks == nil {
			continue
		}
		n, bad := anyComparisonSites(c, fn)
		t += n
		for _, b := range bad {
			fmt.Printf("A28 %s\tBAD %s\n", fnKey(fn), b)
		}
	}
	fmt.Println("A28 interface{} comparisons:", t)
}

// ---------------------------------------------------------------------------
// rules for the repairs derived from the round-12 agents' remarks

// c02R27: the read cache hands out a record only behind a successful validity check.
func c02R27(c *Ctx, r *Report) {
	const rule = "C02-R27"
	r.SetFloor(rule, 1)
	const fname = "database.(*Interface).checkCache"
	fn := c.Func(fname)
	if fn == nil {
		r.Undecided(rule, fname, "anchor function missing")
		return
	}
	valid := callGuard("Meta.CheckValidity()==true", true, "database/record.Meta.CheckValidity")
	n := 0
	eachInstr(fn, func(in ssa.Instruction) {
		ret, ok := in.(*ssa.Return)
		if !ok || len(ret.Results) != 1 || isNilConst(retVal(ret, 0)) {
			return
		}
		n++
		p := ReachTargetAvoiding(fn, ret, []Guard{valid}, nil)
		r.Check(p == nil, rule, fmt.Sprintf("%s / return #%d of a cached record lies behind CheckValidity()==true", fname, n), "reachable only across the validity check",
			"a record is handed out from the read cache without a validity check: an entry cached without a time limit is still returned after the record's expiry time (set later) has passed, or after it was marked deleted - a caching interface answers differently from one without a cache", append([]string{c.Pos(ret.Pos())}, c.pathString(p)...)...)
	})
	if n == 0 {
		r.Undecided(rule, fname, "no return of a cached record found")
	}
}

// c02R28: where package database sets a relative expiry, the metadata is updated afterwards on every path.
func c02R28(c *Ctx, r *Report) {
	const rule = "C02-R28"
	r.SetFloor(rule, 2)
	isUpdate := func(in ssa.Instruction) bool {
		ci, ok := in.(*ssa.Call)
		if !ok {
			return false
		}
		n := calleeName(ci.Common())
		return n == "database/record.Meta.Update" || strings.HasSuffix(n, "record.Record.UpdateMeta") || strings.HasSuffix(n, "record.Base.UpdateMeta")
	}
	for _, s := range c.CallSites("database/record.Meta.SetRelativateExpiry") {
		if s.Fn.Pkg == nil || short(s.Fn.Pkg.Pkg.Path()) != "database" {
			continue
		}
		r.Check(MustFollow(s.Fn, s.Instr, isUpdate), rule, fnKey(s.Fn)+" / the metadata is updated after a relative expiry was set", "Meta.Update / UpdateMeta follows on every path",
			"a relative expiry is set after the last update of the metadata: SetRelativateExpiry only notes the TTL, Update turns it into the expiry time - the stored record has no expiry until it happens to be saved again, and stays visible past its TTL", c.Pos(s.Instr.Pos()))
	}
}

// A29: locks taken one after the other in a loop and kept (deferred unlock) need an outer write lock.
func accumulatingLockSites(c *Ctx, fn *ssa.Function) (n int, bad []string) {
	inLoop := func(b *ssa.BasicBlock) bool {
		// b reaches itself
		seen := map[*ssa.BasicBlock]bool{}
		var stack []*ssa.BasicBlock
		stack = append(stack, b.Succs...)
		for len(stack) > 0 {
			x := stack[len(stack)-1]
			stack = stack[:len(stack)-1]
			if x == b {
				return true
			}
			if seen[x] {
				continue
			}
			seen[x] = true
			stack = append(stack, x.Succs...)
		}
		return false
	}
	var held map[ssa.Instruction]map[string]bool
	eachInstr(fn, func(in ssa.Instruction) {
		ci, ok := in.(*ssa.Call)
		if !ok {
			return
		}
		name, op, _ := lockOp(ci)
		if op <= 0 || !inLoop(ci.Block()) {
			return
		}
		// the unlock of this lock is deferred in the same iteration
		deferred := false
		for _, x := range ci.Block().Instrs {
			if d, ok := x.(*ssa.Defer); ok {
				if dn, dop, _ := lockOp(d); dop < 0 && dn == name {
					deferred = true
				}
			}
		}
		if !deferred {
			return
		}
		n++
		if held == nil {
			held = LocksHeldAt(fn)
		}
		outer := false
		for l := range held[in] {
			if !strings.HasPrefix(l, "R:") && l != name {
				outer = true
			}
		}
		if !outer {
			bad = append(bad, fmt.Sprintf("%s: %s locked in a loop and kept, no outer write lock held", c.Pos(ci.Pos()), name))
		}
	})
	return
}

func c04R21(c *Ctx, r *Report) {
	const rule = "C04-R21"
	r.SetFloor(rule, 1)
	for _, fn := range funcsOfPkgs(c, "config") {
		if fn.Blocks == nil {
			continue
		}
		n, bad := accumulatingLockSites(c, fn)
		if n == 0 {
			continue
		}
		r.Check(len(bad) == 0, rule, fnKey(fn)+" / locks collected in a loop are collected under an outer write lock", fmt.Sprintf("%d accumulating lock site(s), each under an outer write lock", n),
			"the function locks one option after the other (in map order) and keeps them all, without an outer lock that lets only one such collector run: two of them at the same time - every successful single-option set saves the configuration - lock the options in different orders and deadlock, with the registry read-locked: "+strings.Join(bad, "; "), firstPos(bad))
	}
}

// c11R26: the key prefix and the orderby key are printed through escapeString.
func c11R26(c *Ctx, r *Report) {
	const rule = "C11-R26"
	r.SetFloor(rule, 1)
	const fname = "database/query.(*Query).Print"
	fn := c.Func(fname)
	if fn == nil {
		r.Undecided(rule, fname, "anchor function missing")
		return
	}
	n := 0
	for _, ci := range callsIn(fn, "fmt.Sprintf") {
		call, ok := ci.(*ssa.Call)
		if !ok || len(call.Call.Args) < 2 {
			continue
		}
		sl, ok := call.Call.Args[1].(*ssa.Slice)
		if !ok {
			continue
		}
		n++
		var raw []string
		for _, l := range variadicElems(c, sl, 0) {
			d := leafDesc(l)
			if strings.HasSuffix(d, ".dbName") || strings.HasSuffix(d, ".dbKeyPrefix") || strings.HasSuffix(d, ".orderBy") {
				raw = append(raw, d)
			}
		}
		r.Check(len(raw) == 0, rule, fmt.Sprintf("%s / Sprintf #%d prints prefix and orderby key through escapeString", fname, n), "no raw dbName / dbKeyPrefix / orderBy among the printed values",
			"the printer writes "+strings.Join(raw, ", ")+" as it is: a prefix or orderby key with a space, parenthesis, quote or backslash (accepted by the API and its check) prints to a text that does not parse or parses to another prefix", c.Pos(call.Pos()))
	}
	if n == 0 {
		r.Undecided(rule, fname, "no Sprintf found")
	}
}

func init() {
	extend("C02", "(R27) checkCache returns a cached record only across Meta.CheckValidity()==true; (R28) in package database Meta.Update / UpdateMeta follows every Meta.SetRelativateExpiry.", c02R27, c02R28)
	extend("C04", "(R20) A28: package config compares no two interface{} values with == / != (uncomparable dynamic types panic); (R21) A29: locks collected in a loop and kept are collected under an outer write lock.",
		anyComparisonRule("C04-R20", 0, "two interface{} values are compared with == / !=: when both hold a slice (a []byte given to a string option with possible values, any value of a string-array option with a migration) the comparison panics - the set neither succeeds nor is rejected, and the option stays locked", "config"), c04R21)
	extend("C11", "(R26) Query.Print prints the key prefix and the orderby key through escapeString.", c11R26)
}
