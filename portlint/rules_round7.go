package main

import (
	"fmt"
	"go/constant"
	"strings"

	"golang.org/x/tools/go/ssa"
)

// c01R12: Enable / Disable change the module's own enabled flag on every path (no other condition decides).
func c01R12(c *Ctx, r *Report) {
	const rule = "C01-R12"
	r.SetFloor(rule, 2)
	for _, t := range []struct{ fn, what string }{{"modules.(*Module).Enable", "sets"}, {"modules.(*Module).Disable", "clears"}} {
		fn := c.Func(t.fn)
		if fn == nil {
			r.Undecided(rule, t.fn, "anchor function missing")
			continue
		}
		touches := func(in ssa.Instruction) bool {
			p, m, ok := aboolOp(in)
			return ok && strings.HasSuffix(p, ".enabled") && (m == "SetToIf" || m == "Set" || m == "UnSet" || m == "SetTo")
		}
		p := ReachFromAvoiding(fn, nil, isExit, nil, touches)
		r.Check(p == nil, rule, t.fn+" / "+t.what+" the enabled flag on every path", "every path updates Module.enabled",
			"the call can return without touching the module's enabled flag (e.g. because the module already runs as a dependency): the request is lost and a later management pass stops a module that was enabled, or keeps one that was disabled", c.pathString(p)...)
	}
}

// c04R14: Register derives the validation regex from the possible values before it compiles the regex.
func c04R14(c *Ctx, r *Report) {
	const rule = "C04-R14"
	r.SetFloor(rule, 1)
	fn := c.Func("config.Register")
	if fn == nil {
		r.Undecided(rule, "config.Register", "anchor function missing")
		return
	}
	cs := callsIn(fn, "regexp.Compile", "regexp.MustCompile")
	if len(cs) == 0 {
		r.Bad(rule, "config.Register / compiles the validation regex", "Register no longer compiles the option's validation regex")
		return
	}
	for i, ci := range cs {
		late := ReachInstr(fn, ci, isFieldStore("config.Option", "ValidationRegex"), nil)
		r.Check(late == nil, rule, fmt.Sprintf("config.Register / regex complete before Compile #%d", i+1), "no write to Option.ValidationRegex follows the compilation",
			"Option.ValidationRegex is (re)written after it was compiled: an option that only lists possible values is left without a compiled regex, and list-typed options then skip the allowed-values check", posOf(c, late))
	}
}

// c11R15: textual numeric operands are parsed with the full width of the value the condition stores and prints.
func c11R15(c *Ctx, r *Report) {
	const rule = "C11-R15"
	r.SetFloor(rule, 2)
	for _, t := range []struct {
		fn, callee string
		arg        int
	}{{"database/query.newIntCondition", "strconv.ParseInt", 2}, {"database/query.newFloatCondition", "strconv.ParseFloat", 1}} {
		fn := c.Func(t.fn)
		if fn == nil {
			r.Undecided(rule, t.fn, "anchor function missing")
			continue
		}
		cs := callsIn(fn, t.callee)
		if len(cs) == 0 {
			r.Undecided(rule, t.fn+" / "+t.callee, "the textual operand is no longer parsed with "+t.callee)
			continue
		}
		for i, ci := range cs {
			bits, isC := constInt(ci.Common().Args[t.arg])
			r.Check(isC && bits == 64, rule, fmt.Sprintf("%s / %s #%d bit size", t.fn, t.callee, i+1), "parsed with bit size 64 (the condition holds a 64-bit value)",
				fmt.Sprintf("the operand is parsed with bit size %d while the condition stores, compares and prints a 64-bit value: a query built through the API with a larger value prints to text that no longer parses", bits), c.Pos(ci.Pos()))
		}
	}
}

// c12R13: a token is copied field by field: Read from Read, Write from Write.
func c12R13(c *Ctx, r *Report) {
	const rule = "C12-R13"
	r.SetFloor(rule, 1)
	n := 0
	var bad []string
	for _, fn := range c.allFuncs {
		if fn.Pkg == nil || fn.Blocks == nil || short(fn.Pkg.Pkg.Path()) != "api" {
			continue
		}
		eachInstr(fn, func(in ssa.Instruction) {
			st, ok := in.(*ssa.Store)
			if !ok {
				return
			}
			dst, ok := fieldOfAddr(st.Addr)
			if !ok || dst.Owner != "api.AuthToken" {
				return
			}
			n++
			if _, src, isL := fieldLoad(st.Val); isL && src.Owner == "api.AuthToken" && src.Name != dst.Name {
				bad = append(bad, fmt.Sprintf("%s: AuthToken.%s = AuthToken.%s @%s", fnKey(fn), dst.Name, src.Name, c.Pos(in.Pos())))
			}
		})
	}
	r.Check(len(bad) == 0 && n > 0, rule, "api / AuthToken fields are never cross-assigned", fmt.Sprintf("%d stores to AuthToken fields; none copies Read into Write or Write into Read", n),
		"a token is built with its permissions crossed ("+strings.Join(bad, "; ")+"): a credential then grants for one method class what it was given for the other")
}

// c12R14: decision table of parseAPIPermission: which permission each spelling in a configured key grants.
func c12R14(c *Ctx, r *Report) {
	const rule = "C12-R14"
	r.SetFloor(rule, 4)
	fn := c.Func("api.parseAPIPermission")
	if fn == nil {
		r.Undecided(rule, "api.parseAPIPermission", "anchor function missing")
		return
	}
	want := map[string]string{"": "PermitAnyone", "anyone": "PermitAnyone", "user": "PermitUser", "admin": "PermitAdmin"}
	val := map[string]int64{}
	for _, n := range []string{"PermitAnyone", "PermitUser", "PermitAdmin"} {
		v, ok := c.constVal("api", n)
		if !ok {
			r.Undecided(rule, "api."+n, "constant missing")
			return
		}
		val[n] = v
	}
	got := map[string]int64{}
	eachInstr(fn, func(in ssa.Instruction) {
		bo, ok := in.(*ssa.BinOp)
		if !ok || bo.Op.String() != "==" {
			return
		}
		var k string
		var isS bool
		if cst, ok := bo.Y.(*ssa.Const); ok && cst.Value != nil && cst.Value.Kind() == constant.String {
			k, isS = constant.StringVal(cst.Value), true
		} else if cst, ok := bo.X.(*ssa.Const); ok && cst.Value != nil && cst.Value.Kind() == constant.String {
			k, isS = constant.StringVal(cst.Value), true
		}
		if !isS {
			// the empty spelling may be tested as len(s) == 0
			for _, o := range [][2]ssa.Value{{bo.X, bo.Y}, {bo.Y, bo.X}} {
				if call, ok := o[0].(*ssa.Call); ok && calleeName(&call.Call) == "builtin.len" {
					if v, isC := constInt(o[1]); isC && v == 0 {
						k, isS = "", true
					}
				}
			}
		}
		if !isS {
			return
		}
		// follow the true edge to the return it leads to
		for _, ref := range *bo.Referrers() {
			ifi, ok := ref.(*ssa.If)
			if !ok {
				continue
			}
			b := ifi.Block().Succs[0]
			for hops := 0; hops < 6 && b != nil; hops++ {
				if ret, ok := b.Instrs[len(b.Instrs)-1].(*ssa.Return); ok {
					if v, isC := constInt(retVal(ret, 0)); isC {
						got[k] = v
					}
					break
				}
				if len(b.Succs) != 1 {
					break
				}
				b = b.Succs[0]
			}
		}
	})
	for k, name := range want {
		v, ok := got[k]
		r.Check(ok && v == val[name], rule, fmt.Sprintf("api.parseAPIPermission / %q", k), "grants "+name,
			fmt.Sprintf("the spelling %q grants permission value %d (found: %v) instead of %s: a key that omits or names this permission is given the wrong level", k, v, ok, name))
	}
}

// c15R11: the three activity counters of a module are three different cells, and nothing but the paired +1/-1 changes them.
func c15R11(c *Ctx, r *Report) {
	const rule = "C15-R11"
	r.SetFloor(rule, 2)
	fields := []string{"workerCnt", "taskCnt", "microTaskCnt"}
	cell := map[string]string{}
	for _, f := range fields {
		for _, s := range c.StoresTo("modules.Module", f) {
			st := s.Instr.(*ssa.Store)
			d := st.Val.Name()
			if ia, ok := st.Val.(*ssa.IndexAddr); ok {
				k, _ := constInt(ia.Index)
				d = fmt.Sprintf("%s[%d]", ia.X.Name(), k)
			}
			cell[f] = fnKey(s.Fn) + ":" + d
		}
	}
	distinct := len(cell) == 3 && cell["workerCnt"] != cell["taskCnt"] && cell["taskCnt"] != cell["microTaskCnt"] && cell["workerCnt"] != cell["microTaskCnt"]
	r.Check(distinct, rule, "modules.Module / the three activity counters are distinct cells", "workerCnt, taskCnt and microTaskCnt point to three different variables",
		fmt.Sprintf("two activity counters share one variable (%v): the per-module counts no longer return to their own values and stop completion looks at the wrong number", cell))
	var bad []string
	for _, fn := range c.allFuncs {
		if fn.Pkg == nil || fn.Blocks == nil || short(fn.Pkg.Pkg.Path()) != "modules" {
			continue
		}
		eachInstr(fn, func(in ssa.Instruction) {
			ci, ok := in.(ssa.CallInstruction)
			if !ok {
				return
			}
			n := calleeName(ci.Common())
			if n != "sync/atomic.StoreInt32" && n != "sync/atomic.SwapInt32" && n != "sync/atomic.CompareAndSwapInt32" {
				return
			}
			p := vpath(ci.Common().Args[0])
			for _, f := range append(fields, "microTasks") {
				if strings.HasSuffix(p, f) {
					bad = append(bad, fnKey(fn)+" "+n+"("+p+") @"+c.Pos(in.Pos()))
				}
			}
		})
	}
	r.Check(len(bad) == 0, rule, "modules / activity counters are only incremented and decremented", "no Store/Swap/CompareAndSwap on a module's activity counters or the global microtask count",
		"an activity counter is overwritten ("+strings.Join(bad, "; ")+"): work that is still running is forgotten, its completion drives the counter below zero and the next stop never completes")
}

// c16R14: a container never adopts another container's compartment slice: appended compartments are copied into its own slice.
func c16R14(c *Ctx, r *Report) {
	const rule = "C16-R14"
	r.SetFloor(rule, 3)
	n := 0
	for _, s := range c.StoresTo("container.Container", "compartments") {
		st := s.Instr.(*ssa.Store)
		fa := st.Addr.(*ssa.FieldAddr)
		n++
		base, fr, isL := fieldLoad(st.Val)
		alias := isL && fr.Owner == "container.Container" && fr.Name == "compartments" && base != fa.X
		r.Check(!alias, rule, ordinalKey(fnKey(s.Fn)+" / store Container.compartments", n), "the stored slice is not another container's compartment slice",
			"the container takes over another container's compartment slice: both share one backing array, and consuming or appending to one shifts or drops bytes of the other", c.Pos(st.Pos()))
	}
	if n == 0 {
		r.Bad(rule, "container.Container.compartments", "no store found (anchor lost)")
	}
}

func ordinalKey(s string, n int) string { return fmt.Sprintf("%s #%d", s, n) }

// c17R11: a download is taken from a 200 OK answer only (a 206 Partial Content with a consistent length would be published as the whole file).
func c17R11(c *Ctx, r *Report) {
	const rule = "C17-R11"
	r.SetFloor(rule, 1)
	fn := c.Func("updater.(*ResourceRegistry).makeRequest")
	if fn == nil {
		r.Undecided(rule, "updater.(*ResourceRegistry).makeRequest", "anchor function missing")
		return
	}
	isStatus := func(v ssa.Value) bool { return fieldLoadOf(v, "net/http.Response", "StatusCode") }
	ok200 := cmpGuards("StatusCode == 200", isStatus, func(x int64) bool { return x == 200 }, 200, 206, 300)
	k := 0
	eachInstr(fn, func(in ssa.Instruction) {
		ret, ok := in.(*ssa.Return)
		if !ok || len(ret.Results) == 0 || isNilConst(retVal(ret, 0)) {
			return
		}
		k++
		c.RequireAny(r, rule, fmt.Sprintf("updater.(*ResourceRegistry).makeRequest / success return #%d", k), fn, ret, "the answer is 200 OK", ok200)
	})
	if k == 0 {
		r.Bad(rule, "updater.(*ResourceRegistry).makeRequest / success return", "no return of a response found (anchor lost)")
	}
}

// c18R5: who may create links: archive extraction never does (a symlink member followed by a member below it leaves the unpack directory).
func c18R5(c *Ctx, r *Report) {
	const rule = "C18-R5"
	r.SetFloor(rule, 2)
	allowed := map[string]string{
		"utils/renameio.Symlink":                      "atomic symlink replacement helper (link created in a private temp dir, then renamed)",
		"updater.(*ResourceRegistry).CreateSymlinks":   "links from a caller-given directory to resources already inside the storage dir",
	}
	for _, s := range c.CallSites("os.Symlink", "os.Link") {
		caller := fnKey(s.Fn)
		for s.Fn.Parent() != nil {
			s.Fn = s.Fn.Parent()
			caller = fnKey(s.Fn)
		}
		why, ok := allowed[caller]
		r.Check(ok, rule, caller+" / creates a link", "listed link creator: "+why,
			"a link is created by "+caller+", which handles externally supplied names: a link whose target lies outside the root lets a later, lexically clean name reach outside", c.Pos(s.Instr.Pos()))
	}
}

// c19R12: a file is handed out only after its version was marked active (the purge keeps the active version).
func c19R12(c *Ctx, r *Report) {
	const rule = "C19-R12"
	r.SetFloor(rule, 2)
	fn := c.Func("updater.(*ResourceRegistry).GetFile")
	if fn == nil {
		r.Undecided(rule, "updater.(*ResourceRegistry).GetFile", "anchor function missing")
		return
	}
	isMark := isCallInstrTo("updater.File.markActiveWithLocking", "updater.File.markActive")
	k := 0
	eachInstr(fn, func(in ssa.Instruction) {
		ret, ok := in.(*ssa.Return)
		if !ok || len(ret.Results) != 2 || isNilConst(retVal(ret, 0)) || !isNilConst(retVal(ret, 1)) {
			return
		}
		k++
		p := ReachTargetAvoiding(fn, ret, nil, isMark)
		r.Check(p == nil, rule, fmt.Sprintf("updater.(*ResourceRegistry).GetFile / success return #%d", k), "the returned file's version was marked active first",
			"GetFile hands out a file without marking its version active: a later purge computes its boundary from the selected version only and deletes the file that is in use", c.pathString(p)...)
	})
	if k == 0 {
		r.Bad(rule, "updater.(*ResourceRegistry).GetFile / success returns", "no success return found (anchor lost)")
	}
}

// c19R13: the file-name form and the plain form of a version are described by the same pattern (only the separators differ).
func c19R13(c *Ctx, r *Report) {
	const rule = "C19-R13"
	r.SetFloor(rule, 1)
	pat := map[string]string{}
	if ini := c.Func("updater.init"); ini != nil {
		eachInstr(ini, func(in ssa.Instruction) {
			st, ok := in.(*ssa.Store)
			if !ok {
				return
			}
			g, ok := st.Addr.(*ssa.Global)
			if !ok {
				return
			}
			if call, ok := isCallTo(st.Val, "regexp.MustCompile"); ok {
				if s, isS := constStrVal(call.Call.Args[0]); isS {
					pat[g.Name()] = s
				}
			}
		})
	}
	f, okF := pat["fileVersionRegex"]
	raw, okR := pat["rawVersionRegex"]
	if !okF || !okR {
		r.Undecided(rule, "updater.fileVersionRegex / rawVersionRegex", "the two version patterns were not found in the package initialiser")
		return
	}
	norm := strings.TrimSuffix(strings.TrimPrefix(raw, "^"), "$")
	norm = strings.ReplaceAll(norm, `\.`, "-")
	r.Check(strings.TrimPrefix(f, "_v") == norm && strings.HasPrefix(f, "_v"), rule, "updater version patterns agree", "fileVersionRegex is rawVersionRegex with '_v' in front and '-' for '.'",
		fmt.Sprintf("the file-name pattern %q and the plain pattern %q no longer describe the same versions: versions that one accepts are cut differently by the other, so (identifier, version) pairs do not convert back", f, raw))
}
