package main

import (
	"fmt"
	"strings"

	"golang.org/x/tools/go/ssa"
)

// c02R17: a record that the evict handler takes out of the write cache for
// writing is removed from it before it is written: a copy left behind would be
// written again by the next flush, over whatever happened to the key since.
func c02R17(c *Ctx, r *Report) {
	const rule = "C02-R17"
	r.SetFloor(rule, 1)
	fn := c.Func("database.(*Interface).cacheEvictHandler")
	if fn == nil {
		r.Undecided(rule, "database.(*Interface).cacheEvictHandler", "anchor function missing")
		return
	}
	isDel := func(in ssa.Instruction) bool {
		ci, ok := in.(ssa.CallInstruction)
		if !ok || calleeName(ci.Common()) != "builtin.delete" {
			return false
		}
		return fieldLoadOf(ci.Common().Args[0], "database.Interface", "writeCache")
	}
	puts := callsIn(fn, "database.Controller.Put")
	if len(puts) == 0 {
		r.Bad(rule, fnKey(fn)+" / writes the evicted record", "the evict handler no longer writes an evicted to-be-written record")
		return
	}
	for i, ci := range puts {
		r.Check(ReachTargetAvoiding(fn, ci, nil, isDel) == nil, rule, fmt.Sprintf("%s / write #%d only after removal from the write cache", fnKey(fn), i+1),
			"every path to the write has deleted the key from the write cache",
			"the evicted record is written through while a copy stays in the write cache: the next flush writes that stale copy again and undoes a later delete or update of the key", c.Pos(ci.Pos()))
	}
}

// c03R11: the options an interface gets when none are given carry no privilege.
func c03R11(c *Ctx, r *Report) {
	const rule = "C03-R11"
	r.SetFloor(rule, 1)
	fn := c.Func("database.NewInterface")
	if fn == nil {
		r.Undecided(rule, "database.NewInterface", "anchor function missing")
		return
	}
	var bad ssa.Instruction
	eachInstr(fn, func(in ssa.Instruction) {
		st, ok := in.(*ssa.Store)
		if !ok {
			return
		}
		fr, ok := fieldOfAddr(st.Addr)
		if !ok || fr.Owner != "database.Options" || (fr.Name != "Local" && fr.Name != "Internal") {
			return
		}
		if b, isC := constBool(st.Val); !isC || b {
			bad = in
		}
	})
	r.Check(bad == nil, rule, "database.NewInterface / default options", "NewInterface never sets Local or Internal itself: nil options mean neither local nor internal",
		"NewInterface grants Local/Internal on its own: every interface created without options - the external database API among them - becomes privileged", posOf(c, bad))
}

// c12R12: once checkAuth has written an error response the request is handled:
// every return reachable after http.Error reports handled = true.
func c12R12(c *Ctx, r *Report) {
	const rule = "C12-R12"
	r.SetFloor(rule, 2)
	fn := c.Func("api.checkAuth")
	if fn == nil {
		r.Undecided(rule, "api.checkAuth", "anchor function missing")
		return
	}
	n := 0
	for _, ci := range callsIn(fn, "net/http.Error") {
		n++
		reach := blockReach(fn)
		after := func(b *ssa.BasicBlock) bool { return b == ci.Block() || reach[ci.Block()][b] }
		// mayBeFalse: v can be false at a point that lies behind the error response (merged results are judged per incoming edge)
		var mayBeFalse func(v ssa.Value, d int) bool
		mayBeFalse = func(v ssa.Value, d int) bool {
			if b, isC := constBool(v); isC {
				return !b
			}
			if ph, ok := v.(*ssa.Phi); ok && d < 6 {
				for i, e := range ph.Edges {
					if after(ph.Block().Preds[i]) && mayBeFalse(e, d+1) {
						return true
					}
				}
				return false
			}
			return true
		}
		bad := ReachInstr(fn, ci, func(in ssa.Instruction) bool {
			ret, ok := in.(*ssa.Return)
			if !ok || len(ret.Results) != 2 {
				return false
			}
			return mayBeFalse(retVal(ret, 1), 0)
		}, nil)
		r.Check(bad == nil, rule, fmt.Sprintf("api.checkAuth / error response #%d ends the request", n), "after http.Error every return reports handled = true",
			"after an error response was written checkAuth can still report 'not handled': the request goes on with the anonymous token and the handler runs behind the error", posOf(c, bad))
	}
	if n == 0 {
		r.Bad(rule, "api.checkAuth / error responses", "no http.Error call found (anchor lost)")
	}
}

// c14R10: every successful Controller.Put - a put, a shadow delete or an
// immediate delete - is announced to the subscribers.
func c14R10(c *Ctx, r *Report) {
	const rule = "C14-R10"
	r.SetFloor(rule, 1)
	fn := c.Func("database.(*Controller).Put")
	if fn == nil {
		r.Undecided(rule, "database.(*Controller).Put", "anchor function missing")
		return
	}
	isNotify := isCallInstrTo("database.Controller.notifySubscribers")
	k := 0
	eachInstr(fn, func(in ssa.Instruction) {
		ret, ok := in.(*ssa.Return)
		if !ok || len(ret.Results) != 1 {
			return
		}
		v := retVal(ret, 0)
		certainFailure := true
		for _, l := range c.Leaves(v) {
			// results that cannot be nil are failures
			if u, ok := l.(*ssa.UnOp); ok {
				if g, ok := u.X.(*ssa.Global); ok && strings.HasPrefix(g.Name(), "Err") {
					continue
				}
			}
			if call, ok := l.(*ssa.Call); ok {
				if n := calleeName(&call.Call); n == "errors.New" || n == "fmt.Errorf" {
					continue
				}
			}
			certainFailure = false
		}
		if certainFailure {
			return
		}
		k++
		cons := fmt.Sprintf("database.(*Controller).Put / return #%d", k)
		gs := []Guard{}
		if !isNilConst(v) {
			gs = append(gs, Guard{Name: "the returned error != nil", Truthy: true, Match: func(b ssa.Value) bool { return b == v }})
		}
		p := ReachFromAvoiding(fn, nil, func(x ssa.Instruction) bool { return x == ssa.Instruction(ret) }, gs, isNotify)
		r.Check(p == nil, rule, cons, "a possibly successful return is reached only after notifySubscribers (or with the error tested non-nil)",
			"Controller.Put can return success without notifying the subscribers (e.g. for an immediate delete): matching subscriptions never see the write", c.pathString(p)...)
	})
	if k == 0 {
		r.Bad(rule, "database.(*Controller).Put / returns", "no possibly successful return found (anchor lost)")
	}
}

// c16R13: GetMax consumes exactly what it returns.
func c16R13(c *Ctx, r *Report) {
	const rule = "C16-R13"
	r.SetFloor(rule, 1)
	fn := c.Func("container.(*Container).GetMax")
	if fn == nil {
		r.Undecided(rule, "container.(*Container).GetMax", "anchor function missing")
		return
	}
	skips := callsIn(fn, "container.Container.skip")
	if len(skips) == 0 {
		r.Bad(rule, "container.(*Container).GetMax / consumes", "GetMax no longer consumes what it returns")
		return
	}
	for i, ci := range skips {
		arg := ci.Common().Args[len(ci.Common().Args)-1]
		ok := false
		if ln, isCall := arg.(*ssa.Call); isCall && calleeName(&ln.Call) == "builtin.len" {
			if _, isPeek := isCallTo(ln.Call.Args[0], "container.Container.Peek"); isPeek {
				ok = true
			}
		}
		r.Check(ok, rule, fmt.Sprintf("container.(*Container).GetMax / skip #%d", i+1), "the number of bytes skipped is the length of the bytes returned",
			"GetMax skips "+leafDesc(arg)+" instead of the length of what Peek returned: a request for more than is held (or a negative one) consumes the wrong amount or panics", c.Pos(ci.Pos()))
	}
}

// c17R9: the archive is extracted with the resource lock held, so that two
// requests for the same resource cannot share the temporary directory and
// remove each other's published result.
func c17R9(c *Ctx, r *Report) {
	const rule = "C17-R9"
	r.SetFloor(rule, 1)
	fn := c.Func("updater.(*Resource).UnpackArchive")
	if fn == nil {
		r.Undecided(rule, "updater.(*Resource).UnpackArchive", "anchor function missing")
		return
	}
	held := LocksHeldAt(fn)
	cs := callsIn(fn, "updater.Resource.unpackZipArchive")
	if len(cs) == 0 {
		r.Bad(rule, "updater.(*Resource).UnpackArchive / extraction", "UnpackArchive no longer calls unpackZipArchive")
		return
	}
	for i, ci := range cs {
		r.Check(heldLock(held[ci], "res.Mutex", false) || heldLock(held[ci], "res", false), rule, fmt.Sprintf("updater.(*Resource).UnpackArchive / extraction #%d under the resource lock", i+1),
			"the resource lock is held across the extraction", "the archive is extracted without the resource lock (held: "+setString(held[ci])+"): overlapping unpack requests share one temporary directory and the loser's clean-up deletes the directory the winner published", c.Pos(ci.Pos()))
	}
}

// c19R11: a resource follows the index it was last defined by.
func c19R11(c *Ctx, r *Report) {
	const rule = "C19-R11"
	r.SetFloor(rule, 1)
	fn := c.Func("updater.(*ResourceRegistry).addResource")
	if fn == nil {
		r.Undecided(rule, "updater.(*ResourceRegistry).addResource", "anchor function missing")
		return
	}
	isIdx := func(in ssa.Instruction) bool {
		if !isFieldStore("updater.Resource", "Index")(in) {
			return false
		}
		p, ok := in.(*ssa.Store).Val.(*ssa.Parameter)
		return ok && p.Name() == "index"
	}
	cs := callsIn(fn, "updater.Resource.AddVersion")
	if len(cs) == 0 {
		r.Bad(rule, fnKey(fn)+" / adds the version", "addResource no longer calls AddVersion")
		return
	}
	for i, ci := range cs {
		r.Check(MustPrecede(fn, isIdx, ci), rule, fmt.Sprintf("%s / index assigned before AddVersion #%d", fnKey(fn), i+1), "every path to AddVersion has set Resource.Index to the given index",
			"an existing resource keeps the index it was first added with: whether its current release is selectable is then decided by a stale (or nil) index", c.Pos(ci.Pos()))
	}
}
