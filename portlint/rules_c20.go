package main

import (
	"fmt"
	"go/token"
	"go/types"
	"strings"

	"golang.org/x/tools/go/ssa"
)

func init() {
	register(&propDef{
		ID: "C20",
		Explanation: "Decides structural necessary conditions of 'no enabled log line is lost, duplicated or reordered': " +
			"(R1) exhaustive level-filter tables: log() drops a message exactly when its level is below the threshold in force (package level if one is configured for the origin, else the global level), fastcheck never rejects what log() would emit, and AddTracer creates a context tracer (which collects lines of every level) exactly when trace is the level in force for the caller; " +
			"(R2) in log() and ContextTracer.Submit every path past the filter performs exactly one send on the log buffer by the calling goroutine itself (direct, or the chosen case of the forced-emptying loop) - no hand-off to another goroutine, no second send - followed by the writer wake-up; " +
			"(R3) duplicate merging: logLine.Equal holds only for lines without tracer that agree in message, file, line and level (truth table), the writer writes the held line on every path before it replaces it, resets the duplicate count with it (the repetition count is 0 whenever the held line is dropped or replaced, also at the start of every batch), and writes the last held line; " +
			"(R4) all shutdown arms of the writer drain the buffer (finalizeWriting) before returning, finalizeWriting writes every line it dequeues, the writer is added to the shutdown wait group before its goroutine is launched (not inside it), Shutdown closes the signal and every exit of Shutdown - also for a second caller - has waited for the writer. " +
			"(R5) lock pairing over the functions of package(s) log: " + lockRuleText + ". " +
			"(R6) sibling table of the 24 level wrappers (Trace..Criticalf, plain and tracer methods): every severity constant a wrapper passes on is the level it is named after, the plain path logs exactly behind fastcheck of that level, and the tracer path hands the line to the tracer. " +
			"(R7) sibling agreement (A14) over the wrapper families: Trace ~ Debug ~ Info ~ Warning ~ Error ~ Critical with their f-variants, for the global functions and for the tracer methods - each differs from Trace only in the level constant (and the line counters of warning and above); " +
			"(R8) the writer's recovery handler stores a non-nil error to the writer's named result on every panic path (writerManager restarts the writer only when it returned an error); " +
			"(R9) every constant-bound index/slice in the functions statically reachable from the writer, the formatter and the input/tracer functions is dominated by a length test implying the bound (a panic in the writer loses the lines it had already taken from the buffer); " +
			"NOT decided: order under real producer interleavings, timing of the drain window.",
		Rules: []ruleFn{c20R1, c20R2, c20R3, c20R4,
			lockRuleFor("C20-R5", 4, []string{"log"}, []string{}, map[string]string{}),
			c20R6, func(c *Ctx, r *Report) { siblingRule(c, r, "C20-R7", sibLog) }, c20R8,
			func(c *Ctx, r *Report) {
				r.SetFloor("C20-R9", 5)
				boundsRule(c, r, "C20-R9", "writing or formatting a log line", "log.writer", "log.formatLine", "log.log", "log.(*ContextTracer).Submit", "log.(*ContextTracer).log", "log.AddTracer")
			}},
	})
}

func c20R1(c *Ctx, r *Report) {
	const rule = "C20-R1"
	r.SetFloor(rule, 3)
	fn := c.Func("log.log")
	if fn == nil {
		r.Undecided(rule, "log.log", "anchor function missing")
		return
	}
	var bad []string
	n := 0
	for level := int64(1); level <= 6; level++ {
		for global := int64(1); global <= 6; global++ {
			for sev := int64(1); sev <= 6; sev++ {
				for bits := 0; bits < 4; bits++ {
					pkgActive, found := bits&1 != 0, bits&2 != 0
					if !pkgActive && (found || sev != 1) {
						continue
					}
					if pkgActive && !found && sev != 1 {
						continue
					}
					it := &Interp{Fn: fn, MaxStates: 50000}
					it.Input = func(v ssa.Value) (AV, bool) {
						switch x := v.(type) {
						case *ssa.Parameter:
							if x.Name() == "level" {
								return avInt(level), true
							}
						case *ssa.UnOp:
							// the parameter is captured by the 'not started yet' closure, so it lives in a cell
							if al, ok := x.X.(*ssa.Alloc); ok && al.Comment == "level" {
								return avInt(level), true
							}
						case *ssa.Call:
							if p, m, ok := aboolOp(x); ok {
								switch {
								case p == "global:log.started" && m == "IsSet":
									return avBool(true), true
								case p == "global:log.pkgLevelsActive" && m == "IsSet":
									return avBool(pkgActive), true
								}
							}
							switch calleeName(&x.Call) {
							case "sync/atomic.LoadUint32":
								return avInt(global), true
							case "builtin.len":
								if _, isSplit := isCallTo(x.Call.Args[0], "strings.Split"); isSplit {
									return avInt(3), true
								}
							}
						case *ssa.Extract:
							if lk, ok := x.Tuple.(*ssa.Lookup); ok && vpath(lk.X) == "global:log.pkgLevels" {
								if x.Index == 0 {
									return avInt(sev), true
								}
								return avBool(found), true
							}
						}
						return AV{}, false
					}
					it.Outcome = func(in ssa.Instruction, _ func(ssa.Value) AV) string {
						if al, ok := in.(*ssa.Alloc); ok && ownerType(al.Type()) == "log.logLine" {
							return "emit"
						}
						if _, ok := in.(*ssa.Return); ok {
							return "ret"
						}
						return ""
					}
					it.Mark = func(in ssa.Instruction) int {
						if al, ok := in.(*ssa.Alloc); ok && ownerType(al.Type()) == "log.logLine" {
							return 0
						}
						return -1
					}
					if !it.Run() {
						r.Undecided(rule, fnKey(fn), "state budget exceeded")
						return
					}
					n++
					_, emitted := it.Outcomes["emit"]
					droppedPossible := false
					for m := range it.Outcomes["ret"] {
						if m&1 == 0 {
							droppedPossible = true
						}
					}
					thr := global
					if pkgActive && found {
						thr = sev
					}
					want := level >= thr
					key := fmt.Sprintf("level=%d global=%d pkgLevels=%v pkgLevelFound=%v pkgLevel=%d", level, global, pkgActive, found, sev)
					if emitted && !want {
						bad = append(bad, key+" -> emitted although below the level in force")
					}
					if want && (!emitted || droppedPossible) {
						bad = append(bad, key+" -> can be dropped although at/above the level in force")
					}
				}
			}
		}
	}
	r.Check(len(bad) == 0, rule, fnKey(fn)+" / level filter table", fmt.Sprintf("%d valuations: emitted exactly when level >= threshold in force", n), strings.Join(firstN(uniq(bad), 4), "; "))
	// fastcheck
	if fc := c.Func("log.fastcheck"); fc == nil {
		r.Undecided(rule, "log.fastcheck", "anchor function missing")
	} else {
		var bad2 []string
		for level := int64(1); level <= 6; level++ {
			for global := int64(1); global <= 6; global++ {
				for _, pkgActive := range []bool{false, true} {
					it := &Interp{Fn: fc, Outcome: retOutcome}
					it.Input = func(v ssa.Value) (AV, bool) {
						switch x := v.(type) {
						case *ssa.Parameter:
							return avInt(level), true
						case *ssa.Call:
							if p, m, ok := aboolOp(x); ok && p == "global:log.pkgLevelsActive" && m == "IsSet" {
								return avBool(pkgActive), true
							}
							if calleeName(&x.Call) == "sync/atomic.LoadUint32" {
								return avInt(global), true
							}
						}
						return AV{}, false
					}
					it.Run()
					ls := strings.Join(outcomeLabels(it.Outcomes), "|")
					mustPass := pkgActive || level >= global
					if mustPass && ls != "ret(true)" {
						bad2 = append(bad2, fmt.Sprintf("level=%d global=%d pkgLevels=%v -> %s", level, global, pkgActive, ls))
					}
				}
			}
		}
		r.Check(len(bad2) == 0, rule, fnKey(fc)+" / never rejects what log() would emit", "72 valuations", strings.Join(firstN(bad2, 4), "; "))
	}
	c20TracerTable(c, r, rule)
}

// c20TracerTable: a context tracer (which collects lines of every level) exists
// only where trace is the level in force for the caller's package.
func c20TracerTable(c *Ctx, r *Report, rule string) {
	fn := c.Func("log.AddTracer")
	if fn == nil {
		r.Undecided(rule, "log.AddTracer", "anchor function missing")
		return
	}
	trace, okT := c.constVal("log", "TraceLevel")
	if !okT {
		r.Undecided(rule, "log.TraceLevel", "constant missing")
		return
	}
	var bad []string
	n := 0
	for global := int64(1); global <= 6; global++ {
		for sev := int64(1); sev <= 6; sev++ {
			for bits := 0; bits < 4; bits++ {
				pkgActive, found := bits&1 != 0, bits&2 != 0
				if (!pkgActive || !found) && sev != 1 {
					continue
				}
				if !pkgActive && found {
					continue
				}
				it := &Interp{Fn: fn, MaxStates: 50000}
				it.Inline = func(callee *ssa.Function) bool { return fnKey(callee) == "log.fastcheck" }
				it.Input = func(v ssa.Value) (AV, bool) {
					switch x := v.(type) {
					case *ssa.Parameter:
						if x.Name() == "ctx" {
							return AV{K: KNonNil}, true
						}
						if x.Name() == "level" {
							return avInt(trace), true
						}
					case *ssa.Call:
						if p, m, ok := aboolOp(x); ok && p == "global:log.pkgLevelsActive" && m == "IsSet" {
							return avBool(pkgActive), true
						}
						switch calleeName(&x.Call) {
						case "sync/atomic.LoadUint32":
							return avInt(global), true
						case "builtin.len":
							if _, isSplit := isCallTo(x.Call.Args[0], "strings.Split"); isSplit {
								return avInt(3), true
							}
						}
					case *ssa.Extract:
						if lk, ok := x.Tuple.(*ssa.Lookup); ok && vpath(lk.X) == "global:log.pkgLevels" {
							if x.Index == 0 {
								return avInt(sev), true
							}
							return avBool(found), true
						}
						if call, ok := x.Tuple.(*ssa.Call); ok && calleeName(&call.Call) == "runtime.Caller" && x.Index == 3 {
							return avBool(true), true
						}
						if _, ok := x.Tuple.(*ssa.TypeAssert); ok && x.Index == 1 {
							return avBool(false), true // no tracer in the context yet
						}
					}
					return AV{}, false
				}
				isCreate := func(in ssa.Instruction) bool {
					al, ok := in.(*ssa.Alloc)
					return ok && ownerType(al.Type()) == "log.ContextTracer"
				}
				it.Outcome = func(in ssa.Instruction, _ func(ssa.Value) AV) string {
					if isCreate(in) {
						return "create"
					}
					if _, ok := in.(*ssa.Return); ok {
						return "ret"
					}
					return ""
				}
				it.Mark = func(in ssa.Instruction) int {
					if isCreate(in) {
						return 0
					}
					return -1
				}
				if !it.Run() {
					r.Undecided(rule, fnKey(fn), "state budget exceeded")
					return
				}
				n++
				_, created := it.Outcomes["create"]
				without := false
				for m := range it.Outcomes["ret"] {
					if m&1 == 0 {
						without = true
					}
				}
				thr := global
				if pkgActive && found {
					thr = sev
				}
				want := trace >= thr
				key := fmt.Sprintf("global=%d pkgLevels=%v pkgLevelFound=%v pkgLevel=%d", global, pkgActive, found, sev)
				if created && !want {
					bad = append(bad, key+" -> a tracer is created although trace is below the level in force: its trace/debug lines are emitted with the submission")
				}
				if want && (!created || without) {
					bad = append(bad, key+" -> no tracer although trace is enabled for the caller")
				}
			}
		}
	}
	r.Check(len(bad) == 0, rule, fnKey(fn)+" / tracer creation table", fmt.Sprintf("%d valuations: a tracer is created exactly when trace >= threshold in force", n), strings.Join(firstN(uniq(bad), 4), "; "))
}

func isLogBuffer(ch ssa.Value) bool { return vpath(ch) == "global:log.logBuffer" }

func c20R2(c *Ctx, r *Report) {
	const rule = "C20-R2"
	r.SetFloor(rule, 6)
	sent := selectCaseGuard("line sent to the log buffer", types.SendOnly, isLogBuffer)
	for _, name := range []string{"log.log", "log.(*ContextTracer).Submit"} {
		fn := c.Func(name)
		if fn == nil {
			r.Undecided(rule, name, "anchor function missing")
			continue
		}
		// the line object
		var line *ssa.Alloc
		eachInstr(fn, func(in ssa.Instruction) {
			if al, ok := in.(*ssa.Alloc); ok && ownerType(al.Type()) == "log.logLine" {
				line = al
			}
		})
		if line == nil {
			r.Bad(rule, name+" / line object", "no log line is created")
			continue
		}
		// (a) every return after the line was created passed a send edge (in this function, by this goroutine)
		k := 0
		eachInstr(fn, func(in ssa.Instruction) {
			ret, ok := in.(*ssa.Return)
			if !ok {
				return
			}
			if !MustPrecede(fn, func(x ssa.Instruction) bool { return x == ssa.Instruction(line) }, ret) {
				return
			}
			k++
			p := ReachTargetAvoiding(fn, ret, []Guard{sent}, nil)
			// plain sends count too
			if p != nil {
				p = ReachTargetAvoiding(fn, ret, []Guard{sent}, func(x ssa.Instruction) bool {
					s, ok := x.(*ssa.Send)
					return ok && isLogBuffer(s.Chan)
				})
			}
			r.Check(p == nil, rule, fmt.Sprintf("%s / exit #%d enqueued the line", name, k), "every exit after the filter has put the line into the buffer itself",
				"the function can return without having enqueued the line itself (e.g. it hands it to another goroutine): lines of one goroutine can overtake each other and Shutdown does not wait for them", c.pathString(p)...)
		})
		if k == 0 {
			r.Undecided(rule, name, "no exit after the line creation")
		}
		// (b) no second send after a send edge
		for _, b := range fn.Blocks {
			ifi, ok := b.Instrs[len(b.Instrs)-1].(*ssa.If)
			if !ok {
				continue
			}
			base, pos := peel(ifi.Cond)
			if !sent.Match(base) {
				continue
			}
			succ := b.Succs[0]
			if !pos {
				succ = b.Succs[1]
			}
			if len(succ.Instrs) == 0 {
				continue
			}
			again := ReachInstr(fn, succ.Instrs[0], func(x ssa.Instruction) bool {
				switch y := x.(type) {
				case *ssa.Select:
					for _, st := range y.States {
						if st.Dir == types.SendOnly && isLogBuffer(st.Chan) {
							return true
						}
					}
				case *ssa.Send:
					return isLogBuffer(y.Chan)
				}
				return false
			}, nil)
			first := succ.Instrs[0]
			if sel, isSel := first.(*ssa.Select); isSel {
				for _, st := range sel.States {
					if st.Dir == types.SendOnly && isLogBuffer(st.Chan) {
						again = first
					}
				}
			}
			r.Check(again == nil, rule, name+" / no second enqueue", "after the line was sent no further send is reachable", "the line can be enqueued twice", posOf(c, again))
		}
		// (c) the value sent is the line object
		eachInstr(fn, func(in ssa.Instruction) {
			if sel, ok := in.(*ssa.Select); ok {
				for _, st := range sel.States {
					if st.Dir == types.SendOnly && isLogBuffer(st.Chan) {
						isLine := st.Send == ssa.Value(line)
						for _, l := range c.Leaves(st.Send) {
							if l == ssa.Value(line) {
								isLine = true
							}
						}
						r.Check(isLine, rule, name+" / the created line is what is sent", "sends the line object", "sends something else than the created line")
					}
				}
			}
		})
		// (d) wake-up after the send
		wake := callsIn(fn, aboolPkg+"SetToIf")
		okWake := false
		for _, w := range wake {
			if vpath(w.Common().Args[0]) == "global:log.logsWaitingFlag" {
				okWake = true
			}
		}
		r.Check(okWake, rule, name+" / writer wake-up", "the writer is woken after the enqueue", "the writer is not woken after the enqueue")
		// no go statement that carries the line
		eachInstr(fn, func(in ssa.Instruction) {
			if g, ok := in.(*ssa.Go); ok {
				if !MustPrecede(fn, func(x ssa.Instruction) bool { return x == ssa.Instruction(line) }, g) {
					return
				}
				r.Bad(rule, name+" / goroutine after the filter", "a goroutine is spawned after the line was created: enqueueing must happen on the caller's goroutine to keep per-goroutine order", c.Pos(g.Pos()))
			}
		})
	}
}

func c20R3(c *Ctx, r *Report) {
	const rule = "C20-R3"
	r.SetFloor(rule, 4)
	c20CoupledReset(c, r, rule)
	// Equal truth table
	if fn := c.Func("log.(*logLine).Equal"); fn == nil {
		r.Undecided(rule, "log.(*logLine).Equal", "anchor function missing")
	} else {
		ll, ol := fn.Params[0], fn.Params[1]
		var bad []string
		n := 0
		for bits := 0; bits < 64; bits++ {
			t1, t2 := bits&1 != 0, bits&2 != 0
			sameMsg, sameFile, sameLine, sameLevel := bits&4 != 0, bits&8 != 0, bits&16 != 0, bits&32 != 0
			it := &Interp{Fn: fn, Outcome: retOutcome}
			val := func(base ssa.Value, field string) (AV, bool) {
				second := base == ssa.Value(ol)
				if base != ssa.Value(ll) && !second {
					return AV{}, false
				}
				pick := func(same bool, a, b AV) AV {
					if second && !same {
						return b
					}
					return a
				}
				switch field {
				case "tracer":
					has := t1
					if second {
						has = t2
					}
					if has {
						return avSym("tracer"), true
					}
					return AV{K: KNil}, true
				case "msg":
					return pick(sameMsg, avStr("m"), avStr("other")), true
				case "file":
					return pick(sameFile, avStr("f"), avStr("other")), true
				case "line":
					return pick(sameLine, avInt(1), avInt(2)), true
				case "level":
					return pick(sameLevel, avInt(3), avInt(4)), true
				}
				return AV{}, false
			}
			it.Input = func(v ssa.Value) (AV, bool) {
				u, ok := v.(*ssa.UnOp)
				if !ok || u.Op != token.MUL {
					return AV{}, false
				}
				fa, ok := u.X.(*ssa.FieldAddr)
				if !ok {
					return AV{}, false
				}
				return val(fa.X, fieldName(fa.X.Type(), fa.Field))
			}
			it.Run()
			n++
			ls := strings.Join(outcomeLabels(it.Outcomes), "|")
			want := !t1 && !t2 && sameMsg && sameFile && sameLine && sameLevel
			if ls != fmt.Sprintf("ret(%v)", want) {
				bad = append(bad, fmt.Sprintf("tracer1=%v tracer2=%v sameMsg=%v sameFile=%v sameLine=%v sameLevel=%v -> %s (expected %v)", t1, t2, sameMsg, sameFile, sameLine, sameLevel, ls, want))
			}
		}
		r.Check(len(bad) == 0, rule, fnKey(fn)+" / truth table", fmt.Sprintf("%d valuations: two lines merge only if neither carries a tracer and message, file, line and level agree", n), strings.Join(firstN(bad, 3), "; "))
	}
	// writer: Write of the held line before it is replaced
	w := c.Func("log.writer")
	if w == nil {
		r.Undecided(rule, "log.writer", "anchor function missing")
		return
	}
	isWrite := func(in ssa.Instruction) bool {
		ci, ok := in.(*ssa.Call)
		return ok && ci.Call.IsInvoke() && ci.Call.Method.Name() == "Write" && objName(ci.Call.Method) == "log.Adapter.Write"
	}
	var writes []*ssa.Call
	eachInstr(w, func(in ssa.Instruction) {
		if isWrite(in) {
			writes = append(writes, in.(*ssa.Call))
		}
	})
	r.Check(len(writes) >= 2, rule, fnKey(w)+" / write sites", fmt.Sprintf("%d adapter writes (in-loop and final)", len(writes)), "the writer needs an in-loop write (line changed) and a final write (last held line)")
	for i, wr := range writes {
		// the line written is the held line (a phi of received lines), the count is the duplicates counter
		a := wr.Call.Args
		_, isPhi := unwrapConv(a[0]).(*ssa.Phi)
		r.Check(isPhi, rule, fmt.Sprintf("%s / write #%d writes the held line", fnKey(w), i+1), "writes the currently held line", "the adapter is not given the held line")
		_, cntPhi := a[1].(*ssa.Phi)
		r.Check(cntPhi, rule, fmt.Sprintf("%s / write #%d passes the duplicate count", fnKey(w), i+1), "passes the running duplicate counter", "the duplicate count passed is not the running counter")
	}
	// every received line is either held, merged (across Equal) or causes a write: the receive select on logBuffer
	// merged only across Equal==true
	eq := callGuard("nextLine.Equal(currentLine)", true, "log.logLine.Equal")
	eachInstr(w, func(in ssa.Instruction) {
		bo, ok := in.(*ssa.BinOp)
		if !ok || bo.Op != token.ADD {
			return
		}
		if one, isC := constInt(bo.Y); !isC || one != 1 {
			return
		}
		bt, ok := bo.Type().Underlying().(*types.Basic)
		if !ok || bt.Kind() != types.Uint64 {
			return
		}
		c.RequireGuards(r, rule, fnKey(w)+" / duplicates++", w, bo, eq)
	})
	// the in-loop write happens on the not-equal edge (so a differing line flushes the held one)
	if len(writes) > 0 {
		ne := eq
		ne.Truthy = false
		ne.Name = "lines differ"
		inLoop := 0
		for _, wr := range writes {
			if ReachAvoiding(w, nil, wr.Block(), []Guard{ne}) == nil {
				inLoop++
			}
		}
		r.Check(inLoop >= 1, rule, fnKey(w)+" / differing line flushes the held line", "a write happens on the not-equal edge", "no write on the not-equal edge: a differing line silently replaces the held one")
	}
	// final write guarded by currentLine != nil after the drain loop: exists a write not in a cycle with the logBuffer receive
}

func c20R4(c *Ctx, r *Report) {
	const rule = "C20-R4"
	c20WaitGroupArmed(c, r, rule)
	r.SetFloor(rule, 5)
	w := c.Func("log.writer")
	if w == nil {
		r.Undecided(rule, "log.writer", "anchor function missing")
		return
	}
	isFinal := isCallInstrTo("log.finalizeWriting")
	shut := selectCaseGuard("shutdown signalled", types.RecvOnly, func(ch ssa.Value) bool { return vpath(ch) == "global:log.shutdownSignal" })
	// count shutdown arms
	arms := 0
	eachInstr(w, func(in ssa.Instruction) {
		if sel, ok := in.(*ssa.Select); ok {
			for _, st := range sel.States {
				if st.Dir == types.RecvOnly && vpath(st.Chan) == "global:log.shutdownSignal" {
					arms++
				}
			}
		}
	})
	r.Check(arms >= 3, rule, fnKey(w)+" / shutdown arms", fmt.Sprintf("%d selects listen for shutdown", arms), fmt.Sprintf("only %d selects of the writer listen for shutdown", arms))
	k := 0
	eachInstr(w, func(in ssa.Instruction) {
		ret, ok := in.(*ssa.Return)
		if !ok {
			return
		}
		// returns of the deferred-recover epilogue are not exits of the loop
		k++
		p := ReachTargetAvoiding(w, ret, nil, isFinal)
		r.Check(p == nil, rule, fmt.Sprintf("%s / exit #%d drains the buffer", fnKey(w), k), "finalizeWriting runs before the writer returns", "the writer can return without draining the buffer: lines logged before Shutdown are lost", c.pathString(p)...)
		// and only on shutdown
		q := ReachTargetAvoiding(w, ret, []Guard{shut}, nil)
		r.Check(q == nil, rule, fmt.Sprintf("%s / exit #%d only on shutdown", fnKey(w), k), "the writer ends only when shutdown was signalled", "the writer can end without shutdown being signalled", c.pathString(q)...)
	})
	// finalizeWriting writes every line it dequeues
	if f := c.Func("log.finalizeWriting"); f == nil {
		r.Undecided(rule, "log.finalizeWriting", "anchor function missing")
	} else {
		recv := selectCaseGuard("line dequeued", types.RecvOnly, isLogBuffer)
		found := false
		for _, b := range f.Blocks {
			ifi, ok := b.Instrs[len(b.Instrs)-1].(*ssa.If)
			if !ok {
				continue
			}
			base, pos := peel(ifi.Cond)
			if !recv.Match(base) {
				continue
			}
			succ := b.Succs[0]
			if !pos {
				succ = b.Succs[1]
			}
			found = true
			// from the dequeue edge: a Write before the next select / return
			first := succ.Instrs[0]
			isW := func(in ssa.Instruction) bool {
				ci, ok := in.(*ssa.Call)
				return ok && ci.Call.IsInvoke() && ci.Call.Method.Name() == "Write"
			}
			lost := isW(first)
			var bad ssa.Instruction
			if !lost {
				bad = ReachInstr(f, first, func(x ssa.Instruction) bool {
					if _, ok := x.(*ssa.Select); ok {
						return true
					}
					_, isRet := x.(*ssa.Return)
					return isRet
				}, isW)
			}
			r.Check(bad == nil, rule, fnKey(f)+" / every dequeued line is written", "a dequeued line is passed to the adapter before the next dequeue", "finalizeWriting can drop a dequeued line", posOf(c, bad))
		}
		r.Check(found, rule, fnKey(f)+" / drains the buffer", "dequeues from the log buffer", "finalizeWriting does not read the log buffer")
		// ends only on the quiet-period timeout
		eachInstr(f, func(in ssa.Instruction) {
			if ret, ok := in.(*ssa.Return); ok {
				to := selectCaseGuard("quiet period elapsed", types.RecvOnly, func(ch ssa.Value) bool { _, ok := isCallTo(ch, "time.After"); return ok })
				c.RequireGuards(r, rule, fnKey(f)+" / ends when the buffer stayed empty", f, ret, to)
			}
		})
	}
	// Shutdown: close(shutdownSignal) then Wait
	if s := c.Func("log.Shutdown"); s == nil {
		r.Undecided(rule, "log.Shutdown", "anchor function missing")
	} else {
		isClose := func(in ssa.Instruction) bool {
			ci, ok := in.(*ssa.Call)
			return ok && calleeName(&ci.Call) == "builtin.close" && vpath(ci.Call.Args[0]) == "global:log.shutdownSignal"
		}
		isWait := func(in ssa.Instruction) bool {
			ci, ok := in.(*ssa.Call)
			return ok && calleeName(&ci.Call) == "sync.WaitGroup.Wait" && vpath(ci.Call.Args[0]) == "global:log.shutdownWaitGroup"
		}
		okWait, nRet := true, 0
		eachInstr(s, func(in ssa.Instruction) {
			if ret, ok := in.(*ssa.Return); ok {
				nRet++
				if ReachTargetAvoiding(s, ret, nil, isWait) != nil {
					okWait = false
				}
			}
		})
		okWait = okWait && nRet > 0
		r.Check(okWait, rule, fnKey(s)+" / waits for the writer", "every exit of Shutdown waits for the writer group", "Shutdown can return without waiting for the writer to drain")
		r.Check(funcHas(s, 0, isClose), rule, fnKey(s)+" / signals shutdown", "closes the shutdown signal", "Shutdown never signals the writer")
	}
	// the writer group is released only when writerManager ends, which happens only when writer returned nil
	if m := c.Func("log.writerManager"); m != nil {
		g := Guard{Name: "writer() returned nil", Truthy: false, Match: func(b ssa.Value) bool { _, ok := isCallTo(b, "log.writer"); return ok }}
		eachInstr(m, func(in ssa.Instruction) {
			if ret, ok := in.(*ssa.Return); ok {
				c.RequireGuards(r, rule, fnKey(m)+" / ends only after a clean writer exit", m, ret, g)
			}
		})
	}
}

// c20CoupledReset: the repetition count belongs to the held line. Wherever the
// held line becomes nil or another line, the count is reset to 0 on the same
// edge (a line taken while none was held may keep the count, which is 0 then).
func c20CoupledReset(c *Ctx, r *Report, rule string) {
	fn := c.Func("log.writer")
	if fn == nil {
		r.Undecided(rule, "log.writer", "anchor function missing")
		return
	}
	n := 0
	for _, b := range fn.Blocks {
		var cl, dup *ssa.Phi
		for _, in := range b.Instrs {
			ph, ok := in.(*ssa.Phi)
			if !ok {
				break
			}
			switch ph.Comment {
			case "currentLine":
				cl = ph
			case "duplicates":
				dup = ph
			}
		}
		if cl == nil {
			continue
		}
		if dup == nil {
			// the count is not merged here although the held line is: it keeps its value on every edge
			for i, e := range cl.Edges {
				if e != ssa.Value(cl) {
					n++
					r.Bad(rule, fmt.Sprintf("log.writer / held line changes at b%d edge %d without the repetition count", b.Index, i), "the held line is replaced on an edge on which the repetition count is not reset: a stale count is reported for the next line")
				}
			}
			continue
		}
		noneHeld := Guard{Name: "currentLine == nil", Truthy: false, Match: func(v ssa.Value) bool { return v == ssa.Value(cl) }}
		for i, e := range cl.Edges {
			d := dup.Edges[i]
			if e == ssa.Value(cl) {
				continue // held line unchanged: the count may stay or grow
			}
			n++
			zero := false
			if k, isC := constInt(d); isC && k == 0 {
				zero = true
			}
			kept := d == ssa.Value(dup) && !isNilConst(e) && phiEdgeGuarded(fn, cl, i, noneHeld)
			what := "replaced by another line"
			if isNilConst(e) {
				what = "dropped (nil)"
			}
			r.Check(zero || kept, rule, fmt.Sprintf("log.writer / repetition count reset where the held line is %s #%d", what, n),
				"the count is 0 on this edge (reset, or no line was held before)",
				"the held line is "+what+" but the repetition count keeps its old value: the next line is written claiming repetitions that never happened", c.pathString([]*ssa.BasicBlock{b.Preds[i], b})...)
		}
	}
	if n == 0 {
		r.Undecided(rule, "log.writer / held line", "no merge point of the held line found")
	}
}

// c20WaitGroupArmed: Add happens-before the launch, so a Shutdown that follows Start cannot see a zero counter.
func c20WaitGroupArmed(c *Ctx, r *Report, rule string) {
	isWG := func(method string) func(ssa.Instruction) bool {
		return func(in ssa.Instruction) bool {
			ci, ok := in.(ssa.CallInstruction)
			return ok && calleeName(ci.Common()) == "sync.WaitGroup."+method && vpath(ci.Common().Args[0]) == "global:log.shutdownWaitGroup"
		}
	}
	n := 0
	for _, fn := range c.FuncsIn("log") {
		eachInstr(fn, func(in ssa.Instruction) {
			g, ok := in.(*ssa.Go)
			if !ok {
				return
			}
			callee := staticCallee(&g.Call)
			if callee == nil || !funcHas(callee, 1, isWG("Done")) {
				return
			}
			n++
			r.Check(MustPrecede(fn, isWG("Add"), g), rule, fmt.Sprintf("%s / wait group armed before %s is launched", fnKey(fn), fnKey(callee)),
				"shutdownWaitGroup.Add precedes the go statement on every path",
				"the goroutine that signals shutdownWaitGroup.Done is launched without a preceding Add in the launching goroutine (Add inside the new goroutine races with Wait): Shutdown can return before the writer drained the buffer", c.Pos(g.Pos()))
		})
	}
	if n == 0 {
		r.Undecided(rule, "log / writer launch", "no goroutine that signals the shutdown wait group is launched")
	}
}

// c20R6: the wrappers agree with their names.
func c20R6(c *Ctx, r *Report) {
	const rule = "C20-R6"
	r.SetFloor(rule, 24)
	names := []string{"Trace", "Debug", "Info", "Warning", "Error", "Critical"}
	for _, fn := range c.FuncsIn("log") {
		if fn.Parent() != nil || fn.Blocks == nil {
			continue
		}
		base := strings.TrimSuffix(fn.Name(), "f")
		lvlName := ""
		for _, n := range names {
			if base == n {
				lvlName = n + "Level"
			}
		}
		if lvlName == "" {
			continue
		}
		want, ok := c.constVal("log", lvlName)
		if !ok {
			r.Undecided(rule, "log."+lvlName, "constant missing")
			continue
		}
		var bad []string
		nLevels := 0
		var logCalls, tracerCalls []ssa.CallInstruction
		eachInstr(fn, func(in ssa.Instruction) {
			ci, ok := in.(ssa.CallInstruction)
			if !ok {
				return
			}
			cn := calleeName(ci.Common())
			if cn != "log.fastcheck" && cn != "log.log" && cn != "log.ContextTracer.log" {
				return
			}
			if cn == "log.log" {
				logCalls = append(logCalls, ci)
			}
			if cn == "log.ContextTracer.log" {
				tracerCalls = append(tracerCalls, ci)
			}
			for _, a := range ci.Common().Args {
				if nt, isNamed := a.Type().(*types.Named); !isNamed || nt.Obj().Name() != "Severity" {
					continue
				}
				nLevels++
				v, isC := constInt(a)
				if !isC || v != want {
					bad = append(bad, fmt.Sprintf("%s is called with level %s at %s", cn, valStr(a), c.Pos(in.Pos())))
				}
			}
		})
		cons := fnKey(fn) + " / passes on " + lvlName
		if nLevels == 0 {
			r.Undecided(rule, cons, "no severity argument found")
			continue
		}
		r.Check(len(bad) == 0, rule, cons, fmt.Sprintf("%d severity arguments, all %s", nLevels, lvlName), "the wrapper logs with another level than the one it is named after ("+strings.Join(firstN(bad, 2), "; ")+"): messages are filtered and labelled with the wrong level")
		// plain path: log() only behind fastcheck(), and fastcheck true leads to log()
		fc := callGuard("fastcheck()==true", true, "log.fastcheck")
		for _, lc := range logCalls {
			c.RequireGuards(r, rule, fnKey(fn)+" / log() behind fastcheck", fn, lc, fc)
		}
		if len(logCalls) == 0 {
			r.Bad(rule, fnKey(fn)+" / message is logged", "the wrapper never calls log(): its messages are lost")
		}
		if fn.Signature.Recv() != nil && len(tracerCalls) == 0 {
			r.Bad(rule, fnKey(fn)+" / message is added to the tracer", "the tracer method never adds the line to the tracer")
		}
	}
}
