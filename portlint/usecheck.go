package main

import (
	"fmt"
	"go/token"
	"go/types"
	"sort"
	"strings"

	"golang.org/x/tools/go/ssa"
)

// A17 use before check. A call that returns (v, err), a comma-ok type assertion
// and a comma-ok map lookup hand out a v that is only meaningful when err == nil
// / ok. Every dereferencing use of a nil-able v (field access, method call, call
// of the function value, write to the map, handing it to another function) must
// be reachable from the producing instruction only across the edge on which
// err == nil (ok) was established. Found violations are "use before check"
// (the test comes later or tests something else) - the value is nil on the
// failure path and the use panics.

type ubcSite struct {
	Fn   *ssa.Function
	Prod ssa.Instruction // the producing call / assertion / lookup
	What string          // description of the producer
	Use  ssa.Instruction
	How  string
	Path []*ssa.BasicBlock
}

func nilable(t types.Type) bool {
	switch u := t.Underlying().(type) {
	case *types.Pointer, *types.Map, *types.Signature, *types.Chan:
		return true
	case *types.Interface:
		_ = u
		return !isErrorType(t)
	}
	return false
}


// ubcProducers lists (producer, value extracts, check extract, isErr) of fn.
func ubcProducers(fn *ssa.Function) (out []struct {
	Prod   ssa.Instruction
	What   string
	Vals   []*ssa.Extract
	Check  *ssa.Extract
	IsErr  bool
}) {
	eachInstr(fn, func(in ssa.Instruction) {
		v, ok := in.(ssa.Value)
		if !ok {
			return
		}
		tup, isTuple := v.Type().(*types.Tuple)
		if !isTuple || tup.Len() < 2 || v.Referrers() == nil {
			return
		}
		what := ""
		isErr := false
		switch x := in.(type) {
		case *ssa.Call:
			if !isErrorType(tup.At(tup.Len() - 1).Type()) {
				return
			}
			isErr = true
			what = calleeName(&x.Call)
			if what == "" {
				what = "func value " + exprStr(x.Call.Value)
			}
		case *ssa.TypeAssert:
			if !x.CommaOk {
				return
			}
			what = "type assertion to " + types.TypeString(x.AssertedType, func(p *types.Package) string { return p.Name() })
		case *ssa.Lookup:
			if !x.CommaOk {
				return
			}
			what = "lookup in " + exprStr(x.X)
		default:
			return
		}
		var vals []*ssa.Extract
		var check *ssa.Extract
		for _, ref := range *v.Referrers() {
			ex, ok := ref.(*ssa.Extract)
			if !ok {
				continue
			}
			if ex.Index == tup.Len()-1 {
				check = ex
			} else if nilable(ex.Type()) || ubcAllOrNothing[what] {
				vals = append(vals, ex)
			}
		}
		if len(vals) == 0 {
			return
		}
		out = append(out, struct {
			Prod  ssa.Instruction
			What  string
			Vals  []*ssa.Extract
			Check *ssa.Extract
			IsErr bool
		}{in, what, vals, check, isErr})
	})
	return out
}

// aliasesOf: v itself plus loads of local cells v was stored into, phis and interface conversions of it.
func aliasesOf(v ssa.Value) map[ssa.Value]bool {
	set := map[ssa.Value]bool{}
	var add func(x ssa.Value, d int)
	add = func(x ssa.Value, d int) {
		if set[x] || d > 4 || x.Referrers() == nil {
			return
		}
		set[x] = true
		for _, ref := range *x.Referrers() {
			switch r := ref.(type) {
			case *ssa.Phi:
				add(r, d+1)
			case *ssa.MakeInterface:
				add(r, d+1)
			case *ssa.ChangeInterface:
				add(r, d+1)
			case *ssa.ChangeType:
				add(r, d+1)
			case *ssa.Store:
				if al, ok := r.Addr.(*ssa.Alloc); ok && r.Val == x && al.Referrers() != nil {
					for _, ar := range *al.Referrers() {
						if ld, ok := ar.(*ssa.UnOp); ok && ld.Op == token.MUL {
							add(ld, d+1)
						}
					}
				}
			}
		}
	}
	add(v, 0)
	return set
}

// ubcAllOrNothing: producers whose data result is complete only when err == nil (a partial read must not be taken for the whole).
var ubcAllOrNothing = map[string]bool{"io.ReadAll": true, "os.ReadFile": true, "io/ioutil.ReadAll": true, "io/ioutil.ReadFile": true}

var ubcHarmlessCallees = []string{"fmt.", "log.", "errors.", "github.com/safing/portbase/log.", "builtin.len", "builtin.cap"}

// ubcUses lists the dereferencing uses of the aliases.
func ubcUses(al map[ssa.Value]bool) (out []struct {
	In  ssa.Instruction
	How string
}) {
	seen := map[ssa.Instruction]bool{}
	add := func(in ssa.Instruction, how string) {
		if !seen[in] {
			seen[in] = true
			out = append(out, struct {
				In  ssa.Instruction
				How string
			}{in, how})
		}
	}
	for v := range al {
		if v.Referrers() == nil {
			continue
		}
		for _, ref := range *v.Referrers() {
			switch r := ref.(type) {
			case *ssa.FieldAddr:
				if r.X == v {
					add(r, "field access")
				}
			case *ssa.Field:
				if r.X == v {
					add(r, "field access")
				}
			case *ssa.IndexAddr:
				if r.X == v {
					add(r, "element access")
				}
			case *ssa.Slice:
				if r.X == v {
					add(r, "slicing")
				}
			case *ssa.MapUpdate:
				if r.Map == v {
					add(r, "map write")
				}
			case *ssa.UnOp:
				if r.Op == token.MUL && r.X == v {
					if _, isCell := v.(*ssa.Alloc); !isCell {
						add(r, "dereference")
					}
				}
			case ssa.CallInstruction:
				cc := r.Common()
				if cc.Value == v {
					if cc.IsInvoke() {
						add(r, "method call "+cc.Method.Name())
					} else {
						add(r, "call of the function value")
					}
					continue
				}
				n := calleeName(cc)
				harmless := false
				for _, h := range ubcHarmlessCallees {
					if strings.HasPrefix(n, h) {
						harmless = true
					}
				}
				if harmless {
					continue
				}
				for i, a := range cc.Args {
					if a == v {
						if i == 0 && !cc.IsInvoke() && cc.Signature().Recv() != nil {
							add(r, "method call "+n)
						} else {
							add(r, "argument of "+n)
						}
					}
				}
			}
		}
	}
	sort.Slice(out, func(i, j int) bool { return out[i].In.Pos() < out[j].In.Pos() })
	return out
}

// ubcGuard: the edge on which the check value says "fine".
func ubcGuard(check *ssa.Extract, isErr bool) Guard {
	al := aliasesOf(check)
	if !isErr {
		return Guard{Name: "ok", Truthy: true, Match: func(b ssa.Value) bool { return al[b] }}
	}
	// peel() reduces `err == nil` / `err != nil` to the base value err: the guard is passed where err is NOT truthy
	return Guard{Name: "err == nil", Truthy: false, Match: func(b ssa.Value) bool { return al[b] }}
}

func useBeforeCheckSites(c *Ctx, fn *ssa.Function) (checked int, bad []ubcSite) {
	for _, p := range ubcProducers(fn) {
		if p.Check == nil || !hasRealReferrer(p.Check) {
			continue // the error is discarded altogether: A10's business
		}
		g := ubcGuard(p.Check, p.IsErr)
		checkAl := aliasesOf(p.Check)
		for _, v := range p.Vals {
			al := aliasesOf(v)
			// the value's own nil test is as good as the error test
			own := Guard{Name: "value != nil", Truthy: true, Match: func(b ssa.Value) bool { return al[b] }}
			// a path that enters a merge point over an edge carrying a different value no longer holds this result
			other := map[ssa.Instruction]bool{}
			for a := range al {
				ph, ok := a.(*ssa.Phi)
				if !ok {
					continue
				}
				for i, e := range ph.Edges {
					if !al[e] && i < len(ph.Block().Preds) {
						pb := ph.Block().Preds[i]
						other[pb.Instrs[len(pb.Instrs)-1]] = true
					}
				}
			}
			var barrier func(ssa.Instruction) bool
			if len(other) > 0 {
				barrier = func(in ssa.Instruction) bool { return other[in] }
			}
			for _, u := range ubcUses(al) {
				if u.In.Block() == nil || u.In.Parent() != fn {
					continue
				}
				if ci, ok := u.In.(ssa.CallInstruction); ok && strings.HasPrefix(u.How, "argument of") {
					// handed on together with its error / ok: the callee decides
					along := false
					for _, a := range ci.Common().Args {
						if checkAl[a] {
							along = true
						}
					}
					if along {
						continue
					}
				}
				checked++
				use := u.In
				path := ReachFromAvoiding(fn, p.Prod, func(in ssa.Instruction) bool { return in == use }, []Guard{g, own}, barrier)
				if path != nil {
					bad = append(bad, ubcSite{fn, p.Prod, p.What, use, u.How, path})
				}
			}
		}
	}
	return checked, bad
}

func hasRealReferrer(v ssa.Value) bool {
	if v.Referrers() == nil {
		return false
	}
	for _, r := range *v.Referrers() {
		if _, dbg := r.(*ssa.DebugRef); !dbg {
			return true
		}
	}
	return false
}

// useBeforeCheckRule: A17 over the selected functions; exempt is keyed "<fn> / <producer> / <use>".
func useBeforeCheckRule(c *Ctx, r *Report, rule string, floor int, sel func(fn *ssa.Function) bool, exempt map[string]string) {
	r.SetFloor(rule, floor)
	for _, fn := range c.AllFuncs() {
		if fn.Pkg == nil || fn.Blocks == nil || !sel(fn) {
			continue
		}
		n, bad := useBeforeCheckSites(c, fn)
		if n == 0 {
			continue
		}
		var msgs []string
		for _, b := range bad {
			key := fnKey(fn) + " / " + b.What + " / " + b.How
			if _, ok := exempt[key]; ok {
				continue
			}
			if _, ok := exempt[b.What+" / "+b.How]; ok { // producer-wide exception (holds wherever the producer is called)
				continue
			}
			msgs = append(msgs, fmt.Sprintf("the result of %s is used (%s at %s) on a path on which its error / ok was not found fine", b.What, b.How, c.Pos(b.Use.Pos())))
		}
		r.Check(len(msgs) == 0, rule, fnKey(fn)+" / results used only after their error (ok) was checked", fmt.Sprintf("%d uses of fallible results, each behind err == nil / ok", n),
			strings.Join(msgs, "; ")+": on the failure path the value is nil (or stale) and the use panics or acts on the wrong object")
	}
}

func probeUseBeforeCheck(c *Ctx) {
	total := 0
	for _, fn := range c.AllFuncs() {
		if fn.Pkg == nil || fn.Blocks == nil {
			continue
		}
		n, bad := useBeforeCheckSites(c, fn)
		total += n
		for _, b := range bad {
			fmt.Printf("%s\t%s\t%s\t%s\n", fnKey(fn), b.What, b.How, c.Pos(b.Use.Pos()))
		}
	}
	fmt.Println("uses checked:", total)
}

// A18 typed nil. A function with an interface-typed result that returns a
// pointer variable which may be nil hands out a non-nil interface holding a nil
// pointer: the caller's `== nil` test does not fire and the first method call
// dereferences nil.
func typedNilSites(c *Ctx, fn *ssa.Function) (checked int, bad []string) {
	res := fn.Signature.Results()
	eachInstr(fn, func(in ssa.Instruction) {
		ret, ok := in.(*ssa.Return)
		if !ok {
			return
		}
		for i, v := range ret.Results {
			if i >= res.Len() {
				continue
			}
			if _, isIface := res.At(i).Type().Underlying().(*types.Interface); !isIface {
				continue
			}
			for _, mi := range makeInterfaceSources(v, 0, map[ssa.Value]bool{}) {
				if _, isPtr := mi.X.Type().Underlying().(*types.Pointer); !isPtr {
					continue
				}
				checked++
				for _, pl := range c.Leaves(mi.X) {
					if isNilConst(pl) {
						bad = append(bad, fmt.Sprintf("result #%d may be a nil %s inside the interface (return at %s)", i, types.TypeString(mi.X.Type(), func(p *types.Package) string { return p.Name() }), c.Pos(ret.Pos())))
					}
				}
			}
		}
	})
	return checked, bad
}

func typedNilRule(c *Ctx, r *Report, rule string, floor int, pkgs ...string) {
	r.SetFloor(rule, floor)
	for _, fn := range c.AllFuncs() {
		if fn.Pkg == nil || fn.Blocks == nil || !inList(short(fn.Pkg.Pkg.Path()), pkgs) {
			continue
		}
		n, bad := typedNilSites(c, fn)
		if n == 0 {
			continue
		}
		r.Check(len(bad) == 0, rule, fnKey(fn)+" / no typed nil in an interface result", fmt.Sprintf("%d pointer-to-interface conversions returned, none from a possibly nil pointer", n),
			strings.Join(bad, "; ")+": callers comparing the interface with nil do not see it and the first method call dereferences nil")
	}
}

func probeTypedNil(c *Ctx) {
	total := 0
	for _, fn := range c.AllFuncs() {
		if fn.Pkg == nil || fn.Blocks == nil {
			continue
		}
		n, bad := typedNilSites(c, fn)
		total += n
		for _, b := range bad {
			fmt.Printf("%s\t%s\n", fnKey(fn), b)
		}
	}
	fmt.Println("conversions checked:", total)
}

// makeInterfaceSources: the MakeInterface instructions a value may come from (through phis, interface conversions and local cells).
func makeInterfaceSources(v ssa.Value, d int, seen map[ssa.Value]bool) []*ssa.MakeInterface {
	if v == nil || d > 8 || seen[v] {
		return nil
	}
	seen[v] = true
	switch x := v.(type) {
	case *ssa.MakeInterface:
		return []*ssa.MakeInterface{x}
	case *ssa.ChangeInterface:
		return makeInterfaceSources(x.X, d+1, seen)
	case *ssa.Phi:
		var out []*ssa.MakeInterface
		for _, e := range x.Edges {
			out = append(out, makeInterfaceSources(e, d+1, seen)...)
		}
		return out
	case *ssa.UnOp:
		if x.Op != token.MUL {
			return nil
		}
		al, ok := x.X.(*ssa.Alloc)
		if !ok || al.Referrers() == nil {
			return nil
		}
		var out []*ssa.MakeInterface
		for _, ref := range *al.Referrers() {
			if st, ok := ref.(*ssa.Store); ok && st.Addr == ssa.Value(al) {
				out = append(out, makeInterfaceSources(st.Val, d+1, seen)...)
			}
		}
		return out
	}
	return nil
}
